// synx: extracts the un-expanded TLV macro tables (type number, field, kind) from the
// workspace sources. Syntax-tree analysis with syn 2 + recursive token scanning, because
// after macro expansion the tables no longer exist as tables.
//
// usage: synx <out.jsonl> <file.rs>...
use proc_macro2::{Delimiter, TokenStream, TokenTree};
use std::io::Write;
use syn::visit::Visit;

const MACROS: &[&str] = &[
	"write_tlv_fields", "read_tlv_fields", "encode_tlv_stream", "decode_tlv_stream",
	"_encode_varint_length_prefixed_tlv", "_init_and_read_len_prefixed_tlv_fields",
	"_init_and_read_tlv_stream", "decode_tlv_stream_with_custom_tlv_decode",
	"_decode_tlv_stream_range", "impl_writeable_tlv_based", "impl_writeable_tlv_based_enum",
	"impl_writeable_tlv_based_enum_upgradable", "impl_writeable_tlv_based_enum_legacy",
	"impl_writeable_tlv_based_enum_upgradable_legacy", "impl_writeable_msg", "tlv_stream",
	"_encode_tlv_stream", "_init_and_read_tlv_fields", "impl_ser_tlv_based", "_decode_and_build",
	"_encode_and_build", "impl_writeable_primitive", "impl_writeable", "_init_tlv_based_struct_field",
	"tlv_record_type", "tlv_record_ref_type",
];

fn jesc(s: &str) -> String {
	let mut o = String::from("\"");
	for c in s.chars() {
		match c {
			'"' => o.push_str("\\\""),
			'\\' => o.push_str("\\\\"),
			'\n' => o.push_str("\\n"),
			'\t' => o.push_str("\\t"),
			c if (c as u32) < 0x20 => o.push_str(&format!("\\u{:04x}", c as u32)),
			c => o.push(c),
		}
	}
	o.push('"');
	o
}

fn ts_str(ts: &[TokenTree]) -> String {
	let t: TokenStream = ts.iter().cloned().collect();
	let s = t.to_string();
	s.split_whitespace().collect::<Vec<_>>().join(" ")
}

// split a token list at top-level commas
fn split_commas(ts: Vec<TokenTree>) -> Vec<Vec<TokenTree>> {
	let mut out = vec![vec![]];
	for t in ts {
		if let TokenTree::Punct(p) = &t {
			if p.as_char() == ',' {
				out.push(vec![]);
				continue;
			}
		}
		out.last_mut().unwrap().push(t);
	}
	if out.last().map(|v| v.is_empty()).unwrap_or(false) {
		out.pop();
	}
	out
}

struct Entry {
	ty: String,
	field: String,
	kind: String,
	group: usize,
	line: usize,
}

// collect `(type, field, kind...)` tuples found in brace groups of a macro body.
// `group` numbers the brace group (a macro may contain several tables, e.g. enum variants).
fn collect_entries(ts: TokenStream, out: &mut Vec<Entry>, group_ctr: &mut usize, labels: &mut Vec<(usize, String)>) {
	let toks: Vec<TokenTree> = ts.into_iter().collect();
	let mut i = 0;
	while i < toks.len() {
		if let TokenTree::Group(g) = &toks[i] {
			if g.delimiter() == Delimiter::Brace {
				// is this a table? all top-level items are paren groups separated by commas
				let inner: Vec<TokenTree> = g.stream().into_iter().collect();
				let items = split_commas(inner.clone());
				let is_table = !items.is_empty()
					&& items.iter().all(|it| {
						it.len() == 1
							&& matches!(&it[0], TokenTree::Group(pg) if pg.delimiter() == Delimiter::Parenthesis)
					});
				if is_table {
					*group_ctr += 1;
					// label: tokens preceding the brace back to the previous top-level comma
					let mut j = i;
					let mut lab = vec![];
					while j > 0 {
						j -= 1;
						if let TokenTree::Punct(p) = &toks[j] {
							if p.as_char() == ',' {
								break;
							}
						}
						lab.push(toks[j].clone());
					}
					lab.reverse();
					labels.push((*group_ctr, ts_str(&lab)));
					for it in items {
						if let TokenTree::Group(pg) = &it[0] {
							let parts = split_commas(pg.stream().into_iter().collect());
							if parts.is_empty() {
								continue;
							}
							let line = pg.span().start().line;
							// tlv_stream! form: (type, name : ty)
							let ty = ts_str(&parts[0]);
							let field = if parts.len() > 1 { ts_str(&parts[1]) } else { String::new() };
							let kind = if parts.len() > 2 {
								parts[2..].iter().map(|p| ts_str(p)).collect::<Vec<_>>().join(", ")
							} else {
								String::new()
							};
							out.push(Entry { ty, field, kind, group: *group_ctr, line });
						}
					}
				} else {
					collect_entries(g.stream(), out, group_ctr, labels);
				}
			} else {
				collect_entries(g.stream(), out, group_ctr, labels);
			}
		}
		i += 1;
	}
}

struct V<'a> {
	file: String,
	out: &'a mut Vec<String>,
	ctx_impl: Vec<String>,
	ctx_fn: Vec<String>,
	ctx_arm: Vec<String>,
}

impl<'a> V<'a> {
	fn record(&mut self, name: &str, mac_tokens: TokenStream, line: usize, nested: bool) {
		let mut entries = vec![];
		let mut ctr = 0usize;
		let mut labels = vec![];
		let toks: Vec<TokenTree> = mac_tokens.clone().into_iter().collect();
		collect_entries(mac_tokens.clone(), &mut entries, &mut ctr, &mut labels);
		let head = split_commas(toks.clone());
		let first_arg = head.get(0).map(|v| ts_str(v)).unwrap_or_default();
		let mut s = String::new();
		s.push_str(&format!(
			"{{\"file\":{},\"line\":{},\"macro\":{},\"nested\":{},\"impl\":{},\"fn\":{},\"arm\":{},\"first_arg\":{},\"groups\":[",
			jesc(&self.file),
			line,
			jesc(name),
			nested,
			jesc(self.ctx_impl.last().map(|s| s.as_str()).unwrap_or("")),
			jesc(self.ctx_fn.last().map(|s| s.as_str()).unwrap_or("")),
			jesc(self.ctx_arm.last().map(|s| s.as_str()).unwrap_or("")),
			jesc(&first_arg),
		));
		for (i, (g, l)) in labels.iter().enumerate() {
			if i > 0 {
				s.push(',');
			}
			s.push_str(&format!("[{},{}]", g, jesc(l)));
		}
		s.push_str("],\"entries\":[");
		for (i, e) in entries.iter().enumerate() {
			if i > 0 {
				s.push(',');
			}
			s.push_str(&format!(
				"{{\"type\":{},\"field\":{},\"kind\":{},\"group\":{},\"line\":{}}}",
				jesc(&e.ty),
				jesc(&e.field),
				jesc(&e.kind),
				e.group,
				e.line
			));
		}
		s.push_str("]}");
		self.out.push(s);
	}

	// scan a token stream for nested `name ! ( .. )` / `name ! { .. }` invocations
	fn scan_nested(&mut self, ts: TokenStream) {
		let toks: Vec<TokenTree> = ts.into_iter().collect();
		let mut i = 0;
		while i < toks.len() {
			if let TokenTree::Ident(id) = &toks[i] {
				if i + 2 < toks.len() {
					if let (TokenTree::Punct(p), TokenTree::Group(g)) = (&toks[i + 1], &toks[i + 2]) {
						if p.as_char() == '!' {
							let name = id.to_string();
							if MACROS.contains(&name.as_str()) {
								let line = id.span().start().line;
								self.record(&name, g.stream(), line, true);
							}
							self.scan_nested(g.stream());
							i += 3;
							continue;
						}
					}
				}
			}
			if let TokenTree::Group(g) = &toks[i] {
				self.scan_nested(g.stream());
			}
			i += 1;
		}
	}

	fn handle_macro(&mut self, mac: &syn::Macro) {
		let name = mac.path.segments.last().map(|s| s.ident.to_string()).unwrap_or_default();
		let line = mac.path.segments.last().map(|s| s.ident.span().start().line).unwrap_or(0);
		if MACROS.contains(&name.as_str()) {
			self.record(&name, mac.tokens.clone(), line, false);
		}
		// try to parse the body as expressions/statements so that match arms etc. are visited
		self.scan_nested(mac.tokens.clone());
	}
}

fn type_str(t: &syn::Type) -> String {
	let ts = quote_type(t);
	ts.split_whitespace().collect::<Vec<_>>().join(" ")
}

fn quote_type(t: &syn::Type) -> String {
	use syn::__private::ToTokens;
	t.to_token_stream().to_string()
}

impl<'ast, 'a> Visit<'ast> for V<'a> {
	fn visit_item_impl(&mut self, i: &'ast syn::ItemImpl) {
		let mut s = type_str(&i.self_ty);
		if let Some((_, p, _)) = &i.trait_ {
			use syn::__private::ToTokens;
			let tp = p.to_token_stream().to_string().split_whitespace().collect::<Vec<_>>().join(" ");
			s = format!("{} for {}", tp, s);
		}
		self.ctx_impl.push(s);
		syn::visit::visit_item_impl(self, i);
		self.ctx_impl.pop();
	}
	fn visit_item_fn(&mut self, i: &'ast syn::ItemFn) {
		self.ctx_fn.push(i.sig.ident.to_string());
		syn::visit::visit_item_fn(self, i);
		self.ctx_fn.pop();
	}
	fn visit_impl_item_fn(&mut self, i: &'ast syn::ImplItemFn) {
		self.ctx_fn.push(i.sig.ident.to_string());
		syn::visit::visit_impl_item_fn(self, i);
		self.ctx_fn.pop();
	}
	fn visit_arm(&mut self, a: &'ast syn::Arm) {
		use syn::__private::ToTokens;
		let mut p = a.pat.to_token_stream().to_string().split_whitespace().collect::<Vec<_>>().join(" ");
		// writer arms: the leading `<int>.write(writer)` is the variant id on the wire
		let body: Vec<TokenTree> = a.body.to_token_stream().into_iter().collect();
		fn first_id(ts: &[TokenTree]) -> Option<String> {
			let mut i = 0;
			while i < ts.len() {
				if let TokenTree::Literal(l) = &ts[i] {
					if i + 2 < ts.len() {
						if let (TokenTree::Punct(pp), TokenTree::Ident(id)) = (&ts[i + 1], &ts[i + 2]) {
							if pp.as_char() == '.' && id == "write" {
								return Some(l.to_string());
							}
						}
					}
				}
				if let TokenTree::Ident(c) = &ts[i] {
					// a named constant used as the variant id: FAIL_HTLC_VARIANT_ID.write(w)
					let name = c.to_string();
					let caps = name.chars().all(|ch| ch.is_ascii_uppercase() || ch == '_' || ch.is_ascii_digit());
					if caps && name.len() > 2 && i + 2 < ts.len() {
						if let (TokenTree::Punct(pp), TokenTree::Ident(id)) = (&ts[i + 1], &ts[i + 2]) {
							if pp.as_char() == '.' && id == "write" {
								return Some(name);
							}
						}
					}
				}
				if let TokenTree::Group(g) = &ts[i] {
					let inner: Vec<TokenTree> = g.stream().into_iter().collect();
					if let Some(x) = first_id(&inner) {
						return Some(x);
					}
				}
				i += 1;
			}
			None
		}
		if let Some(id) = first_id(&body) {
			p = format!("{} @id={}", p, id);
		}
		self.ctx_arm.push(p);
		syn::visit::visit_arm(self, a);
		self.ctx_arm.pop();
	}
	fn visit_macro(&mut self, m: &'ast syn::Macro) {
		self.handle_macro(m);
	}
	fn visit_item_mod(&mut self, m: &'ast syn::ItemMod) {
		// skip #[cfg(test)] modules
		for a in &m.attrs {
			if a.path().is_ident("cfg") {
				use syn::__private::ToTokens;
				let s = a.meta.to_token_stream().to_string();
				if s.contains("test") && !s.contains("not") {
					return;
				}
			}
		}
		syn::visit::visit_item_mod(self, m);
	}
	fn visit_item_macro(&mut self, m: &'ast syn::ItemMacro) {
		// macro_rules! definitions: do not treat the definition body as an invocation site
		if m.mac.path.is_ident("macro_rules") {
			return;
		}
		self.handle_macro(&m.mac);
	}
}

fn main() {
	let args: Vec<String> = std::env::args().collect();
	let mut lines = vec![];
	let mut nfiles = 0;
	let mut failed = vec![];
	for f in &args[2..] {
		let src = match std::fs::read_to_string(f) {
			Ok(s) => s,
			Err(_) => continue,
		};
		match syn::parse_file(&src) {
			Ok(ast) => {
				nfiles += 1;
				let mut v = V { file: f.clone(), out: &mut lines, ctx_impl: vec![], ctx_fn: vec![], ctx_arm: vec![] };
				v.visit_file(&ast);
			},
			Err(e) => failed.push(format!("{}: {}", f, e)),
		}
	}
	let mut o = std::fs::File::create(&args[1]).unwrap();
	for l in &lines {
		writeln!(o, "{}", l).unwrap();
	}
	writeln!(o, "{{\"summary\":true,\"files\":{},\"invocations\":{},\"failed\":[{}]}}", nfiles, lines.len(),
		failed.iter().map(|s| jesc(s)).collect::<Vec<_>>().join(",")).unwrap();
}
