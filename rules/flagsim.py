"""A small abstract interpreter over the CFG facts for code that only tests bit-flag state through the state-flag helper methods
(clear / is_set / is_empty / == CONST). The flag word is enumerated over a finite domain; conditions that do not depend on it are explored
on both edges. Used by C05 (05.l): a repeated channel_ready must never rotate the counterparty's commitment points."""
from engine import *

class Unknown(Exception):
	pass

def _const_value(F, e, prefix):
	if e[1] is not None and not isinstance(e[1], str):
		return e[1]
	name = (e[2] or '').rsplit('::', 1)[-1]
	if name == 'ALL':
		return 0          # FundedStateFlags::ALL: the funded-state bits are disjoint from the bits enumerated here (they are masked off first)
	try:
		return F.const(prefix + name)
	except AnchorMissing:
		raise Unknown(name)

def eval_expr(F, e, env, input_pred, prefix='lightning::ln::channel::state_flags::'):
	"""value of an Expr tree when the input place (recognised by input_pred(e)) holds env['input']"""
	if input_pred(e):
		return env['input']
	k = e[0]
	if k == 'const':
		return _const_value(F, e, prefix)
	if k in ('ref', 'deref', 'cast'):
		return eval_expr(F, e[1], env, input_pred, prefix)
	if k == 'local':
		if e[1] in env.get('locals', {}):
			return env['locals'][e[1]]
		raise Unknown('local %s' % e[1])
	if k == 'un' and e[1] == 'Not':
		v = eval_expr(F, e[2], env, input_pred, prefix)
		return (not v) if isinstance(v, bool) else ~v
	if k == 'call':
		tail = (e[1] or '').rsplit('::', 1)[-1]
		args = e[2]
		if tail in ('clone', 'into', 'from', 'deref', 'borrow') and args:
			return eval_expr(F, args[0], env, input_pred, prefix)
		if tail == 'clear' and len(args) == 2:
			return eval_expr(F, args[0], env, input_pred, prefix) & ~eval_expr(F, args[1], env, input_pred, prefix)
		if tail == 'set' and len(args) == 2:
			return eval_expr(F, args[0], env, input_pred, prefix) | eval_expr(F, args[1], env, input_pred, prefix)
		if tail == 'is_set' and len(args) == 2:
			m = eval_expr(F, args[1], env, input_pred, prefix)
			return (eval_expr(F, args[0], env, input_pred, prefix) & m) == m
		if tail == 'is_empty' and len(args) == 1:
			return eval_expr(F, args[0], env, input_pred, prefix) == 0
		if tail in ('eq', 'ne') and len(args) == 2:
			r = eval_expr(F, args[0], env, input_pred, prefix) == eval_expr(F, args[1], env, input_pred, prefix)
			return r if tail == 'eq' else not r
		raise Unknown(tail)
	if k == 'bin':
		a = eval_expr(F, e[2], env, input_pred, prefix); b = eval_expr(F, e[3], env, input_pred, prefix)
		op = e[1]
		if op == 'BitAnd': return a & b
		if op == 'BitOr': return a | b
		if op == 'Eq': return a == b
		if op == 'Ne': return a != b
		raise Unknown(op)
	raise Unknown(k)

def simulate(F, fu, start, value, input_pred, stop, max_steps=4000):
	"""all stop labels reachable from block `start` when the input holds `value`. stop(block) -> label or None.
	Boolean locals assigned constants on the way are tracked; undecidable switches fork."""
	ex = Expr(fu)
	out = set()
	work = [(start, {})]
	seen = set()
	steps = 0
	while work:
		b, locs = work.pop()
		key = (b, tuple(sorted(locs.items())))
		if key in seen:
			continue
		seen.add(key)
		steps += 1
		if steps > max_steps:
			out.add('<explosion>')
			break
		lab = stop(b)
		if lab is not None:
			out.add(lab)
			continue
		blk = fu.blocks[b]
		locs = dict(locs)
		for st in blk['s']:
			pl, rv = st[1], st[2]
			if len(pl) == 1 and rv[0] == 'use' and rv[1][0] == 'k' and rv[1][1].get('ty') == 'bool':
				locs[pl[0]] = bool(rv[1][1].get('v'))
			elif len(pl) == 1 and pl[0] in locs:
				if rv[0] == 'use' and rv[1][0] in ('c', 'm') and len(rv[1][1]) == 1 and rv[1][1][0] in locs:
					locs[pl[0]] = locs[rv[1][1][0]]
				else:
					del locs[pl[0]]
			elif len(pl) == 1 and rv[0] == 'use' and rv[1][0] in ('c', 'm') and len(rv[1][1]) == 1 and rv[1][1][0] in locs:
				locs[pl[0]] = locs[rv[1][1][0]]
		t = blk['t']
		if t[1] == 'ret':
			out.add('<return>')
			continue
		if t[1] == 'switch':
			env = {'input': value, 'locals': locs}
			try:
				op = t[2]
				if op[0] in ('c', 'm') and len(op[1]) == 1 and op[1][0] in locs:
					v = locs[op[1][0]]
				else:
					v = eval_expr(F, ex.of_operand(op), env, input_pred)
				v = int(v)
				tgt = None
				for val, tb in t[3]:
					if val == v:
						tgt = tb
				work.append((tgt if tgt is not None else t[4], locs))
			except Unknown:
				for val, tb in t[3]:
					work.append((tb, locs))
				work.append((t[4], locs))
			continue
		for s2 in fu.succ(b):
			# ignore unwind / cleanup successors of calls: take the normal return edge only
			if t[1] == 'call' and t[2].get('ret') is not None and s2 != t[2]['ret']:
				continue
			work.append((s2, locs))
	return out
