"""Rule functions about chain (re)organisation handling shared by several properties (C06, C07, C11)."""
from engine import *
import re

MONP = 'lightning::chain::channelmonitor::'
MON = MONP + 'ChannelMonitorImpl::'
OTXP = 'lightning::chain::onchaintx::'
OTX = OTXP + 'OnchainTxHandler::'

def _retain_closure(F, fn, field='onchain_events_awaiting_threshold_conf'):
	"""the closure handed to Vec::retain on self.<field> in fn: (parent Func, closure Func)"""
	fu = F.func(fn)
	ex = Expr(fu)
	for b in fu.call_blocks(lambda p: p.endswith('Vec::retain')):
		ci = fu.blocks[b]['t'][2]
		recv = ex.of_operand(ci['args'][0])
		if field in expr_leaves(recv)['fields']:
			c = ex.of_operand(ci['args'][1])
			if c[0] == 'agg' and c[2] is None or c[0] == 'agg':
				pass
			# closure aggregate: find its def path from the statement that built it
			for bi, si, s in fu.stmts():
				rv = s[2]
				if rv[0] == 'agg' and rv[1] == 'closure' and ci['args'][1][0] in ('c', 'm') and s[1] == ci['args'][1][1][:1]:
					return fu, F.func(norm(rv[2])), b
	raise AnchorMissing('%s: no retain(..) on %s found' % (fn, field))

def _bool_return_cmp(cf):
	"""the single height comparison deciding a retain closure's result: (Guard, keeps_when_true)"""
	gs = [Guard(cf, c) for c in comparisons(cf) if any('height' in v for v in cmp_normal(c[3], c[4], c[5])[0])]
	if len(gs) != 1:
		raise AnchorMissing('%s: expected one height comparison, found %s' % (cf.name, [g.text() for g in gs]))
	g = gs[0]
	# what is returned on the true edge?
	keeps = None
	if g.dest == 0:
		keeps = True   # the closure's value is the comparison itself
	for d in (g.decisions if keeps is None else []):
		for edges, truth in ((d.true_edges, True), (d.false_edges, False)):
			r = cf.reach([e[1] for e in edges], removed_blocks={d.b})
			vals = set()
			for b in r:
				for s in cf.blocks[b]['s']:
					if s[1] == [0] and s[2][0] == 'use' and s[2][1][0] == 'k':
						vals.add(s[2][1][1].get('v'))
			if truth and len(vals) == 1:
				keeps = (list(vals)[0] == 1)
	if keeps is None:
		# closure returns the negated comparison:  _0 = !(cmp)
		for bi, si, s in cf.stmts():
			if s[1] == [0] and s[2][0] == 'un' and s[2][1] == 'Not' and s[2][2][0] in ('c', 'm') and s[2][2][1] == [g.dest]:
				keeps = False
	if keeps is None:
		# closure returns the comparison itself
		for bi, si, s in cf.stmts():
			if s[1] == [0] and s[2][0] == 'use' and s[2][1][0] in ('c', 'm') and s[2][1][1] == [g.dest]:
				keeps = True
	if keeps is None:
		raise AnchorMissing('%s: cannot tell what the retain closure returns' % cf.name)
	return g, keeps

def _kept_form(g, keeps):
	"""normal form of 'entry is KEPT': (op, K) over  entry.height - limit"""
	o = g.oriented(r'\.height$')
	if o is None:
		raise AnchorMissing('no entry.height leaf in %s' % g.text())
	op, K = o[1], o[2]
	if not keeps:
		op = {'Lt': 'Ge', 'Le': 'Gt', 'Gt': 'Le', 'Ge': 'Lt', 'Eq': 'Ne', 'Ne': 'Eq'}[op]
	# canonical: entry.height - limit <= K'
	if op == 'Lt':
		op, K = 'Le', K - 1
	return op, K

def reorg_boundary(F, rule):
	"""Every retraction entry point drops exactly the events confirmed ABOVE the new tip height (events in the block that stays
	the tip survive), the monitor and its OnchainTxHandler use the same boundary, and the same height is handed down."""
	out = []
	# ChannelMonitorImpl::blocks_disconnected / reorg arm of best_block_updated: keep iff entry.height <= new_height
	for fn, label in ((MON + 'blocks_disconnected', 'blocks_disconnected'), (MON + 'best_block_updated', 'best_block_updated (reorg arm)')):
		try:
			fu, cf, rb = _retain_closure(F, fn)
			g, keeps = _bool_return_cmp(cf)
			op, K = _kept_form(g, keeps)
			ok = (op, K) == ('Le', 0)
			out.append(Result(rule, ok, ('ok:' if ok else 'shape:') + 'monitor-keep@' + label, 'ChannelMonitor %s keeps an awaiting event iff entry.height - new_height %s %d (expected <= 0: exactly the events above the fork point are retracted)' % (label, {'Le': '<=', 'Ge': '>=', 'Gt': '>', 'Eq': '==', 'Ne': '!='}.get(op, op), K), 1, where=F.where(cf.name, g.line)))
		except AnchorMissing as e:
			out.append(Result(rule, False, 'anchor:monitor-retain@' + label, 'anchor missing: %s' % e, where=F.where(F.fn(fn))))
	# a confirmed-but-unlocked splice (alternative_funding_confirmed) is retracted by the same boundary: only when its block is ABOVE the fork point
	try:
		gs_ = [g for g in guards_in(F, MON + 'blocks_disconnected', with_closures=False) if any('alternative_funding_confirmed' in v for v in g.nf[0])]
		if not gs_:
			out.append(Result(rule, False, 'guard:alternative-funding-boundary', 'ChannelMonitorImpl::blocks_disconnected no longer compares the height of alternative_funding_confirmed with the fork point', where=F.where(F.fn(MON + 'blocks_disconnected'))))
		for g in gs_:
			o = g.oriented(r'alternative_funding_confirmed')
			ok = o is not None and len(o[0]) == 2 and (o[1], o[2]) in (('Gt', 0), ('Ge', 1)) and any(v.endswith('.height') and c == -1 for v, c in o[0].items())
			out.append(Result(rule, ok, ('ok:' if ok else 'shape:') + 'alternative-funding-boundary', 'ChannelMonitorImpl::blocks_disconnected forgets a confirmed alternative funding (splice) iff `%s` (expected: its confirmation height - fork point height > 0; a splice confirmed in the block that stays the tip is still confirmed - whichever way the chain was delivered)' % cmp_str(o if o else g.nf), 1, where=F.where(g.fu.name, g.line)))
	except AnchorMissing as e:
		out.append(Result(rule, False, 'anchor:alternative-funding-boundary', 'anchor missing: %s' % e))
	# transaction_unconfirmed: drop iff entry.height >= removed_height  (keep iff entry.height - removed_height <= -1)
	try:
		fu, cf, rb = _retain_closure(F, MON + 'transaction_unconfirmed')
		g, keeps = _bool_return_cmp(cf)
		op, K = _kept_form(g, keeps)
		ok = (op, K) == ('Le', -1)
		out.append(Result(rule, ok, ('ok:' if ok else 'shape:') + 'monitor-keep@transaction_unconfirmed', 'ChannelMonitor transaction_unconfirmed keeps an awaiting event iff entry.height - removed_height %s %d (expected <= -1: the block of the unconfirmed transaction and everything above is retracted)' % (op, K), 1, where=F.where(cf.name, g.line)))
	except AnchorMissing as e:
		out.append(Result(rule, False, 'anchor:monitor-retain@transaction_unconfirmed', 'anchor missing: %s' % e))
	# OnchainTxHandler::blocks_disconnected: entry resurrected iff entry.height > new_best_height, otherwise pushed back
	ofu = F.func(OTX + 'blocks_disconnected')
	gs = [Guard(ofu, c) for c in comparisons(ofu)]
	hs = [g for g in gs if any(v.endswith('.height') for v in g.nf[0]) and len(g.nf[0]) == 2]
	if len(hs) != 1:
		out.append(Result(rule, False, 'guard:onchaintx-boundary', 'OnchainTxHandler::blocks_disconnected: expected one comparison of entry.height with the new best height, found %s' % [g.text() for g in hs], len(gs), where=F.where(ofu.name)))
	else:
		g = hs[0]
		o = g.oriented(r'\.height$')
		ok = (o[1], o[2]) in (('Gt', 0), ('Ge', 1))
		out.append(Result(rule, ok, ('ok:' if ok else 'shape:') + 'onchaintx-boundary', 'OnchainTxHandler::blocks_disconnected treats an event as reorganised out iff `%s` (expected entry.height - new_best_height > 0, the complement of the monitor\'s keep rule: an event confirmed in the block that remains the tip must survive, or a still-spent outpoint is merged back into a claim that can never confirm)' % cmp_str(o), 1, where=F.where(ofu.name, g.line)))
		# the surviving entries are pushed back, the others are not
		push = set(ofu.call_blocks(lambda p: p == 'alloc::vec::Vec::push'))
		ex = Expr(ofu)
		def _is_field(e, name):
			while e[0] in ('ref', 'deref'):
				e = e[1]
			return e[0] == 'field' and e[2] == name
		back = {b for b in push if _is_field(ex.of_operand(ofu.blocks[b]['t'][2]['args'][0]), 'onchain_events_awaiting_threshold_conf')}
		okb = False
		for d in g.decisions:
			tr = ofu.reach([e[1] for e in d.true_edges], removed_blocks=loop_heads(ofu) | {d.b})
			fr = ofu.reach([e[1] for e in d.false_edges], removed_blocks=loop_heads(ofu) | {d.b})
			okb = bool(back & fr) and not (back & tr)
		out.append(Result(rule, okb, ('ok:' if okb else 'shape:') + 'onchaintx-survivors-kept', 'events at or below the new best height are put back into onchain_events_awaiting_threshold_conf, the others are not', len(back), where=F.where(ofu.name)))
	# transaction_unconfirmed of the handler delegates with height - 1
	tfu = F.func(OTX + 'transaction_unconfirmed')
	ex = Expr(tfu)
	cb = sites_call(tfu, [OTX + 'blocks_disconnected'])
	okd = False
	for b in cb:
		a = ex.of_operand(tfu.blocks[b]['t'][2]['args'][1])
		terms, k = linear(a)
		okd = k == -1 and len(terms) == 1   # `x - 1` for a single value x (the confirmation height found for the txid, however the search is written)
	out.append(Result(rule, okd, ('ok:' if okd else 'shape:') + 'onchaintx-unconfirmed-height', 'OnchainTxHandler::transaction_unconfirmed calls blocks_disconnected(height_of_tx - 1)', len(cb), where=F.where(tfu.name)))
	# the monitor hands the same height to its handler and resets best_block
	for fn, arg_re, label in ((MON + 'blocks_disconnected', r'fork_point\.height|new_height', 'blocks_disconnected'), (MON + 'best_block_updated', r'^height$', 'best_block_updated')):
		fu = F.func(fn)
		ex = Expr(fu)
		cb = sites_call(fu, [OTX + 'blocks_disconnected'])
		ok = False
		for b in cb:
			a = ex.of_operand(fu.blocks[b]['t'][2]['args'][1])
			terms, k = linear(a)
			ok = k == 0 and len(terms) == 1 and re.search(arg_re, list(terms)[0]) is not None
		out.append(Result(rule, ok, ('ok:' if ok else 'shape:') + 'handler-height@' + label, 'ChannelMonitor %s hands the new tip height unchanged to OnchainTxHandler::blocks_disconnected (%d call)' % (label, len(cb)), len(cb), where=F.where(fu.name)))
	fu = F.func(MON + 'transaction_unconfirmed')
	cb = sites_call(fu, [OTX + 'transaction_unconfirmed'])
	out.append(Result(rule, len(cb) == 1, ('ok:' if len(cb) == 1 else 'shape:') + 'handler@transaction_unconfirmed', 'ChannelMonitor transaction_unconfirmed forwards to OnchainTxHandler::transaction_unconfirmed', len(cb), where=F.where(fu.name)))
	return out

def threshold_shape(F, rule):
	"""confirmation_threshold = height + ANTI_REORG_DELAY - 1 (monitor: max with CSV maturity); reached iff best height >= threshold;
	the monitor's and the claim handler's entry types agree"""
	out = []
	ard = F.const(MONP + 'ANTI_REORG_DELAY')
	for mod, label in ((MONP, 'channelmonitor'), (OTXP, 'onchaintx')):
		ct = F.func(mod + 'OnchainEventEntry::confirmation_threshold')
		ex = Expr(ct)
		# collect every value assigned to the result (directly or through the conf_threshold variable)
		vals = []
		for bi, si, s in ct.stmts():
			if s[2][0] in ('bin',) and s[2][1] in ('Sub', 'SubWithOverflow', 'SubUnchecked'):
				e = ex.of_rvalue(s[2])
				terms, k = linear(e)
				vals.append((terms, k, s[0]))
		base = [(t, k, ln) for t, k, ln in vals if len(t) == 1 and any(v.endswith('height') for v in t) and k == ard - 1]
		ok = len(base) >= 1
		out.append(Result(rule, ok, ('ok:' if ok else 'shape:') + 'threshold@' + label, '%s OnchainEventEntry::confirmation_threshold = height + ANTI_REORG_DELAY(=%d) - 1 (found %s)' % (label, ard, [(sorted(t), k) for t, k, ln in vals]), len(vals), where=F.where(ct.name)))
		if label == 'channelmonitor':
			mx = ct.call_blocks(lambda p: p.endswith('cmp::max'))
			csv = [(t, k) for t, k, ln in vals if len(t) == 2 and k == -1 and any('height' in v for v in t)]
			okm = len(mx) == 2 and len(csv) == 2
			out.append(Result(rule, okm, ('ok:' if okm else 'shape:') + 'threshold-csv@' + label, 'CSV-locked outputs mature at max(anti-reorg threshold, height + csv - 1) (%d max() calls, %d csv forms)' % (len(mx), len(csv)), len(mx), where=F.where(ct.name)))
		hr = F.func(mod + 'OnchainEventEntry::has_reached_confirmation_threshold')
		gs = [Guard(hr, c) for c in comparisons(hr)]
		okh = len(gs) == 1 and (gs[0].oriented(r'height$') or (None, None, None))[1:3] in (('Ge', 0), ('Gt', -1)) and any('confirmation_threshold' in v for v in gs[0].nf[0])
		out.append(Result(rule, okh, ('ok:' if okh else 'shape:') + 'reached@' + label, '%s: threshold reached iff best height >= confirmation_threshold() (%s)' % (label, [g.text() for g in gs]), len(gs), where=F.where(hr.name)))
	# open-coded maturity tests: any other comparison in the crate built from ANTI_REORG_DELAY must say the same thing,
	#   event height - best height <= -(ANTI_REORG_DELAY - 1)     (or its exact negation)
	n = 0
	for fn in sorted(F.fns):
		if fn.endswith('OnchainEventEntry::confirmation_threshold') or not any(fn.startswith(p) or fn.startswith('<' + p) for p in ('lightning::chain::', 'lightning::ln::channel::', 'lightning::ln::channelmanager::', 'lightning::util::sweep::')):
			continue
		try:
			fu = F.func(fn)
		except AnchorMissing:
			continue
		for c in comparisons(fu):
			g = Guard(fu, c)
			if not any(u.endswith('::ANTI_REORG_DELAY') for u in g.nf[3]):
				continue
			n += 1
			terms, op, K, used = g.nf
			ev = [v for v in terms if v.endswith('height') and 'best_block' not in v and 'best_height' not in v]
			best = [v for v in terms if 'best_block' in v or 'best_height' in v or v in ('height', 'cur_height', 'current_height')]
			ok = False
			if len(terms) == 2 and len(ev) == 1 and len(best) == 1 and terms[ev[0]] == -terms[best[0]] and abs(terms[ev[0]]) == 1:
				o = g.oriented(re.escape(ev[0]) + '$')
				# matured:  ev - best <= -(ard-1)  |  ev - best < -(ard-2) ; not matured: ev - best > -(ard-1) | >= -(ard-2)
				ok = (o[1], o[2]) in (('Le', -(ard - 1)), ('Lt', -(ard - 2)), ('Gt', -(ard - 1)), ('Ge', -(ard - 2)))
			short = fn.split('::{closure')[0].rsplit('::', 1)[-1]
			out.append(Result(rule, ok, ('ok:' if ok else 'shape:') + 'open-coded-maturity@' + short, '%s: open-coded maturity test `%s` %s' % (short, g.text(), 'is height + ANTI_REORG_DELAY - 1 <= best height' if ok else 'is not equivalent to `height + ANTI_REORG_DELAY(=%d) - 1 <= best height`: the conclusion would be drawn at a different depth than by has_reached_confirmation_threshold' % ard), 1, where=F.where(fn, g.line)))
	if n < 1:
		out.append(Result(rule, False, 'floor:open-coded-maturity', 'no open-coded ANTI_REORG_DELAY comparison found (expected the restart-time replay in get_onchain_failed_outbound_htlcs)', 0))
	return out

def restart_replay_guard(F, rule):
	"""restart-time replay of on-chain HTLC failures (ChannelMonitor::get_onchain_failed_outbound_htlcs): a funding spend still awaiting its
	threshold counts as confirmed only behind the open-coded maturity test, which must equal the monitor's confirmation threshold"""
	out = []
	# restart-time replay (get_onchain_failed_outbound_htlcs): a funding spend still awaiting its threshold is taken as confirmed only behind
	# the open-coded maturity test, which must equal the monitor's confirmation threshold (same rule as 11.c)
	n_oc = 0
	for r in threshold_shape(F, rule):
		if 'open-coded-maturity' in r.key:
			n_oc += 1
			out.append(r)
	gfn = MONP + 'ChannelMonitor::get_onchain_failed_outbound_htlcs'
	fam = [F.func(x) for x in F.family(gfn)]
	okg = False
	nsite = 0
	for cu in fam:
		gs = [Guard(cu, c2) for c2 in comparisons(cu)]
		mat = [g for g in gs if any(u.endswith('::ANTI_REORG_DELAY') for u in g.nf[3])]
		somes = {b for b, si in sites_construct(cu, 'Option', 'Some')}
		vs = enum_variants(F, MONP + 'OnchainEvent')
		for sb, m, other in variant_switch_edges(cu, lambda pl: True, vs):
			if 'FundingSpendConfirmation' in m:
				arm = cu.reach([m['FundingSpendConfirmation']], removed_blocks={sb})
				acts = somes & arm
				nsite += len(acts)
				if acts and mat:
					ds = [d for g in mat for d in g.decisions]
					res = P4_guarded(F, rule, cu, acts, ds, True, 'funding spend matured (height + ANTI_REORG_DELAY - 1 <= best height)', key='restart-replay-waits-for-maturity')
					okg = all(r.ok for r in res)
					out += res
	# the HTLC list of the confirmed commitment: whichever unrevoked counterparty commitment confirmed (current OR previous), its own
	# HTLC list is looked up - otherwise every HTLC that IS an output of the confirmed previous commitment counts as "not included" and
	# is reported failed after the restart although the counterparty can still claim it
	gu = F.func(gfn)
	gex = Expr(gu)
	lookups = set()
	for b, ci in gu.calls():
		f = norm(ci.get('f') or '')
		if f.endswith('::get') and ci['args'] and 'counterparty_claimable_outpoints' in expr_str(gex.of_operand(ci['args'][0])):
			a1 = gex.of_operand(ci['args'][1]) if len(ci['args']) > 1 else None
			# keyed by the function's txid parameter (not by one of the stored commitment txids)
			if a1 is not None and not any(x in expr_str(a1) for x in ('current_counterparty_commitment_txid', 'prev_counterparty_commitment_txid')):
				lookups.add(b)
	rets = {bi for bi, b in enumerate(gu.blocks) if b['t'][1] == 'ret'}
	for fld in ('current_counterparty_commitment_txid', 'prev_counterparty_commitment_txid'):
		eqs = []
		for b, ci in gu.calls():
			nm = norm(ci.get('t') or ci.get('f') or '')
			if nm.endswith('PartialEq::eq') or nm.endswith('PartialEq::ne'):
				txt = ' '.join(expr_str(gex.of_operand(a)) for a in ci['args'])
				if txt.count(fld) == 1 and 'counterparty_claimable_outpoints' not in txt:
					eqs.append((b, nm.endswith('::ne')))
		if not eqs or not lookups:
			out.append(Result(rule, False, 'replay:confirmed-htlc-list/' + fld, 'get_onchain_failed_outbound_htlcs: %s' % ('no comparison of the confirmed txid with funding.%s' % fld if not eqs else 'no lookup of counterparty_claimable_outpoints by the confirmed txid'), 1, where=F.where(gfn)))
			continue
		okc = True
		for b, neg in eqs:
			ds = call_decisions(gu, [b], 'bool', neg)
			starts = [e[1] for d in ds for e in d.true_edges]
			if not starts or gu.path(starts, rets, removed_blocks=lookups) is not None:
				okc = False
		out.append(Result(rule, okc, ('ok:' if okc else 'replay:') + 'confirmed-htlc-list/' + fld,
			'get_onchain_failed_outbound_htlcs: when the confirmed commitment is funding.%s its HTLC list is %slooked up in counterparty_claimable_outpoints (a confirmed unrevoked counterparty commitment - current or previous - must be compared with its own HTLCs, not with the empty list)' % (fld, '' if okc else 'NOT always '),
			len(eqs) + len(lookups), where=None if okc else F.where(gfn)))
	# candidates: the HTLCs of BOTH unrevoked counterparty commitments are walked (an HTLC present only in the previous one - removed by a
	# commitment whose revoke_and_ack never arrived - would otherwise never be re-failed after a restart): after the lookup keyed by the
	# current commitment txid, the lookup keyed by the previous one is still reachable
	for cu in fam:
		cex = Expr(cu)
		cur, prv = [], []
		for b, ci in cu.calls():
			if norm(ci.get('f') or '').endswith('::get') and len(ci['args']) > 1 and 'counterparty_claimable_outpoints' in expr_str(cex.of_operand(ci['args'][0])):
				k = expr_str(cex.of_operand(ci['args'][1]))
				if 'current_counterparty_commitment_txid' in k:
					cur.append(b)
				elif 'prev_counterparty_commitment_txid' in k:
					prv.append(b)
		if not cur and not prv:
			continue
		okw = bool(cur) and bool(prv) and all(cu.path([b], prv) is not None for b in cur)
		out.append(Result(rule, okw, ('ok:' if okw else 'replay:') + 'both-unrevoked-commitments-walked', 'get_onchain_failed_outbound_htlcs walks the HTLCs of the current counterparty commitment (%d lookup(s)) and then also those of the previous unrevoked one (%d lookup(s)%s)' % (len(cur), len(prv), '' if okw else '; the previous one is NOT reachable after the current one: HTLCs only present there are never re-failed after a restart'), len(cur) + len(prv), where=None if okw else F.where(cu.name)))
	if not okg:
		out.append(Result(rule, False, 'guard:restart-replay-waits-for-maturity', 'get_onchain_failed_outbound_htlcs: a funding spend still awaiting its confirmation threshold is reported as confirmed without the maturity test (%d site(s), %d open-coded test(s)) - after a restart HTLCs missing from a commitment with 1-5 confirmations are failed back upstream although a reorg can still put them on chain' % (nsite, n_oc), nsite, where=F.where(gfn)))
	return out
