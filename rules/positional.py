"""Positional (non-TLV) sections of hand-written codecs: the i-th top-level write of the writer pairs with the i-th top-level read of
the reader. Only decided where both type sequences can be extracted and are equal (ChannelManager today); used by C12 (12.j) / C04 (04.j)."""
import re
from engine import *

def toplevel_calls(fu, pred, exits):
	"""call blocks matching pred that dominate every exit in `exits` and are not inside a loop, in dominance order"""
	live = fu.reach([0])
	out = []
	for b, ci in fu.calls():
		if b not in live:
			continue
		f = norm(ci.get('f') or ci.get('t') or '')
		if not pred(f):
			continue
		if not all(fu.dominates(b, e) for e in exits):
			continue
		if b in fu.reach(fu.succ(b)):
			continue
		out.append((b, f, ci))
	out.sort(key=lambda x: len([y for y in out if fu.dominates(y[0], x[0])]))
	return out

def tyname(f):
	m = re.match(r'^<(.*) as lightning::util::ser::(?:Writeable|Readable|ReadableArgs|MaybeReadable)>::', f)
	return m.group(1) if m else f

def aligned_slots(F, wfn, rfn):
	"""[(writer block, writer arg expr, reader block, reader dest local)] for the positional prefix (before the TLV suffix), or None when
	the two type sequences differ"""
	wu, ru = F.func(wfn), F.func(rfn)
	wex = Expr(wu)
	W = toplevel_calls(wu, lambda f: f.endswith('Writeable>::write') or f.endswith('Writeable::write'), ok_return_blocks(wu, ('Ok',)))
	R = toplevel_calls(ru, lambda f: f.endswith('Readable>::read') or f.endswith('Readable::read') or f.endswith('ReadableArgs>::read'), ok_return_blocks(ru, ('Ok',)))
	def cut(x):
		for i, t in enumerate(x):
			if 'BigSize' in tyname(t[1]):
				return x[:i]
		return x
	W, R = cut(W), cut(R)
	while R and tyname(R[0][1]) == 'u8' and (not W or tyname(W[0][1]) != 'u8'):
		R = R[1:]       # the version prefix is written by a macro through write_all
	if [tyname(w[1]) for w in W] != [tyname(r[1]) for r in R]:
		return None, ([tyname(w[1]).rsplit('::', 1)[-1] for w in W], [tyname(r[1]).rsplit('::', 1)[-1] for r in R])
	out = []
	for w, r in zip(W, R):
		d = r[2]['dest']
		out.append((w[0], wex.of_operand(w[2]['args'][0]), r[0], d[0] if len(d) == 1 else None))
	return out, None

def check_constant_slots(F, rule, wfn, rfn, label, floor):
	out = []
	slots, diff = aligned_slots(F, wfn, rfn)
	if slots is None:
		return [Result(rule, False, 'anchor:positional-alignment@' + label, '%s: the top-level positional write and read type sequences differ (%s vs %s): writer and reader no longer pair slot by slot' % (label, diff[0], diff[1]), where=F.where(wfn))]
	if len(slots) < floor:
		return [Result(rule, False, 'floor:positional-slots@' + label, '%s: only %d positional slots aligned (expected >= %d)' % (label, len(slots), floor), len(slots))]
	wu, ru = F.func(wfn), F.func(rfn)
	rex = Expr(ru)
	# reader: which user variables feed a field of an aggregate (the restored object)
	feeds = {}
	for bi, si, st in ru.stmts():
		rv = st[2]
		if rv[0] == 'agg' and rv[1] == 'adt' and len(rv) > 5 and rv[5] and not norm(rv[2]).startswith('core::'):
			for g, op in zip(rv[5], rv[4]):
				if not g.isdigit():
					for l in expr_local_ids(rex.of_operand(op)):
						feeds.setdefault(l, set()).add(g)
	def raw_locals(x, acc):
		if isinstance(x, list):
			if len(x) == 2 and x[0] in ('c', 'm') and isinstance(x[1], list) and x[1] and isinstance(x[1][0], int):
				acc.add(x[1][0])
			elif len(x) >= 3 and x[0] == 'ref' and isinstance(x[2], list) and x[2] and isinstance(x[2][0], int):
				acc.add(x[2][0])
			elif len(x) == 2 and x[0] == 'disc' and isinstance(x[1], list) and x[1] and isinstance(x[1][0], int):
				acc.add(x[1][0])
			else:
				for y in x:
					raw_locals(y, acc)
		elif isinstance(x, dict):
			for y in x.get('args', []):
				raw_locals(y, acc)
		return acc
	TRANSPARENT = ('::branch', '::unwrap', '::into', '::from', '::clone', '::expect', '::unwrap_or', '::ok_or', '::map_err')
	def derived_from(l0):
		der = {l0}
		changed = True
		while changed:
			changed = False
			for bi, b in enumerate(ru.blocks):
				for st in b['s']:
					if st[1] and isinstance(st[1][0], int) and st[1][0] not in der and raw_locals(st[2], set()) & der:
						der.add(st[1][0]); changed = True
				t = b['t']
				if t[1] == 'call' and len(t[2].get('dest') or []) >= 1 and t[2]['dest'][0] not in der:
					f = norm(t[2].get('f') or t[2].get('t') or '')
					if f.endswith(TRANSPARENT) and raw_locals(t[2], set()) & der:
						der.add(t[2]['dest'][0]); changed = True
		return der
	agg_ops = []
	for bi, si, st in ru.stmts():
		rv = st[2]
		if rv[0] == 'agg' and rv[1] == 'adt' and len(rv) > 5 and rv[5] and not norm(rv[2]).startswith('core::'):
			for g, op in zip(rv[5], rv[4]):
				if not g.isdigit():
					agg_ops.append((g, raw_locals(op, set())))
	bad = []
	for wb, we, rb, rl in slots:
		e = we
		while e[0] in ('ref', 'deref', 'cast'):
			e = e[1]
		if e[0] == 'const' and rl is not None:
			# follow copies of the destination local
			der = derived_from(rl)
			fed = {g for g, ls in agg_ops if ls & der}
			if fed:
				bad.append((wu.line_of(wb), ru.line_of(rb), sorted(fed)))
	ok = not bad
	out.append(Result(rule, ok, ('ok:' if ok else 'constant-slot:') + 'positional-slots@' + label, '%s: %d positional slots pair by type; no slot that the reader restores into a field is written as a constant%s' % (label, len(slots), '' if ok else ' - writer line / reader line / restored field: %s (the field comes back as that constant after every reload)' % bad), len(slots), where=F.where(wfn, bad[0][0] if bad else None)))
	return out
