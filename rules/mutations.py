"""Collection-mutation census (rule ids NN.M).

State that survives a call lives in collections held in fields: the pending-HTLC maps, the per-peer channel map, the claimable-payment map,
the monitor's outpoint tables, the graph's channel / node maps, the peer table.  "A stale entry is not removed", "an entry is overwritten
instead of merged", "the bookkeeping is updated on the main path but not on this one" are all the disappearance of one mutator call on one
such field in one function.  For every call of a standard collection mutator (insert / push / entry / extend / remove / retain / clear / drain /
pop / take ...) whose receiver is rooted - through locks, unwraps, derefs, get_mut, entry, iter_mut ... - in a *field*, the census records
(file, function, OwnerType.field, mutator class).  The reviewed table (rules/mutations_table.json) holds the keys of the reviewed tree;
a reviewed key must not disappear while the function exists.  New keys and new functions are not judged; order and count within a
function are not judged (necessary condition only).  Mutator classes (not the method names) are compared, so `push` vs `push_back`,
`remove` vs `remove_entry`/`swap_remove`, `retain` vs `drain_filter`-style rewrites with the same class stay silent."""
import json, os, collections, re
from engine import *

_TRANSPARENT = {'lock', 'unwrap', 'expect', 'write', 'read', 'borrow_mut', 'deref_mut', 'deref', 'as_mut', 'as_ref', 'get_mut', 'entry',
	'iter_mut', 'values_mut', 'or_insert_with', 'or_insert', 'or_default', 'or_insert_with_key', 'get_or_insert_with', 'get_or_insert', 'into_mut', 'last_mut', 'first_mut',
	'index_mut', 'index', 'get', 'as_mut_slice', 'unwrap_or_else', 'into_inner', 'next', 'into_iter', 'as_deref_mut', 'and_modify', 'branch', 'peekable', 'by_ref',
	'borrow', 'get_many_mut', 'unwrap_unchecked', 'get_mut_or_insert', 'occupied', 'from_residual'}

# method name -> class
_CLASS = {}
for _m in ('insert', 'push', 'push_back', 'push_front', 'extend', 'append', 'extend_from_slice', 'insert_entry', 'try_insert', 'resize', 'extend_from_within'):
	_CLASS[_m] = 'add'
for _m in ('remove', 'remove_entry', 'swap_remove', 'pop', 'pop_front', 'pop_back', 'pop_first', 'pop_last', 'remove_item', 'shift_remove', 'swap_remove_back', 'swap_remove_front'):
	_CLASS[_m] = 'remove'
for _m in ('retain', 'retain_mut', 'dedup', 'dedup_by', 'dedup_by_key', 'extract_if'):
	_CLASS[_m] = 'filter'
for _m in ('clear', 'drain', 'truncate', 'split_off'):
	_CLASS[_m] = 'empty'
for _m in ('sort', 'sort_by', 'sort_by_key', 'sort_unstable', 'sort_unstable_by', 'sort_unstable_by_key', 'reverse'):
	_CLASS[_m] = 'order'

_COLL_PREFIX = ('alloc::vec::Vec', 'alloc::collections::', 'hashbrown::', 'std::collections::', 'lightning::util::indexed_map::',
	'alloc::slice::', 'core::slice::', '<alloc::vec::Vec', '<hashbrown::', '<alloc::collections::', '<std::collections::', 'lightning::util::hash_tables')

def classify(callee):
	"""(class, method) for a collection mutator call or None"""
	c = callee or ''
	m = c.rsplit('::', 1)[-1]
	if c.startswith(('core::mem::take', 'core::mem::replace', 'core::mem::swap')):
		return ('empty' if m == 'take' else 'swap', m)
	if c.startswith('core::option::Option::<T>::take'):
		return ('empty', 'take')
	if c.startswith('core::option::Option::<T>::replace') or c.startswith('core::option::Option::<T>::insert'):
		return ('add', m)
	if not c.startswith(_COLL_PREFIX):
		return None
	if m in _CLASS:
		if 'Entry' in c and m == 'insert':
			return ('add', m)
		return (_CLASS[m], m)
	return None

def root_field(e, ex=None):
	"""the innermost field the receiver expression is rooted in: 'Owner.field' or None"""
	seen = set()
	for _ in range(80):
		k = e[0]
		if k == 'local' and ex is not None and e[1] > ex.fu.argc and e[1] not in seen:
			# a guard / reference / entry held in a user variable (`let mut outbounds = self.pending.lock().unwrap();`): follow its one definition
			seen.add(e[1])
			ds = [d for d in ex.fu.defs.get(e[1], []) if len(d[2]) == 1]
			if len(ds) == 1:
				e = ex.of_rvalue(ds[0][3], 1); continue
			return None
		if k in ('ref', 'deref', 'cast', 'index'):
			e = e[1]; continue
		if k == 'downcast':
			e = e[1]; continue
		if k == 'call':
			nm = (e[1] or '').rsplit('::', 1)[-1]
			if e[2] and (nm in _TRANSPARENT or (len(e) > 3 and (e[3] or '').rsplit('::', 1)[-1] in _TRANSPARENT)):
				e = e[2][0]; continue
			if e[1] == 'await' and e[2]:
				e = e[2][0]; continue
			return None
		if k == 'field':
			nm, owner = e[2], e[3] if len(e) > 3 else ''
			if str(nm).isdigit() or not owner:
				# tuple field / payload of Some / Ok: keep walking down
				e = e[1]; continue
			ow = norm(owner).rsplit('::', 1)[-1]
			if ow in ('Some', 'Ok', 'Err', 'Ready', 'Occupied', 'Vacant'):
				e = e[1]; continue
			return ow + '.' + str(nm)
		return None
	return None

_MC = {}

def census(F):
	if F.dir in _MC:
		return _MC[F.dir]
	cnt = collections.Counter()
	where = {}
	known = collections.defaultdict(set)
	for n, r in F.fns.items():
		if not n.startswith(('lightning', '<lightning')) or 'ser_macros' in r['file'] or F.impl_kind.get(root_fn(n)) == 'derived':
			continue
		fl = r['file'].split('/')[0] + ':' + (r['file'].split('src/')[-1] if 'src/' in r['file'] else r['file'])
		tail = root_fn(n).rsplit('::', 1)[-1]
		known[fl].add(tail)
		if tail in ('new', 'read', 'default', 'from', 'clone', 'write') or tail.startswith(('new_', 'read_', 'from_', 'with_')):
			continue
		try:
			fu = F.func(n)
		except AnchorMissing:
			continue
		ex = None
		for b, ci in fu.calls():
			f = norm(ci.get('f') or ci.get('t') or '')
			cl = classify(f)
			if cl is None and ci.get('t'):
				cl = classify(norm(ci.get('t')))
			if cl is None or not ci['args']:
				continue
			if ex is None:
				ex = Expr(fu, max_depth=14)
			rf = root_field(ex.of_operand(ci['args'][0]), ex)
			if rf is None and cl[1] in ('swap', 'replace') and len(ci['args']) > 1:
				rf = root_field(ex.of_operand(ci['args'][1]), ex)
			if rf is None:
				continue
			k = (fl, tail, rf, cl[0])
			cnt[k] += 1
			where.setdefault(k, (n, fu.line_of(b)))
	_MC[F.dir] = (cnt, where, known)
	return _MC[F.dir]

_TABLE = None
def table():
	global _TABLE
	if _TABLE is None:
		_TABLE = json.load(open(os.path.join(os.path.dirname(os.path.abspath(__file__)), 'mutations_table.json')))
	return _TABLE

_WHAT = {'add': 'adds to', 'remove': 'removes an entry from', 'filter': 'filters (retain / dedup)', 'empty': 'empties / drains / takes', 'order': 'sorts', 'swap': 'replaces'}

def rule(F, rule_id, file_res, floor=1):
	cnt, where, known = census(F)
	tab = table()
	out = []
	n = 0
	for fl, tail, fld, cl in sorted(tuple(x) for x in tab['keys']):
		if not any(re.search(p, fl.replace(':', '/src/')) for p in file_res):
			continue
		if tail not in known.get(fl, ()):
			continue   # the function is gone (renamed / removed): not judged
		n += 1
		if cnt.get((fl, tail, fld, cl), 0) == 0:
			fns = [x for x in F.fns if root_fn(x).rsplit('::', 1)[-1] == tail and F.fns[x]['file'].endswith(fl.split(':', 1)[1])]
			out.append(Result(rule_id, False, 'mutation-lost:%s:%s:%s' % (tail, fld, cl), '%s no longer %s %s (reviewed: it did): the stored collection keeps / lacks an entry on this path that every other path accounts for' % (tail, _WHAT.get(cl, cl), fld), 1, where=F.where(fns[0]) if fns else fl))
	# ... and no reviewed function GAINED a mutation of a stored collection: an entry added twice, a tombstone written for a node that was never
	# reported failed, a removal on a path that used to keep the entry.  Counts per (function, collection, class) of the same build profile;
	# functions the table never saw are not judged.
	prof = 'dev' if F.dir.rstrip('/').endswith('-dev') else 'release'
	cc = tab.get('counts', {}).get(prof)
	if cc is not None:
		reviewed = {tuple(r[:4]): r[4] for r in cc}
		fns_known = {(r[0], r[1]) for r in cc} | {tuple(x) for x in tab.get('functions', {}).get(prof, [])}
		for k, c in sorted(cnt.items()):
			fl, tail, fld, cl = k
			if not any(re.search(p, fl.replace(':', '/src/')) for p in file_res) or (fl, tail) not in fns_known:
				continue
			if c > reviewed.get(k, 0):
				fn, line = where[k]
				out.append(Result(rule_id, False, 'mutation-gained:%s:%s:%s' % (tail, fld, cl), '%s now %s %s %d time(s) (reviewed: %d): an additional write to a stored collection - an entry recorded twice, recorded for something it does not describe, or removed on a path that used to keep it' % (tail, _WHAT.get(cl, cl), fld, c, reviewed.get(k, 0)), 1, where=F.where(fn, line)))
	if n < floor:
		return [Result(rule_id, False, 'anchor:mutations', 'only %d reviewed collection mutations left in %s (expected >= %d)' % (n, file_res, floor))]
	if not out:
		out.append(Result(rule_id, True, 'ok:mutations', '%d reviewed (function, stored collection, mutator class) triples in %s are all still present' % (n, '|'.join(file_res)), n))
	return out

SCOPE = {
	'C01': ([r'ln/channel\.rs$', r'ln/interactivetxs\.rs$', r'ln/funding\.rs$'], 62),
	'C02': ([r'ln/channelmanager\.rs$'], 150),
	'C03': ([r'ln/outbound_payment\.rs$', r'ln/channelmanager\.rs$'], 165),
	'C04': ([r'ln/channelmanager\.rs$'], 150),
	'C05': ([r'ln/channel\.rs$'], 40),
	'C06': ([r'chain/channelmonitor\.rs$', r'chain/onchaintx\.rs$', r'chain/package\.rs$'], 65),
	'C07': ([r'chain/channelmonitor\.rs$', r'chain/onchaintx\.rs$', r'chain/package\.rs$', r'util/sweep\.rs$', r'events/bump_transaction/'], 70),
	'C09': ([r'chain/chainmonitor\.rs$', r'ln/channelmanager\.rs$', r'ln/channel\.rs$'], 200),
	'C10': ([r'ln/channelmanager\.rs$', r'chain/channelmonitor\.rs$'], 190),
	'C11': ([r'chain/channelmonitor\.rs$', r'chain/onchaintx\.rs$', r'ln/channel\.rs$'], 100),
	'C15': ([r'ln/peer_handler\.rs$'], 19),
	'C16': ([r'routing/router\.rs$', r'routing/scoring\.rs$'], 8),
	'C17': ([r'routing/gossip\.rs$', r'routing/utxo\.rs$', r'util/indexed_map\.rs$'], 40),
	'C19': ([r'util/persist\.rs$', r'chain/chainmonitor\.rs$'], 14),
	'C20': ([r'lightning-block-sync/'], 5),
}

def for_property(F, pid, rule_id):
	res, floor = SCOPE[pid]
	return rule(F, rule_id, res, floor)
