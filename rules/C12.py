"""C12 - persisted objects survive serialization (structural part)."""
from engine import *
import tlv

EXPLANATION = ('Writer/reader agreement of every hand-written TLV table (un-expanded macro tables extracted with syn): every type a '
	'writer emits is read by its paired reader, every type a reader requires is written unconditionally, type numbers increase; '
	'every TLV macro invocation is paired, symmetric-by-construction, or on a reviewed list (fail closed). Field coverage: every field of '
	'the persisted structs is read under its writer or is on the reviewed not-persisted list. Decoder guards (unknown even type rejected, '
	'version prefix) are checked on the expanded MIR. Decides table agreement and coverage, not value equality after a round trip.')
ASSUMPTIONS = ['the TLV macros themselves (util/ser_macros.rs) implement the wire format correctly', 'symmetric macros generate matching writer and reader from one table']
TECHNIQUE = 'static analysis: syntax-tree extraction of TLV macro tables (syn) with writer/reader table agreement + MIR field-coverage census'

def r12a(F):
	tables = tlv.load(F)
	pairs, left = tlv.build_pairs(tables)
	out = []
	pairs = [p for p in pairs if p.name not in tlv.ONION_PAIRS]
	for p in pairs:
		out += tlv.check_pair('12.a', p)
	for t in left:
		key = None
		for (f, st, fn), why in tlv.UNPAIRED_OK.items():
			base, _, armid = fn.partition('#')
			if t['rel'].endswith(f) and tlv.norm_ws(t['self']) == tlv.norm_ws(st) and t['fn'] == base and (not armid or str(t['arm_id']) == armid):
				key = why
		if key is None:
			out.append(Result('12.a', False, 'unpaired:%s:%s:%s' % (t['rel'], t['self'], t['fn']), 'TLV table %s has no paired counterpart and is not on the reviewed unpaired list (new codec? pair it in rules/tlv.py)' % tlv.desc(t), 1, where='%s:%d' % (t['rel'], t['line'])))
		else:
			out.append(Result('12.a', True, 'ok:unpaired:%s:%s:%s' % (t['rel'], t['self'], t['fn']), 'reviewed unpaired table %s: %s' % (tlv.desc(t), key), 1))
	if len(pairs) < 68:
		out.append(Result('12.a', False, 'floor:pairs', 'only %d TLV writer/reader pairs found (expected >= 68)' % len(pairs), len(pairs)))
	out += tlv.check_symmetric('12.a', tables)
	return out

RULES = [
	('12.a', 'TLV writer tables are subsets of their reader tables; required types are always written; types increase; nothing unpaired', r12a),
]
