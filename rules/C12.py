"""C12 - persisted objects survive serialization (structural part)."""
from engine import *
import linforms
import parsepos
import guards
import ordimpls
import re
import tlv

EXPLANATION = ('Writer/reader agreement of every hand-written TLV table (un-expanded macro tables extracted with syn): every type a '
	'writer emits is read by its paired reader, every type a reader requires is written unconditionally, type numbers increase; '
	'every TLV macro invocation is paired, symmetric-by-construction, or on a reviewed list (fail closed). Field coverage: every field of '
	'the persisted structs is read under its writer or is on the reviewed not-persisted list. Decoder guards (unknown even type rejected, '
	'version prefix) are checked on the expanded MIR. Also: hand-written one-byte enum codecs (variant->byte and byte->variant tables extracted from MIR; deliberately lossy variants reviewed); each TLV type of a hand-written table is restored into the field it was written from. Decides table agreement and coverage, not value equality after a round trip.')
ASSUMPTIONS = ['the TLV macros themselves (util/ser_macros.rs) implement the wire format correctly', 'symmetric macros generate matching writer and reader from one table']
TECHNIQUE = 'static analysis: syntax-tree extraction of TLV macro tables (syn) with writer/reader table agreement + MIR field-coverage census'

def r12a(F):
	tables = tlv.load(F)
	pairs, left = tlv.build_pairs(tables)
	out = []
	pairs = [p for p in pairs if p.name not in tlv.ONION_PAIRS]
	for p in pairs:
		out += tlv.check_pair('12.a', p)
	for t in left:
		key = None
		for (f, st, fn), why in tlv.UNPAIRED_OK.items():
			base, _, armid = fn.partition('#')
			if t['rel'].endswith(f) and tlv.norm_ws(t['self']) == tlv.norm_ws(st) and t['fn'] == base and (not armid or str(t['arm_id']) == armid):
				key = why
		if key is None:
			out.append(Result('12.a', False, 'unpaired:%s:%s:%s' % (t['rel'], t['self'], t['fn']), 'TLV table %s has no paired counterpart and is not on the reviewed unpaired list (new codec? pair it in rules/tlv.py)' % tlv.desc(t), 1, where='%s:%d' % (t['rel'], t['line'])))
		else:
			out.append(Result('12.a', True, 'ok:unpaired:%s:%s:%s' % (t['rel'], t['self'], t['fn']), 'reviewed unpaired table %s: %s' % (tlv.desc(t), key), 1))
	if len(pairs) < 68:
		out.append(Result('12.a', False, 'floor:pairs', 'only %d TLV writer/reader pairs found (expected >= 68)' % len(pairs), len(pairs)))
	out += tlv.check_symmetric('12.a', tables)
	return out

RULES = [
	('12.a', 'TLV writer tables are subsets of their reader tables; required types are always written; types increase; nothing unpaired', r12a),
]

SER = 'lightning::util::ser::'

def _thresholds(F, fn, leaf_re):
	"""comparison thresholds T such that the function tests  leaf < T  (any equivalent form)"""
	ts = set()
	eqs = set()
	n = 0
	for g in guards_in(F, fn):
		terms, op, K, used = g.nf
		if len(terms) != 1:
			continue
		leaf, c = list(terms.items())[0]
		if not re.search(leaf_re, leaf):
			continue
		n += 1
		if c < 0:
			op = {'Lt': 'Gt', 'Le': 'Ge', 'Gt': 'Lt', 'Ge': 'Le', 'Eq': 'Eq', 'Ne': 'Ne'}[op]
			K = -K
		if op == 'Lt':
			ts.add(K)
		elif op == 'Le':
			ts.add(K + 1)
		elif op == 'Ge':
			ts.add(K)
		elif op == 'Gt':
			ts.add(K + 1)
		elif op in ('Eq', 'Ne'):
			eqs.add(K)
	return ts, eqs, n

def r12f(F):
	"""variable-length integer encodings: the writer's width thresholds equal the reader's minimality thresholds"""
	out = []
	w, _, nw = _thresholds(F, '<%sBigSize as %sWriteable>::write' % (SER, SER), r'self\.0$')
	r, _, nr = _thresholds(F, '<%sBigSize as %sReadable>::read' % (SER, SER), r'read\(')
	w.discard(0)
	want = {0xFD, 0x10000, 0x100000000}
	ok = w == want and r == want
	out.append(Result('12.f', ok, ('ok:' if ok else 'boundary:') + 'BigSize', 'BigSize::write switches width at %s, BigSize::read rejects non-minimal encodings below %s (expected both %s)' % (sorted(w), sorted(r), sorted(want)), nw + nr,
		where=F.where(F.fn('<%sBigSize as %sWriteable>::write' % (SER, SER)))))
	w, _, nw = _thresholds(F, '<%sCollectionLength as %sWriteable>::write' % (SER, SER), r'self\.0$')
	_, e, nr = _thresholds(F, '<%sCollectionLength as %sReadable>::read' % (SER, SER), r'^val$|read\(')
	ok = w == {0xffff} and e == {0xffff}
	out.append(Result('12.f', ok, ('ok:' if ok else 'boundary:') + 'CollectionLength', 'CollectionLength::write uses the short form below %s; CollectionLength::read treats %s as the escape marker (expected 65535 for both: a length of exactly 65535 must use the long form)' % (sorted(w), sorted(e)), nw + nr,
		where=F.where(F.fn('<%sCollectionLength as %sWriteable>::write' % (SER, SER)))))
	return out

RULES.append(('12.f', 'BigSize / CollectionLength: writer width thresholds equal reader thresholds', r12f))

L = 'lightning::'
W = lambda t: '<%s as lightning::util::ser::Writeable>::write' % t
RT = 'runtime-only state (handles, caches, locks, in-memory bookkeeping) rebuilt or re-supplied on load'
SIG = 'signer / handshake / closing-negotiation state that is deliberately reset by a restart (the peer is disconnected)'
COVERAGE = [
	# (adt, writer roots, {field: reason})
	(L + 'chain::channelmonitor::ChannelMonitorImpl', [L + 'chain::channelmonitor::write_chanmon_internal'],
		{'is_processing_pending_events': RT, 'failed_back_htlc_ids': 'rebuilt lazily; duplicates are filtered against pending events', 'written_by_0_1_or_later': 'set by the reader from the stream itself'}),
	(L + 'chain::channelmonitor::FundingScope', [L + 'chain::channelmonitor::write_chanmon_internal'], {}),
	(L + 'chain::onchaintx::OnchainTxHandler', [L + 'chain::onchaintx::OnchainTxHandler::write'],
		{'channel_id': 'supplied by the ChannelMonitor reader (set_channel_id)', 'counterparty_node_id': 'supplied by the ChannelMonitor reader', 'channel_value_satoshis': 'passed as a read argument by the ChannelMonitor reader',
		 'channel_keys_id': 'passed as a read argument by the ChannelMonitor reader', 'signer': 're-derived from channel_keys_id (a zero-length placeholder is written)', 'pending_claim_events': 'regenerated by rebroadcast after load', 'secp_ctx': RT}),
	(L + 'chain::package::PackageTemplate', [W(L + 'chain::package::PackageTemplate')], {'malleability': 'recomputed from the inputs by the reader'}),
	(L + 'ln::channel::ChannelContext', [W(L + 'ln::channel::FundedChannel')],
		{'prev_config': RT, 'inbound_handshake_limits_override': SIG, 'secp_ctx': RT, 'holder_signer': 're-derived from channel_keys_id',
		 'signer_pending_revoke_and_ack': SIG, 'signer_pending_commitment_update': SIG, 'signer_pending_funding': SIG, 'signer_pending_closing': SIG,
		 'signer_pending_channel_ready': SIG, 'signer_pending_stale_state_verification': SIG, 'last_sent_closing_fee': SIG, 'last_received_closing_sig': SIG,
		 'pending_counterparty_closing_signed': SIG, 'closing_fee_limits': SIG, 'expecting_peer_commitment_signed': SIG, 'closing_signed_in_flight': SIG,
		 'workaround_lnd_bug_4006': SIG, 'funding_locked_txid_sent_in_reestablish': SIG, 'sent_message_awaiting_response': SIG}),
	(L + 'ln::channel::FundingScope', [W(L + 'ln::channel::FundedChannel'), W(L + 'ln::channel::FundingScope')],
		{'holder_prev_commitment_tx_balance': 'cfg(debug_assertions)-only self-check bookkeeping (absent from release builds)', 'counterparty_prev_commitment_tx_balance': 'cfg(debug_assertions)-only self-check bookkeeping'}),
	(L + 'ln::channel::FundedChannel', [W(L + 'ln::channel::FundedChannel')], {'quiescent_action': SIG}),
	(L + 'ln::channel::InboundHTLCOutput', [W(L + 'ln::channel::FundedChannel')], {}),
	(L + 'ln::channel::OutboundHTLCOutput', [W(L + 'ln::channel::FundedChannel')], {'send_timestamp': 'hold-time measurement only; not meaningful across restarts'}),
	(L + 'ln::channelmanager::ChannelManager', [W(L + 'ln::channelmanager::ChannelManager')],
		{k: RT for k in ('config', 'fee_estimator', 'chain_monitor', 'tx_broadcaster', 'router', 'secp_ctx', 'awaiting_trampoline_forwards', 'outbound_scid_aliases',
			'short_to_chan_info', 'inbound_payment_key', 'pending_events_processor', 'pending_htlc_forwards_processor', 'pending_background_events', 'funding_batch_states',
			'background_events_processed_since_startup', 'event_persist_notifier', 'needs_persist_flag', 'pending_broadcast_messages', 'last_days_feerates', 'entropy_source',
			'node_signer', 'signer_provider', 'logger')}),
	(L + 'ln::channelmanager::PeerState', [W(L + 'ln::channelmanager::ChannelManager')],
		{'inbound_channel_request_by_id': 'unaccepted inbound requests are dropped on restart', 'pending_msg_events': 'the peer is disconnected by a restart',
		 'actions_blocking_raa_monitor_updates': 'rebuilt from monitor_update_blocked_actions / pending events on load'}),
	(L + 'ln::channelmanager::ClaimableHTLC', [L + 'ln::channelmanager::write_claimable_htlc'], {}),
	(L + 'ln::channelmanager::MppPart', [L + 'ln::channelmanager::write_claimable_htlc'], {'timer_ticks': 'timeout counter restarts at zero'}),
	(L + 'routing::gossip::NetworkGraph', [W(L + 'routing::gossip::NetworkGraph')],
		{k: RT for k in ('secp_ctx', 'logger', 'removed_node_counters', 'next_node_counter', 'removed_channels', 'removed_nodes', 'pending_checks')}),
	(L + 'routing::gossip::ChannelInfo', [W(L + 'routing::gossip::ChannelInfo')], {'node_one_counter': RT, 'node_two_counter': RT}),
	(L + 'routing::gossip::NodeInfo', [W(L + 'routing::gossip::NodeInfo')], {'node_counter': RT}),
	(L + 'routing::gossip::ChannelUpdateInfo', [W(L + 'routing::gossip::ChannelUpdateInfo')], {}),
	(L + 'routing::scoring::ProbabilisticScorer', [W(L + 'routing::scoring::ProbabilisticScorer')], {k: RT for k in ('decay_params', 'network_graph', 'logger', 'last_update_time')}),
	(L + 'routing::scoring::ChannelLiquidity', [W(L + 'routing::scoring::ChannelLiquidity')], {}),
	(L + 'util::sweep::SweeperState', [W(L + 'util::sweep::SweeperState')], {}),
	# the per-channel configuration is persisted with the channel through the hand-written LegacyChannelConfig codec (FundedChannel TLV 5)
	(L + 'util::config::LegacyChannelConfig', [W(L + 'util::config::LegacyChannelConfig')], {}),
	(L + 'util::config::ChannelConfig', [W(L + 'util::config::LegacyChannelConfig')], {}),
]

def r12b(F):
	out = []
	for adt, roots, np_ in COVERAGE:
		if np_ is None:
			# discover nothing: every field must be covered
			np_ = {}
		out += P11_field_coverage(F, '12.b', adt, roots, np_)
	# tighter: each writer on its own reads every persisted field in its OWN body or closures (not merely in some callee, which may read the
	# field for an unrelated purpose); the few fields that are serialized through an accessor are listed with the accessor
	VIA_ACCESSOR = {
		(L + 'ln::channelmanager::PeerState', 'closed_channel_monitor_update_ids'): 'written by the ChannelManager writer while iterating the peer state (a helper reads it)',
		(L + 'ln::channelmanager::PeerState', 'is_connected'): 'only decides whether the peer is serialized (ok_to_remove / serializable peer count)',
		(L + 'routing::gossip::NetworkGraph', 'last_rapid_gossip_sync_timestamp'): 'read through get_last_rapid_gossip_sync_timestamp()',
	}
	n = 0
	for adt, roots, np_ in COVERAGE:
		np_ = np_ or {}
		try:
			a = F.adt(adt)
		except AnchorMissing:
			continue
		fields = [rec[1] for rec in F.adts[a] if rec[1] != '-']
		for r in roots:
			try:
				fam = set(F.family(r))
			except AnchorMissing:
				continue
			for f in fields:
				if f in np_ or (adt, f) in VIA_ACCESSOR:
					continue
				n += 1
				if not any(x[0] in fam for x in F.fieldacc.get('%s.%s' % (a, f), [])):
					out.append(Result('12.b', False, 'unwritten-by:%s.%s@%s' % (adt.rsplit('::', 1)[-1], f, r.split(' as ')[0].rsplit('::', 1)[-1].strip('<>')), 'field %s.%s is not read in the body of the writer %s (it may still be read by a callee for another purpose): it is no longer serialized by this writer and comes back as its default after a reload' % (adt.rsplit('::', 1)[-1], f, r.rsplit('::', 2)[-2] if '::' in r else r), 1, where=F.where(r)))
	out.append(Result('12.b', n >= 200, ('ok:' if n >= 200 else 'floor:') + 'own-body-coverage', '%d (writer, field) pairs checked against the writer\'s own body' % n, n))
	return out

RULES.append(('12.b', 'every field of the persisted structs is read under its writer or is on the reviewed not-persisted list', r12b))

# fields a hand-written struct writer deliberately leaves out (each read against the code)
_UNWRITTEN_OK = {
	('blinded_path::payment::ForwardTlvs', 'next_blinding_override'): 'never set by paths LDK builds (read side only, for paths built by others)',
	('blinded_path::payment::TrampolineForwardTlvs', 'next_blinding_override'): 'never set by paths LDK builds',
	('offers::async_receive_offer_cache::AsyncReceiveOfferCache', 'offer_paths_request_attempts'): 'retry counter, restarts at zero',
	('chain::package::PackageTemplate', 'malleability'): 'recomputed from the inputs by the reader',
	('ln::channel::FundedChannel', 'quiescent_action'): 'in-flight negotiation state, dropped by the disconnect a restart implies',
	('routing::gossip::ChannelInfo', 'node_one_counter'): 'runtime index', ('routing::gossip::ChannelInfo', 'node_two_counter'): 'runtime index',
	('routing::gossip::NodeInfo', 'node_counter'): 'runtime index',
	('offers::refund::Refund', 'contents'): 'the writer re-emits the stored bytes the contents were parsed from',
	('routing::scoring::CombinedScorer', 'scorer'): 'derived state: only local_only_scorer is persisted, the merged scorer is rebuilt from it and the next external update',
}

def r12l(F):
	"""every hand-written `impl Writeable for <struct>` of the workspace reads every field of the struct in its own body (or closures), or the
	field is on the reviewed list: a TLV line dropped from ANY hand-written writer - nested ones included, not only the top-level objects of
	12.b - is a field that comes back as its default. Writers that read none of their fields (they re-emit stored bytes or delegate to a
	TLV-stream view) and the large top-level writers covered by 12.b with their own reviewed lists are skipped."""
	import re as _re2
	out = []
	top = {adt for adt, roots, np_ in COVERAGE if np_}
	n = 0
	for name, r in F.fns.items():
		m = _re2.match(r'^<(lightning[\w:]*) as lightning::util::ser::Writeable>::write$', name)
		if not m or 'ser_macros' in r['file']:
			continue
		adt = m.group(1)
		if adt in top:
			continue
		try:
			a = F.adt(adt)
		except AnchorMissing:
			continue
		recs = F.adts[a]
		if len({x[0] for x in recs}) != 1:
			continue
		fields = [x[1] for x in recs if x[1] != '-' and not x[1].isdigit()]
		if not fields:
			continue
		fam = set(F.family(name))
		miss = [f for f in fields if not any(x[0] in fam for x in F.fieldacc.get('%s.%s' % (a, f), []))]
		if len(miss) * 2 > len(fields) or len(miss) == len(fields):
			continue   # delegating writer
		n += 1
		short = adt.split('::', 1)[1] if '::' in adt else adt
		bad = [f for f in miss if (short, f) not in _UNWRITTEN_OK]
		if bad:
			for f in bad:
				out.append(Result('12.l', False, 'unwritten-by:%s.%s' % (short.rsplit('::', 1)[-1], f), 'the hand-written writer of %s does not read field `%s` (and it is not on the reviewed list): it is not serialized and comes back as its default' % (short, f), 1, where=F.where(name)))
	ok = n >= 40
	out.append(Result('12.l', ok, ('ok:' if ok else 'floor:') + 'hand-written-struct-writers', '%d hand-written struct writers checked field by field' % n, n))
	return out

RULES.append(('12.l', 'every hand-written struct writer serializes every field of its struct (reviewed exceptions)', r12l))

# fields a hand-written reader fills with a constant and never patches by field afterwards (reviewed; why each may come back as a constant)
_SIG = 'transient signing / closing-negotiation state, dropped by the disconnect a restart implies'
_READ_CONST_OK = {
	('MppPart::MppPart', 'timer_ticks'): 'timeout counter restarts at zero',
	('OnchainTxHandler::OnchainTxHandler', 'pending_claim_events'): 'regenerated by rebroadcast after load',
	('Event::PaymentFailed', 'payment_hash'): 'legacy encoding without the hash',
	('HTLCLocator::HTLCLocator', 'htlc_id'): 'legacy encoding without the id',
	('InterceptNextHop::FakeScid', 'requested_next_hop_scid'): 'placeholder overwritten from the TLV that follows',
	('FundedChannel::FundedChannel', 'quiescent_action'): _SIG,
	('HTLCUpdateAwaitingACK::ClaimHTLC', 'attribution_data'): 'positional legacy section; patched from the attribution TLV vector through a binding',
	('InboundHTLCRemovalReason::Fulfill', 'attribution_data'): 'positional legacy section; patched from the attribution TLV vector through a binding',
	('OutboundHTLCOutcome::Success', 'attribution_data'): 'positional legacy section; patched from the attribution TLV vector through a binding',
	('OnionErrorPacket::OnionErrorPacket', 'attribution_data'): 'positional legacy section; patched from the attribution TLV vector through a binding',
	('UpdateFailHTLC::UpdateFailHTLC', 'attribution_data'): 'HTLCFailureMsg legacy encoding carries no attribution data',
	('OutboundHTLCOutput::OutboundHTLCOutput', 'send_timestamp'): 'hold-time measurement only; not meaningful across restarts',
	('NegotiatedCandidate::NegotiatedCandidate', 'contribution'): 'legacy candidate list (TLV without contributions)',
	('AsyncReceiveOfferCache::AsyncReceiveOfferCache', 'offer_paths_request_attempts'): 'retry counter restarts at zero',
	('ChannelInfo::ChannelInfo', 'node_one_counter'): 'runtime index, assigned when the graph is rebuilt',
	('ChannelInfo::ChannelInfo', 'node_two_counter'): 'runtime index',
	('NodeInfo::NodeInfo', 'node_counter'): 'runtime index',
	('NetworkGraph::NetworkGraph', 'pending_checks'): 'in-flight UTXO lookups do not survive a restart',
	('NetworkUpdate::ChannelFailure', 'is_permanent'): 'placeholder overwritten from the TLV that follows',
}
for _f in ('closing_fee_limits', 'closing_signed_in_flight', 'expecting_peer_commitment_signed', 'funding_locked_txid_sent_in_reestablish', 'inbound_handshake_limits_override',
		'last_received_closing_sig', 'last_sent_closing_fee', 'pending_counterparty_closing_signed', 'prev_config', 'sent_message_awaiting_response', 'signer_pending_channel_ready',
		'signer_pending_closing', 'signer_pending_commitment_update', 'signer_pending_funding', 'signer_pending_revoke_and_ack', 'signer_pending_stale_state_verification', 'workaround_lnd_bug_4006'):
	_READ_CONST_OK[('ChannelContext::ChannelContext', _f)] = _SIG

def r12m(F):
	"""the reader side of 12.l: a hand-written reader that builds a struct with a field set to a constant (false / 0 / None / new()) and never
	stores to that field afterwards returns that constant whatever was written - legitimate only for the reviewed fields (this is exactly how
	ChannelConfig::accept_underpaying_htlcs was lost, section 10)"""
	import re as _re2
	out = []
	rows = set()
	nread = 0
	for name, r in F.fns.items():
		mm = _re2.match(r'^<(.*) as lightning::util::ser::(Readable|ReadableArgs|LengthReadable|MaybeReadable)>::(read|read_from_fixed_length_buffer)$', name)
		if not mm or 'ser_macros' in r['file'] or not r['file'].startswith('lightning'):
			continue
		nread += 1
		fam = F.family(name)
		written = set()
		fus = []
		for n in fam:
			try:
				fu = F.func(n)
			except AnchorMissing:
				continue
			fus.append(fu)
			for bi, si, st in fu.stmts():
				fl = [e for e in st[1][1:] if isinstance(e, str) and e.startswith('.')]
				if fl:
					written.add(fl[-1][1:].split('#')[0])
		for fu in fus:
			ex = None
			for bi, si, st in fu.stmts():
				rv = st[2]
				if rv[0] != 'agg' or rv[1] != 'adt' or not rv[5] or not norm(rv[2]).startswith('lightning') or any(str(x).isdigit() for x in rv[5]):
					continue
				ex = ex or Expr(fu, max_depth=6)
				for nm, o in zip(rv[5], rv[4]):
					if nm in written:
						continue
					e = ex.of_operand(o)
					es = expr_str(e)
					if e[0] == 'const' or _re2.match(r'^(Option::None\{\}|default\(\)|new\(\)|0|false|true)$', es) or (e[0] == 'call' and ((e[1] or '').endswith('::default') or (e[1] or '').endswith('::new')) and not e[2]):
						rows.add((norm(rv[2]).rsplit('::', 1)[-1] + '::' + str(rv[3]), nm, es[:30], fu.name, fu.line_of(bi)))
	bad = [x for x in rows if (x[0], x[1]) not in _READ_CONST_OK]
	for adt, nm, es, fn, line in sorted(bad):
		out.append(Result('12.m', False, 'read-as-constant:%s.%s' % (adt, nm), 'the hand-written reader %s sets %s.%s to the constant %s and never stores to it afterwards: whatever was written, it comes back as %s (not a reviewed transient field)' % (fn.split(' as ')[0].strip('<')[-60:], adt, nm, es, es), 1, where=F.where(fn, line)))
	ok = nread >= 150
	out.append(Result('12.m', ok, ('ok:' if ok else 'floor:') + 'hand-written-readers', '%d hand-written readers examined; %d constant-filled fields, %d of them reviewed' % (nread, len(rows), len(rows) - len(bad)), nread))
	return out

RULES.append(('12.m', 'no hand-written reader returns a constant for a persisted field (reviewed transient fields aside)', r12m))

def r12g(F):
	"""the serialized channel is the channel as it will be after the disconnect a restart implies: the writer drops
	peer-announced-but-uncommitted inbound HTLCs exactly as remove_uncommitted_htlcs_and_mark_paused does, and adjusts
	next_counterparty_htlc_id by the same count (sibling agreement)"""
	out = []
	wfn = W(L + 'ln::channel::FundedChannel')
	fu = F.func(wfn)
	ex = Expr(fu)
	found = []
	for b, ci in fu.calls():
		f = norm(ci.get('f') or '')
		if f.endswith('Writeable>::write') and ci['args']:
			e = ex.of_operand(ci['args'][0])
			if 'next_counterparty_htlc_id' in expr_str(e):
				found.append((b, e))
	if not found:
		out.append(Result('12.g', False, 'anchor:next_counterparty_htlc_id', 'FundedChannel::write no longer serializes next_counterparty_htlc_id'))
	for b, e in found:
		terms, k = linear(e)
		neg = [v for v, c in terms.items() if c == -1]
		ok = k == 0 and len(terms) == 2 and len(neg) == 1 and 'dropped' in neg[0]
		out.append(Result('12.g', ok, ('ok:' if ok else 'shape:') + 'written-htlc-id', 'FundedChannel::write serializes next_counterparty_htlc_id as %s (expected the counter minus the number of dropped remote-announced HTLCs)' % expr_str(e), 1, where=F.where(wfn, fu.line_of(b))))
	# the inbound HTLC count written is adjusted by the same variable
	cnt = []
	for b, ci in fu.calls():
		f = norm(ci.get('f') or '')
		if f.endswith('Writeable>::write') and ci['args']:
			e = ex.of_operand(ci['args'][0])
			t = expr_str(e)
			if 'pending_inbound_htlcs' in t and 'len(' in t:
				cnt.append((b, e))
	okc = any(any(c == -1 and 'dropped' in v for v, c in linear(e)[0].items()) for b, e in cnt)
	out.append(Result('12.g', okc, ('ok:' if okc else 'shape:') + 'written-inbound-count', 'the serialized inbound HTLC count is pending_inbound_htlcs.len() minus the dropped ones: %s' % [expr_str(e)[:80] for b, e in cnt], max(1, len(cnt)), where=F.where(wfn)))
	# sibling: the disconnect path
	dfn = L + 'ln::channel::FundedChannel::remove_uncommitted_htlcs_and_mark_paused'
	try:
		du = F.func(dfn)
	except AnchorMissing:
		dfn = L + 'ln::channel::ChannelContext::remove_uncommitted_htlcs_and_mark_paused'
		du = F.func(dfn)
	dex = Expr(du)
	ws = sites_field_write(du, 'next_counterparty_htlc_id')
	okd = False
	for b, si in ws:
		e = dex.of_rvalue(du.blocks[b]['s'][si][2])
		terms, k = linear(e)
		if k == 0 and any(c == -1 and 'drop' in v for v, c in terms.items()):
			okd = True
	out.append(Result('12.g', okd, ('ok:' if okd else 'shape:') + 'disconnect-htlc-id', 'remove_uncommitted_htlcs_and_mark_paused decrements next_counterparty_htlc_id by the dropped count', max(1, len(ws)), where=F.where(dfn)))
	# the inbound fee update: the writer keeps (for a fundee) exactly the state the reader restores, and drops the state the disconnect path drops
	vs = enum_variants(F, L + 'ln::channel::FeeUpdateState')
	kept = set()
	for sb, m, other in variant_switch_edges(fu, lambda pl: True, vs):
		if sb not in fu.reach([0]):
			continue
		if any(st[2][0] == 'disc' and 'pending_update_fee' in str(st[2]) for st in fu.blocks[sb]['s']) or any('pending_update_fee' in str(st) for st in fu.blocks[sb]['s']):
			kept |= {v for v, t in m.items() if t != other}
	# the same test written with `==` (possibly inside a closure of the writer)
	for wn in F.family(wfn):
		wu2 = F.func(wn)
		wex2 = Expr(wu2)
		for b, ci in wu2.calls():
			f = norm(ci.get('f') or ci.get('t') or '')
			if f.endswith('PartialEq>::eq') and 'FeeUpdateState' in f:
				for a in ci['args']:
					e = wex2.of_operand(a)
					while e[0] in ('ref', 'deref'):
						e = e[1]
					if e[0] == 'agg' and e[2] in vs:
						kept.add(e[2])
	rfn = '<lightning::ln::channel::FundedChannel as lightning::util::ser::ReadableArgs>::read'
	ru = F.func(rfn)
	restored = {ru.blocks[b]['s'][si][2][3] for b, si in sites_construct(ru, 'FeeUpdateState')} - {'Outbound'}
	dropped = set()
	for b, ci in du.calls():
		f = norm(ci.get('f') or ci.get('t') or '')
		if f.endswith('PartialEq>::eq') and 'FeeUpdateState' in f:
			for a in ci['args']:
				e = dex.of_operand(a)
				while e[0] in ('ref', 'deref'):
					e = e[1]
				if e[0] == 'agg' and e[2] in vs:
					dropped.add(e[2])
	okf = bool(kept) and kept == restored and not (kept & dropped) and bool(dropped)
	out.append(Result('12.g', okf, ('ok:' if okf else 'state:') + 'inbound-fee-update-kept-iff-committed', 'pending inbound update_fee: FundedChannel::write keeps it in state %s, the reader restores state %s, the disconnect path drops state %s (kept must equal restored and be disjoint from dropped: an update that is only announced is forgotten by both sides, a committed one must survive)' % (sorted(kept), sorted(restored), sorted(dropped)), len(kept) + len(restored) + len(dropped), where=F.where(wfn)))
	return out

RULES.append(('12.g', 'writer and disconnect path agree on dropping uncommitted inbound HTLCs and adjusting next_counterparty_htlc_id', r12g))


def r12c(F):
	"""every TLV read loop of the lightning crate (expansions of the TLV decode macros and hand-rolled equivalents)"""
	import tlvloop
	return tlvloop.check_tlv_loops(F, '12.c', lambda n: n.startswith('lightning::') or n.startswith('<lightning::') or n.startswith('<(lightning::') or n.startswith('<alloc::') or n.startswith('<core::'), floor=300, label='TLV read loops in the lightning crate')

RULES.append(('12.c', 'every TLV read loop: strictly increasing types, unknown-even rejected / odd skipped, records framed, drained and trailing bytes rejected', r12c))


# variants that are deliberately NOT restored as themselves: the writer stores the state as it will be after the disconnect a restart implies
LOSSY = {
	'lightning::ln::channel::ChannelUpdateStatus': {
		'DisabledStaged': ('Enabled', 'the last channel_update announced the channel as enabled; the staged disable is re-derived by the timer after load'),
		'EnabledStaged': ('Disabled', 'the last channel_update announced the channel as disabled; after load the timer must still re-announce it as enabled'),
	},
	'lightning::ln::channel::AnnouncementSigsState': {
		'MessageSent': ('NotSent', 'written as if just disconnected: announcement_signatures not known to be received are re-sent'),
		'Committed': ('NotSent', 'written as if just disconnected: announcement_signatures not known to be received are re-sent'),
	},
}

def r12h(F):
	"""hand-written one-byte enum codecs: reading what was written gives the variant back, except for the reviewed lossy variants, which
	come back as the stated canonical variant"""
	import enumcodec
	out = []
	decided = set()
	n_var = 0
	for adt, wn, w, rn, rt in enumcodec.codecs(F):
		short = adt.rsplit('::', 1)[-1]
		lossy = LOSSY.get(adt, {})
		probs = []
		resolved = 0
		for v, b in sorted(w.items()):
			got = rt.get(b)
			if not got:
				# the arm of the reader for this byte builds the value elsewhere (TLV macro closure): decided by 12.a, not here
				continue
			resolved += 1
			n_var += 1
			if v in lossy:
				canon = lossy[v][0]
				if canon not in got or w.get(canon) != b:
					probs.append('%s is written as %d and read back as %s (reviewed: must come back as %s - %s)' % (v, b, sorted(got), canon, lossy[v][1]))
			elif v not in got:
				probs.append('%s is written as %d and read back as %s' % (v, b, sorted(got)))
		if resolved == len(w):
			decided.add(adt)
		if resolved:
			ok = not probs
			out.append(Result('12.h', ok, ('ok:' if ok else 'codec:') + 'enum-byte-codec@' + short, '%s: byte written per variant %s agrees with the reader%s' % (short, dict(sorted(w.items())), '' if ok else ': ' + '; '.join(probs)), resolved, where=F.where(wn)))
	for adt in LOSSY:
		if adt not in decided:
			out.append(Result('12.h', False, 'anchor:lossy-codec@' + adt.rsplit('::', 1)[-1], 'the one-byte codec of %s is no longer recognised' % adt))
	if len(decided) < 14:
		out.append(Result('12.h', False, 'floor:enum-codecs', 'only %d fully resolved one-byte enum codecs (expected >= 14)' % len(decided), len(decided)))
	return out

RULES.append(('12.h', 'hand-written one-byte enum codecs: writer and reader tables agree; lossy variants come back as the reviewed canonical variant', r12h))


def _primary_local(e, depth=0):
	"""the user variable at the head of an Option / Result combinator chain (`a.or(b).unwrap_or(c)`, `a.map(f).unwrap_or_default()`, `a.ok_or(..)?`)"""
	if depth > 12:
		return None
	k = e[0]
	if k == 'local':
		return e[2]
	if k in ('ref', 'deref', 'cast', 'downcast'):
		return _primary_local(e[1], depth + 1)
	if k == 'field' and e[2] == '0':
		return _primary_local(e[1], depth + 1)
	if k == 'call' and e[2]:
		tail = (e[1] or '').rsplit('::', 1)[-1]
		if tail in ('or', 'or_else', 'unwrap_or', 'unwrap_or_else', 'unwrap_or_default', 'unwrap', 'expect', 'map', 'and_then', 'ok_or', 'ok_or_else', 'branch', 'into', 'from', 'clone', 'take', 'ok', 'map_err', 'flatten', 'filter', 'copied', 'cloned'):
			return _primary_local(e[2][0], depth + 1)
	return None

def r12i(F):
	"""hand-written TLV tables restore each value into the field it was written from: if type n is written from field X but the reader
	stores type n into another field Y, while X is restored from a different type and nothing writes Y, then Y does not survive a reload
	(the copy-paste-of-the-neighbouring-line defect). Writer/reader tables come from the un-expanded macros, the variable -> field map from MIR."""
	import tlv, collections
	out = []
	tables = tlv.load(F)
	pairs, left = tlv.build_pairs(tables)
	byfile = collections.defaultdict(list)
	for n, rec in F.fns.items():
		if '{closure' not in n:
			byfile[rec['file']].append((rec['lo'], rec['hi'], n))
	def fn_at(rel, line):
		best = None
		for lo, hi, n in byfile.get(rel, []):
			if lo <= line <= hi and (best is None or lo >= best[0]):
				best = (lo, hi, n)
		return best[2] if best else None
	PURE = re.compile(r'^[&*\s]*(?:\(\s*)?[&*\s]*([A-Za-z_][A-Za-z0-9_]*)((?:\s*\.\s*[A-Za-z_0-9]+)+)\s*\)?$')
	IDENT = re.compile(r'[A-Za-z_][A-Za-z0-9_]*')
	def wfield(src):
		m = PURE.match(src.strip())
		if not m:
			return None
		f = re.sub(r'\s+', '', m.group(2)).split('.')[-1]
		return None if f.isdigit() else f
	n_cells = 0
	for p in pairs:
		if len(p.writers) != 1 or len(p.readers) != 1:
			continue
		w, r = p.writers[0], p.readers[0]
		rfn = fn_at(r['rel'], r['line'])
		if not rfn:
			continue
		try:
			fams = [F.func(x) for x in F.family(rfn)]
		except AnchorMissing:
			continue
		feeds = collections.defaultdict(set)
		primary = {}
		for fu in fams:
			ex = Expr(fu)
			for bi, si, st in fu.stmts():
				rv = st[2]
				if rv[0] == 'agg' and rv[1] == 'adt' and len(rv) > 5 and rv[5] and not norm(rv[2]).startswith('core::'):
					for g, op in zip(rv[5], rv[4]):
						if not g.isdigit():
							e0 = ex.of_operand(op)
							for nm in expr_leaves(e0)['locals']:
								feeds[nm].add(g)
							pl = _primary_local(e0)
							if pl:
								primary.setdefault(g, set()).add(pl)
		wt = {n: f for n, f, k in tlv.entry_types(w)}
		rt = {n: [x for x in IDENT.findall(f) if x not in ('ref', 'mut')] for n, f, k in tlv.entry_types(r)}
		wfields = {wfield(src) for src in wt.values()} - {None}
		for n in wt:
			fw = wfield(wt[n])
			if n not in rt or fw is None:
				continue
			G = set()
			for v in rt[n]:
				G |= feeds.get(v, set())
			if not G:
				continue
			n_cells += 1
			elsewhere = [m2 for m2 in rt if m2 != n and any(fw in feeds.get(v, set()) for v in rt[m2])]
			if fw not in G and elsewhere:
				out.append(Result('12.i', False, 'wrong-source:%s:%s' % (p.name, n), '%s writes field `%s` under TLV type %s, but %s restores type %s into %s, while `%s` itself is restored from type %s: after a reload %s holds the value of `%s`' % (
					tlv.desc(w), fw, n, tlv.desc(r), n, sorted(G), fw, elsewhere, sorted(G), fw), 2, where='%s:%d' % (w['rel'], w['line'])))
		# (b) the PRIMARY source of a field that has a TLV type of its own is that type's variable: in `a.or(b).unwrap_or(c)` the head `a` decides
		# whenever it is present, `b` / `c` are fallbacks for old data.  A field whose head is the variable of ANOTHER field's type is overwritten with
		# that other field's value on every reload of current data, although its own value was written and read.
		own = {}
		for n in wt:
			fw = wfield(wt[n])
			if fw is not None and n in rt:
				own.setdefault(fw, set()).add(n)
		for g, heads in primary.items():
			if g not in own:
				continue
			for h in heads:
				src_types = [n2 for n2 in rt if h in rt[n2] and n2 in wt]
				for n2 in src_types:
					fx = wfield(wt[n2])
					if fx is None or fx == g or n2 in own[g]:
						continue
					if not any(h in rt[m] for m in own[g]):
						n_cells += 1
						out.append(Result('12.i', False, 'wrong-primary:%s:%s' % (p.name, g), '%s restores field `%s` primarily from the variable of TLV type %s, which %s writes from field `%s`; `%s` has its own type %s, which is read but only used as a fallback: after a reload of current data `%s` holds the value of `%s`' % (
							tlv.desc(r), g, n2, tlv.desc(w), fx, g, sorted(own[g]), g, fx), 2, where='%s:%d' % (r['rel'], r['line'])))
	if n_cells < 150:
		out.append(Result('12.i', False, 'floor:restored-field-cells', 'only %d (TLV type, written field, restored field) cells could be related (expected >= 150)' % n_cells, n_cells))
	if not out:
		out.append(Result('12.i', True, 'ok:written-field-is-restored-field', '%d TLV cells of hand-written tables: the field restored from a type is the field that was written under it' % n_cells, n_cells))
	return out

RULES.append(('12.i', 'hand-written TLV tables: each type is restored into the field it was written from (no value duplicated over a sibling field)', r12i))


def r12j(F):
	"""positional (pre-TLV) section of the ChannelManager: writer and reader pair slot by slot; a slot restored into a field is never a constant"""
	import positional
	return positional.check_constant_slots(F, '12.j', W(L + 'ln::channelmanager::ChannelManager'), '<lightning::ln::channelmanager::ChannelManagerData as lightning::util::ser::ReadableArgs>::read', 'ChannelManager', 10)

RULES.append(('12.j', 'ChannelManager positional section: slots pair by type; restored fields are not written as constants', r12j))


def r12k(F):
	"""legacy getter closures of TLV enum tables (`(n, field, (legacy, .., |us| ..))`) select on the variant only: a getter that also tests
	another field makes the persistence of its field conditional on that other field's current value"""
	out = []
	n = 0
	for name in sorted(F.fns):
		m = re.match(r'^<(lightning::[^ ]+) as lightning::util::ser::Writeable>::write::\{closure#\d+\}$', name)
		if not m:
			continue
		try:
			fu = F.func(name)
		except AnchorMissing:
			continue
		adt = m.group(1).rsplit('::', 1)[-1]
		live = fu.reach([0])
		discs = [(st[0], (fu.locals[st[2][1][0]].get('ty') or '') if all(x == '*' for x in st[2][1][1:]) else 'field %s' % place_str(st[2][1], fu)) for bi, si, st in fu.stmts() if st[2][0] == 'disc' and bi in live]
		own = [d for d in discs if adt in d[1] and not d[1].startswith('field ')]
		if not own:
			continue
		n += 1
		other = [d for d in discs if d not in own]
		ok = not other
		if not ok or n <= 40:
			out.append(Result('12.k', ok, ('ok:' if ok else 'conditional:') + 'getter-selects-variant-only@%s%s' % (adt, name[name.rindex('::'):]), '%s writer getter %s tests only the variant%s' % (adt, name[name.rindex('::') + 2:], '' if ok else '; it also tests %s (line %s): the field it returns is dropped from the serialization whenever that other field has the "wrong" value' % ([o[1][:60] for o in other], other[0][0])), len(discs), where=F.where(name)))
	if n < 10:
		out.append(Result('12.k', False, 'floor:legacy-getters', 'only %d legacy getter closures found (expected >= 10)' % n, n))
	return out

RULES.append(('12.k', 'TLV enum legacy getters select on the variant only', r12k))
RULES.append(('12.o', 'hand-written eq / cmp / partial_cmp / hash impls (the library\'s own equality of monitors, claim packages, commitment transactions, graph entries): same field on both sides, reviewed direction, no reviewed key lost, hash within eq (rules/ordimpls.py)', lambda F: ordimpls.for_property(F, 'C12', '12.o')))
RULES.append(('12.G', 'guard census: no reviewed call of a workspace function and no reviewed mutation of a stored collection gained a controlling branch condition (an added `&& cond`, early return / continue, more specific match arm in front of an act); counts per call site, name free (rules/guards.py)', lambda F: guards.for_property(F, 'C12', '12.G')))
RULES.append(('12.I', 'parse-position independence: in every function reading from a reader, no stream read is skipped under a condition computed from local state (self, another argument) while parsing goes on - the bytes a persisted-object reader consumes depend on the stored bytes alone (rules/parsepos.py)', lambda F: parsepos.rule(F, '12.I', lambda n, r: re.search(r'lightning/src/', r['file']) is not None and 'ser_macros' not in r['file'], 40, 400)))
RULES.append(('12.K', 'constant census of linear forms: every comparison (normalised to sum >= K over name-free atoms, a comparison and its negation being one form) and every maximal arithmetic expression of a reviewed function keeps its coefficients and its constant - a dropped or added `+ 1` / `- 1`, `<` for `<=` inside a computed bound, a scale factor applied twice or not at all, swapped operands of a comparison (rules/linforms.py; shapes that appear or disappear are not judged, the guard / arithmetic censuses judge those)', lambda F: linforms.for_property(F, 'C12', '12.K')))
