"""C11 - on-chain conclusions depend only on the chain, not on how it was delivered (structural part)."""
from engine import *
import linforms
import provenance
import guards
import arith
import writes
import mutations
import accessors
import json
import chainrules

MONP = 'lightning::chain::channelmonitor::'
MON = MONP + 'ChannelMonitorImpl::'
CMON = MONP + 'ChannelMonitor::'
OTX = 'lightning::chain::onchaintx::OnchainTxHandler::'
CM = 'lightning::ln::channelmanager::ChannelManager::'
CH = 'lightning::ln::channel::'
FC = CH + 'FundedChannel::'
CC = CH + 'ChannelContext::'

EXPLANATION = ('Funnel, census, comparison-shape and sibling-agreement rules over chain::channelmonitor, chain::onchaintx, chain::chainmonitor, ln::channel and ln::channelmanager: every '
	'chain::Listen / chain::Confirm method of ChannelMonitor, ChainMonitor and ChannelManager funnels into the same internal routines as its sibling (block_connected = transactions_confirmed '
	'+ best_block_updated; one block_confirmed); irrevocable conclusions (funding_spend_confirmed, htlcs_resolved_on_chain, spendable_txids_confirmed, Event::SpendableOutputs, on-chain '
	'HTLC fail-back) are produced only inside the loop over the events selected by has_reached_confirmation_threshold; the threshold is height + ANTI_REORG_DELAY - 1 and is reached iff '
	'best height >= threshold, identically in the monitor and the claim handler; the three retraction entry points drop exactly the events above the new tip, the claim handler uses the '
	'complementary boundary and receives the same height; re-delivered transactions are skipped by the already-seen tests and the best block only advances; manager side: channel_ready '
	'needs confirmations >= minimum_depth with confirmations = height - conf_height + 1, a funding reorg below depth closes. Also: every open-coded comparison built from ANTI_REORG_DELAY (the restart-time replay) is equivalent to the confirmation threshold. Decides these shapes on all paths; equality of final states '
	'across delivery styles (a relation between two runs) is not decided.')
ASSUMPTIONS = ['callers honour the Listen / Confirm contracts (documented call order)']

def r11a(F):
	out = []
	out += P1_who_may_call(F, '11.a', [MON + 'block_confirmed'], [MON + 'transactions_confirmed', MON + 'best_block_updated'], floor=2)
	out += P1_who_may_call(F, '11.a', [MON + 'transactions_confirmed'], [MON + 'block_connected', CMON + 'transactions_confirmed'], floor=2)
	out += P1_who_may_call(F, '11.a', [MON + 'best_block_updated'], [CMON + 'best_block_updated'], floor=1)
	out += P1_who_may_call(F, '11.a', [MON + 'blocks_disconnected'], [CMON + 'blocks_disconnected'], floor=1)
	out += P1_who_may_call(F, '11.a', [MON + 'transaction_unconfirmed'], [CMON + 'transaction_unconfirmed'], floor=1)
	# block_connected == transactions_confirmed (which ends in block_confirmed, as best_block_updated does)
	bc = F.func(MON + 'block_connected')
	ra = ret_assignments(bc)
	ok = any(c[0] == 'call' and (c[1] or '') == F.fn(MON + 'transactions_confirmed') for b, s, c in ra)
	out.append(Result('11.a', ok, ('ok:' if ok else 'shape:') + 'block_connected-delegates', 'ChannelMonitorImpl::block_connected returns transactions_confirmed(..) (whole blocks and filtered transactions share one path)', 1, where=F.where(bc.name)))
	tc = F.func(MON + 'transactions_confirmed')
	bcf = set(sites_call(tc, [MON + 'block_confirmed']))
	out += P5_must_pass(F, '11.a', tc, [0], tc.return_blocks(), bcf, 'block_confirmed at the end of transactions_confirmed')
	# transactions_confirmed moves the best block forward when the block is above it (so a later best_block_updated for the same block is a no-op)
	# ChainMonitor / ChannelManager / monitor tuple: each trait method reaches exactly its counterpart
	IMPLS = [
		('<lightning::chain::chainmonitor::ChainMonitor as lightning::chain::Listen>::filtered_block_connected', {CMON + 'block_connected'}),
		('<lightning::chain::chainmonitor::ChainMonitor as lightning::chain::Listen>::blocks_disconnected', {CMON + 'blocks_disconnected'}),
		('<lightning::chain::chainmonitor::ChainMonitor as lightning::chain::Confirm>::transactions_confirmed', {CMON + 'transactions_confirmed'}),
		('<lightning::chain::chainmonitor::ChainMonitor as lightning::chain::Confirm>::transaction_unconfirmed', {CMON + 'transaction_unconfirmed'}),
		('<lightning::chain::chainmonitor::ChainMonitor as lightning::chain::Confirm>::best_block_updated', {CMON + 'best_block_updated'}),
		('<(lightning::chain::channelmonitor::ChannelMonitor, T, F, L) as lightning::chain::Listen>::filtered_block_connected', {CMON + 'block_connected'}),
		('<(lightning::chain::channelmonitor::ChannelMonitor, T, F, L) as lightning::chain::Listen>::blocks_disconnected', {CMON + 'blocks_disconnected'}),
		('lightning::chain::channelmonitor::<impl lightning::chain::Confirm for (M, T, F, L)>::transactions_confirmed', {CMON + 'transactions_confirmed'}),
		('lightning::chain::channelmonitor::<impl lightning::chain::Confirm for (M, T, F, L)>::transaction_unconfirmed', {CMON + 'transaction_unconfirmed'}),
		('lightning::chain::channelmonitor::<impl lightning::chain::Confirm for (M, T, F, L)>::best_block_updated', {CMON + 'best_block_updated'}),
	]
	MUT = {CMON + x for x in ('block_connected', 'blocks_disconnected', 'transactions_confirmed', 'transaction_unconfirmed', 'best_block_updated')}
	F.calls
	for impl, want in IMPLS:
		if not F.has_fn(impl):
			out.append(Result('11.a', False, 'anchor:' + impl[-60:], 'anchor missing: %s' % impl))
			continue
		got = set()
		for n in F.family(impl):
			for rec in F.callees_of.get(n, []):
				if rec[1] in {F.fn(m) for m in MUT}:
					got.add(rec[1])
		wn = {F.fn(w) for w in want}
		ok = got == wn
		out.append(Result('11.a', ok, ('ok:' if ok else 'funnel:') + impl.split(' as ')[-1][-70:] + '@' + impl[1:40], '%s reaches the monitor through %s (expected %s)' % (impl[-80:], sorted(x.rsplit('::', 1)[-1] for x in got), sorted(x.rsplit('::', 1)[-1] for x in wn)), len(got) + 1, where=F.where(impl)))
	# ChannelManager: Listen::filtered_block_connected == Confirm::transactions_confirmed + Confirm::best_block_updated; everything goes through do_chain_event
	L = '<lightning::ln::channelmanager::ChannelManager as lightning::chain::Listen>::'
	C = '<lightning::ln::channelmanager::ChannelManager as lightning::chain::Confirm>::'
	fb = F.func(L + 'filtered_block_connected')
	tcb = set(sites_call(fb, [C + 'transactions_confirmed']))
	bbb = set(sites_call(fb, [C + 'best_block_updated']))
	ok = len(tcb) == 1 and len(bbb) == 1 and bool(fb.reach([s for b in tcb for s in fb.succ(b)]) & bbb)
	out.append(Result('11.a', ok, ('ok:' if ok else 'funnel:') + 'manager-block-connected', 'ChannelManager::filtered_block_connected = transactions_confirmed followed by best_block_updated', 2, where=F.where(fb.name)))
	# the only condition the best_block_updated call depends on is the rescan test (same hash and height as the current best block)
	for b in bbb:
		cs = control_conds(fb, b)
		# parameters: self, header, txdata, height - the tip must advance whatever the block contains
		tx_param = fb.local_name(3) or 'arg3'
		bad = [k for sb, k, ln in cs if re.search(r'\b%s\b' % re.escape(tx_param), k)]
		out.append(Result('11.a', not bad, ('ok:' if not bad else 'filter:') + 'manager-best-block-unconditional', 'in filtered_block_connected the best_block_updated call does not depend on the block contents (conditions: %s)%s' % ([k for sb, k, ln in cs], '' if not bad else '; depends on the transaction data: %s' % bad), len(cs) + 1, where=F.where(fb.name, fb.line_of(b))))
	direct = fb.call_blocks(lambda p: p.startswith(FC) or p.endswith('::do_chain_event'))
	out.append(Result('11.a', not direct, ('ok:' if not direct else 'funnel:') + 'manager-block-connected-no-shortcut', 'filtered_block_connected touches channels only through the two Confirm methods', len(direct) + 1, where=F.where(fb.name)))
	for m, chan_calls in ((C + 'transactions_confirmed', {'transactions_confirmed', 'best_block_updated'}), (C + 'best_block_updated', {'best_block_updated'}), (L + 'blocks_disconnected', {'best_block_updated'}), (C + 'transaction_unconfirmed', {'transaction_unconfirmed'})):
		got = set()
		dce = False
		for n in F.family(m):
			for rec in F.callees_of.get(n, []):
				if rec[1].startswith(FC) and rec[1].rsplit('::', 1)[-1] in ('transactions_confirmed', 'best_block_updated', 'transaction_unconfirmed'):
					got.add(rec[1].rsplit('::', 1)[-1])
				if rec[1] == F.fn(CM + 'do_chain_event'):
					dce = True
		ok = got == chan_calls and dce
		out.append(Result('11.a', ok, ('ok:' if ok else 'funnel:') + 'manager@' + m.rsplit('::', 1)[-1] + ('-listen' if m.startswith(L) else ''), 'ChannelManager %s drives channels through do_chain_event with FundedChannel::%s (found %s, do_chain_event %s)' % (m.rsplit('::', 1)[-1], sorted(chan_calls), sorted(got), dce), len(got) + 1, where=F.where(m)))
	out += P1_who_may_call(F, '11.a', [CM + 'do_chain_event'], [C + 'transactions_confirmed', C + 'best_block_updated', L + 'blocks_disconnected', C + 'transaction_unconfirmed'], floor=5)
	return out

def r11b(F):
	out = []
	fn = MON + 'block_confirmed'
	fu = F.func(fn)
	ex = Expr(fu)
	# the partition predicate is has_reached_confirmation_threshold
	part = fu.call_blocks(lambda p: p.endswith('Iterator::partition'))
	okp = False
	for n in F.family(fn):
		if n != fu.name:
			f2 = F.func(n)
			if sites_call(f2, [MONP + 'OnchainEventEntry::has_reached_confirmation_threshold']):
				ra = ret_assignments(f2)
				okp = any(c[0] == 'call' and (c[1] or '').endswith('has_reached_confirmation_threshold') for b, s, c in ra)
	out.append(Result('11.b', bool(part) and okp, ('ok:' if part and okp else 'shape:') + 'partition-by-threshold', 'block_confirmed splits the awaiting events with partition(|e| e.has_reached_confirmation_threshold(best_block))', len(part) + 1, where=F.where(fn)))
	# the maturation loop iterates over the first half of that partition
	heads = loop_heads(fu)
	mat_heads = []
	for h in heads:
		recv = ex.of_operand(fu.blocks[h]['t'][2]['args'][0])
		s = expr_str(recv)
		if 'partition' in s and ('.0' in s):
			# (partition(..)).0 is the matured half
			k = leaf_key(recv)
			if re.search(r'partition\(.*\)\.0', k) or '.0' in k:
				mat_heads.append(h)
	if len(mat_heads) != 1:
		return out + [Result('11.b', False, 'anchor:maturation-loop', 'block_confirmed: the loop over the events that reached their threshold was not found (%d candidates)' % len(mat_heads), len(heads), where=F.where(fn))]
	h = mat_heads[0]
	body = fu.reach([h]) & fu.reach_back([h])
	# irrevocable acts
	acts = {}
	for fld in ('funding_spend_confirmed', 'confirmed_commitment_tx_counterparty_output'):
		acts[fld] = {b for b, s in sites_field_write(fu, fld)}
	for fld in ('htlcs_resolved_on_chain', 'spendable_txids_confirmed'):
		bs = set()
		for b in fu.call_blocks(lambda p: p == 'alloc::vec::Vec::push'):
			r = ex.of_operand(fu.blocks[b]['t'][2]['args'][0])
			while r[0] in ('ref', 'deref'):
				r = r[1]
			if r[0] == 'field' and r[2] == fld:
				bs.add(b)
		acts[fld] = bs
	acts['Event::SpendableOutputs'] = {b for b, s in sites_construct(fu, 'Event', 'SpendableOutputs')}
	for k, bs in acts.items():
		if not bs:
			out.append(Result('11.b', False, 'anchor:act:' + k, 'block_confirmed no longer produces %s' % k, where=F.where(fn)))
			continue
		outside = [b for b in bs if b not in body]
		out.append(Result('11.b', not outside, ('ok:' if not outside else 'premature:') + k, '%s is produced only inside the loop over matured events (%d site(s))' % (k, len(bs)) if not outside else '%s is produced outside the matured-events loop (line %s): an irrevocable conclusion without the anti-reorg depth' % (k, [fu.line_of(b) for b in outside]), len(bs), where=F.where(fn, fu.line_of(sorted(bs)[0]))))
	# census: these fields are written nowhere else
	out += P3_field_census(F, '11.b', MON.rstrip(':') + '.funding_spend_confirmed', [MON + 'block_confirmed', MONP + 'ChannelMonitor::new', MONP + '<impl lightning::util::ser::ReadableArgs for (lightning::chain::BlockLocator, lightning::chain::channelmonitor::ChannelMonitor)>::read'], floor=1)
	for fld in ('htlcs_resolved_on_chain', 'spendable_txids_confirmed'):
		key = F.field(MON.rstrip(':') + '.' + fld)
		writers = {root_fn(fnn) for fnn, k, line in F.fieldacc[key] if k.split(':')[0] in ('bm', 'bmi', 'w', 'wi') and (k.partition(':')[2].rsplit('::', 1)[-1] in ('push', 'insert', 'extend', '') )}
		allowed = {F.fn(MON + 'block_confirmed')}
		if fld == 'htlcs_resolved_on_chain':
			# late counterparty-commitment update applied after the funding spend already MATURED: immediate resolution is allowed
			# only on the Some edge of funding_spend_confirmed (itself written only at maturity, census above)
			late = MON + 'fail_htlcs_from_update_after_funding_spend'
			if F.has_fn(late) and F.fn(late) in writers:
				allowed.add(F.fn(late))
				lf = F.func(late)
				exl = Expr(lf)
				pb = set()
				for b in lf.call_blocks(lambda p: p == 'alloc::vec::Vec::push'):
					r = exl.of_operand(lf.blocks[b]['t'][2]['args'][0])
					while r[0] in ('ref', 'deref'):
						r = r[1]
					if r[0] == 'field' and r[2] == fld:
						pb.add(b)
				pd = place_decisions(lf, lambda pl: 'funding_spend_confirmed' in place_fields(pl), 'option')
				out += P4_guarded(F, '11.b', lf, pb, pd, True, 'funding_spend_confirmed is Some (spend already matured)', key='late-update-needs-matured-spend')
		bad = sorted(w for w in writers if w not in allowed and not w.endswith('::read') and not w.endswith('::new'))
		out.append(Result('11.b', not bad and bool(writers), ('ok:' if not bad and writers else 'writer:') + fld, '%s grows only in block_confirmed%s' % (fld, '' if not bad else ' - also in %s' % bad), len(writers)))
	# HTLC fail-back events (preimage None): matured loop or the reviewed near-expiry rule for closed channels (see C02.f)
	hb = {b for b, s in sites_construct(fu, 'HTLCUpdate', 'HTLCUpdate')}
	inside = [b for b in hb if b in body]
	out.append(Result('11.b', len(inside) >= 1, ('ok:' if inside else 'shape:') + 'htlc-failback-matured', 'an on-chain HTLC failure is reported upstream from the matured-events loop (%d of %d HTLCUpdate constructions in block_confirmed)' % (len(inside), len(hb)), len(hb), where=F.where(fn)))
	return out

def r11c(F):
	out = chainrules.threshold_shape(F, '11.c')
	out += [r for r in chainrules.restart_replay_guard(F, '11.c') if 'open-coded-maturity' not in r.key]
	return out

def r11d(F):
	out = chainrules.reorg_boundary(F, '11.d')
	# each retraction resets the monitor's best block
	for fn, label in ((MON + 'blocks_disconnected', 'blocks_disconnected'), (MON + 'best_block_updated', 'best_block_updated')):
		fu = F.func(fn)
		w = {b for b, s in sites_field_write(fu, 'best_block')} | set(fu.call_blocks(lambda p: p.endswith('BlockLocator::update_for_new_tip')))
		out.append(Result('11.d', bool(w), ('ok:' if w else 'shape:') + 'best-block-reset@' + label, 'ChannelMonitor %s updates best_block (%d site(s))' % (label, len(w)), len(w), where=F.where(fu.name)))
	fu = F.func(MON + 'blocks_disconnected')
	w = {b for b, s in sites_field_write(fu, 'best_block')}
	if w:
		out += P5_must_pass(F, '11.d', fu, [0], fu.return_blocks(), w, 'best_block = fork_point on every path of blocks_disconnected')
	# the manager's blocks_disconnected feeds the channels the fork point height
	return out

def r11e(F):
	out = []
	fn = MON + 'transactions_confirmed'
	fu = F.func(fn)
	ex = Expr(fu)
	# per-transaction processing = the spend checks; guarded by the already-seen tests
	acts = set(sites_call(fu, [MON + 'check_spend_counterparty_transaction', MON + 'check_spend_holder_transaction', MON + 'check_spend_counterparty_htlc', MON + 'is_resolving_htlc_output', MON + 'check_tx_and_push_spendable_outputs']))
	if len(acts) < 4:
		return [Result('11.e', False, 'anchor:per-tx-processing', 'transactions_confirmed: per-transaction processing calls not found (%d)' % len(acts), where=F.where(fn))]
	seen = {}
	for b, ci in fu.calls():
		f = norm(ci.get('t') or ci.get('f') or '')
		if f.endswith('PartialEq::eq') or f.endswith('PartialEq::ne'):
			fl = set()
			for a in ci['args']:
				fl |= expr_leaves(ex.of_operand(a))['fields']
			for key in ('funding_spend_confirmed', 'onchain_events_awaiting_threshold_conf', 'htlcs_resolved_on_chain', 'spendable_txids_confirmed'):
				if key in fl:
					seen.setdefault(key, []).append((b, f.endswith('::ne')))
	for key in ('funding_spend_confirmed', 'onchain_events_awaiting_threshold_conf', 'htlcs_resolved_on_chain', 'spendable_txids_confirmed'):
		if key not in seen:
			out.append(Result('11.e', False, 'guard:already-seen:' + key, 'transactions_confirmed no longer skips a transaction already recorded in %s (a re-delivered block would be processed twice)' % key, 0, where=F.where(fn)))
			continue
		ds = []
		for b, is_ne in seen[key]:
			ds += call_decisions(fu, [b], 'bool', neg=is_ne)
		# when the txid matches (true), the rest of THIS transaction's processing is skipped: control goes back to the head of the
		# per-transaction loop (the innermost loop containing all the processing calls) without reaching any of them - inner scanning
		# loops are not stop points, so falling back into the scan and out of it again is seen
		heads = loop_heads(fu)
		bodies = {h: (fu.reach([h]) & fu.reach_back([h])) for h in heads}
		outer = [h for h in heads if acts <= bodies[h]]
		if not outer:
			out.append(Result('11.e', False, 'anchor:tx-loop', 'transactions_confirmed: no loop contains all per-transaction processing calls', where=F.where(fn)))
			continue
		tx_head = min(outer, key=lambda h: len(bodies[h]))
		res = P4_fail_blocks(F, '11.e', fu, acts, ds, False, 'txid not already in ' + key, key='already-seen:' + key, stop_blocks={tx_head})
		out += res
	# best block only advances
	bb = F.func(MON + 'best_block_updated')
	gs = [Guard(bb, c) for c in comparisons(bb)]
	hs = [g for g in gs if any('best_block.height' in v for v in g.nf[0])]
	upd = set(bb.call_blocks(lambda p: p.endswith('BlockLocator::update_for_new_tip')))
	if len(hs) != 1 or not upd:
		out.append(Result('11.e', False, 'guard:tip-advances', 'best_block_updated: the `height > best_block.height` test / update_for_new_tip was not found', len(gs), where=F.where(bb.name)))
	else:
		g = hs[0]
		o = g.oriented(r'^height$')
		ok = o is not None and (o[1], o[2]) in (('Gt', 0), ('Ge', 1))
		out.append(Result('11.e', ok, ('ok:' if ok else 'shape:') + 'tip-advances', 'best_block_updated advances the tip iff `%s` (expected height - best_block.height > 0; an equal-height different hash is a reorg, the same block again is a no-op)' % (cmp_str(o) if o else g.text()), 1, where=F.where(bb.name, g.line)))
		out += P4_guarded(F, '11.e', bb, upd, g.decisions, True, 'new height above the best block', key='tip-advances-guard')
		# the reorg arm is taken only when the hash differs
		rt = set(bb.call_blocks(lambda p: p.endswith('Vec::retain')))
		sel = []
		exb = Expr(bb)
		for b, ci in bb.calls():
			f = norm(ci.get('t') or ci.get('f') or '')
			if f.endswith('PartialEq::ne') or f.endswith('PartialEq::eq'):
				fl = set()
				for a in ci['args']:
					fl |= expr_leaves(exb.of_operand(a))['fields']
				if 'block_hash' in fl:
					sel.append((b, f.endswith('::ne')))
		ds = []
		for b, is_ne in sel:
			ds += call_decisions(bb, [b], 'bool', neg=not is_ne)
		if rt and ds:
			out += P4_guarded(F, '11.e', bb, rt, ds, True, 'block hash differs from the best block', key='reorg-arm-needs-new-hash')
		else:
			out.append(Result('11.e', False, 'guard:reorg-arm', 'best_block_updated: the same-height reorg arm (hash comparison + retain) was not found', where=F.where(bb.name)))
	# transactions_confirmed also advances the best block when the block is above it
	tcw = set(fu.call_blocks(lambda p: p.endswith('BlockLocator::update_for_new_tip'))) | {b for b, s in sites_field_write(fu, 'best_block')}
	out.append(Result('11.e', bool(tcw), ('ok:' if tcw else 'shape:') + 'transactions-first-advances-tip', 'transactions_confirmed advances the best block for a block above it (transactions-first delivery reaches the same height bookkeeping)', len(tcw), where=F.where(fn)))
	return out

def r11f(F):
	out = []
	# depth test: confirmations = height - conf_height + 1 >= minimum_depth
	fn = CC + 'check_funding_meets_minimum_depth'
	fu = F.func(fn)
	gs = [Guard(fu, c) for c in comparisons(fu)]
	ds_ = [g for g in gs if any('funding_tx_confirmation_height' in v for v in g.nf[0]) and any('minimum_depth' in v for v in g.nf[0])]
	if len(ds_) != 1:
		out.append(Result('11.f', False, 'guard:min-depth', 'check_funding_meets_minimum_depth: expected one comparison of confirmations with minimum_depth, found %s' % [g.text() for g in gs], len(gs), where=F.where(fn)))
	else:
		g = ds_[0]
		o = g.oriented(r'^height$')
		# height - conf_height - min_depth < -1   (i.e. height - conf_height + 1 < min_depth) => false
		ok = o is not None and (o[1], o[2]) in (('Lt', -1), ('Le', -2)) and len(o[0]) == 3
		out.append(Result('11.f', ok, ('ok:' if ok else 'shape:') + 'min-depth', 'funding is too shallow iff `%s` (expected height - conf_height + 1 < minimum_depth)' % (cmp_str(o) if o else g.text()), 1, where=F.where(fn, g.line)))
		# true return only past it
		trues = {bi for bi, si, s in fu.stmts() if s[1] == [0] and s[2][0] == 'use' and s[2][1][0] == 'k' and s[2][1][1].get('v') == 1}
		zc = [g2 for g2 in gs if g2.op == 'Eq' and any('minimum_depth' in v for v in g2.nf[0]) and len(g2.nf[0]) == 1 and g2.nf[2] == 0]
		ex_edges = []
		for g2 in zc:
			for d in g2.decisions:
				ex_edges += d.true_edges
		out += P4_guarded(F, '11.f', fu, trues, g.decisions, False, 'enough confirmations (or a zero-conf channel)', key='min-depth-guard', exempt_edges=ex_edges)
	# channel_ready only behind it
	cg = F.func(FC + 'check_get_channel_ready')
	somes = set(ok_return_blocks(cg, variants=('Some',))) | {bi for bi, si, c in ret_assignments(cg) if c[0] == 'call'}
	cb = sites_call(cg, [FC + 'check_funding_meets_minimum_depth', CC + 'check_funding_meets_minimum_depth'])
	if not cb:
		out.append(Result('11.f', False, 'guard:channel-ready-depth', 'check_get_channel_ready no longer consults check_funding_meets_minimum_depth', where=F.where(cg.name)))
	else:
		acts = set(sites_call(cg, [FC + 'get_channel_ready'])) | {b for b in somes}
		out += P4_guarded(F, '11.f', cg, acts, call_decisions(cg, cb, 'bool'), True, 'funding meets minimum depth', key='channel-ready-depth')
	# funding reorg handling exists on every retraction path: transaction_unconfirmed / best_block_updated(do_best_block_updated)
	tu = F.func(FC + 'transaction_unconfirmed')
	w0 = {b for b, s in sites_field_write(tu, 'funding_tx_confirmation_height')}
	out.append(Result('11.f', bool(w0) or bool(sites_call(tu, [FC + 'do_best_block_updated'])), ('ok:' if w0 or sites_call(tu, [FC + 'do_best_block_updated']) else 'shape:') + 'unconfirm-resets-height', 'FundedChannel::transaction_unconfirmed clears the funding confirmation height / re-evaluates through do_best_block_updated', len(w0) + 1, where=F.where(tu.name)))
	db = F.func(FC + 'do_best_block_updated')
	cl = {b for b, s in sites_construct(db, 'ClosureReason', 'ProcessingError')} | set(err_return_blocks(db))
	gsd = [Guard(db, c) for c in comparisons(db)]
	okr = any('funding_tx_confirmation_height' in g.text() or 'funding_tx_confirmations' in g.text() for g in gsd) or bool(sites_call(db, [CH + 'FundingScope::get_funding_tx_confirmations']))
	out.append(Result('11.f', okr and bool(cl), ('ok:' if okr and cl else 'shape:') + 'funding-reorg-closes', 'do_best_block_updated compares the funding confirmations after a reorg and has a closing exit (%d error exits)' % len(cl), len(cl), where=F.where(db.name)))
	# confirmations arithmetic of the FundingScope accessor agrees: height - conf_height + 1, 0 when unconfirmed
	gf = F.func(CH + 'FundingScope::get_funding_tx_confirmations')
	okc = False
	for n in F.family(gf.name):
		f2 = F.func(n)
		e2 = Expr(f2)
		for bi, si, s in f2.stmts():
			if s[2][0] == 'bin' and s[2][1].startswith('Add'):
				t, k = linear(e2.of_rvalue(s[2]))
				if k == 1:
					okc = True
	cs = gf.call_blocks(lambda p: p.endswith('checked_sub'))
	out.append(Result('11.f', okc and bool(cs), ('ok:' if okc and cs else 'shape:') + 'confirmations-accessor', 'get_funding_tx_confirmations = height.checked_sub(conf_height) + 1 (0 when unconfirmed)', 2, where=F.where(gf.name)))
	return out

def r11g(F):
	"""effects are attached to the height of the transaction that caused them, and retraction does not depend on channel state"""
	out = []
	# (i) a preimage learnt while the commitment's confirmation is still maturing: the claim carries the commitment's confirmation
	#     height (not None / the current tip), so that a reorg above that block does not drop it
	fn = MON + 'provide_payment_preimage'
	hit = None
	for n in F.family(fn):
		if n == F.fn(fn):
			continue
		fu = F.func(n)
		vs = enum_variants(F, MONP + 'OnchainEvent')
		sw = [x for x in variant_switch_edges(fu, lambda pl: True, vs) if 'FundingSpendConfirmation' in x[1]]
		if sw:
			hit = (fu, sw[0])
	if hit is None:
		out.append(Result('11.g', False, 'anchor:pending-spend-lookup', 'provide_payment_preimage no longer looks for a pending FundingSpendConfirmation', where=F.where(F.fn(fn))))
	else:
		fu, (sb, m, other) = hit
		ex = Expr(fu)
		arm = fu.reach([m['FundingSpendConfirmation']], removed_blocks={sb, other} | {t for v, t in m.items() if v != 'FundingSpendConfirmation'})
		ok = False
		seen = []
		for bi, si, s in fu.stmts():
			if bi in arm and s[1] == [0] and s[2][0] == 'agg' and s[2][3] == 'Some':
				e = ex.of_rvalue(s[2])
				t = e[3][0]
				if t[0] == 'agg' and len(t[3]) == 2:
					h = t[3][1]
					seen.append(expr_str(h)[:60])
					ok = h[0] == 'agg' and h[2] == 'Some' and 'height' in expr_leaves(h)['fields']
		out.append(Result('11.g', ok, ('ok:' if ok else 'height:') + 'pending-spend-height', 'for a funding spend still awaiting its threshold, provide_payment_preimage uses (txid, Some(event.height)) - the claim is tied to the block of the commitment transaction (found %s)' % seen, len(seen), where=F.where(fu.name)))
	# and that height is what the claim builders receive
	pf = F.func(fn)
	exf = Expr(pf)
	okh = True
	cps = sites_call(pf, [MON + 'get_counterparty_output_claims_for_preimage'])
	for b in cps:
		a = exf.of_operand(pf.blocks[b]['t'][2]['args'][-1])
		if 'confirmed_spend' not in leaf_key(a) and 'height' not in leaf_key(a) and '.1' not in leaf_key(a):
			okh = False
	out.append(Result('11.g', okh and bool(cps), ('ok:' if okh and cps else 'height:') + 'height-reaches-claim-builder', 'the confirmation height of the spend is passed to get_counterparty_output_claims_for_preimage (%d call(s))' % len(cps), len(cps), where=F.where(pf.name)))
	# (ii) manager side: when the funding has no confirmations left, the confirmation bookkeeping is cleared whatever the channel state
	db = F.func(FC + 'do_best_block_updated')
	ws = sorted({b for b, s in sites_field_write(db, 'funding_tx_confirmation_height')})
	exd = Expr(db)
	zero = []
	for b in ws:
		for s in db.blocks[b]['s']:
			fl = place_fields(s[1])
			if fl and fl[-1] == 'funding_tx_confirmation_height' and s[2][0] == 'use' and s[2][1][0] == 'k' and s[2][1][1].get('v') == 0:
				zero.append(b)
	if not zero:
		out.append(Result('11.g', False, 'anchor:confirmation-height-reset', 'do_best_block_updated no longer resets funding_tx_confirmation_height to 0', where=F.where(db.name)))
	else:
		first = min(zero, key=lambda b: db.line_of(b))
		conds = control_conds(db, first)
		bad = [k for sb, k, ln in conds if re.search(r'channel_state|is_our_channel_ready|funding_tx_confirmed_in|is_some\(', k)]
		need = [k for sb, k, ln in conds if 'get_funding_tx_confirmations' in k or 'funding_tx_confirmations' in k]
		ok = not bad and bool(need)
		out.append(Result('11.g', ok, ('ok:' if ok else 'state-dependent:') + 'reset-independent-of-channel-state', 'the funding confirmation height / SCID / block hash are cleared whenever the funding has 0 confirmations, independently of whether channel_ready was already sent (conditions: %s)%s' % ([k[:50] for sb, k, ln in conds], '' if not bad else '; depends on channel state: %s - a channel still waiting for its depth keeps a stale height after the funding is reorged out and later sends channel_ready for a transaction that is not in the chain' % [b[:60] for b in bad]), len(conds) + 1, where=F.where(db.name, db.line_of(first))))
	return out

def r11h(F):
	"""(i) the "funding not confirmed yet" test of check_for_funding_tx_confirmed reads a field that EVERY retraction site clears (the main
	funding and each pending splice candidate): otherwise a transaction reorganised out and confirmed again in the competing chain is never
	recognised again; (ii) the confirmation bookkeeping of a funding scope, including the raised depth of a coinbase funding, is written by
	the channel writer itself (12.b own-body coverage), so a restarted node concludes what a running node concludes"""
	out = []
	cfn = CH + 'ChannelContext::check_for_funding_tx_confirmed'
	cu = F.func(cfn)
	sets = [b for b, si in sites_field_write(cu, 'funding_tx_confirmation_height')]
	guard_field = None
	for b in sets:
		for sb, k, ln in control_conds(cu, b):
			if 'funding_tx_confirmation_height' in k:
				guard_field = 'funding_tx_confirmation_height'
			elif 'funding_tx_confirmed_in' in k and guard_field is None:
				guard_field = 'funding_tx_confirmed_in'
	if not sets or guard_field is None:
		out.append(Result('11.h', False, 'anchor:not-yet-confirmed-test', 'check_for_funding_tx_confirmed: the not-yet-confirmed test guarding the confirmation store was not found', where=F.where(cfn)))
	else:
		# all sites clearing either field, grouped by function and by the object (place base) they clear it on
		groups = {}
		for fld in ('funding_tx_confirmation_height', 'funding_tx_confirmed_in'):
			keys = [k for k in F.fieldacc if k.endswith('.' + fld) and 'ln::channel::FundingScope' in k]
			fns = sorted({r[0] for k in keys for r in F.fieldacc[k] if r[1].startswith('w')})
			for fn_ in fns:
				fu = F.func(fn_)
				ex = Expr(fu)
				for b, si in sites_field_write(fu, fld):
					if b not in fu.reach([0]):
						continue
					st = fu.blocks[b]['s'][si]
					rv = st[2]
					e = ex.of_rvalue(rv)
					cleared = (e[0] == 'const' and e[1] == 0) or (e[0] == 'agg' and e[2] == 'None')
					if cleared:
						base = json.dumps(st[1][:-1])
						groups.setdefault((fn_, base), set()).add(fld)
		bad = [(fn_.rsplit('::', 1)[-1], flds) for (fn_, base), flds in groups.items() if guard_field not in flds]
		ok = len(groups) >= 2 and not bad
		out.append(Result('11.h', ok, ('ok:' if ok else 'stale:') + 'reconfirmation-test-field-cleared-everywhere', 'check_for_funding_tx_confirmed treats a funding as unconfirmed by `%s`; %d retraction site(s) clear it%s' % (guard_field, len(groups), '' if not bad else ' - but %s clears only %s: after that retraction the transaction can confirm again without being noticed (splice_locked / channel_ready never sent although the transaction is buried)' % (bad[0][0], sorted(bad[0][1]))), len(groups), where=F.where(cfn)))
	import C12
	n = 0
	for r in C12.r12b(F):
		if ('FundingScope' in r.key and 'ln/channel' in (r.where or 'ln/channel')) or 'own-body-coverage' in r.key or 'coverage:FundingScope' in r.key or 'coverage:ChannelContext' in r.key:
			r.rule = '11.h'
			out.append(r)
			n += 1
	if n < 2:
		out.append(Result('11.h', False, 'anchor:funding-scope-coverage', 'the field coverage results for the channel FundingScope were not found'))
	return out

RULES = [
	('11.a', 'Listen and Confirm entry points of monitor, chain monitor and manager funnel into the same internal routines', r11a),
	('11.b', 'irrevocable conclusions only inside the loop over events past the confirmation threshold', r11b),
	('11.c', 'threshold = height + ANTI_REORG_DELAY - 1 (CSV maxima), reached iff best height >= threshold; monitor and claim handler agree', r11c),
	('11.d', 'retraction: exactly the events above the new tip are dropped; claim handler uses the complementary boundary and the same height', r11d),
	('11.e', 'idempotent re-delivery: already-seen transactions are skipped, the best block only advances', r11e),
	('11.g', 'claims carry the height of the confirming block; funding-reorg bookkeeping is cleared independently of channel state', r11g),
	('11.h', 'manager side: the re-confirmation test reads a field cleared at every retraction site; confirmation bookkeeping is written by the channel writer itself', r11h),
	('11.f', 'manager side: channel_ready needs height - conf_height + 1 >= minimum_depth; funding reorg re-evaluated', r11f),
	('11.v', 'field-versus-field comparisons (a received value against a limit, an id against an id) are the reviewed ones: same fields, same operator (rules/provenance.py)', lambda F: provenance.cmps_for_property(F, 'C11', '11.v')),
	('11.s', 'no reviewed function gained a short-circuiting iterator adaptor (find / find_map / take / position ...: an every-element walk that stops at the first match; rules/provenance.py)', lambda F: provenance.sc_for_property(F, 'C11', '11.s')),
]
RULES.append(('11.t', 'identity comparisons: every reviewed (function, identity type) == / != comparison (HTLCSource, Txid, OutPoint, ChannelId, PaymentHash, PublicKey, ...) is still made - a function does not silently change what it matches by (rules/provenance.py)', lambda F: provenance.ids_for_property(F, 'C11', '11.t')))
RULES.append(('11.R', 'state resets: every reviewed constant write to persistent state (flag = true / false, counter = 0, pending slot = None) of a function is still made (rules/provenance.py)', lambda F: provenance.flags_for_property(F, 'C11', '11.R')))
RULES.append(('11.M', 'collection mutations: every reviewed (function, stored collection, mutator class: add / remove / filter / empty / swap / order) triple is still present - an entry that is no longer removed, inserted or drained on one path (rules/mutations.py)', lambda F: mutations.for_property(F, 'C11', '11.M')))
RULES.append(('11.A', 'enum accessors agree across sibling variants: an accessor that returns the payload field `x` for one variant returns it for every variant whose payload carries a field of that name and type (a variant moved to the `=> None` arm) - rules/accessors.py', lambda F: accessors.for_property(F, 'C11', '11.A')))

def r11F(F, rid='11.F'):
	"""filter_block (whole-block delivery) remembers every transaction it reports: the filter closure returns true only on paths that insert the
	transaction's txid into the per-block matched set - a matched transaction that is not remembered hides its own in-block children (a three-deep
	chain: commitment, HTLC transaction, its spend), which the transaction-by-transaction delivery does see"""
	fn = 'lightning::chain::channelmonitor::ChannelMonitorImpl::filter_block'
	clos = [n for n in F.fns if n.startswith(fn + '::{closure')]
	out = []
	n = 0
	for cn in sorted(clos):
		fu = F.func(cn)
		if (fu.locals[0].get('ty') or '') != 'bool':
			continue
		ins = [b for b, ci in fu.calls() if norm(ci.get('f') or ci.get('t') or '').endswith(('HashSet::insert', 'HashMap::insert', 'BTreeSet::insert'))]
		if not ins:
			continue
		n += 1
		p = fu.bool_return_paths(removed_blocks=ins, want=1)
		ok = p is None
		out.append(Result(rid, ok, ('ok:' if ok else 'forgotten:') + 'matched-tx-remembered', 'filter_block: every path on which the filter reports a transaction inserts its txid into the matched set' if ok else 'filter_block can report a transaction (return true) without inserting its txid into the matched set (lines %s): its own children in the same block are then filtered out, unlike with per-transaction delivery' % fu.path_lines(p)[-6:], len(ins) + 1, where=F.where(cn, fu.line_of(ins[0]))))
	if n < 1:
		out.append(Result(rid, False, 'anchor:filter-block', 'filter_block: no bool closure inserting into a matched set found', where=F.where(fn)))
	return out

RULES.append(('11.F', 'filter_block remembers every transaction it reports (return true only after inserting the txid into the matched set; value-refined path rule Func.bool_return_paths)', r11F))
RULES.append(('11.G', 'guard census: no reviewed call of a workspace function and no reviewed mutation of a stored collection gained a controlling branch condition (an added `&& cond`, early return / continue, more specific match arm in front of an act); counts per call site, name free (rules/guards.py)', lambda F: guards.for_property(F, 'C11', '11.G')))
RULES.append(('11.W', 'field assignments: every reviewed (function, Type.field) direct assignment is still made - state that a path no longer updates, or updates only conditionally (get_or_insert for an overwrite); generalises NN.R (rules/writes.py)', lambda F: writes.for_property(F, 'C11', '11.W')))

def r11H(F, rid='11.H'):
	"""block_confirmed hands the OnchainTxHandler the height of the block that CONFIRMED the transactions (its own conf_height parameter), not the
	current tip, as the confirmation height of claims and contentious outpoints: with the tip height a transaction reported below the tip (Confirm
	clients deliver best_block_updated first) is taken for unconfirmed by a reorg of the blocks above it, and its already spent outpoint is merged
	back into the claim package"""
	fn = MON + 'block_confirmed'
	fu = F.func(fn)
	ex = Expr(fu)
	own = {fu.vars.get(i): i for i in range(1, fu.argc + 1)}
	if 'conf_height' not in own:
		return [Result(rid, False, 'anchor:conf_height-param', 'block_confirmed has no conf_height parameter', where=F.where(fn))]
	out = []
	n = 0
	for callee in ('update_claims_view_from_requests', 'update_claims_view_from_matched_txn'):
		full = 'lightning::chain::onchaintx::OnchainTxHandler::' + callee
		try:
			cu = F.func(full)
		except AnchorMissing:
			out.append(Result(rid, False, 'anchor:' + callee, callee + ' not found'))
			continue
		ps = [cu.vars.get(i) for i in range(1, cu.argc + 1)]
		if 'conf_height' not in ps or 'cur_height' not in ps:
			out.append(Result(rid, False, 'anchor:%s-params' % callee, '%s has no conf_height / cur_height parameters (%s)' % (callee, ps)))
			continue
		for b in sites_call(fu, [full]):
			n += 1
			args = fu.blocks[b]['t'][2]['args']
			ec = ex.of_operand(args[ps.index('conf_height')])
			eh = ex.of_operand(args[ps.index('cur_height')])
			okc = ec[0] == 'local' and ec[1] == own['conf_height']
			okh = 'best_block' in leaf_key(eh) and 'height' in leaf_key(eh)
			out.append(Result(rid, okc, ('ok:' if okc else 'height:') + 'conf-height@' + callee, 'block_confirmed passes its own conf_height parameter as the confirmation height to %s' % callee if okc else 'block_confirmed passes `%s` (not its conf_height parameter) as the confirmation height to %s: claims and contentious outpoints are stamped with the wrong block' % (expr_str(ec)[:60], callee), 1, where=F.where(fn, fu.line_of(b))))
			out.append(Result(rid, okh, ('ok:' if okh else 'height:') + 'cur-height@' + callee, 'block_confirmed passes the best block height as the current height to %s' % callee if okh else 'block_confirmed passes `%s` as the current height to %s (expected self.best_block.height)' % (expr_str(eh)[:60], callee), 1, where=F.where(fn, fu.line_of(b))))
	if n < 2:
		out.append(Result(rid, False, 'floor:handler-calls', 'only %d calls of the claims-view updaters in block_confirmed (expected 2)' % n, n))
	return out

RULES.append(('11.H', 'block_confirmed hands the OnchainTxHandler its own conf_height parameter as confirmation height and the best block height as current height (argument provenance by position)', r11H))
RULES.append(('11.N', 'arithmetic census: per reviewed function the set of operation kinds (group: add/sub, mul, div, rem, shift, bit, min, max, div_ceil ...; flavour: plain / checked / saturating / wrapping) keeps its kinds: no reviewed function lost or gained a kind of arithmetic altogether - a rounding direction (`/` for div_ceil), saturating for checked, min for max (rules/arith.py; counts and value arithmetic itself are not judged)', lambda F: arith.for_property(F, 'C11', '11.N')))

def r11J(F):
	"""an HTLC failed by a counterparty-commitment update that arrives after the funding spend already confirmed is anchored to the block of that
	spend: in fail_htlcs_from_update_after_funding_spend every component of the pending-spend description (txid, transaction, height, block hash)
	is read from the pending FundingSpendConfirmation entry itself, none from the monitor's current state - an entry stamped with the tip height
	is dropped by a reorg that leaves the commitment confirmed, and the HTLC is never failed back"""
	fn = MON + 'fail_htlcs_from_update_after_funding_spend'
	out = []
	n = 0
	for cn in F.closures_of(F.fn(fn)):
		cu = F.func(cn)
		ty = cu.locals[0].get('ty') or ''
		if not ty.startswith('(') or 'u32' not in ty or cu.argc < 2:
			continue
		ex = Expr(cu)
		for d in cu.defs.get(0, []):
			if d[1] == 'T' or d[3][0] != 'agg':
				continue
			e = ex.of_rvalue(d[3])
			n += 1
			bad = []
			for i, comp in enumerate(e[3]):
				ids = set(expr_local_ids(comp))
				# rooted in the closure's own argument (the entry), not in a captured variable (id -1 = upvar) or the environment (local 1)
				if not ids or (ids - {2}):
					bad.append((i, expr_str(comp)[:50]))
			ok = not bad
			out.append(Result('11.J', ok, ('ok:' if ok else 'height:') + 'pending-spend-from-entry', 'fail_htlcs_from_update_after_funding_spend: every component of the pending funding-spend description is read from the FundingSpendConfirmation entry' if ok else 'fail_htlcs_from_update_after_funding_spend: component(s) %s of the pending funding-spend description are not read from the FundingSpendConfirmation entry: the failure is anchored to another block than the spend, and a reorg above the spend drops it' % bad, len(e[3]), where=F.where(cn)))
	if n < 1:
		out.append(Result('11.J', False, 'anchor:pending-spend-tuple', 'fail_htlcs_from_update_after_funding_spend: the closure describing the pending funding spend was not found', where=F.where(F.fn(fn))))
	return out

RULES.append(('11.J', 'a late counterparty-commitment update fails its HTLCs at the height of the pending funding spend entry (all components of the description come from the entry)', r11J))
RULES.append(('11.K', 'constant census of linear forms: every comparison (normalised to sum >= K over name-free atoms, a comparison and its negation being one form) and every maximal arithmetic expression of a reviewed function keeps its coefficients and its constant - a dropped or added `+ 1` / `- 1`, `<` for `<=` inside a computed bound, a scale factor applied twice or not at all, swapped operands of a comparison (rules/linforms.py; shapes that appear or disappear are not judged, the guard / arithmetic censuses judge those)', lambda F: linforms.for_property(F, 'C11', '11.K')))
