"""C17 - the network graph holds only authentic, current gossip (structural part)."""
import re
from engine import *
import linforms
import ordimpls
import provenance
import parsepos
import guards
import arith
import writes
import mutations
import accessors

GP = 'lightning::routing::gossip::'
NG = GP + 'NetworkGraph::'
UTXO = 'lightning::routing::utxo::'

EXPLANATION = ('Guard, census and comparison-shape rules over lightning::routing::gossip / routing::utxo: a channel_update is stored only past the chain-hash, htlc_maximum, '
	'capacity and strictly-newer-timestamp checks (re-run under the write lock), past the signature check against the key of the direction selected by channel_flags bit 0 whenever '
	'a signature is supplied, and never in verify-only mode; the staleness window of the production build (two weeks back, one day ahead) rejects; signed entry points pass the '
	'signature on and only the *_unsigned entry points omit it; the four channel_announcement signatures and the node_announcement signature are each verified against their own key '
	'before the *_intern routines run; node announcements replace only strictly older ones; duplicate channel announcements are refused unless UTXO-validated, recently removed '
	'channels/nodes are refused; permanent failures remove the channel (and orphaned nodes) and leave a tombstone; stale directions are dropped by `last_update < now - 14d` and channels '
	'pruned only when a direction is missing and the announcement is old; pending (UTXO-lookup) messages are replayed through the verifying entry points when they carry a signature; '
	'the graph maps are mutated only in the frozen function set. Also: a channel leaving the graph is unlinked from the nodes of the stored entry, never of a caller-supplied ChannelInfo. Decides these shapes on all paths; order-independence (confluence) and RGS snapshot semantics are not decided.')
ASSUMPTIONS = ['secp256k1::verify_ecdsa is correct', 'UtxoLookup implementations answer truthfully']

def _eqne(fu, pred):
	"""PartialEq::{eq,ne} call blocks whose two argument expressions satisfy pred(e0, e1) (in either order): [(block, is_ne)]"""
	ex = Expr(fu)
	out = []
	for b, ci in fu.calls():
		f = norm(ci.get('t') or ci.get('f') or '')
		if f.endswith('PartialEq::ne') or f.endswith('PartialEq::eq'):
			es = [ex.of_operand(a) for a in ci['args']]
			if len(es) == 2 and (pred(es[0], es[1]) or pred(es[1], es[0])):
				out.append((b, f.endswith('::ne')))
	return out

def _eq_decisions(fu, sel):
	"""Decisions whose true edge means `equal`"""
	ds = []
	for b, is_ne in sel:
		ds += call_decisions(fu, [b], 'bool', neg=is_ne)
	return ds

def _fields(e):
	return expr_leaves(e)['fields']

def _cmp_guard(out, rule, F, fu, label, pos_re, neg_re, want, acts=None, reject=True, extra=0, mode='all-paths', ops=None):
	"""exactly one comparison  pos - neg <op> K  (want = set of accepted (op, K)); when acts are given, the acts are reachable
	only through the comparison's false edge (reject=True) / true edge (reject=False)"""
	gs = [Guard(fu, c) for c in comparisons(fu)]
	ms = match_guards(gs, pos_re, neg_re, extra)
	if ops:
		ms = [(g, o) for g, o in ms if o[1] in ops]
	if len(ms) > 1:
		# several comparisons over the same leaves (e.g. a lower and an upper bound): the one meant is the one with the wanted form
		sel = [(g, o) for g, o in ms if (o[1], o[2]) in want]
		if len(sel) == 1:
			ms = sel
	if len(ms) != 1:
		out.append(Result(rule, False, 'guard:' + label, '%s: expected one comparison for %s with a form in %s, found %s (all comparisons: %s)' % (fu.name.rsplit('::', 2)[-1], label, sorted(want), [cmp_str(o) for g, o in ms], [g.text()[:80] for g in gs][:10]), len(gs), where=F.where(fu.name)))
		return None
	g, o = ms[0]
	ok = (o[1], o[2]) in want
	out.append(Result(rule, ok, ('ok:' if ok else 'shape:') + label, '%s is `%s` (accepted forms: %s)' % (label, cmp_str(o), sorted(want)), 1, where=F.where(fu.name, g.line), detail={'nf': cmp_str(o)}))
	if ok and acts is not None:
		# orientation may have flipped the operator but not the truth value: the decision edges stay those of the statement
		if mode == 'all-paths':
			out.extend(P4_guarded(F, rule, fu, acts, g.decisions, not reject, label, key=label + '@' + fu.name.rsplit('::', 1)[-1]))
		else:
			out.extend(P4_fail_blocks(F, rule, fu, acts, g.decisions, not reject, label, key=label + '@' + fu.name.rsplit('::', 1)[-1]))
	return g

def r17a(F):
	out = []
	fn = NG + 'update_channel_internal'
	fu = F.func(fn)
	stores = {b for b, s in sites_field_write(fu, 'one_to_two')} | {b for b, s in sites_field_write(fu, 'two_to_one')}
	if len(stores) < 2:
		return [Result('17.a', False, 'anchor:direction-stores', 'update_channel_internal: stores to one_to_two / two_to_one not found (%d)' % len(stores), where=F.where(fn))]
	# chain hash
	sel = _eqne(fu, lambda a, b: 'chain_hash' in _fields(a) and 'chain_hash' in _fields(b))
	if not sel:
		out.append(Result('17.a', False, 'guard:chain-hash', 'update_channel_internal no longer compares msg.chain_hash with the graph chain hash', 0, where=F.where(fn)))
	else:
		ds = _eq_decisions(fu, sel)
		out += P4_guarded(F, '17.a', fu, stores, ds, True, 'chain_hash equal', key='chain-hash')
		out += P4_fail_blocks(F, '17.a', fu, stores, ds, True, 'chain_hash equal', key='chain-hash-fail')
	_cmp_guard(out, '17.a', F, fu, 'htlc_maximum_msat > MAX_VALUE_MSAT rejects', r'htlc_maximum_msat$', None, {('Gt', F.const('lightning::ln::channelmanager::MAX_VALUE_MSAT') if 'lightning::ln::channelmanager::MAX_VALUE_MSAT' in F.consts else F.const('MAX_VALUE_MSAT'))}, stores)
	# production staleness window
	stale = F.const(GP + 'STALE_CHANNEL_UPDATE_AGE_LIMIT_SECS')
	_cmp_guard(out, '17.a', F, fu, 'update older than two weeks rejects', r'timestamp$', r'as_secs', {('Lt', -stale)}, stores)
	_cmp_guard(out, '17.a', F, fu, 'update more than a day ahead rejects', r'timestamp$', r'as_secs', {('Gt', 86400)}, stores)
	# sanity closure (capacity + timestamp ordering) is evaluated and its result obeyed - under the write lock too
	clos = [n for n in F.family(fn) if n != fu.name]
	sanity = latest = None
	for n in clos:
		f2 = F.func(n)
		cs = comparisons(f2)
		txt = ' '.join(leaf_key(c[4]) + ' ' + leaf_key(c[5]) for c in cs)
		if 'capacity_sats' in txt:
			sanity = f2
		elif 'last_update' in txt:
			latest = f2
	if sanity is None or latest is None:
		return out + [Result('17.a', False, 'anchor:sanity-closures', 'update_channel_internal: the capacity / timestamp check closures were not found', where=F.where(fn))]
	sc = sites_call(fu, [sanity.name])
	wl = set(fu.call_blocks(lambda p: p.endswith('RwLock::write')))
	under_lock = [b for b in sc if fu.reach_back([b]) & wl]
	out.append(Result('17.a', len(sc) >= 2 and bool(under_lock), ('ok:' if len(sc) >= 2 and under_lock else 'guard:') + 'sanity-rechecked-under-write-lock', 'the sanity check runs %d time(s), %d of them after taking the channels write lock (a concurrent update may have landed between the read-locked check and the store)' % (len(sc), len(under_lock)), len(sc), where=F.where(fn)))
	if under_lock:
		ds = call_decisions(fu, under_lock, 'result')
		out += P4_guarded(F, '17.a', fu, stores, ds, True, 'sanity check Ok under the write lock', key='sanity-locked')
		out += P4_fail_blocks(F, '17.a', fu, stores, ds, True, 'sanity check Ok under the write lock', key='sanity-locked-fail')
	pre = [b for b in sc if b not in under_lock]
	ver = set(sites_call(fu, ['secp256k1::ecdsa::verify_ecdsa', 'verify_ecdsa']))
	if pre and ver:
		ds = call_decisions(fu, pre, 'result')
		out += P4_guarded(F, '17.a', fu, ver, ds, True, 'sanity check Ok before the signature is verified', key='sanity-before-sig')
	# the sanity closure: capacity bounds and delegation to the timestamp closure for the SAME direction as the store
	oks = set(ok_return_blocks(sanity))
	maxv = F.const('MAX_VALUE_MSAT')
	_cmp_guard(out, '17.a', F, sanity, 'capacity above 21M BTC rejects', r'capacity_sats', None, {('Gt', maxv // 1000)})
	g2 = [Guard(sanity, c) for c in comparisons(sanity)]
	hm = [g for g in g2 if any('htlc_maximum_msat' in v for v in g.nf[0]) and any('capacity_sats' in v for v in g.nf[0])]
	okc = False
	for g in hm:
		t = g.nf[0]
		hk = [v for v in t if 'htlc_maximum_msat' in v][0]
		ck = [v for v in t if 'capacity_sats' in v][0]
		# htlc_max - 1000*cap > 0
		if (t[hk], t[ck]) in ((1, -1000), (-1, 1000)) and g.nf[2] == 0 and ((g.nf[1] == 'Gt' and t[hk] == 1) or (g.nf[1] == 'Lt' and t[hk] == -1)):
			okc = True
	out.append(Result('17.a', okc, ('ok:' if okc else 'shape:') + 'htlc-max-vs-capacity', 'htlc_maximum_msat > capacity_sats * 1000 rejects (%s)' % [g.text() for g in hm], len(hm), where=F.where(sanity.name)))
	# every rejecting comparison of the closure leads to Err: the Ok-return is reachable only via the false edges
	for g in g2:
		if any('capacity_sats' in v for v in g.nf[0]) and g.op == 'Gt':
			errs = set(err_return_blocks(sanity))
			for d in g.decisions:
				r = sanity.reach([e[1] for e in d.true_edges])
				lat = set(sites_call(sanity, [latest.name]))
				bad = r & lat
				out.append(Result('17.a', not bad, ('ok:' if not bad else 'guard:') + 'capacity-reject@%d' % len(out), 'a failing capacity comparison (`%s`) never reaches the timestamp check / Ok' % g.text(), 1, where=F.where(sanity.name, g.line)))
	lat_calls = sites_call(sanity, [latest.name])
	exs = Expr(sanity)
	dirs = {}
	for b in lat_calls:
		a = expr_leaves(exs.of_operand(sanity.blocks[b]['t'][2]['args'][1]))['fields']
		for d in ('one_to_two', 'two_to_one'):
			if d in a:
				dirs[d] = b
	okd = set(dirs) == {'one_to_two', 'two_to_one'}
	out.append(Result('17.a', okd, ('ok:' if okd else 'shape:') + 'latest-check-both-directions', 'the timestamp check is applied to one_to_two and two_to_one (%s)' % sorted(dirs), len(lat_calls), where=F.where(sanity.name)))
	def dir_switch(f, blocks_by_dir, label):
		"""`channel_flags & 1 == 1` selects two_to_one (true) / one_to_two (false)"""
		gs = [Guard(f, c) for c in comparisons(f)]
		sel = [g for g in gs if g.op in ('Eq', 'Ne') and 'channel_flags' in leaf_key(g.a) + leaf_key(g.b) and 'BitAnd1)' in (leaf_key(g.a) + leaf_key(g.b)).replace(' ', '')]
		res = []
		for g in sel:
			k = linear(g.b)[1] if not linear(g.b)[0] else linear(g.a)[1]
			for d in g.decisions:
				t_is_two = (g.op == 'Eq') == (k == 1)
				tr = f.reach([e[1] for e in d.true_edges], removed_blocks={d.b})
				fr = f.reach([e[1] for e in d.false_edges], removed_blocks={d.b})
				two, one = blocks_by_dir['two_to_one'], blocks_by_dir['one_to_two']
				if (two in tr or two in fr or one in tr or one in fr):
					good = (two in tr and one not in tr and one in fr and two not in fr) if t_is_two else (one in tr and two not in tr and two in fr and one not in fr)
					res.append(good)
		ok = bool(res) and all(res)
		out.append(Result('17.a', ok, ('ok:' if ok else 'shape:') + 'direction:' + label, '%s: channel_flags bit 0 set selects two_to_one / node_two, clear selects one_to_two / node_one (%d switch(es))' % (label, len(res)), len(res), where=F.where(f.name)))
	if okd:
		dir_switch(sanity, dirs, 'timestamp check')
	st = {}
	for d in ('one_to_two', 'two_to_one'):
		bs = {b for b, s in sites_field_write(fu, d)}
		if len(bs) == 1:
			st[d] = list(bs)[0]
	if len(st) == 2:
		dir_switch(fu, st, 'store')
	# key selection for the signature
	exf = Expr(fu)
	keysel = {}
	for b in sites_call(fu, [GP + 'NodeId::as_slice']):
		a = _fields(exf.of_operand(fu.blocks[b]['t'][2]['args'][0]))
		if 'node_two' in a:
			keysel['two_to_one'] = b
		if 'node_one' in a:
			keysel['one_to_two'] = b
	if len(keysel) == 2:
		dir_switch(fu, keysel, 'signing key')
	else:
		out.append(Result('17.a', False, 'anchor:key-selection', 'update_channel_internal: node_one / node_two key selection not found', where=F.where(fn)))
	# timestamp closure
	_cmp_guard(out, '17.a', F, latest, 'older update rejects', r'last_update$', r'timestamp$', {('Gt', 0)}, set(ok_return_blocks(latest)), mode='fail-blocks', ops=('Gt', 'Ge', 'Lt', 'Le'))
	_cmp_guard_eq = [Guard(latest, c) for c in comparisons(latest)]
	eqs = [g for g in _cmp_guard_eq if g.op == 'Eq' and any('last_update' in v for v in g.nf[0]) and any('timestamp' in v for v in g.nf[0])]
	if len(eqs) != 1:
		out.append(Result('17.a', False, 'guard:equal-timestamp', 'the equal-timestamp rejection is missing (first accepted wins): %s' % [g.text() for g in _cmp_guard_eq], len(_cmp_guard_eq), where=F.where(latest.name)))
	else:
		out += P4_fail_blocks(F, '17.a', latest, set(ok_return_blocks(latest)), eqs[0].decisions, False, 'timestamps differ', key='equal-timestamp')
	# signature: when sig is Some the store is behind verify_ecdsa Ok; sig None is the only way round
	if not ver:
		out.append(Result('17.a', False, 'anchor:verify_ecdsa', 'update_channel_internal no longer verifies the signature', where=F.where(fn)))
	else:
		vds = call_decisions(fu, ver, 'result')
		sig_none = []
		for d in place_decisions(fu, lambda pl: len(pl) == 1 and 1 <= pl[0] <= fu.argc and 'Signature' in (fu.locals[pl[0]].get('ty') or ''), 'option'):
			sig_none += d.false_edges
		out += P4_guarded(F, '17.a', fu, stores, vds, True, 'verify_ecdsa Ok (unless no signature was supplied)', key='signature', exempt_edges=sig_none)
		out += P4_fail_blocks(F, '17.a', fu, stores, vds, True, 'verify_ecdsa Ok', key='signature-fail')
		out.append(Result('17.a', bool(sig_none), ('ok:' if sig_none else 'anchor:') + 'sig-option-switch', 'the only bypass of the signature check is `sig == None` (%d edge(s))' % len(sig_none), len(sig_none), where=F.where(fn)))
		# the key handed to verify_ecdsa is the one parsed from the selected node id, the signature the parameter
		for b in ver:
			ci = fu.blocks[b]['t'][2]
			es = [exf.of_operand(a) for a in ci['args']]
			okk = any(any(c.endswith('PublicKey::from_slice') for c in expr_leaves(e)['calls']) or 'node_pubkey' in leaf_key(e) for e in es)
			okm = any(any(c.endswith('message_sha256d_hash') for c in expr_leaves(e)['calls']) for e in es)
			out.append(Result('17.a', okk and okm, ('ok:' if okk and okm else 'shape:') + 'verify-args', 'verify_ecdsa(hash of the unsigned update, sig, key parsed from the direction\'s node id): key %s, hash %s' % (okk, okm), 1, where=F.where(fn, fu.line_of(b))))
	# only_verify => no store
	ov = [l for l in range(1, fu.argc + 1) if (fu.locals[l].get('ty') or '') == 'bool']
	sws = []
	for l in ov:
		for sb, f_t, t_t in switches_on_var(fu, fu.local_name(l) or ''):
			sws.append((sb, f_t, t_t))
	if not sws:
		out.append(Result('17.a', False, 'guard:only-verify', 'update_channel_internal no longer branches on only_verify', where=F.where(fn)))
	for sb, f_t, t_t in sws:
		r = fu.reach([t_t], removed_blocks={sb})
		ok = not (r & stores) and not (r & wl)
		out.append(Result('17.a', ok, ('ok:' if ok else 'guard:') + 'only-verify', 'verify-only mode never takes the write lock nor stores', 1, where=F.where(fn, fu.line_of(sb))))
	# unknown channel => Err (after parking the update for a pending UTXO lookup), never a store
	return out

def _arg_expr(F, caller, callee, idx):
	fu = F.func(caller)
	ex = Expr(fu)
	out = []
	for b in sites_call(fu, [callee]):
		out.append((fu, b, ex.of_operand(fu.blocks[b]['t'][2]['args'][idx])))
	return out

def r17b(F):
	out = []
	out += P1_who_may_call(F, '17.b', [NG + 'update_channel_internal'], [NG + 'update_channel', NG + 'update_channel_unsigned', NG + 'verify_channel_update'], floor=3)
	for caller, want_sig in ((NG + 'update_channel', True), (NG + 'verify_channel_update', True), (NG + 'update_channel_unsigned', False)):
		for fu, b, e in _arg_expr(F, caller, NG + 'update_channel_internal', 3):
			s = expr_str(e)
			is_some = e[0] == 'agg' and e[2] == 'Some' and 'signature' in _fields(e)
			is_none = e[0] == 'agg' and e[2] == 'None'
			ok = is_some if want_sig else is_none
			out.append(Result('17.b', ok, ('ok:' if ok else 'shape:') + 'sig-arg@' + caller.rsplit('::', 1)[-1], '%s passes sig = %s (%s)' % (caller.rsplit('::', 1)[-1], s[:60], 'must be Some(&msg.signature)' if want_sig else 'unsigned entry point'), 1, where=F.where(fu.name, fu.line_of(b))))
	for fu, b, e in _arg_expr(F, NG + 'update_channel', NG + 'update_channel_internal', 4):
		ok = e[0] == 'const' and e[1] == 0
		out.append(Result('17.b', ok, ('ok:' if ok else 'shape:') + 'only-verify-arg@update_channel', 'update_channel passes only_verify = %s (must be false: it stores)' % expr_str(e), 1, where=F.where(fu.name, fu.line_of(b))))
	# announcements: the *_intern routine only behind the verification
	for caller, ver, intern in ((NG + 'update_channel_from_announcement', GP + 'verify_channel_announcement', NG + 'update_channel_from_unsigned_announcement_intern'),
			(NG + 'update_node_from_announcement', GP + 'verify_node_announcement', NG + 'update_node_from_announcement_intern')):
		fu = F.func(caller)
		acts = set(sites_call(fu, [intern]))
		out += guarded_by_call(F, '17.b', caller, acts, [ver], 'result', True)
		# the message verified is the message stored
		ex = Expr(fu)
		for vb in sites_call(fu, [ver]):
			vm = leaf_key(_base(ex.of_operand(fu.blocks[vb]['t'][2]['args'][0])))
			for ab in acts:
				im = leaf_key(_base(ex.of_operand(fu.blocks[ab]['t'][2]['args'][1])))
				ok = vm == im
				out.append(Result('17.b', ok, ('ok:' if ok else 'shape:') + 'same-message@' + caller.rsplit('::', 1)[-1], 'the verified message (%s) is the one applied (%s)' % (vm, im), 1, where=F.where(caller)))
	out += guarded_by_call(F, '17.b', NG + 'update_channel_from_announcement', set(sites_call(F.func(NG + 'update_channel_from_announcement'), [NG + 'update_channel_from_unsigned_announcement_intern'])), [NG + 'pre_channel_announcement_validation_check'], 'result', True)
	out += guarded_by_call(F, '17.b', NG + 'update_channel_from_unsigned_announcement', set(sites_call(F.func(NG + 'update_channel_from_unsigned_announcement'), [NG + 'update_channel_from_unsigned_announcement_intern'])), [NG + 'pre_channel_announcement_validation_check'], 'result', True)
	out += P1_who_may_call(F, '17.b', [NG + 'update_channel_from_unsigned_announcement_intern'], [NG + 'update_channel_from_announcement', NG + 'update_channel_from_unsigned_announcement'], floor=2)
	out += P1_who_may_call(F, '17.b', [NG + 'update_node_from_announcement_intern'], [NG + 'update_node_from_announcement', NG + 'update_node_from_unsigned_announcement'], floor=2)
	# verify_channel_announcement: four signatures, each against its own key, all obeyed
	fu = F.func(GP + 'verify_channel_announcement')
	ex = Expr(fu)
	oks = set(ok_return_blocks(fu))
	vb = sites_call(fu, ['verify_ecdsa'])
	pairs = set()
	for b in vb:
		ci = fu.blocks[b]['t'][2]
		fl = set()
		for a in ci['args']:
			fl |= _fields(ex.of_operand(a))
		sig = [f for f in fl if f.endswith('signature_1') or f.endswith('signature_2')]
		key = [f for f in fl if f in ('node_id_1', 'node_id_2', 'bitcoin_key_1', 'bitcoin_key_2')]
		if len(sig) == 1 and len(key) == 1:
			pairs.add((sig[0], key[0]))
	want = {('node_signature_1', 'node_id_1'), ('node_signature_2', 'node_id_2'), ('bitcoin_signature_1', 'bitcoin_key_1'), ('bitcoin_signature_2', 'bitcoin_key_2')}
	out.append(Result('17.b', pairs == want, ('ok:' if pairs == want else 'shape:') + 'announcement-sig-key-pairs', 'verify_channel_announcement checks %s' % sorted(pairs), len(vb), where=F.where(fu.name)))
	if vb:
		for b in vb:
			ds = call_decisions(fu, [b], 'result')
			out += P4_guarded(F, '17.b', fu, oks, ds, True, 'verify_ecdsa Ok', key='chan-ann-sig@%d' % vb.index(b))
	fu = F.func(GP + 'verify_node_announcement')
	ex = Expr(fu)
	vb = sites_call(fu, ['verify_ecdsa'])
	okp = False
	for b in vb:
		fl = set()
		for a in fu.blocks[b]['t'][2]['args']:
			fl |= _fields(ex.of_operand(a))
		okp = 'signature' in fl and 'node_id' in fl and 'contents' in fl
	out.append(Result('17.b', okp, ('ok:' if okp else 'shape:') + 'node-ann-sig-key', 'verify_node_announcement checks msg.signature over msg.contents against contents.node_id', len(vb), where=F.where(fu.name)))
	if vb:
		out += P4_guarded(F, '17.b', fu, set(ok_return_blocks(fu)), call_decisions(fu, vb, 'result'), True, 'verify_ecdsa Ok', key='node-ann-sig')
	# the gossip handler feeds the signed entry points
	for h, callee in (('handle_channel_update', NG + 'update_channel'), ('handle_channel_announcement', NG + 'update_channel_from_announcement'), ('handle_node_announcement', NG + 'update_node_from_announcement')):
		hn = '<lightning::routing::gossip::P2PGossipSync as lightning::ln::msgs::RoutingMessageHandler>::' + h
		fu = F.func(hn)
		cs = sites_call(fu, [callee])
		bad = fu.call_blocks(lambda p: p.startswith(NG) and ('unsigned' in p or p.endswith('_intern') or p.endswith('_internal')))
		ok = len(cs) == 1 and not bad
		out.append(Result('17.b', ok, ('ok:' if ok else 'shape:') + 'handler@' + h, 'P2PGossipSync::%s applies the message through %s only' % (h, callee.rsplit('::', 1)[-1]), len(cs) + len(bad), where=F.where(hn)))
	# pending-lookup replay: a stored signed message is replayed through the verifying entry point
	rs = F.func(UTXO + 'PendingChecks::resolve_single_future')
	for adt, signed, unsigned in (('ChannelAnnouncement', 'update_channel_from_announcement', 'update_channel_from_unsigned_announcement'), ('NodeAnnouncement', 'update_node_from_announcement', 'update_node_from_unsigned_announcement'), ('ChannelUpdate', 'update_channel', 'update_channel_unsigned')):
		vs = enum_variants(F, UTXO + adt)
		sb_all = variant_switch_edges(rs, lambda pl: True, vs)
		okv = False
		sgn = set(sites_call(rs, [NG + signed]))
		uns = set(sites_call(rs, [NG + unsigned]))
		for sb, m, other in sb_all:
			if 'Full' in m and 'Unsigned' in m and m['Full'] != m['Unsigned']:
				rf = rs.reach([m['Full']], removed_blocks={sb, m['Unsigned']} | loop_heads(rs))
				ru = rs.reach([m['Unsigned']], removed_blocks={sb, m['Full']} | loop_heads(rs))
				if (rf & sgn) and not (rf & uns) and (ru & uns) and not (ru & sgn):
					okv = True
		out.append(Result('17.b', okv, ('ok:' if okv else 'shape:') + 'replay@' + adt, 'resolve_single_future replays %s::Full through %s and ::Unsigned through %s' % (adt, signed, unsigned), len(sgn) + len(uns), where=F.where(rs.name)))
		# Unsigned wrappers are built only when no signed message was supplied
		for (a, v), lst in F.constructs.items():
			if a == UTXO + adt and v == 'Unsigned':
				for fnn, line in lst:
					f3 = F.func(fnn)
					cb = {b for b, s in sites_construct(f3, adt, 'Unsigned')}
					pd = [d for d in place_decisions(f3, lambda pl: True, 'option')]
					# some Option switch must separate Full from Unsigned: Unsigned only on a None edge
					full = {b for b, s in sites_construct(f3, adt, 'Full')}
					sep = False
					for d in pd:
						rn = f3.reach([e[1] for e in d.false_edges], removed_blocks={d.b})
						rsome = f3.reach([e[1] for e in d.true_edges], removed_blocks={d.b})
						if (cb & rn) and not (cb & rsome) and (full & rsome) and not (full & rn):
							sep = True
					if 'Clone' in fnn or root_fn(fnn).endswith('::clone'):
						continue
					out.append(Result('17.b', sep, ('ok:' if sep else 'shape:') + 'unsigned-wrapper@%s@%s' % (adt, root_fn(fnn).rsplit('::', 1)[-1]), '%s::Unsigned is built in %s only when no signed message is available (Full otherwise)' % (adt, root_fn(fnn).rsplit('::', 1)[-1]), len(cb), where=F.where(fnn, line)))
	return out

def _base(e):
	"""strip refs/derefs/clones and a trailing `.contents` projection"""
	while True:
		if e[0] in ('ref', 'deref'):
			e = e[1]
		elif e[0] == 'field' and e[2] == 'contents':
			e = e[1]
		else:
			return e

def r17c(F):
	out = []
	fn = NG + 'update_node_from_announcement_intern'
	fu = F.func(fn)
	stores = {b for b, s in sites_field_write(fu, 'announcement_info')}
	if not stores:
		return [Result('17.c', False, 'anchor:announcement_info-store', 'update_node_from_announcement_intern no longer stores announcement_info', where=F.where(fn))]
	_cmp_guard(out, '17.c', F, fu, 'older node_announcement rejects', r'last_update', r'timestamp$', {('Gt', 0)}, stores, mode='fail-blocks', ops=('Gt', 'Ge', 'Lt', 'Le'))
	gs = [Guard(fu, c) for c in comparisons(fu)]
	eqs = [g for g in gs if g.op == 'Eq' and any('last_update' in v for v in g.nf[0]) and any('timestamp' in v for v in g.nf[0])]
	if len(eqs) != 1:
		out.append(Result('17.c', False, 'guard:equal-timestamp', 'update_node_from_announcement_intern: the equal-timestamp rejection is missing', len(gs), where=F.where(fn)))
	else:
		out += P4_fail_blocks(F, '17.c', fu, stores, eqs[0].decisions, False, 'timestamps differ', key='node-equal-timestamp')
	# unknown node: error, no store, nothing inserted
	ins = fu.call_blocks(lambda p: p.endswith('IndexedMap::insert') or p.endswith('IndexedMap::entry'))
	out.append(Result('17.c', not ins, ('ok:' if not ins else 'writer:') + 'no-node-creation', 'a node_announcement never creates a node entry (nodes exist only through channel announcements)', len(ins) + 1, where=F.where(fn)))
	# timestamp stored is the message's
	# channel announcements
	fn2 = NG + 'update_channel_from_unsigned_announcement_intern'
	fu2 = F.func(fn2)
	add = set(sites_call(fu2, [NG + 'add_channel_between_nodes']))
	ck = fu2.call_blocks(lambda p: p.endswith('::contains_key'))
	ex2 = Expr(fu2)
	tomb = {}
	for b in ck:
		a = expr_str(ex2.of_operand(fu2.blocks[b]['t'][2]['args'][0])) + ' ' + expr_str(ex2.of_operand(fu2.blocks[b]['t'][2]['args'][1]))
		if 'removed_channels' in a and 'short_channel_id' in a:
			tomb['channel'] = b
		if 'removed_nodes' in a and 'node_id_1' in a:
			tomb['node_1'] = b
		if 'removed_nodes' in a and 'node_id_2' in a:
			tomb['node_2'] = b
	for k in ('channel', 'node_1', 'node_2'):
		if k not in tomb:
			out.append(Result('17.c', False, 'guard:tombstone:' + k, 'update_channel_from_unsigned_announcement_intern no longer refuses a recently removed %s' % k, 0, where=F.where(fn2)))
		else:
			ds = call_decisions(fu2, [tomb[k]], 'bool')
			out += P4_guarded(F, '17.c', fu2, add, ds, False, 'not recently removed (%s)' % k, key='tombstone:' + k)
	out += guarded_by_call(F, '17.c', fn2, add, [UTXO + 'PendingChecks::check_channel_announcement'], 'result', True)
	# add_channel_between_nodes: an existing entry is replaced only with a UTXO-validated announcement
	fn3 = NG + 'add_channel_between_nodes'
	fu3 = F.func(fn3)
	ex3 = Expr(fu3)
	vs = enum_variants(F, 'lightning::util::indexed_map::Entry')
	sw = [x for x in variant_switch_edges(fu3, lambda pl: True, vs) if 'Occupied' in x[1]]
	utx = fu3.call_blocks(lambda p: p.endswith('Option::is_some'))
	utx = [b for b in utx if 1 <= (fu3.blocks[b]['t'][2]['args'][0][1][0] if fu3.blocks[b]['t'][2]['args'][0][0] in ('c', 'm') else 0) or True]
	utx = [b for b in utx if 'utxo_value' in leaf_key(ex3.of_operand(fu3.blocks[b]['t'][2]['args'][0])) or _is_param3(fu3, ex3.of_operand(fu3.blocks[b]['t'][2]['args'][0]))]
	if not sw or not utx:
		out.append(Result('17.c', False, 'anchor:duplicate-rule', 'add_channel_between_nodes: Occupied arm / utxo_value.is_some() test not found (%d/%d)' % (len(sw), len(utx)), where=F.where(fn3)))
	else:
		ds = call_decisions(fu3, utx, 'bool')
		oks = set(ok_return_blocks(fu3))
		# within the Occupied arm, Ok is reachable only through utxo_value.is_some() true
		for sb, m, other in sw:
			occ = m['Occupied']
			if not (fu3.reach([occ], removed_blocks={t for v, t in m.items() if v != 'Occupied'}) & set(utx)):
				continue   # the nodes.entry(..) switch further down
			vac = [t for v, t in m.items() if v != 'Occupied'] + ([other] if len(m) < 2 else [])
			pe = set()
			for d in ds:
				pe |= set(d.true_edges)
			p = fu3.path([occ], oks, removed_edges=pe, removed_blocks=set(vac))
			out.append(Result('17.c', p is None and bool(ds), ('ok:' if p is None and ds else 'guard:') + 'duplicate-needs-utxo', 'an already known channel is replaced only when the announcement was UTXO-validated (otherwise "Already have knowledge of channel")' if p is None else 'Occupied arm reaches Ok without utxo_value.is_some() (lines %s)' % fu3.path_lines(p), 1, where=F.where(fn3, fu3.line_of(sb))))
			# and the replacement first unlinks the old channel from its nodes
			rm = set(sites_call(fu3, [NG + 'remove_channel_in_nodes']))
			r = fu3.reach([occ], removed_blocks=set(vac))
			out.append(Result('17.c', bool(rm & r), ('ok:' if rm & r else 'shape:') + 'replacement-unlinks', 'replacing a channel entry first removes the old channel from its nodes', len(rm), where=F.where(fn3)))
	# pre-validation: sorted node ids, not a self-channel, right chain
	fn4 = NG + 'pre_channel_announcement_validation_check'
	fu4 = F.func(fn4)
	ex4 = Expr(fu4)
	oks4 = set(ok_return_blocks(fu4))
	sel = _eqne(fu4, lambda a, b: 'chain_hash' in _fields(a) and 'chain_hash' in _fields(b))
	if not sel:
		out.append(Result('17.c', False, 'guard:ann-chain-hash', 'pre_channel_announcement_validation_check no longer compares the chain hash', 0, where=F.where(fn4)))
	else:
		out += P4_guarded(F, '17.c', fu4, oks4, _eq_decisions(fu4, sel), True, 'chain_hash equal', key='ann-chain-hash')
	ge = []
	for b, ci in fu4.calls():
		f = norm(ci.get('t') or ci.get('f') or '')
		if 'PartialOrd' in f and f.rsplit('::', 1)[-1] in ('ge', 'gt', 'lt', 'le'):
			fl = [_fields(ex4.of_operand(a)) for a in ci['args']]
			if 'node_id_1' in fl[0] and 'node_id_2' in fl[1]:
				ge.append((b, f.rsplit('::', 1)[-1]))
	okg = len(ge) == 1 and ge[0][1] == 'ge'
	out.append(Result('17.c', okg, ('ok:' if okg else 'shape:') + 'sorted-node-ids', 'node_id_1 >= node_id_2 rejects (%s)' % ge, len(ge), where=F.where(fn4)))
	if okg:
		out += P4_guarded(F, '17.c', fu4, oks4, call_decisions(fu4, [ge[0][0]], 'bool'), False, 'node ids strictly sorted', key='sorted-node-ids')
	return out

def _is_param3(fu, e):
	while e[0] in ('ref', 'deref'):
		e = e[1]
	return e[0] == 'local' and 1 <= e[1] <= fu.argc

def r17d(F):
	out = []
	# permanent channel failure
	fn = NG + 'channel_failed_permanent_with_time'
	fu = F.func(fn)
	rm = set(fu.call_blocks(lambda p: p.endswith('IndexedMap::remove')))
	unl = set(sites_call(fu, [NG + 'remove_channel_in_nodes']))
	ins = set(fu.call_blocks(lambda p: p.endswith('HashMap::insert') or p.endswith('::insert')))
	ok = bool(rm) and bool(unl) and bool(ins)
	out.append(Result('17.d', ok, ('ok:' if ok else 'shape:') + 'channel-failed-permanent', 'channel_failed_permanent removes the channel (%d), unlinks it from its nodes (%d) and records a tombstone (%d)' % (len(rm), len(unl), len(ins)), len(rm) + len(unl) + len(ins), where=F.where(fn)))
	if ok:
		ds = call_decisions(fu, rm, 'option')
		for d in ds:
			r = fu.reach([e[1] for e in d.true_edges])
			okr = bool(r & unl) and bool(r & ins)
			# on the Some edge both happen on every path to return
			p1 = fu.path([e[1] for e in d.true_edges], fu.return_blocks(), removed_blocks=unl)
			p2 = fu.path([e[1] for e in d.true_edges], fu.return_blocks(), removed_blocks=ins)
			out.append(Result('17.d', okr and p1 is None and p2 is None, ('ok:' if okr and p1 is None and p2 is None else 'bypass:') + 'channel-failed-unlink-and-tombstone', 'when the channel existed, every path unlinks it from both nodes and inserts the tombstone', 2, where=F.where(fn)))
	out += P1_who_may_call(F, '17.d', [NG + 'channel_failed_permanent_with_time'], [NG + 'channel_failed_permanent'], floor=1)
	hn = F.func(NG + 'handle_network_update')
	vs = enum_variants(F, GP + 'NetworkUpdate')
	cf = set(sites_call(hn, [NG + 'channel_failed_permanent']))
	nf = set(sites_call(hn, [NG + 'node_failed_permanent']))
	ok = bool(cf) and bool(nf)
	out.append(Result('17.d', ok, ('ok:' if ok else 'shape:') + 'network-update-dispatch', 'handle_network_update dispatches ChannelFailure -> channel_failed_permanent, NodeFailure -> node_failed_permanent', len(cf) + len(nf), where=F.where(hn.name)))
	# only permanent failures remove
	sws = [sw for sw in switches_on_var(hn, 'is_permanent')]
	exh = Expr(hn)
	n_ok = 0
	for bi, b in enumerate(hn.blocks):
		t = b['t']
		if t[1] == 'switch' and t[2][0] in ('c', 'm'):
			e = exh.of_operand(t[2])
			if 'is_permanent' in leaf_key(e):
				f_t = [tb for v, tb in t[3] if v == 0]
				if f_t:
					r = hn.reach([f_t[0]], removed_blocks={bi})
					if not (r & (cf | nf)):
						n_ok += 1
					else:
						out.append(Result('17.d', False, 'guard:is-permanent', 'a non-permanent failure reaches a removal routine', 1, where=F.where(hn.name, hn.line_of(bi))))
	out.append(Result('17.d', n_ok >= 2, ('ok:' if n_ok >= 2 else 'guard:') + 'only-permanent-removes', 'both NetworkUpdate arms remove only when is_permanent (%d switch(es))' % n_ok, n_ok, where=F.where(hn.name)))
	# node failure: removes the node, all its channels, unlinks counterparties, tombstones
	fn2 = NG + 'node_failed_permanent'
	fu2 = F.func(fn2)
	rms = fu2.call_blocks(lambda p: p.endswith('IndexedMap::remove'))
	re_ = fu2.call_blocks(lambda p: p.endswith('remove_entry'))
	ins2 = fu2.call_blocks(lambda p: p.endswith('HashMap::insert'))
	ok = len(rms) >= 2 and len(re_) >= 1 and len(ins2) >= 2
	out.append(Result('17.d', ok, ('ok:' if ok else 'shape:') + 'node-failed-permanent', 'node_failed_permanent removes the node and each of its channels (%d removes), drops counterparties left without channels (%d) and records tombstones (%d)' % (len(rms), len(re_), len(ins2)), len(rms) + len(re_) + len(ins2), where=F.where(fn2)))
	# the counterparty node is removed only when its channel list became empty
	ie = fu2.call_blocks(lambda p: p.endswith('Vec::is_empty'))
	if ie and re_:
		out += P4_guarded(F, '17.d', fu2, set(re_), call_decisions(fu2, ie, 'bool'), True, 'counterparty has no channels left', key='orphan-only')
	# stale pruning
	fn3 = NG + 'remove_stale_channels_and_tracking_with_time'
	fu3 = F.func(fn3)
	stale = F.const(GP + 'STALE_CHANNEL_UPDATE_AGE_LIMIT_SECS')
	gs = [Guard(fu3, c) for c in comparisons(fu3)]
	for d in ('one_to_two', 'two_to_one'):
		ms = [g for g in gs if any(d in v and 'last_update' in v for v in g.nf[0]) and any('current_time_unix' in v or v.startswith('arg') for v in g.nf[0])]
		if len(ms) != 1:
			out.append(Result('17.d', False, 'guard:stale:' + d, 'remove_stale_channels: expected one staleness comparison for %s, found %s' % (d, [g.text() for g in ms]), len(gs), where=F.where(fn3)))
			continue
		g = ms[0]
		o = g.oriented('last_update')
		ok = o is not None and (o[1], o[2]) == ('Lt', -stale)
		out.append(Result('17.d', ok, ('ok:' if ok else 'shape:') + 'stale:' + d, 'direction %s is dropped iff `%s` (expected last_update - now < -%d)' % (d, cmp_str(o) if o else g.text(), stale), 1, where=F.where(fn3, g.line)))
		w = {b for b, s in sites_field_write(fu3, d)}
		if ok and w:
			out += P4_guarded(F, '17.d', fu3, w, g.decisions, True, 'stale ' + d, key='stale-store:' + d)
	ms = [g for g in gs if any('announcement_received_time' in v for v in g.nf[0])]
	ins3 = set(fu3.call_blocks(lambda p: p.endswith('HashSet::insert')))
	if len(ms) != 1 or not ins3:
		out.append(Result('17.d', False, 'guard:stale:announcement', 'remove_stale_channels: announcement-age comparison / removal set not found', len(ms), where=F.where(fn3)))
	else:
		g = ms[0]
		o = g.oriented('announcement_received_time')
		ok = (o[1], o[2]) == ('Lt', -stale)
		out.append(Result('17.d', ok, ('ok:' if ok else 'shape:') + 'stale:announcement', 'a channel is pruned only if its announcement is older than the limit: `%s`' % cmp_str(o), 1, where=F.where(fn3, g.line)))
		out += P4_guarded(F, '17.d', fu3, ins3, g.decisions, True, 'announcement old', key='stale-prune')
		# and only when a direction is missing
		isn = fu3.call_blocks(lambda p: p.endswith('Option::is_none'))
		ex3 = Expr(fu3)
		isn = [b for b in isn if _fields(ex3.of_operand(fu3.blocks[b]['t'][2]['args'][0])) & {'one_to_two', 'two_to_one'}]
		if len(isn) != 2:
			out.append(Result('17.d', False, 'guard:prune-needs-missing-direction', 'remove_stale_channels: the `one_to_two.is_none() || two_to_one.is_none()` test was not found (%d)' % len(isn), len(isn), where=F.where(fn3)))
		else:
			out += P4_guarded(F, '17.d', fu3, ins3, call_decisions(fu3, isn, 'bool'), True, 'a direction is missing', key='prune-needs-missing-direction')
	# the removed channels are unlinked, tombstoned, and orphaned nodes dropped
	cbk = set(sites_call(fu3, [NG + 'remove_channel_in_nodes_callback']))
	rb = set(fu3.call_blocks(lambda p: p.endswith('IndexedMap::remove_bulk')))
	rfb = set(fu3.call_blocks(lambda p: p.endswith('IndexedMap::remove_fetch_bulk')))
	ok = bool(cbk) and bool(rb) and bool(rfb)
	out.append(Result('17.d', ok, ('ok:' if ok else 'shape:') + 'prune-unlinks', 'pruned channels are removed in bulk, unlinked from their nodes, and nodes left without channels are removed', len(cbk) + len(rb) + len(rfb), where=F.where(fn3)))
	# remove_channel_in_nodes_callback: a node is handed to the remover only when its channel list is empty
	cb = F.func(NG + 'remove_channel_in_nodes_callback')
	ie = cb.call_blocks(lambda p: p.endswith('Vec::is_empty'))
	rmv = set(cb.call_blocks(lambda p: p.endswith('FnMut::call_mut')))
	if len(ie) != 2 or not rmv:
		out.append(Result('17.d', False, 'anchor:remove-from-node', 'remove_channel_in_nodes_callback: expected two is_empty tests and the remover call (%d/%d)' % (len(ie), len(rmv)), where=F.where(cb.name)))
	else:
		for b in ie:
			ds = call_decisions(cb, [b], 'bool')
			for d in ds:
				r = cb.reach([e[1] for e in d.false_edges], removed_blocks={d.b} | (set(ie) - {b}))
				nxt = [x for x in rmv if x in r]
				# from the non-empty edge the *next* remover call is only that of the other node
				tr = cb.reach([e[1] for e in d.true_edges], removed_blocks={d.b} | (set(ie) - {b}))
				okn = bool(tr & rmv) and not (r & rmv)
				out.append(Result('17.d', okn, ('ok:' if okn else 'guard:') + 'orphan-node-only@%d' % ie.index(b), 'a node is removed with its last channel only (is_empty true edge reaches the remover, false edge does not)', 1, where=F.where(cb.name, cb.line_of(b))))
	return out

def r17e(F):
	out = []
	out += P11_field_coverage(F, '17.e', GP + 'ChannelInfo', ['<lightning::routing::gossip::ChannelInfo as lightning::util::ser::Writeable>::write'],
		{'node_one_counter': 'dense index rebuilt on read', 'node_two_counter': 'dense index rebuilt on read'})
	out += P11_field_coverage(F, '17.e', GP + 'ChannelUpdateInfo', ['<lightning::routing::gossip::ChannelUpdateInfo as lightning::util::ser::Writeable>::write'], {})
	out += P11_field_coverage(F, '17.e', GP + 'NodeInfo', ['<lightning::routing::gossip::NodeInfo as lightning::util::ser::Writeable>::write'], {'node_counter': 'dense index rebuilt on read'})
	out += P11_field_coverage(F, '17.e', GP + 'NetworkGraph', ['<lightning::routing::gossip::NetworkGraph as lightning::util::ser::Writeable>::write'],
		{'secp_ctx': 'context', 'logger': 'handle', 'removed_channels': 'tombstones are a rate limit, deliberately not persisted', 'removed_nodes': 'same',
		 'pending_checks': 'in-flight lookups are not persisted', 'next_node_counter': 'rebuilt on read', 'removed_node_counters': 'rebuilt on read'})
	import tlv
	pairs, left = tlv.build_pairs(tlv.load(F))
	mine = [p for p in pairs if 'routing/gossip.rs' in p.name]
	if len(mine) < 5:
		out.append(Result('17.e', False, 'floor:tlv-pairs', 'only %d TLV writer/reader pairs found in routing/gossip.rs (expected >= 5)' % len(mine), len(mine)))
	for p in mine:
		out += tlv.check_pair('17.e', p)
	return out

RANGE_ONLY = {
	'channels': ['<lightning::routing::gossip::P2PGossipSync as lightning::ln::msgs::RoutingMessageHandler>::get_next_channel_announcement',
		'<lightning::routing::gossip::P2PGossipSync as lightning::ln::msgs::RoutingMessageHandler>::handle_query_channel_range'],
	'nodes': ['<lightning::routing::gossip::P2PGossipSync as lightning::ln::msgs::RoutingMessageHandler>::get_next_node_announcement'],
}
WRITERS = {
	'channels': [NG + 'add_channel_between_nodes', NG + 'channel_failed_permanent_with_time', NG + 'node_failed_permanent', NG + 'remove_stale_channels_and_tracking_with_time', NG + 'update_channel_internal',
		NG + 'new', '<lightning::routing::gossip::NetworkGraph as lightning::util::ser::ReadableArgs>::read'],
	'nodes': [NG + 'add_channel_between_nodes', NG + 'channel_failed_permanent_with_time', NG + 'node_failed_permanent', NG + 'remove_stale_channels_and_tracking_with_time', NG + 'update_node_from_announcement_intern',
		NG + 'clear_nodes_announcement_info', NG + 'new', '<lightning::routing::gossip::NetworkGraph as lightning::util::ser::ReadableArgs>::read'],
}

def r17f(F):
	out = []
	F.calls
	# the per-direction update slots are written only by the verified update path and by pruning; a (re)announced channel starts empty
	for fld in ('one_to_two', 'two_to_one'):
		out += P3_field_census(F, '17.f', GP + 'ChannelInfo.' + fld, [NG + 'update_channel_internal', NG + 'remove_stale_channels_and_tracking_with_time'], kinds=('w', 'wi'), floor=2,
			note='directional updates may enter a ChannelInfo only through update_channel_internal (signature / timestamp / capacity checks); carrying them over to a replaced channel attributes them to nodes that never signed them')
	for ctor in (NG + 'add_channel_from_partial_announcement', NG + 'update_channel_from_unsigned_announcement_intern'):
		fu = F.func(ctor)
		ex = Expr(fu)
		for b, si in sites_construct(fu, 'ChannelInfo', 'ChannelInfo'):
			e = ex.of_rvalue(fu.blocks[b]['s'][si][2])
			names = e[4] or []
			ok = all(n in names and e[3][names.index(n)][0] == 'agg' and e[3][names.index(n)][2] == 'None' for n in ('one_to_two', 'two_to_one'))
			out.append(Result('17.f', ok, ('ok:' if ok else 'shape:') + 'fresh-channel-has-no-updates@' + ctor.rsplit('::', 1)[-1], '%s builds a ChannelInfo with both directions empty' % ctor.rsplit('::', 1)[-1], 1, where=F.where(ctor, fu.line_of(b))))
	for fld, allowed in WRITERS.items():
		key = F.field(GP + 'NetworkGraph.' + fld)
		allowed_n = {F.fn(a) for a in allowed if F.has_fn(a)}
		# functions that take the write lock of this field: a call RwLock::write whose receiver is a borrow of the field
		takers = set()
		n = 0
		for fnn, k, line in F.fieldacc[key]:
			kk, _, callee = k.partition(':')
			if callee.endswith('RwLock::write') or kk in ('w', 'wi', 'bm', 'bmi'):
				takers.add(root_fn(fnn))
				n += 1
		if n < 4:
			out.append(Result('17.f', False, 'floor:' + fld, 'only %d write-lock sites of NetworkGraph.%s found' % (n, fld), n))
		# IndexedMap::range needs `&mut self` (it sorts its key index lazily): these read-only walkers take the write lock for that alone
		ro = {F.fn(a) for a in RANGE_ONLY[fld] if F.has_fn(a)}
		for t in sorted(takers & ro):
			used = set()
			for f2 in F.family(t):
				for rec in F.callees_of.get(f2, []):
					if rec[1].startswith('lightning::util::indexed_map::IndexedMap::'):
						used.add(rec[1].rsplit('::', 1)[-1])
			wr = []
			for adt in ('ChannelInfo', 'NodeInfo', 'ChannelUpdateInfo'):
				for k2, recs in F.fieldacc.items():
					if k2.startswith(GP + adt + '.'):
						wr += [k2 for fnn, kd, line in recs if root_fn(fnn) == t and kd.split(':')[0] in ('w', 'wi', 'bm', 'bmi')]
			ok = used <= {'range'} and not wr
			out.append(Result('17.f', ok, ('ok:' if ok else 'writer:') + 'range-only:%s@%s' % (fld, t.rsplit('::', 1)[-1]), '%s holds the %s write lock only for IndexedMap::range (IndexedMap methods used: %s; entry fields written: %s)' % (t.rsplit('::', 1)[-1], fld, sorted(used), sorted(set(wr))), len(used) + 1, where=F.where(t)))
		bad = sorted(t for t in takers if t not in allowed_n and t not in ro)
		for t in bad:
			out.append(Result('17.f', False, 'writer:%s@%s' % (fld, t), 'NetworkGraph.%s is write-locked / mutated in %s, which is not in the frozen set of graph mutators (each of which is entered through a verifying method or a documented unsigned/RGS path)' % (fld, t), n, where=F.where(t)))
		if not bad:
			out.append(Result('17.f', True, 'ok:' + fld, 'NetworkGraph.%s is write-locked only in %s' % (fld, sorted(x.rsplit('::', 1)[-1] for x in takers)), n))
	return out

def r17g(F):
	"""when a channel leaves the graph (removed, failed, or replaced after a reorg) its SCID is unlinked from the nodes of the channel that
	is LEAVING: the ChannelInfo handed to the unlinking routine is the entry taken from the channel map, never one supplied by the caller"""
	out = []
	NGI = 'lightning::routing::gossip::NetworkGraph::'
	F.calls
	n = 0
	MAP_READS = ('::get', '::remove', '::remove_entry', '::remove_fetch_bulk', '::get_mut', '::insert')
	for callee in ('remove_channel_in_nodes', 'remove_channel_in_nodes_callback'):
		for cn in sorted({r[0] for r in F.callers_of.get(F.fn(NGI + callee), [])}):
			fu = F.func(cn)
			ex = Expr(fu)
			if cn == F.fn(NGI + 'remove_channel_in_nodes'):
				continue   # the thin wrapper forwards its own parameter
			for b in sites_call(fu, [NGI + callee]):
				n += 1
				e = ex.of_operand(fu.blocks[b]['t'][2]['args'][2])
				calls = expr_leaves(e)['calls']
				from_map = any(c.endswith(MAP_READS) for c in calls)
				# a parameter of ChannelInfo type supplied by the caller
				param = [l for l in expr_local_ids(e) if 1 <= l <= fu.argc and 'ChannelInfo' in (fu.locals[l].get('ty') or '')]
				ok = from_map and not param
				short = cn.rsplit('::', 1)[-1]
				out.append(Result('17.g', ok, ('ok:' if ok else 'wrong-channel:') + 'unlink-uses-leaving-entry@' + short, '%s: the channel unlinked from its nodes is the entry read from the channel map (%s)%s' % (short, expr_str(e)[:60], '' if ok else ' - it is the ChannelInfo supplied by the caller: the nodes of the channel being replaced keep listing the SCID (and are never pruned), while the new channel\'s nodes are unlinked from it'), 1, where=F.where(cn, fu.line_of(b))))
	if n < 3:
		out.append(Result('17.g', False, 'floor:unlink-sites', 'only %d call sites of remove_channel_in_nodes[_callback] (expected >= 3)' % n, n))
	return out

def r17h(F):
	"""replacing a known channel after chain validation is remove + add: the old entry is unlinked from its nodes on EVERY path to the overwrite,
	because the code below links the (new) channel into both nodes unconditionally - skipping the unlink lists the SCID twice, so the graph
	depends on how often the same valid announcement was delivered"""
	out = []
	fn = 'lightning::routing::gossip::NetworkGraph::add_channel_between_nodes'
	fu = F.func(fn)
	unlink = set(sites_call(fu, ['lightning::routing::gossip::NetworkGraph::remove_channel_in_nodes']))
	over = {b for b, ci in fu.calls() if norm(ci.get('f') or '').endswith('OccupiedEntry::get_mut') and b in fu.reach([0])}
	if not unlink or not over:
		return [Result('17.h', False, 'anchor:replace-arm', 'add_channel_between_nodes: the unlink call / the overwrite of the occupied entry were not found (%d / %d)' % (len(unlink), len(over)), where=F.where(fn))]
	out += P5_must_pass(F, '17.h', fu, [0], sorted(over), unlink, 'remove_channel_in_nodes before the occupied entry is overwritten', key='unlink-before-overwrite')
	# and the linking below is unconditional for both nodes (so remove + add is the only consistent pairing)
	pushes = [b for b, ci in fu.calls() if norm(ci.get('f') or '').endswith('Vec::push') and b in fu.reach([0])]
	out.append(Result('17.h', len(pushes) >= 1, ('ok:' if len(pushes) >= 1 else 'shape:') + 'nodes-linked', 'add_channel_between_nodes links the channel id into its nodes (%d push site(s))' % len(pushes), len(pushes), where=F.where(fn)))
	return out

def r17i(F):
	"""while a channel_announcement waits for its UTXO lookup, later channel_updates / node_announcements are parked: the parked message is
	replaced only by one with a strictly newer timestamp (or when nothing is parked), so that what is applied on resolution is what direct
	delivery would have left in the graph"""
	out = []
	for fn in ('check_hold_pending_channel_update', 'check_hold_pending_node_announcement'):
		full = 'lightning::routing::utxo::PendingChecks::' + fn
		gs = guards_in(F, full, with_closures=True)
		cmps = []
		for g in gs:
			terms, op, K, used = g.nf
			held = [v for v in terms if re.search(r'(^|[^a-z_])timestamp\(', v)]
			new = [v for v in terms if re.search(r'\.timestamp$', v)]
			if len(terms) == 2 and len(held) == 1 and len(new) == 1:
				o = g.oriented(r'\.timestamp$')
				cmps.append((g, o))
		if not cmps:
			out.append(Result('17.i', False, 'guard:parked-replaced-only-by-newer@' + fn, '%s: no comparison of the parked message\'s timestamp with the new message\'s timestamp' % fn, len(gs), where=F.where(F.fn(full))))
			continue
		for g, o in cmps:
			ok = (o[1], o[2]) in (('Gt', 0), ('Ge', 1)) and bool(g.decisions)
			if ok:
				# polarity: the parked slot is overwritten (a Full / Unsigned wrapper is built) only past the true edge of this test or of `is_none()`
				cu = g.fu
				stores = {b for b, si in sites_construct(cu, 'utxo::ChannelUpdate')} | {b for b, si in sites_construct(cu, 'utxo::NodeAnnouncement')}
				nb = [b for b, ci in cu.calls() if norm(ci.get('f') or '').endswith('Option::is_none')]
				pe = set()
				for d in list(g.decisions) + call_decisions(cu, nb, 'bool'):
					pe |= set(d.true_edges)
				live = cu.reach([0], removed_edges=pe)
				if not stores or (stores & live):
					ok = False
			out.append(Result('17.i', ok, ('ok:' if ok else 'shape:') + 'parked-replaced-only-by-newer@' + fn, '%s: the parked message is replaced iff `%s` (expected: new timestamp - parked timestamp > 0)' % (fn, cmp_str(o)), 1, where=F.where(g.fu.name, g.line)))
	return out

RULES = [
	('17.h', 'replacing a chain-validated channel always unlinks the old entry from its nodes before overwriting it', r17h),
	('17.g', 'a channel leaving the graph is unlinked from the nodes of the stored entry, not of a caller-supplied ChannelInfo', r17g),
	('17.a', 'channel_update: stored only past chain hash, htlc_max, capacity, strictly-newer timestamp (re-checked under the write lock), signature for the selected direction', r17a),
	('17.b', 'signed entry points verify: signature passed on, announcements verified (4+1 signatures) before *_intern, pending messages replayed through verifying paths', r17b),
	('17.c', 'node announcements only strictly newer; duplicate / tombstoned / unsorted / wrong-chain channel announcements refused', r17c),
	('17.d', 'permanent failures and stale pruning remove exactly what the property says', r17d),
	('17.e', 'graph objects are fully serialized', r17e),
	('17.f', 'graph maps are mutated only by the frozen function set', r17f),
	('17.p', 'same-name field transfer: structs carrying this property\'s quantities are filled from the same-named field or a reviewed alias (rules/provenance.py)', lambda F: provenance.for_property(F, 'C17', '17.p')),
	('17.q', 'no call hands a value named like one parameter of the callee to a different parameter (swapped type-compatible arguments; rules/provenance.py)', lambda F: provenance.swaps_for_property(F, 'C17', '17.q')),
	('17.i', 'messages parked during an async UTXO lookup are replaced only by newer ones (both parking routines)', r17i),
	('17.v', 'field-versus-field comparisons (a received value against a limit, an id against an id) are the reviewed ones: same fields, same operator (rules/provenance.py)', lambda F: provenance.cmps_for_property(F, 'C17', '17.v')),
	('17.z', 'named protocol / policy constants in this property\'s files have their reviewed values (rules/provenance.py)', lambda F: provenance.consts_for_property(F, 'C17', '17.z')),
	('17.s', 'no reviewed function gained a short-circuiting iterator adaptor (find / find_map / take / position ...: an every-element walk that stops at the first match; rules/provenance.py)', lambda F: provenance.sc_for_property(F, 'C17', '17.s')),
	('17.y', 'no reviewed function gained a swallowed error (the Result of a fallible in-crate call dropped; rules/provenance.py)', lambda F: provenance.dr_for_property(F, 'C17', '17.y')),
	('17.o', 'hand-written eq / cmp / partial_cmp / hash impls in this property\'s files: same field on both sides, reviewed direction, no reviewed key lost, hash within eq (rules/ordimpls.py)', lambda F: ordimpls.for_property(F, 'C17', '17.o')),
]
RULES.append(('17.t', 'identity comparisons: every reviewed (function, identity type) == / != comparison (HTLCSource, Txid, OutPoint, ChannelId, PaymentHash, PublicKey, ...) is still made - a function does not silently change what it matches by (rules/provenance.py)', lambda F: provenance.ids_for_property(F, 'C17', '17.t')))
RULES.append(('17.P', 'panic sites: no reviewed function that parses / handles untrusted input gained an unwrap / expect / explicit panic / bounds-checked index / length-checked copy / division (rules/provenance.py; panic freedom itself is not decided)', lambda F: provenance.panics_for_property(F, 'C17', '17.P')))
RULES.append(('17.M', 'collection mutations: every reviewed (function, stored collection, mutator class: add / remove / filter / empty / swap / order) triple is still present - an entry that is no longer removed, inserted or drained on one path (rules/mutations.py)', lambda F: mutations.for_property(F, 'C17', '17.M')))
RULES.append(('17.A', 'enum accessors agree across sibling variants: an accessor that returns the payload field `x` for one variant returns it for every variant whose payload carries a field of that name and type (a variant moved to the `=> None` arm) - rules/accessors.py', lambda F: accessors.for_property(F, 'C17', '17.A')))
RULES.append(('17.G', 'guard census: no reviewed call of a workspace function and no reviewed mutation of a stored collection gained a controlling branch condition (an added `&& cond`, early return / continue, more specific match arm in front of an act); counts per call site, name free (rules/guards.py)', lambda F: guards.for_property(F, 'C17', '17.G')))
RULES.append(('17.I', 'parse-position independence: in every function reading from a reader, no stream read is skipped under a condition computed from local state (self, another argument) while parsing goes on - a skipped incremental update in a rapid-gossip-sync snapshot still consumes its fields (rules/parsepos.py)', lambda F: parsepos.rule(F, '17.I', lambda n, r: re.search(r'lightning-rapid-gossip-sync/|routing/gossip\\.rs$', r['file']) is not None and 'ser_macros' not in r['file'], 1, 30)))
RULES.append(('17.W', 'field assignments: every reviewed (function, Type.field) direct assignment is still made - state that a path no longer updates, or updates only conditionally (get_or_insert for an overwrite); generalises NN.R (rules/writes.py)', lambda F: writes.for_property(F, 'C17', '17.W')))
RULES.append(('17.N', 'arithmetic census: per reviewed function the set of operation kinds (group: add/sub, mul, div, rem, shift, bit, min, max, div_ceil ...; flavour: plain / checked / saturating / wrapping) keeps its kinds: no reviewed function lost or gained a kind of arithmetic altogether - a rounding direction (`/` for div_ceil), saturating for checked, min for max (rules/arith.py; counts and value arithmetic itself are not judged)', lambda F: arith.for_property(F, 'C17', '17.N')))
RULES.append(('17.K', 'constant census of linear forms: every comparison (normalised to sum >= K over name-free atoms, a comparison and its negation being one form) and every maximal arithmetic expression of a reviewed function keeps its coefficients and its constant - a dropped or added `+ 1` / `- 1`, `<` for `<=` inside a computed bound, a scale factor applied twice or not at all, swapped operands of a comparison (rules/linforms.py; shapes that appear or disappear are not judged, the guard / arithmetic censuses judge those)', lambda F: linforms.for_property(F, 'C17', '17.K')))
