"""Parse-position independence (rule ids NN.I): whether a deserializer consumes a byte depends only on bytes it has already consumed.

In a stream parser every `read` / `read_exact` on the reader is control dependent on conditions; if one of them is computed from anything but
the stream itself (the local graph, `self`, another argument) and the branch that skips the read goes on parsing, the reader's position after
the record depends on local state: the skipped bytes are taken for the next record and everything after them is misparsed (or a valid message is
rejected).  Decided per function that reads from a reader argument: taint = locals computed from `self` fields / arguments other than the reader
(data flow through assignments and call arguments, fixpoint); for every branch block D with a tainted condition and every stream read R such that
one successor of D reaches R without passing D again and another does not, that other successor must not reach any stream read at all (it may
only leave the parser).  Error exits and `continue`s placed after the last read of a record are therefore fine."""
import re, collections
from engine import *

_READ_TAILS = ('read', 'read_exact', 'read_to_end', 'read_from_fixed_length_buffer', 'read_to_limit', 'eat_remaining', 'read_with_fixed_length')

def _is_reader_ty(ty):
	ty = ty or ''
	return ty.startswith('&mut ') and not ty.startswith('&mut lightning') and ('Read' in ty or re.match(r'^&mut [A-Z][A-Za-z0-9]*$', ty) or 'Cursor' in ty)

def analyse(F, name):
	"""(list of violations [(D line, R line, cond)], number of (D, R) pairs examined, number of stream reads)"""
	fu = F.func(name)
	readers = {i for i in range(1, fu.argc + 1) if _is_reader_ty(fu.locals[i].get('ty'))}
	if not readers:
		return [], 0, 0
	# stream reads: calls with a reader (or a local reborrowed from it) as an argument
	rd_alias = set(readers)
	for _ in range(4):
		for bi, si, s in fu.stmts():
			rv = s[2]
			if len(s[1]) == 1 and ((rv[0] in ('ref', 'rawptr') and rv[2][0] in rd_alias) or (rv[0] == 'use' and rv[1][0] in ('c', 'm') and rv[1][1][0] in rd_alias)):
				rd_alias.add(s[1][0])
	reads = []
	for b, ci in fu.calls():
		if fu.is_cleanup(b):
			continue
		f = norm(ci.get('f') or ci.get('t') or '')
		if f.rsplit('::', 1)[-1] in _READ_TAILS and any(a[0] in ('c', 'm') and a[1] and a[1][0] in rd_alias for a in ci['args']):
			reads.append(b)
	if len(reads) < 2:
		return [], 0, len(reads)
	# taint: state = arguments other than the readers
	# (by-value scalars and tuples of them are selectors the caller read from the stream itself - a message type, a TLV type, a length)
	taint = {i for i in range(1, fu.argc + 1) if i not in readers and (fu.locals[i].get('ty') or '').startswith(('&', 'lightning', 'alloc::', 'std::', 'core::option::Option<&'))}
	changed = True
	def op_t(o):
		return o[0] in ('c', 'm') and o[1] and o[1][0] in taint
	def rv_t(rv):
		k = rv[0]
		if k == 'use': return op_t(rv[1])
		if k in ('ref', 'rawptr'): return rv[2][0] in taint
		if k == 'bin': return op_t(rv[2]) or op_t(rv[3])
		if k in ('un', 'cast'): return op_t(rv[2])
		if k == 'disc': return rv[1][0] in taint
		if k == 'agg': return any(op_t(o) for o in rv[4])
		if k == 'repeat': return op_t(rv[1])
		return False
	n = 0
	while changed and n < 30:
		changed = False
		n += 1
		for bi, si, s in fu.stmts():
			if s[1] and s[1][0] not in taint and s[1][0] not in rd_alias and rv_t(s[2]):
				taint.add(s[1][0]); changed = True
		for b, ci in fu.calls():
			d = ci.get('dest')
			if d and d[0] not in taint and d[0] not in rd_alias and any(op_t(a) for a in ci['args']):
				taint.add(d[0]); changed = True
	viol = []
	pairs = 0
	ex = None
	heads = set(back_edge_heads(fu)) | set(loop_heads(fu))
	cyc = {h: (fu.reach([h]) & fu.reach_back([h])) for h in heads}
	allreads = set(reads)
	for D in range(len(fu.blocks)):
		t = fu.blocks[D]['t']
		if t[1] != 'switch' or fu.is_cleanup(D):
			continue
		if not (t[2][0] in ('c', 'm') and t[2][1] and t[2][1][0] in taint):
			continue
		succs = fu.succ(D)
		if len(succs) < 2:
			continue
		# confined to the current iteration of the loops D lies in: a read of the NEXT record does not count as "this read still happens"
		cut = {D} | {h for h in heads if D in cyc[h]}
		rs = [fu.reach([x], removed_blocks=cut) if x not in cut else set() for x in succs]
		full = [fu.reach([x]) for x in succs]
		for R in reads:
			can = [i for i in range(len(succs)) if R in rs[i]]
			cannot = [i for i in range(len(succs)) if R not in rs[i]]
			if not can or not cannot:
				continue
			pairs += 1
			for i in cannot:
				if full[i] & allreads:
					ex = ex or Expr(fu)
					viol.append((fu.line_of(D), fu.line_of(R), expr_str(ex.of_operand(t[2]))[:120]))
					break
	return viol, pairs, len(reads)

def rule(F, rule_id, name_pred, floor_fns=1, floor_reads=2, exceptions=()):
	out = []
	nf = nr = 0
	for n in sorted(F.fns):
		if not name_pred(n, F.fns[n]):
			continue
		try:
			viol, pairs, nreads = analyse(F, n)
		except AnchorMissing:
			continue
		if nreads < 2:
			continue
		nf += 1; nr += nreads
		short = root_fn(n).split(' as ')[0].rsplit('::', 2)[-2:] if '::' in n else [n]
		short = '::'.join(x.strip('<>') for x in short)[-70:]
		seen = set()
		for dl, rl, cond in viol:
			if (short, cond) in seen or (short,) in exceptions:
				continue
			seen.add((short, cond))
			out.append(Result(rule_id, False, 'position:%s:%s' % (short, re.sub(r'[0-9]+', 'N', cond)[:60]), '%s: whether the stream read at line %d happens depends on `%s` (line %d), which is computed from local state and not from the stream, and the branch that skips it goes on reading: the bytes of the skipped field are taken for what follows' % (short, rl, cond, dl), 1, where=F.where(n, dl)))
	if nf < floor_fns or nr < floor_reads:
		return [Result(rule_id, False, 'anchor:stream-parsers', 'only %d stream-parsing function(s) with %d reads found (expected >= %d / %d)' % (nf, nr, floor_fns, floor_reads))]
	if not out:
		out.append(Result(rule_id, True, 'ok:position-independent', '%d stream-parsing functions, %d stream reads: no read is skipped under a condition computed from local state while parsing goes on' % (nf, nr), nr))
	return out
