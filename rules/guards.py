"""Guard census (rule ids NN.G): no reviewed act gained a controlling condition.

The "deleted check" has many nets in these tables; its mirror image - a condition ADDED in front of an act (an extra `&& cond`, an extra early
`return` / `continue`, a match arm made more specific, a new `?` before it), so that the act silently stops happening in one situation - keeps every
reviewed call, comparison and mutation in place.  What changes is the act's control dependence.  For every call of a workspace function (and every
mutator call on a stored collection, rules/mutations.py) the census counts the branch blocks the call is control dependent on within its function
(a branch of which one successor can still reach the call and another cannot, loops cut at their heads).  The reviewed table
(rules/guards_table.json, per build profile) holds, per (file, function, callee), the sorted tuple of those counts over the call sites; while the
number of call sites is unchanged no count may grow.  Name free: counts, not conditions, are compared - nested `if`s versus `&&`, reordering,
renaming and hoisting a condition into a local are silent; a function that gains or loses call sites of that callee is not judged for it
(who-may-call rules cover that), new functions are not judged, losing conditions is the business of the guard rules proper."""
import json, os, collections, re
from engine import *
import mutations

_SKIP_TAILS = {'log', 'fmt', 'clone', 'deref', 'deref_mut', 'as_ref', 'borrow', 'eq', 'ne', 'cmp', 'partial_cmp', 'hash', 'default', 'from', 'into', 'drop', 'write', 'read',
	'serialized_length', 'to_string', 'as_str', 'len', 'is_empty', 'iter', 'next', 'new', 'with_capacity', 'log_given_level'}

def cond_counts(fu):
	"""{block: number of branch blocks it is control dependent on}"""
	nb = len(fu.blocks)
	heads = set(back_edge_heads(fu)) | set(loop_heads(fu))
	# loops a block belongs to: head h with b in cycle(h)
	cyc = {}
	for h in heads:
		fwd = fu.reach([h])
		bwd = fu.reach_back([h])
		cyc[h] = fwd & bwd
	cnt = collections.Counter()
	for s in range(nb):
		t = fu.blocks[s]['t']
		if t[1] != 'switch' or fu.is_cleanup(s):
			continue
		succs = fu.succ(s)
		if len(succs) < 2:
			continue
		cut = {s} | {h for h in heads if s in cyc[h]}
		rs = [fu.reach([x], removed_blocks=cut) if x not in cut else set() for x in succs]
		union = set().union(*rs)
		inter = set(rs[0]).intersection(*rs[1:])
		# a short-circuit condition (`a || b`, `a && b && c`) is lowered to one bool local with one definition per term, tested by ONE switch:
		# the weight of a switch is the number of definitions of the local it tests (an added `|| c` adds a definition, not a switch the act
		# depends on)
		w = 1
		if t[2][0] in ('c', 'm') and len(t[2][1]) == 1:
			x = t[2][1][0]
			for _ in range(3):
				ds = [d for d in fu.defs.get(x, []) if len(d[2]) == 1]
				if len(ds) == 1 and ds[0][1] != 'T' and ds[0][3][0] == 'use' and ds[0][3][1][0] in ('c', 'm') and len(ds[0][3][1][1]) == 1:
					x = ds[0][3][1][1][0]
				else:
					break
			if (fu.locals[x].get('ty') or '') == 'bool' and x > fu.argc:
				w = max(1, len([d for d in fu.defs.get(x, []) if len(d[2]) == 1]))
		for b in union - inter:
			cnt[b] += w
	return cnt

_C = {}

def census(F):
	"""{(file, fn tail, callee key): sorted tuple of condition counts over its call sites}, plus where"""
	if F.dir in _C:
		return _C[F.dir]
	cache = os.path.join(F.dir, 'cache_guards4.json')
	if os.path.exists(cache):
		try:
			d = json.load(open(cache))
			out = ({tuple(k): tuple(v) for k, v in d['t']}, {tuple(k): tuple(v) for k, v in d['w']}, {k: set(v) for k, v in d['k'].items()})
			_C[F.dir] = out
			return out
		except Exception:
			pass
	tab = collections.defaultdict(list)
	where = {}
	known = collections.defaultdict(set)
	for n, r in F.fns.items():
		if not n.startswith(('lightning', '<lightning')) or 'ser_macros' in r['file'] or F.impl_kind.get(root_fn(n)) == 'derived':
			continue
		fl = r['file'].split('/')[0] + ':' + (r['file'].split('src/')[-1] if 'src/' in r['file'] else r['file'])
		tail = root_fn(n).rsplit('::', 1)[-1]
		known[fl].add(tail)
		try:
			fu = F.func(n)
		except AnchorMissing:
			continue
		sites = []
		ex = None
		for b, ci in fu.calls():
			if fu.is_cleanup(b):
				continue
			f = norm(ci.get('f') or ci.get('t') or '')
			ct = f.rsplit('::', 1)[-1]
			key = None
			if f.startswith(('lightning', '<lightning')) and 'util::logger' not in f and ct not in _SKIP_TAILS:
				# inherent / trait method of the workspace: Type::method
				m = re.search(r'([A-Za-z_0-9]+)(?:<.*>)?::([a-z_0-9A-Z]+)$', f)
				key = (m.group(1) + '::' + m.group(2)) if m else ct
			else:
				cl = mutations.classify(f) or (mutations.classify(norm(ci.get('t'))) if ci.get('t') else None)
				if cl and ci['args']:
					ex = ex or Expr(fu, max_depth=14)
					rf = mutations.root_field(ex.of_operand(ci['args'][0]), ex)
					if rf:
						key = rf + ':' + cl[0]
			if key:
				sites.append((b, key))
		# assignments to a field of state that outlives the call (reached through a reference) are acts too: `*current_hold_time = Some(t)` under a
		# match arm made more specific is the same defect as a call behind an added condition
		for bi, si, st in fu.stmts():
			pl = st[1]
			if fu.is_cleanup(bi) or len(pl) < 2 or '*' not in pl[1:]:
				continue
			last = pl[-1]
			fld = None
			if isinstance(last, str) and last.startswith('.') and '#' in last:
				nm, _, owner = last[1:].partition('#')
				ow = norm(owner).rsplit('::', 1)[-1]
				if not nm.isdigit() and ow not in ('Some', 'Ok', 'Err'):
					fld = ow + '.' + nm
			elif last == '*' and len(pl) == 2 and isinstance(pl[0], int) and pl[0] > fu.argc:
				# `*binding = value` where the binding is a `ref mut` of a field (match ergonomics): resolve the binding's one definition
				ds = [d for d in fu.defs.get(pl[0], []) if len(d[2]) == 1]
				if len(ds) == 1 and ds[0][3][0] == 'ref' and ds[0][3][1]:
					tp = ds[0][3][2]
					l2 = tp[-1] if tp else None
					if isinstance(l2, str) and l2.startswith('.') and '#' in l2 and '*' in tp[1:]:
						nm, _, owner = l2[1:].partition('#')
						ow = norm(owner).rsplit('::', 1)[-1]
						if not nm.isdigit() and ow not in ('Some', 'Ok', 'Err'):
							fld = ow + '.' + nm
			if fld:
				sites.append((bi, fld + ':='))
		if not sites:
			continue
		cc = cond_counts(fu)
		# sites inside closures / async blocks are attributed to the enclosing function but counted within the closure's own CFG: they are keyed
		# apart, so that moving a call between a closure and the function body (`iter.for_each(|x| f(x))` <-> `for x in iter { f(x) }`) changes the
		# number of sites of both keys and is not judged
		inclo = '@closure' if '{closure' in n else ''
		for b, key in sites:
			k = (fl, tail, key + inclo)
			tab[k].append(cc.get(b, 0))
			where.setdefault(k, (n, fu.line_of(b)))
	out = ({k: tuple(sorted(v)) for k, v in tab.items()}, where, known)
	try:
		tmp = cache + '.%d' % os.getpid()
		json.dump({'t': [[list(k), list(v)] for k, v in out[0].items()], 'w': [[list(k), list(v)] for k, v in where.items()], 'k': {k: sorted(v) for k, v in known.items()}}, open(tmp, 'w'))
		os.replace(tmp, cache)
	except Exception:
		pass
	_C[F.dir] = out
	return out

_T = None
def table():
	global _T
	if _T is None:
		_T = json.load(open(os.path.join(os.path.dirname(os.path.abspath(__file__)), 'guards_table.json')))
	return _T

def rule(F, rule_id, file_res, floor=1, profile=None, fn_re=None):
	tab, where, known = census(F)
	prof = profile or ('dev' if F.dir.rstrip('/').endswith('-dev') else 'release')
	T = table().get(prof)
	if T is None:
		return [Result(rule_id, False, 'anchor:guards-table', 'no reviewed guard table for build profile %s' % prof)]
	out = []
	n = 0
	for row in T:
		fl, tail, key, counts = row[0], row[1], row[2], tuple(row[3])
		if not any(re.search(p, fl.replace(':', '/src/')) for p in file_res):
			continue
		if tail not in known.get(fl, ()):
			continue
		if fn_re and not re.search(fn_re, tail):
			continue
		cur = tab.get((fl, tail, key))
		if cur is None or len(cur) != len(counts):
			continue   # the function gained / lost call sites of this callee: not judged here
		n += len(cur)
		grown = [(a, b) for a, b in zip(counts, cur) if b > a]
		if grown:
			fn, line = where[(fl, tail, key)]
			out.append(Result(rule_id, False, 'guard-gained:%s:%s' % (tail, key), '%s: the call of %s now depends on more branch conditions than reviewed (%s -> %s over its %d site(s)): an added `&& cond`, early return / continue or more specific match arm in front of it - the act no longer happens in a situation in which it used to' % (tail, key, list(counts), list(cur), len(cur)), len(cur), where=F.where(fn, line)))
	if n < floor:
		return [Result(rule_id, False, 'anchor:guards', 'only %d reviewed call sites left in %s (expected >= %d)' % (n, file_res, floor))]
	if not out:
		out.append(Result(rule_id, True, 'ok:guards', '%d reviewed call sites (workspace calls and stored-collection mutations) in %s: none gained a controlling branch condition' % (n, '|'.join(file_res)), n))
	return out

SCOPE = {
	'C01': ([r'ln/channel\.rs$', r'ln/chan_utils\.rs$', r'ln/interactivetxs\.rs$', r'ln/funding\.rs$'], 2181),
	'C02': ([r'ln/channelmanager\.rs$', r'ln/onion_payment\.rs$'], 1977),
	'C03': ([r'ln/outbound_payment\.rs$', r'ln/channelmanager\.rs$'], 2128),
	'C04': ([r'ln/channelmanager\.rs$', r'ln/inbound_payment\.rs$', r'ln/onion_payment\.rs$'], 1998),
	'C05': ([r'ln/channel\.rs$', r'ln/chan_utils\.rs$', r'sign/mod\.rs$'], 2132),
	'C06': ([r'chain/channelmonitor\.rs$', r'chain/onchaintx\.rs$', r'chain/package\.rs$'], 951),
	'C07': ([r'chain/channelmonitor\.rs$', r'chain/onchaintx\.rs$', r'chain/package\.rs$', r'util/sweep\.rs$', r'events/bump_transaction/', r'sign/mod\.rs$'], 1216),
	'C08': ([r'ln/channel\.rs$', r'ln/channelmanager\.rs$', r'chain/channelmonitor\.rs$', r'ln/onion_payment\.rs$', r'chain/onchaintx\.rs$'], 320,
		r'^(block_confirmed|do_best_block_updated|best_block_updated|do_chain_event|check_incoming_htlc_cltv|can_forward_htlc|can_forward_htlc_should_intercept|transactions_confirmed|should_broadcast_holder_commitment_txn|update_claims_view_from_requests|update_claims_view_from_matched_txn|process_pending_update_add_htlcs|get_pending_htlc_info|create_recv_pending_htlc_info|create_fwd_pending_htlc_info|timer_tick_occurred|get_onchain_failed_outbound_htlcs|fail_unbroadcast_htlcs)$'),
	'C09': ([r'chain/chainmonitor\.rs$', r'ln/channelmanager\.rs$', r'ln/channel\.rs$'], 3839),
	'C10': ([r'ln/channelmanager\.rs$', r'chain/channelmonitor\.rs$', r'ln/outbound_payment\.rs$'], 2737),
	'C11': ([r'chain/channelmonitor\.rs$', r'chain/onchaintx\.rs$', r'chain/chainmonitor\.rs$', r'ln/channel\.rs$'], 2628),
	'C12': ([r'util/ser\.rs$', r'util/ser_macros\.rs$', r'routing/scoring\.rs$'], 195),
	'C13': ([r'ln/msgs\.rs$', r'ln/wire\.rs$', r'util/ser\.rs$', r'onion_message/packet\.rs$'], 209),
	'C14': ([r'ln/onion_utils\.rs$', r'ln/onion_payment\.rs$', r'blinded_path/', r'onion_message/'], 463),
	'C15': ([r'ln/peer_handler\.rs$', r'ln/peer_channel_encryptor\.rs$'], 370),
	'C16': ([r'routing/router\.rs$', r'routing/scoring\.rs$'], 617),
	'C17': ([r'routing/gossip\.rs$', r'routing/utxo\.rs$', r'lightning-rapid-gossip-sync/'], 294),
	'C18': ([r'lightning-invoice/', r'offers/'], 912),
	'C19': ([r'util/persist\.rs$', r'chain/chainmonitor\.rs$', r'lightning-persister/'], 231),
	'C20': ([r'lightning-block-sync/'], 68),
}

# additional (files, floor, function filter) scopes per property
EXTRA = {
	# the readers / writers of the persisted top-level objects: a registration, replay or fix-up step of a reader that silently stops happening
	# for one shape of stored object is a round-trip defect (the reloaded object no longer behaves like the one that was written)
	'C12': [([r'ln/channelmanager\.rs$', r'ln/channel\.rs$', r'chain/channelmonitor\.rs$', r'ln/outbound_payment\.rs$', r'chain/onchaintx\.rs$', r'routing/gossip\.rs$', r'util/sweep\.rs$'], 700,
		r'^(read|write|from_channel_manager_data|read_(?!only).*|write_.*)$')],
}

def for_property(F, pid, rule_id):
	sc = SCOPE[pid]
	out = rule(F, rule_id, sc[0], sc[1], fn_re=sc[2] if len(sc) > 2 else None)
	for extra in EXTRA.get(pid, ()):
		out += [r for r in rule(F, rule_id, extra[0], extra[1], fn_re=extra[2]) if not r.ok or r.key.startswith('anchor')]
	return out
