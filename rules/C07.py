"""C07 - after a unilateral close every entitled output is recovered, validly and in time (structural part)."""
from engine import *
import linforms
import obligations
import provenance
import guards
import arith
import writes
import mutations
import accessors
import eventloops
import chainrules

MONP = 'lightning::chain::channelmonitor::'
MON = MONP + 'ChannelMonitorImpl::'
OTX = 'lightning::chain::onchaintx::OnchainTxHandler::'
PKG = 'lightning::chain::package::'

EXPLANATION = ('Funnel, comparison-shape, decision-table and control-dependence rules over chain::channelmonitor, chain::onchaintx and chain::package: monitor-side broadcasts happen only inside '
	'the OnchainTxHandler claim routines (so every claim passes generate_claim and the fee-bump policy); feerate_bump never lowers the feerate - a new estimate is used only when strictly '
	'higher, ForceBump otherwise adds a quarter, the replacement fee is at least previous fee + incremental relay fee, and a bumped output below dust yields None; a package\'s locktime is '
	'the signed locktime or max(current height, input minimum locktime), i.e. final at broadcast height for untimed inputs; spendable-output events come only from matured '
	'MaturingOutput entries; on a counterparty commitment an HTLC output is claimed iff (received HTLC) or (offered HTLC with known preimage), with no amount filter, and a preimage learnt '
	'after the close reaches the claim routines for the counterparty\'s current / previous and the holder\'s current / previous commitment; the reorg boundary and maturity threshold rules '
	'of C11 are shared. Also: claims are recorded at the confirmation height of the commitment transaction (pending funding spend and all claim builders); claim requests / watched outputs collected when broadcasting our commitment are returned at every exit. Decides these shapes on all paths; balance conservation, script validity and fee trajectories are not decided.')
ASSUMPTIONS = ['transaction/script validity and the signer are out of scope', 'fee estimator and broadcaster honour their contracts']

def r07a(F):
	out = []
	F.calls
	tm = 'lightning::chain::chaininterface::BroadcasterInterface::broadcast_transactions'
	allowed = {F.fn(OTX + x) for x in ('update_claims_view_from_requests', 'update_claims_view_from_matched_txn', 'rebroadcast_pending_claims', 'blocks_disconnected')}
	sites = 0
	bad = []
	for rec in F.callers_of.get(tm, []):
		caller = root_fn(rec[0])
		if caller.startswith('lightning::chain::onchaintx') or caller.startswith('lightning::chain::channelmonitor') or caller.startswith('lightning::chain::package'):
			sites += 1
			if caller not in allowed:
				bad.append((caller, rec[3]))
	for c, l in bad:
		out.append(Result('07.a', False, 'caller:%s' % c, 'a claim transaction is broadcast from %s, outside the OnchainTxHandler claim routines (it would bypass generate_claim: locktime, fee bumping, tracking for reorgs)' % c, sites, where=F.where(c, l)))
	if sites < 4:
		out.append(Result('07.a', False, 'floor', 'only %d monitor-side broadcast sites found (expected >= 4)' % sites, sites))
	if not out:
		out.append(Result('07.a', True, 'ok', 'monitor-side broadcast_transactions is called only from update_claims_view_from_requests / _from_matched_txn / rebroadcast_pending_claims / blocks_disconnected (%d sites)' % sites, sites))
	# each of them obtains the transaction from generate_claim
	for fn in sorted(allowed):
		fu = F.func(fn)
		bc = set(fu.call_blocks(lambda p: p.endswith('BroadcasterInterface::broadcast_transactions')))
		gc = set(sites_call(fu, [OTX + 'generate_claim']))
		ok = bool(gc) and all(fu.reach_back([b]) & gc for b in bc)
		out.append(Result('07.a', ok, ('ok:' if ok else 'bypass:') + 'via-generate_claim@' + fn.rsplit('::', 1)[-1], '%s broadcasts only what generate_claim produced' % fn.rsplit('::', 1)[-1], len(bc) + len(gc), where=F.where(fn)))
	out += P1_who_may_call(F, '07.a', [OTX + 'generate_claim'], sorted(allowed), floor=4)
	# the claim requests / watched outputs collected when we broadcast our own commitment are returned at every exit that follows an insertion
	out += P_accum_returned(F, '07.a', 'lightning::chain::channelmonitor::ChannelMonitorImpl::generate_claimable_outpoints_and_watch_outputs', min_instances=2)
	out += P_accum_returned(F, '07.a', 'lightning::chain::channelmonitor::ChannelMonitorImpl::get_counterparty_output_claim_info')
	return out

def r07b(F):
	out = []
	fn = PKG + 'feerate_bump'
	fu = F.func(fn)
	ex = Expr(fu)
	vs = enum_variants(F, 'lightning::chain::onchaintx::FeerateStrategy')
	gs = [Guard(fu, c) for c in comparisons(fu)]
	# the new estimate is taken only when strictly higher than the previous feerate (two arms)
	hi = [g for g in gs if len(g.nf[0]) == 2 and any('previous_feerate' in v for v in g.nf[0]) and any('compute_fee_from_spent_amounts' in v for v in g.nf[0]) and g.nf[1] in ('Gt', 'Lt', 'Ge', 'Le')]
	ok = len(hi) == 2
	for g in hi:
		o = g.oriented(r'previous_feerate')
		# previous - new < 0
		ok = ok and (o[1], o[2]) in (('Lt', 0), ('Le', -1))
	out.append(Result('07.b', ok, ('ok:' if ok else 'shape:') + 'new-only-if-strictly-higher', 'HighestOfPreviousOrNew and ForceBump take the estimator\'s feerate only when it is strictly above the previous one (%s)' % [g.text() for g in hi], len(hi), where=F.where(fn)))
	# ForceBump fallback: previous + previous/4 ; never below previous
	bump = None
	for bi, si, s in fu.stmts():
		if s[2][0] == 'bin' and s[2][1].startswith('Add'):
			e = ex.of_rvalue(s[2])
			t = expr_str(e)
			if 'previous_feerate' in t and 'Div 4' in t:
				bump = e
	okb = False
	if bump is not None:
		a, b = bump[2], bump[3]
		def is_prev(x):
			return 'previous_feerate' in leaf_key(x) and x[0] != 'bin'
		def is_quarter(x):
			x2 = x
			if x2[0] == 'field' and x2[2] == '0':
				x2 = x2[1]
			return x2[0] == 'bin' and x2[1] == 'Div' and 'previous_feerate' in leaf_key(x2[2]) and x2[3][0] == 'const' and x2[3][1] == 4
		okb = (is_prev(a) and is_quarter(b)) or (is_prev(b) and is_quarter(a))
	out.append(Result('07.b', okb, ('ok:' if okb else 'shape:') + 'force-bump-quarter', 'ForceBump without a higher estimate uses previous_feerate + previous_feerate / 4 (%s)' % (expr_str(bump)[:80] if bump else None), 1, where=F.where(fn)))
	# the replacement pays at least previous_fee + min_relay_fee (BIP 125 rule 4)
	mx = fu.call_blocks(lambda p: p.endswith('cmp::max'))
	okm = False
	for b in mx:
		args = [ex.of_operand(a) for a in fu.blocks[b]['t'][2]['args']]
		ks = [leaf_key(a) for a in args]
		if any('INCREMENTAL_RELAY_FEE' in expr_str(a) or 'min_relay_fee' in k for a, k in zip(args, ks)):
			okm = True
	out.append(Result('07.b', okm, ('ok:' if okm else 'shape:') + 'rbf-minimum-increment', 'the bumped fee is max(new_fee, previous_fee + INCREMENTAL_RELAY_FEE * weight / 1000)', len(mx), where=F.where(fn)))
	# unchanged feerate => return as is; below-dust remainder => None
	eq = [g for g in gs if g.op == 'Eq' and any('previous_feerate' in v for v in g.nf[0])]
	out.append(Result('07.b', len(eq) == 1, ('ok:' if len(eq) == 1 else 'shape:') + 'unchanged-rebroadcast', 'an unchanged feerate returns the previous fee (plain rebroadcast), no RBF increment', len(eq), where=F.where(fn)))
	dust = [g for g in gs if any('dust_limit_sats' in v for v in g.nf[0])]
	okd = False
	for g in dust:
		o = g.oriented(r'dust_limit_sats')
		# dust - remaining > 0  => None
		for d in g.decisions:
			te = d.true_edges if (o[1] in ('Gt', 'Ge')) else d.false_edges
			r = fu.reach([e[1] for e in te], removed_blocks={d.b})
			none = {bi for bi, si, c in ret_assignments(fu) if c[0] == 'variant' and c[2] == 'None'}
			okd = bool(r & none) and not (r & set(ok_return_blocks(fu, variants=('Some',))))
	out.append(Result('07.b', okd, ('ok:' if okd else 'guard:') + 'no-dust-output', 'a bump that would leave the claim output below the dust limit yields None', len(dust), where=F.where(fn)))
	# strategy table: RetryPrevious returns the previous feerate unchanged
	sw = [x for x in variant_switch_edges(fu, lambda pl: True, vs) if len(x[1]) >= 2]
	out.append(Result('07.b', bool(sw), ('ok:' if sw else 'anchor:') + 'strategy-switch', 'feerate_bump dispatches on FeerateStrategy (%d variants)' % len(vs), len(sw), where=F.where(fn)))
	# compute_package_output: bumping path iff feerate_previous != 0
	cp = F.func(PKG + 'PackageTemplate::compute_package_output')
	fb = set(sites_call(cp, [PKG + 'feerate_bump']))
	g2 = [Guard(cp, c) for c in comparisons(cp) if any('feerate_previous' in v for v in cmp_normal(c[3], c[4], c[5])[0])]
	okc = len(g2) == 1 and g2[0].op in ('Ne', 'Eq') and g2[0].nf[2] == 0 and bool(fb)
	if okc:
		ds = g2[0].decisions
		res = P4_guarded(F, '07.b', cp, fb, ds, g2[0].op == 'Ne', 'a previous feerate exists', key='bump-iff-previous')
		out += res
		fresh = set(sites_call(cp, [PKG + 'compute_fee_from_spent_amounts']))
		out += P4_guarded(F, '07.b', cp, fresh, ds, g2[0].op != 'Ne', 'first broadcast (no previous feerate)', key='fresh-iff-no-previous')
	else:
		out.append(Result('07.b', False, 'anchor:compute_package_output', 'compute_package_output: feerate_previous != 0 test / feerate_bump call not found', where=F.where(cp.name)))
	return out

def r07c(F):
	out = []
	fn = PKG + 'PackageTemplate::package_locktime'
	fu = F.func(fn)
	ex = Expr(fu)
	sl = sites_call(fu, [PKG + 'PackageTemplate::signed_locktime'])
	mx = fu.call_blocks(lambda p: p.endswith('cmp::max'))
	ok = len(sl) == 1 and len(mx) == 1
	if ok:
		args = [ex.of_operand(a) for a in fu.blocks[mx[0]]['t'][2]['args']]
		ks = [leaf_key(a) for a in args]
		ok = any(a[0] == 'local' and 1 <= a[1] <= fu.argc for a in [_s(a) for a in args]) and any('minimum_locktime' in k or 'unwrap_or' in k or 'max(' in k for k in ks)
	out.append(Result('07.c', ok, ('ok:' if ok else 'shape:') + 'locktime-formula', 'package_locktime = signed locktime if any, else max(current_height, max input minimum locktime)', len(sl) + len(mx), where=F.where(fn)))
	if sl:
		ds = call_decisions(fu, sl, 'option')
		rets = ret_assignments(fu)
		# on the Some edge the result is the signed locktime; on the None edge the max()
		oks = False
		for d in ds:
			tr = fu.reach([e[1] for e in d.true_edges], removed_blocks={d.b})
			fr = fu.reach([e[1] for e in d.false_edges], removed_blocks={d.b})
			oks = not (set(mx) & tr) and bool(set(mx) & fr)
		out.append(Result('07.c', oks, ('ok:' if oks else 'shape:') + 'signed-locktime-wins', 'a pre-signed locktime is returned unchanged; only unsigned packages use the height-based locktime', 1, where=F.where(fn)))
	# generate_claim passes the current height
	gc = F.func(OTX + 'generate_claim')
	exg = Expr(gc)
	okg = False
	for b in sites_call(gc, [fn]):
		a = exg.of_operand(gc.blocks[b]['t'][2]['args'][1])
		okg = _s(a)[0] == 'local' and 1 <= _s(a)[1] <= gc.argc
	out.append(Result('07.c', okg, ('ok:' if okg else 'shape:') + 'height-arg', 'generate_claim evaluates package_locktime at its cur_height parameter', 1, where=F.where(gc.name)))
	# a package whose locktime is in the future is not broadcast yet: update_claims_view_from_requests defers it
	uc = F.func(OTX + 'update_claims_view_from_requests')
	gs = [Guard(uc, c) for c in comparisons(uc)]
	lt = [g for g in gs if any('package_locktime' in v for v in g.nf[0]) and any('cur_height' in v or v.startswith('arg') for v in g.nf[0])]
	okl = len(lt) >= 1 and all(g.oriented(r'package_locktime')[1:3] in (('Gt', 0), ('Ge', 1)) for g in lt)
	out.append(Result('07.c', okl, ('ok:' if okl else 'shape:') + 'defer-future-locktime', 'a claim request whose locktime exceeds cur_height is parked in locktimed_packages instead of being broadcast non-final (%s)' % [g.text()[:80] for g in lt], len(lt), where=F.where(uc.name)))
	return out

def _s(e):
	while e[0] in ('ref', 'deref', 'cast'):
		e = e[1]
	return e

def r07d(F):
	out = []
	# MaturingOutput entries are created where confirmed transactions are scanned for our outputs, and become events only at maturity
	mo = sorted({root_fn(fn) for (a, v), lst in F.constructs.items() if a == MONP + 'OnchainEvent' and v == 'MaturingOutput' for fn, line in lst if not root_fn(fn).endswith('::read') and not root_fn(fn).endswith('::clone')})
	allowed = {F.fn(MON + 'check_tx_and_push_spendable_outputs')}
	bad = [c for c in mo if c not in allowed]
	out.append(Result('07.d', bool(mo) and not bad, ('ok:' if mo and not bad else 'constructor:') + 'MaturingOutput', 'OnchainEvent::MaturingOutput is created only in check_tx_and_push_spendable_outputs (%s)' % [c.rsplit('::', 1)[-1] for c in mo], len(mo)))
	so = sorted({root_fn(fn) for (a, v), lst in F.constructs.items() if a == 'lightning::events::Event' and v == 'SpendableOutputs' for fn, line in lst if root_fn(fn).startswith('lightning::chain::')})
	oks = so == [F.fn(MON + 'block_confirmed')]
	out.append(Result('07.d', oks, ('ok:' if oks else 'constructor:') + 'SpendableOutputs', 'Event::SpendableOutputs is created in the chain module only by block_confirmed (from matured events, see C11.b): %s' % [c.rsplit('::', 1)[-1] for c in so], len(so)))
	# every confirmed transaction is scanned: transactions_confirmed calls check_tx_and_push_spendable_outputs on each iteration that is not skipped as already seen
	tc = F.func(MON + 'transactions_confirmed')
	cs = set(sites_call(tc, [MON + 'check_tx_and_push_spendable_outputs']))
	out.append(Result('07.d', len(cs) >= 1, ('ok:' if cs else 'shape:') + 'scan-confirmed-txs', 'transactions_confirmed scans confirmed transactions for outputs paying us (%d call site(s))' % len(cs), len(cs), where=F.where(tc.name)))
	# get_spendable_outputs recognises the four kinds of outputs we own
	gso = F.func(MON + 'get_spendable_outputs')
	kinds = set()
	for bi, si, s in gso.stmts():
		if s[2][0] == 'agg' and s[2][1] == 'adt' and norm(s[2][2]).endswith('SpendableOutputDescriptor'):
			kinds.add(s[2][3])
	want = {'StaticOutput', 'DelayedPaymentOutput', 'StaticPaymentOutput'}
	out.append(Result('07.d', want <= kinds, ('ok:' if want <= kinds else 'shape:') + 'descriptor-kinds', 'get_spendable_outputs builds %s' % sorted(kinds), len(kinds), where=F.where(gso.name)))
	out += chainrules.threshold_shape(F, '07.d')
	return out

def r07e(F):
	out = []
	fn = MON + 'get_counterparty_output_claim_info'
	fu = F.func(fn)
	off = set(sites_call(fu, [PKG + 'CounterpartyOfferedHTLCOutput::build']))
	rec = set(sites_call(fu, [PKG + 'CounterpartyReceivedHTLCOutput::build']))
	if len(off) != 1 or len(rec) != 1:
		return [Result('07.e', False, 'anchor:htlc-claim-builds', 'get_counterparty_output_claim_info: expected one offered and one received HTLC claim build, found %d/%d' % (len(off), len(rec)), where=F.where(fn))]
	for b, label in ((list(off)[0], 'offered'), (list(rec)[0], 'received')):
		conds = control_conds(fu, b)
		keys = [k for sb, k, ln in conds]
		bad = [k for k in keys if re.search(r'amount_msat|cltv_expiry|value', k) and 'to_bitcoin_amount' not in k and 'output' not in k]
		out.append(Result('07.e', not bad, ('ok:' if not bad else 'filter:') + 'no-amount-expiry-filter@' + label, 'the claim of a %s HTLC output on a counterparty commitment does not depend on its amount or expiry (conditions: %d)%s' % (label, len(keys), '' if not bad else ': %s' % bad), len(keys), where=F.where(fn, fu.line_of(b))))
	# offered HTLCs need a preimage: the build's preimage argument comes from payment_preimages.get(payment_hash)
	ex = Expr(fu)
	b = list(off)[0]
	args = [ex.of_operand(a) for a in fu.blocks[b]['t'][2]['args']]
	okp = any('payment_preimages' in expr_leaves(a)['fields'] or 'preimage' in leaf_key(a) for a in args)
	out.append(Result('07.e', okp, ('ok:' if okp else 'shape:') + 'offered-needs-preimage', 'an offered HTLC is claimed with the preimage stored for its payment hash', 1, where=F.where(fn, fu.line_of(b))))
	gs = control_conds(fu, b)
	okg = any('offered' in k for sb, k, ln in gs)
	out.append(Result('07.e', okg, ('ok:' if okg else 'shape:') + 'direction-selects-claim-kind', 'the HTLC direction selects between the preimage claim (offered) and the timeout claim (received)', len(gs), where=F.where(fn)))
	# received HTLCs (ours to time out) are always claimed
	b = list(rec)[0]
	keys = [k for sb, k, ln in control_conds(fu, b)]
	badr = [k for k in keys if 'payment_preimages' in k]
	out.append(Result('07.e', not badr, ('ok:' if not badr else 'filter:') + 'received-claimed-unconditionally', 'the timeout claim of a received HTLC does not require a preimage lookup', len(keys), where=F.where(fn)))
	# claims for a preimage learnt later: only offered HTLCs with this payment hash
	fn2 = MON + 'get_counterparty_output_claims_for_preimage'
	ok2 = False
	ob = set()
	for n in F.family(fn2):
		f2 = F.func(n)
		ob = set(sites_call(f2, [PKG + 'CounterpartyOfferedHTLCOutput::build']))
		if len(ob) == 1:
			keys = [k for sb, k, ln in control_conds(f2, list(ob)[0])]
			ok2 = any('offered' in k for k in keys) and any('payment_hash' in k or 'hash(' in k or 'eq(' in k for k in keys) and not any(re.search(r'amount_msat|cltv_expiry', k) for k in keys)
			break
	out.append(Result('07.e', ok2, ('ok:' if ok2 else 'shape:') + 'late-preimage-claim', 'get_counterparty_output_claims_for_preimage claims exactly the offered HTLCs whose payment hash equals SHA256(preimage)', len(ob), where=F.where(fn2)))
	return out

def r07f(F):
	out = []
	fn = MON + 'provide_payment_preimage'
	fu = F.func(fn)
	ins = set(fu.call_blocks(lambda p: p.endswith('Entry::or_insert_with') or p.endswith('HashMap::insert') or p.endswith('Entry::and_modify')))
	cp = set(sites_call(fu, [MON + 'get_counterparty_output_claims_for_preimage']))
	hp = set(sites_call(fu, [MON + 'get_broadcasted_holder_claims']))
	up = set(sites_call(fu, [OTX + 'update_claims_view_from_requests']))
	ok = bool(ins) and len(cp) >= 2 and len(hp) >= 1 and len(up) >= 3
	out.append(Result('07.f', ok, ('ok:' if ok else 'shape:') + 'late-preimage-routes', 'provide_payment_preimage stores the preimage and, when a commitment is already confirmed, regenerates claims for the counterparty\'s current and previous commitment (%d) and for the holder commitment (%d), each handed to update_claims_view_from_requests (%d)' % (len(cp), len(hp), len(up)), len(cp) + len(hp) + len(up), where=F.where(fn)))
	# each claim computation is followed by handing the requests to the claim handler
	for b in sorted(cp | hp):
		p = fu.path([s for s in fu.succ(b)], fu.return_blocks(), removed_blocks=up)
		out.append(Result('07.f', p is None, ('ok:' if p is None else 'bypass:') + 'claims-reach-handler@%d' % sorted(cp | hp).index(b), 'claims computed for the late preimage always reach OnchainTxHandler::update_claims_view_from_requests', 1, where=F.where(fn, fu.line_of(b))))
	# the preimage is stored before anything else (even when nothing is on chain yet)
	if ins:
		first_ret = fu.return_blocks()
		p = fu.path([0], first_ret, removed_blocks=ins)
		out.append(Result('07.f', p is None, ('ok:' if p is None else 'bypass:') + 'preimage-always-stored', 'every path through provide_payment_preimage stores the preimage', len(ins), where=F.where(fn)))
	# it is driven by the PaymentPreimage monitor update step
	out += P1_who_may_call(F, '07.f', [fn], [MON + 'update_monitor', MONP + 'ChannelMonitor::provide_payment_preimage_unsafe_legacy'], floor=1)
	return out

def _geq_prev(fu, ex, e, prev_keys, guards_ok, depth=0):
	"""syntactic proof that expression e >= previous feerate"""
	if depth > 8:
		return False
	k = leaf_key(e)
	if e[0] in ('ref', 'deref', 'cast'):
		return _geq_prev(fu, ex, e[1], prev_keys, guards_ok, depth + 1)
	if k in prev_keys:
		return True
	if e[0] == 'call':
		tail = (e[1] or '').rsplit('::', 1)[-1]
		if tail == 'max' and len(e[2]) == 2:
			return _geq_prev(fu, ex, e[2][0], prev_keys, guards_ok, depth + 1) or _geq_prev(fu, ex, e[2][1], prev_keys, guards_ok, depth + 1)
		if tail in ('saturating_add', 'checked_add', 'wrapping_add') and len(e[2]) == 2:
			return _geq_prev(fu, ex, e[2][0], prev_keys, guards_ok, depth + 1) or _geq_prev(fu, ex, e[2][1], prev_keys, guards_ok, depth + 1)
		if tail in ('unwrap_or', 'try_into', 'into', 'unwrap') and e[2]:
			return _geq_prev(fu, ex, e[2][0], prev_keys, guards_ok, depth + 1)
	if e[0] == 'bin' and e[1].startswith('Add'):
		return _geq_prev(fu, ex, e[2], prev_keys, guards_ok, depth + 1) or _geq_prev(fu, ex, e[3], prev_keys, guards_ok, depth + 1)
	if e[0] == 'local' and e[1] > 0:
		ds = fu.whole_defs(e[1])
		return bool(ds) and all(_geq_prev(fu, ex, ex.of_rvalue(d[3]), prev_keys, guards_ok, depth + 1) or (d[0], k) in guards_ok or any((d[0], leaf_key(ex.of_rvalue(d[3]))) == g for g in guards_ok) for d in ds)
	return False

def r07i(F):
	"""anchor-channel claims: the target feerate handed to bump events never goes below the previous one"""
	out = []
	fn = PKG + 'PackageTemplate::compute_package_feerate'
	fu = F.func(fn)
	ex = Expr(fu)
	# previous feerate = self.feerate_previous (through try_into / unwrap_or)
	prev_keys = set()
	for l, nm in fu.vars.items():
		e = ex.of_local(l)
		if 'feerate_previous' in leaf_key(e) and e[0] != 'bin':
			prev_keys.add(leaf_key(e))
			prev_keys.add(nm)
	prev_keys.add('self.feerate_previous')
	gs = [Guard(fu, c) for c in comparisons(fu)]
	# blocks where "X > previous" is known: (block, key of X)
	guards_ok = set()
	for g in gs:
		if len(g.nf[0]) == 2 and any(v in prev_keys or 'feerate_previous' in v for v in g.nf[0]):
			o = g.oriented(r'feerate_previous')
			if o and (o[1], o[2]) in (('Lt', 0), ('Le', -1), ('Le', 0), ('Lt', 1)):
				xk = [v for v in g.nf[0] if not ('feerate_previous' in v)][0]
				for d in g.decisions:
					for b in fu.reach([e[1] for e in d.true_edges], removed_blocks={d.b}) - fu.reach([e[1] for e in d.false_edges], removed_blocks={d.b}):
						guards_ok.add((b, xk))
	# the arm in which a previous feerate exists
	zs = [g for g in gs if g.op in ('Ne', 'Eq') and len(g.nf[0]) == 1 and any('feerate_previous' in v for v in g.nf[0]) and g.nf[2] == 0]
	if len(zs) != 1:
		return [Result('07.i', False, 'anchor:previous-feerate-test', 'compute_package_feerate: the `feerate_previous != 0` test was not found', len(gs), where=F.where(fn))]
	z = zs[0]
	arm = set()
	for d in z.decisions:
		te = d.true_edges if z.op == 'Ne' else d.false_edges
		fe = d.false_edges if z.op == 'Ne' else d.true_edges
		arm = fu.reach([e[1] for e in te], removed_blocks={d.b}) - fu.reach([e[1] for e in fe], removed_blocks={d.b})
	bad = []
	n = 0
	for d in fu.defs.get(0, []):
		bi, si, pl, rv = d
		if len(pl) != 1 or bi not in arm:
			continue
		n += 1
		e = ex.of_rvalue(rv)
		if not (_geq_prev(fu, ex, e, prev_keys, guards_ok) or (bi, leaf_key(e)) in guards_ok):
			bad.append((fu.line_of(bi) if si == 'T' else fu.blocks[bi]['s'][si][0], expr_str(e)[:70]))
	ok = n >= 3 and not bad
	out.append(Result('07.i', ok, ('ok:' if ok else 'monotone:') + 'feerate-never-below-previous', 'compute_package_feerate: with a previous feerate, every returned value is the previous feerate, max(previous, ..), previous + previous/4 (saturating, capped by max(.., previous)), or an estimate on the true edge of estimate > previous (%d return values)%s' % (n, '' if not bad else '; not provably >= previous: %s' % bad), n, where=F.where(fn)))
	return out

def r07h(F):
	"""our own keys can spend what SpendableOutputs announces: the per-channel signer cache is keyed by channel_keys_id in every arm"""
	out = []
	fn = 'lightning::sign::KeysManager::sign_spendable_outputs_psbt'
	fu = F.func(fn)
	ex = Expr(fu)
	signs = fu.call_blocks(lambda p: p.endswith('InMemorySigner::sign_counterparty_payment_input') or p.endswith('InMemorySigner::sign_dynamic_p2wsh_input'))
	derive = set(sites_call(fu, ['lightning::sign::KeysManager::derive_channel_keys']))
	cmpid = set()
	for b, ci in fu.calls():
		f = norm(ci.get('t') or ci.get('f') or '')
		if f.endswith('PartialEq::ne') or f.endswith('PartialEq::eq'):
			fl = set()
			for a in ci['args']:
				fl |= expr_leaves(ex.of_operand(a))['fields']
			if 'channel_keys_id' in fl:
				cmpid.add(b)
	# a derivation inside a closure handed to get_or_insert_with / unwrap_or_else runs only when the cache is EMPTY - it does not re-key the
	# cache, so it counts for the anchor floor but does not discharge the path obligation below
	derive_all = set(sites_call_via_closures(F, fu, ['lightning::sign::KeysManager::derive_channel_keys']))
	if len(signs) < 2 or len(derive_all) < 2:
		return [Result('07.h', False, 'anchor:signer-cache', 'sign_spendable_outputs_psbt: signing calls / derive_channel_keys not found (%d/%d)' % (len(signs), len(derive_all)), where=F.where(fn))]
	heads = loop_heads(fu)
	for b in signs:
		hs = [h for h in heads if b in fu.reach([h]) and h in fu.reach([b])]
		start = hs if hs else [0]
		p = fu.path([s2 for h in start for s2 in fu.succ(h)], [b], removed_blocks=cmpid | derive | set(start))
		nm = norm(fu.blocks[b]['t'][2].get('f') or '').rsplit('::', 1)[-1]
		out.append(Result('07.h', p is None, ('ok:' if p is None else 'cache:') + 'signer-matches-channel@' + nm, '%s: within one descriptor the cached signer is used only after its channel_keys_id was compared with the descriptor\'s (or a fresh signer was derived)' % nm if p is None else '%s can run with a signer cached for another channel: no channel_keys_id comparison on the path (lines %s) - a sweep of outputs from two channels fails' % (nm, fu.path_lines(p)[:8]), 1, where=F.where(fn, fu.line_of(b))))
	# the derivation uses the descriptor's own id
	for b in sorted(derive):
		a = ex.of_operand(fu.blocks[b]['t'][2]['args'][1])
		ok = 'channel_keys_id' in expr_leaves(a)['fields']
		out.append(Result('07.h', ok, ('ok:' if ok else 'shape:') + 'derive-from-descriptor@%d' % sorted(derive).index(b), 'derive_channel_keys is given the descriptor\'s channel_keys_id', 1, where=F.where(fn, fu.line_of(b))))
	return out

def r07g(F):
	"""reorganisation boundary shared with C06 / C11: claims tracking survives exactly the blocks that stay"""
	return chainrules.reorg_boundary(F, '07.g')

def r07j(F):
	"""the height recorded for a claim is the height of the block that confirmed the commitment transaction: a claim recorded at any other
	height is dropped (or kept) wrongly when blocks are disconnected. Same structural rules as 11.g (monitor part) and 06.h (iii),
	re-labelled: losing a preimage / timeout claim after a reorg is a C07 violation too."""
	import C11, C06
	out = []
	for r in C11.r11g(F):
		if 'pending-spend' in r.key or 'height-reaches-claim-builder' in r.key:
			r.rule = '07.j'
			out.append(r)
	for r in C06.r06h(F):
		if 'claim-confirmation-height' in r.key or 'claim-build' in r.key:
			r.rule = '07.j'
			out.append(r)
	if len(out) < 8:
		out.append(Result('07.j', False, 'floor:claim-height-rules', 'only %d claim-height rule instances (expected >= 8)' % len(out), len(out)))
	return out

def r07k(F):
	"""a preimage learnt after the close produces a claim for EVERY matching HTLC of the confirmed counterparty commitment (several parts of one
	payment share the hash): the claims are collected through an iterator chain that cannot stop early"""
	out = []
	fn = 'lightning::chain::channelmonitor::ChannelMonitorImpl::get_counterparty_output_claims_for_preimage'
	fu = F.func(fn)
	ex = Expr(fu)
	n = 0
	for bi, si, pl, rv in fu.defs.get(0, []):
		if len(pl) != 1 or bi not in fu.reach([0]):
			continue
		e = ex.of_rvalue(rv)
		names, base = iterator_chain(e)
		if 'collect' not in names:
			continue
		n += 1
		okc, names = chain_is_exhaustive(e)
		walks = 'iter' in names or 'into_iter' in names
		ok = okc and walks
		out.append(Result('07.k', ok, ('ok:' if ok else 'partial:') + 'preimage-claims-all-matching-htlcs', 'get_counterparty_output_claims_for_preimage collects its claims through %s%s' % (' <- '.join(names), '' if ok else ' - the chain can stop at the first match: the other HTLC outputs with the same payment hash are never claimed'), len(names), where=F.where(fn, fu.line_of(bi))))
	if n < 1:
		out.append(Result('07.k', False, 'anchor:preimage-claims-collect', 'get_counterparty_output_claims_for_preimage no longer returns a collected iterator chain', where=F.where(fn)))
	return out

def _blocks_touching_field(fu, field):
	out = set()
	tag = '.%s#' % field
	for bi, b in enumerate(fu.blocks):
		txt = json.dumps(b['s']) + json.dumps(b['t'])
		if tag in txt:
			out.add(bi)
	return out

def r07l(F):
	"""when another commitment confirms, the claims prepared for the commitment that did not (or no longer does) confirm are abandoned:
	OnchainTxHandler::abandon_claim either removes the generated claim (pending_claim_requests) or purges the still time-locked one
	(locktimed_packages) on EVERY path - a shortcut keyed on the generated claims alone leaves a time-locked HTLC-timeout claim that is
	broadcast, registered and fee-bumped forever although its commitment is not in the chain"""
	import json as _j
	fn = 'lightning::chain::onchaintx::OnchainTxHandler::abandon_claim'
	fu = F.func(fn)
	lt = _blocks_touching_field(fu, 'locktimed_packages')
	pr = set()
	ex = Expr(fu)
	for b, ci in fu.calls():
		if norm(ci.get('f') or '').endswith('::remove') and ci['args'] and 'pending_claim_requests' in expr_str(ex.of_operand(ci['args'][0])):
			pr.add(b)
	rets = {bi for bi, b in enumerate(fu.blocks) if b['t'][1] == 'ret'}
	if not lt or not pr:
		return [Result('07.l', False, 'anchor:abandon_claim', 'abandon_claim: purge of locktimed_packages (%d site(s)) / removal from pending_claim_requests (%d) not found' % (len(lt), len(pr)), where=F.where(fn))]
	# the arm that found a generated claim need not scan the time-locked ones: cut at the decision "claim id found"
	return P5_must_pass(F, '07.l', fu, [0], rets, lt | pr, what='the purge of locktimed_packages or the removal of the generated claim', key='abandon-claim-covers-timelocked')

RULES = [
	('07.k', 'late preimage: every matching HTLC of the confirmed counterparty commitment is claimed (exhaustive iterator chain)', r07k),
	('07.j', 'claims are recorded at the confirmation height of the commitment transaction (pending funding spend, all claim builders)', r07j),
	('07.a', 'claim transactions are broadcast only by the OnchainTxHandler claim routines, from generate_claim', r07a),
	('07.b', 'feerate_bump never lowers the feerate; RBF increment; no sub-dust output; bump iff a previous feerate exists', r07b),
	('07.c', 'package locktime: signed locktime or max(height, input minimum); future-locktime requests are deferred', r07c),
	('07.d', 'spendable outputs: recorded when seen, announced at maturity; maturity threshold shape', r07d),
	('07.e', 'counterparty commitment: HTLC outputs claimed by direction / preimage only, no amount or expiry filter', r07e),
	('07.f', 'a preimage learnt after the close is stored and reaches the claim routines for every commitment that may be on chain', r07f),
	('07.i', 'anchor claims: compute_package_feerate never returns less than the previous feerate', r07i),
	('07.h', 'spending our outputs: the cached per-channel signer is checked against the descriptor in every arm', r07h),
	('07.g', 'reorg boundary: claim tracking keeps exactly the blocks that remain', r07g),
	('07.p', 'same-name field transfer: structs carrying this property\'s quantities are filled from the same-named field or a reviewed alias (rules/provenance.py)', lambda F: provenance.for_property(F, 'C07', '07.p')),
	('07.q', 'no call hands a value named like one parameter of the callee to a different parameter (swapped type-compatible arguments; rules/provenance.py)', lambda F: provenance.swaps_for_property(F, 'C07', '07.q')),
	('07.v', 'field-versus-field comparisons (a received value against a limit, an id against an id) are the reviewed ones: same fields, same operator (rules/provenance.py)', lambda F: provenance.cmps_for_property(F, 'C07', '07.v')),
	('07.z', 'named protocol / policy constants in this property\'s files have their reviewed values (rules/provenance.py)', lambda F: provenance.consts_for_property(F, 'C07', '07.z')),
	('07.l', 'abandoning the claims of a commitment that is not (or no longer) confirmed also purges the still time-locked ones', r07l),
	('07.s', 'no reviewed function gained a short-circuiting iterator adaptor (find / find_map / take / position ...: an every-element walk that stops at the first match; rules/provenance.py)', lambda F: provenance.sc_for_property(F, 'C07', '07.s')),
	('07.y', 'no reviewed function gained a swallowed error (the Result of a fallible in-crate call dropped; rules/provenance.py)', lambda F: provenance.dr_for_property(F, 'C07', '07.y')),
]
RULES.append(('07.u', 'obligation-carrying values returned by workspace calls (to-fail HTLC lists, monitor updates, events, peer messages, claim packages) are never dropped on a path that does not examine them (rules/obligations.py)', lambda F: obligations.for_property(F, 'C07', '07.u')))
RULES.append(('07.t', 'identity comparisons: every reviewed (function, identity type) == / != comparison (HTLCSource, Txid, OutPoint, ChannelId, PaymentHash, PublicKey, ...) is still made - a function does not silently change what it matches by (rules/provenance.py)', lambda F: provenance.ids_for_property(F, 'C07', '07.t')))
RULES.append(('07.R', 'state resets: every reviewed constant write to persistent state (flag = true / false, counter = 0, pending slot = None) of a function is still made (rules/provenance.py)', lambda F: provenance.flags_for_property(F, 'C07', '07.R')))
RULES.append(('07.M', 'collection mutations: every reviewed (function, stored collection, mutator class: add / remove / filter / empty / swap / order) triple is still present - an entry that is no longer removed, inserted or drained on one path (rules/mutations.py)', lambda F: mutations.for_property(F, 'C07', '07.M')))
RULES.append(('07.E', 'event replay: the count of events drained from pending_events is advanced only on the Ok arm of the handler result - a SpendableOutputs event whose handler failed is replayed, not dropped (rules/eventloops.py)', lambda F: eventloops.rule(F, '07.E', r'chain/', 3)))
RULES.append(('07.A', 'enum accessors agree across sibling variants: an accessor that returns the payload field `x` for one variant returns it for every variant whose payload carries a field of that name and type (a variant moved to the `=> None` arm) - rules/accessors.py', lambda F: accessors.for_property(F, 'C07', '07.A')))
RULES.append(('07.G', 'guard census: no reviewed call of a workspace function and no reviewed mutation of a stored collection gained a controlling branch condition (an added `&& cond`, early return / continue, more specific match arm in front of an act); counts per call site, name free (rules/guards.py)', lambda F: guards.for_property(F, 'C07', '07.G')))
RULES.append(('07.W', 'field assignments: every reviewed (function, Type.field) direct assignment is still made - state that a path no longer updates, or updates only conditionally (get_or_insert for an overwrite); generalises NN.R (rules/writes.py)', lambda F: writes.for_property(F, 'C07', '07.W')))
RULES.append(('07.N', 'arithmetic census: per reviewed function the set of operation kinds (group: add/sub, mul, div, rem, shift, bit, min, max, div_ceil ...; flavour: plain / checked / saturating / wrapping) keeps its kinds: no reviewed function lost or gained a kind of arithmetic altogether - a rounding direction (`/` for div_ceil), saturating for checked, min for max (rules/arith.py; counts and value arithmetic itself are not judged)', lambda F: arith.for_property(F, 'C07', '07.N')))

def r07o(F):
	"""a claim split by a counterparty spend and merged back by a reorg is re-queued in its CURRENT state: 06.h's overwrite clause, re-labelled - an
	earlier snapshot kept for the (re)broadcast orphans every further resurrected outpoint of the same request, which is then never claimed again
	(an HTLC output we are entitled to is not recovered)"""
	import C06
	out = []
	for r in C06.r06h(F):
		if 'bump-candidates' in r.key or 'overwrit' in r.key:
			r.rule = '07.o'
			out.append(r)
	if not out:
		out.append(Result('07.o', False, 'anchor:bump-candidates', 'blocks_disconnected: the overwrite clause of 06.h was not found'))
	return out
RULES.append(('07.o', 'blocks_disconnected re-queues a merged-back claim in its current state (06.h overwrite clause under C07)', r07o))
RULES.append(('07.K', 'constant census of linear forms: every comparison (normalised to sum >= K over name-free atoms, a comparison and its negation being one form) and every maximal arithmetic expression of a reviewed function keeps its coefficients and its constant - a dropped or added `+ 1` / `- 1`, `<` for `<=` inside a computed bound, a scale factor applied twice or not at all, swapped operands of a comparison (rules/linforms.py; shapes that appear or disappear are not judged, the guard / arithmetic censuses judge those)', lambda F: linforms.for_property(F, 'C07', '07.K')))
