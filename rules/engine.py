"""Rule engine for the /verif static checks.

Everything here works on the facts the rustc driver dumped from /repo's type-checked
program (see driver/src/main.rs): nothing is executed or solved.  The module offers
  Facts     - lazy access to the TSV facts and per-function CFGs of all analysed crates
  Func      - one function's CFG (mir_built) with reachability / dominance / def-use
  Expr      - expression-tree reconstruction from single-assignment temporaries
  linear()  - linear normal form  sum(c_i * leaf_i) + K   of an integer expression
  primitives P1..P14 used by the per-property rule tables (rules/Cxx.py)
A rule returns Result objects; a missing anchor is reported as a violation ("anchor
missing"), never as silence.
"""
import json, os, re, sys, collections

# ----------------------------------------------------------------------------- names

def norm(path):
	"""strip generic arguments from a def path:  A::<T>::b -> A::b ; <X<T> as Y>::m -> <X as Y>::m"""
	out = []
	i = 0
	n = len(path)
	while i < n:
		c = path[i]
		if c == '<':
			prev = path[i - 1] if i > 0 else ''
			is_generic = prev.isalnum() or prev == '_' or path[max(0, i - 2):i] == '::'
			if is_generic and path.startswith('<impl ', i):
				# module::<impl Trait<A> for Type<B>>::method  ->  keep the impl header (generic arguments stripped)
				depth = 0
				j = i
				while j < n:
					if path[j] == '<':
						depth += 1
					elif path[j] == '>' and path[j - 1] != '-':
						depth -= 1
						if depth == 0:
							break
					j += 1
				inner = path[i + 1:j]
				out.append('<' + norm(inner) + '>')
				i = j + 1
				continue
			if is_generic:
				# skip balanced <...>
				depth = 0
				j = i
				while j < n:
					if path[j] == '<':
						depth += 1
					elif path[j] == '>' and path[j - 1] != '-':
						depth -= 1
						if depth == 0:
							break
					j += 1
				# drop a preceding '::' of a turbofish
				if out[-2:] == [':', ':']:
					out = out[:-2]
				i = j + 1
				continue
		out.append(c)
		i += 1
	return ''.join(out)

_CLOS = re.compile(r'(::\{(closure|async_block|async_fn|coroutine|constant|opaque)[^}]*\})+$')

def root_fn(path):
	"""lexical parent function of a closure / async block path"""
	return _CLOS.sub('', path)

# ----------------------------------------------------------------------------- results

class Result:
	def __init__(self, rule, ok, key, msg, sites=0, detail=None, where=None):
		self.rule = rule          # e.g. '05.a'
		self.ok = ok              # True / False
		self.key = key            # instance key without line numbers (for known findings)
		self.msg = msg
		self.sites = sites        # how many sites / paths / cells were examined
		self.detail = detail or {}
		self.where = where        # file:line of the offending construct (diagnostic only)
	def to_json(self):
		return {'rule': self.rule, 'ok': self.ok, 'key': self.key, 'msg': self.msg,
			'sites': self.sites, 'detail': self.detail, 'where': self.where}

class AnchorMissing(Exception):
	pass

# ----------------------------------------------------------------------------- facts

class Facts:
	def __init__(self, facts_dir, crates=None):
		self.dir = facts_dir
		self.crates = crates or [d for d in sorted(os.listdir(facts_dir))
			if os.path.isdir(os.path.join(facts_dir, d))]
		self.fns = {}        # norm path -> dict
		self.fn_raw = {}     # norm path -> raw path (first)
		self.by_tail = collections.defaultdict(list)
		self._calls = None
		self._constructs = None
		self._fieldacc = None
		self.consts = {}
		self.impls = []      # (trait, self_ty, method, trait_method)
		self.impl_kind = {}  # method -> 'derived' | 'hand'
		self.adts = collections.defaultdict(list)  # adt -> [(variant, field, ty, vis)]
		self._cfg_idx = {}
		self._cfg_files = {}
		self._cfg_cache = {}
		for c in self.crates:
			d = os.path.join(facts_dir, c)
			if not os.path.exists(os.path.join(d, 'DONE')):
				raise AnchorMissing('facts for crate %s missing' % c)
			for l in open(os.path.join(d, 'fns.tsv')):
				p = l.rstrip('\n').split('\t')
				if len(p) < 8:
					continue
				np_ = norm(p[0])
				rec = {'path': np_, 'raw': p[0], 'kind': p[1], 'file': p[2], 'lo': int(p[3]),
					'hi': int(p[4]), 'parent': norm(p[5]) if p[5] else '', 'trait_item': norm(p[6]) if p[6] else '',
					'vis': p[7], 'crate': c}
				if np_ in self.fns:
					# two impls for different generic instantiations normalise to the same
					# name (e.g. impl for (A,B) and (A,B,C)); keep all under a list
					self.fns[np_].setdefault('dups', []).append(rec)
				else:
					self.fns[np_] = rec
			for l in open(os.path.join(d, 'consts.tsv')):
				p = l.rstrip('\n').split('\t')
				if len(p) >= 3:
					self.consts[norm(p[0])] = int(p[2])
			for l in open(os.path.join(d, 'impls.tsv')):
				p = l.rstrip('\n').split('\t')
				if len(p) >= 4:
					self.impls.append((norm(p[0]), p[1], norm(p[2]), norm(p[3])))
					if len(p) >= 5:
						self.impl_kind[norm(p[2])] = p[4]
			for l in open(os.path.join(d, 'adts.tsv')):
				p = l.rstrip('\n').split('\t')
				if len(p) >= 4:
					self.adts[norm(p[0])].append(tuple(p[1:]))
			for l in open(os.path.join(d, 'cfg.idx')):
				p = l.rstrip('\n').split('\t')
				self._cfg_idx.setdefault(norm(p[0]), []).append((c, int(p[1]), int(p[2])))
		for np_ in self.fns:
			self.by_tail[np_.rsplit('::', 1)[-1]].append(np_)

	# ---- lookups
	def fn(self, name):
		"""resolve a rule-table function name: exact normalised path, or unique suffix match."""
		n = norm(name)
		if n in self.fns:
			return n
		tail = n.rsplit('::', 1)[-1]
		cands = [c for c in self.by_tail.get(tail, []) if c.endswith(n) and
			(len(c) == len(n) or c[-len(n) - 1] in ':< ')]
		if len(cands) == 1:
			return cands[0]
		if not cands:
			raise AnchorMissing('function %s not found' % name)
		raise AnchorMissing('function %s ambiguous: %s' % (name, cands[:5]))

	def has_fn(self, name):
		try:
			self.fn(name)
			return True
		except AnchorMissing:
			return False

	def const(self, name):
		n = norm(name)
		if n in self.consts:
			return self.consts[n]
		cands = [c for c in self.consts if c.endswith('::' + n)]
		if len(cands) == 1:
			return self.consts[cands[0]]
		raise AnchorMissing('constant %s %s' % (name, 'not found' if not cands else 'ambiguous %s' % cands[:4]))

	def where(self, fn, line=None):
		r = self.fns.get(fn) or self.fns.get(root_fn(fn))
		if not r:
			return '%s:%s' % (fn, line)
		f = r['file']
		if f.startswith('/repo/'):
			f = f[len('/repo/'):]
		return '%s:%s' % (f, line if line is not None else r['lo'])

	@property
	def calls(self):
		"""list of (caller, callee, declared, line, kind) with normalised names"""
		if self._calls is None:
			self._calls = []
			self.callers_of = collections.defaultdict(list)
			self.callees_of = collections.defaultdict(list)
			for c in self.crates:
				for l in open(os.path.join(self.dir, c, 'calls.tsv')):
					p = l.rstrip('\n').split('\t')
					if len(p) < 5:
						continue
					rec = (norm(p[0]), norm(p[1]), norm(p[2]), int(p[3]), p[4])
					self._calls.append(rec)
					self.callers_of[rec[1]].append(rec)
					if rec[2] != rec[1]:
						self.callers_of[rec[2]].append(rec)
					self.callees_of[rec[0]].append(rec)
		return self._calls

	@property
	def constructs(self):
		if self._constructs is None:
			self._constructs = collections.defaultdict(list)  # (adt, variant) -> [(fn, line)]
			for c in self.crates:
				for l in open(os.path.join(self.dir, c, 'constructs.tsv')):
					p = l.rstrip('\n').split('\t')
					if len(p) < 4:
						continue
					self._constructs[(norm(p[1]), p[2])].append((norm(p[0]), int(p[3])))
		return self._constructs

	@property
	def fieldacc(self):
		if self._fieldacc is None:
			self._fieldacc = collections.defaultdict(list)  # 'Adt.field' -> [(fn, kind, line)]
			for c in self.crates:
				for l in open(os.path.join(self.dir, c, 'fieldacc.tsv')):
					p = l.rstrip('\n').split('\t')
					if len(p) < 4:
						continue
					k = p[2]
					if ':' in k:
						kk, callee = k.split(':', 1)
						k = kk + ':' + norm(callee)
					self._fieldacc[norm(p[1])].append((norm(p[0]), k, int(p[3])))
		return self._fieldacc

	def field(self, name):
		"""resolve 'Adt.field' by suffix"""
		fa = self.fieldacc
		n = norm(name)
		if n in fa:
			return n
		cands = [k for k in fa if k.endswith('::' + n)]
		if len(cands) == 1:
			return cands[0]
		# the field may exist in adts.tsv but never be accessed
		raise AnchorMissing('field %s %s' % (name, 'not found' if not cands else 'ambiguous %s' % cands[:4]))

	def adt(self, name):
		n = norm(name)
		if n in self.adts:
			return n
		cands = [k for k in self.adts if k.endswith('::' + n)]
		if len(cands) == 1:
			return cands[0]
		raise AnchorMissing('type %s %s' % (name, 'not found' if not cands else 'ambiguous %s' % cands[:4]))

	def callers(self, callee, kinds=('call', 'ref')):
		"""callers (root functions) of a callee given by normalised path; includes calls
		that name the trait item when callee is an impl of it."""
		self.calls
		out = []
		for rec in self.callers_of.get(callee, []):
			if rec[4] in kinds:
				out.append(rec)
		return out

	def func(self, name):
		n = self.fn(name)
		if n in self._cfg_cache:
			return self._cfg_cache[n]
		ents = self._cfg_idx.get(n)
		if not ents:
			raise AnchorMissing('no CFG for %s' % name)
		c, off, ln = ents[0]
		if c not in self._cfg_files:
			self._cfg_files[c] = open(os.path.join(self.dir, c, 'cfg.jsonl'), 'rb')
		f = self._cfg_files[c]
		f.seek(off)
		fu = Func(json.loads(f.read(ln)), self, n)
		self._cfg_cache[n] = fu
		return fu

	def funcs(self, name):
		"""all bodies whose path normalises to `name` (impls that differ only in generic arguments, e.g.
		TryFrom<Vec<u8>> and TryFrom<ParsedMessage<..>> for one type)"""
		n = self.fn(name)
		ents = self._cfg_idx.get(n) or []
		out = []
		for i, (c, off, ln) in enumerate(ents):
			key = (n, i)
			if key not in self._cfg_cache:
				if c not in self._cfg_files:
					self._cfg_files[c] = open(os.path.join(self.dir, c, 'cfg.jsonl'), 'rb')
				f = self._cfg_files[c]
				f.seek(off)
				self._cfg_cache[key] = Func(json.loads(f.read(ln)), self, n)
			out.append(self._cfg_cache[key])
		return out

	def closures_of(self, name):
		n = self.fn(name)
		return sorted(k for k, r in self.fns.items() if r['parent'] == n or (k.startswith(n + '::{') ))

	def family(self, name):
		"""a function together with its closures / async blocks"""
		n = self.fn(name)
		return [n] + [c for c in self.closures_of(n) if c != n]

# ----------------------------------------------------------------------------- CFG

def place_local(p):
	return p[0]

def place_fields(p):
	"""names of the field projections of a place (without owner)"""
	return [e[1:].split('#')[0] for e in p[1:] if isinstance(e, str) and e.startswith('.')]

def place_str(p, fu=None):
	s = '_%d' % p[0]
	if fu is not None:
		nm = fu.local_name(p[0])
		if nm:
			s = nm
	for e in p[1:]:
		if e == '*':
			s = '(*%s)' % s
		elif e.startswith('.'):
			s += '.' + e[1:].split('#')[0]
		elif e.startswith('@'):
			s += ' as ' + e[1:]
		else:
			s += e
	return s

class Func:
	def __init__(self, js, facts, name):
		self.js = js
		self.facts = facts
		self.name = name
		self.blocks = js['blocks']
		self.locals = js['locals']
		self.argc = js['argc']
		self.vars = {}
		for nm, pl in js['vars']:
			if len(pl) == 1:
				self.vars.setdefault(pl[0], nm)
		self.upvars = {}
		self.upvar_list = []
		for nm, pl in js['vars']:
			if len(pl) > 1:
				self.upvars[json.dumps(pl)] = nm
				self.upvar_list.append((pl, nm))
		# longest places first (by-ref captures have a trailing deref)
		self.upvar_list.sort(key=lambda x: -len(x[0]))
		self._succ = None
		self._pred = None
		self._defs = None
		self._uses = None

	def local_name(self, l):
		return self.vars.get(l)

	@property
	def mut_borrowed(self):
		if not hasattr(self, '_mutb'):
			mb = set()
			for b in self.blocks:
				for s in b['s']:
					rv = s[2]
					if rv[0] in ('ref', 'rawptr') and rv[1] and not any(e == '*' for e in rv[2][1:]):
						mb.add(rv[2][0])
			self._mutb = mb
		return self._mutb

	def term(self, b):
		return self.blocks[b]['t']

	def is_cleanup(self, b):
		return self.blocks[b].get('cleanup', False)

	def succ(self, b):
		if self._succ is None:
			self._succ = [self._succ_of(i) for i in range(len(self.blocks))]
		return self._succ[b]

	def _succ_of(self, b):
		t = self.blocks[b]['t']
		k = t[1]
		if k == 'goto':
			return [t[2]]
		if k == 'switch':
			return list(dict.fromkeys([x[1] for x in t[3]] + [t[4]]))
		if k == 'call':
			r = t[2].get('ret')
			return [r] if r is not None else []
		if k == 'drop':
			return [t[3]]
		if k == 'assert':
			return [t[4]]
		if k == 'yield':
			return [t[3]]
		if k == 'falseedge':
			return [t[2]]
		if k == 'falseunwind':
			return [t[2]]
		return []

	def pred(self, b):
		if self._pred is None:
			self._pred = [[] for _ in self.blocks]
			for i in range(len(self.blocks)):
				for s in self.succ(i):
					self._pred[s].append(i)
		return self._pred[b]

	def edges(self):
		for i in range(len(self.blocks)):
			for s in self.succ(i):
				yield (i, s)

	def reach(self, starts, removed_edges=(), removed_blocks=()):
		"""blocks reachable from starts (inclusive) avoiding removed edges / blocks"""
		removed_edges = set(removed_edges)
		removed_blocks = set(removed_blocks)
		seen = set()
		st = [s for s in starts if s not in removed_blocks]
		while st:
			b = st.pop()
			if b in seen:
				continue
			seen.add(b)
			for s in self.succ(b):
				if (b, s) in removed_edges or s in removed_blocks or s in seen:
					continue
				st.append(s)
		return seen

	def reach_back(self, targets, removed_edges=(), removed_blocks=()):
		removed_edges = set(removed_edges)
		removed_blocks = set(removed_blocks)
		seen = set()
		st = [t for t in targets if t not in removed_blocks]
		while st:
			b = st.pop()
			if b in seen:
				continue
			seen.add(b)
			for p in self.pred(b):
				if (p, b) in removed_edges or p in removed_blocks or p in seen:
					continue
				st.append(p)
		return seen

	def path(self, starts, targets, removed_edges=(), removed_blocks=()):
		"""one shortest path (list of blocks) from any start to any target, or None"""
		removed_edges = set(removed_edges)
		removed_blocks = set(removed_blocks)
		targets = set(targets)
		prev = {}
		dq = collections.deque()
		for s in starts:
			if s not in removed_blocks:
				prev[s] = None
				dq.append(s)
		while dq:
			b = dq.popleft()
			if b in targets:
				out = []
				while b is not None:
					out.append(b)
					b = prev[b]
				return out[::-1]
			for s in self.succ(b):
				if (b, s) in removed_edges or s in removed_blocks or s in prev:
					continue
				prev[s] = b
				dq.append(s)
		return None

	def bool_flag_locals(self):
		"""bool locals that are assigned a constant somewhere (short-circuit `a && b`, `match .. => false`)"""
		if not hasattr(self, '_bfl'):
			out = set()
			for b in self.blocks:
				for s in b['s']:
					if len(s[1]) == 1 and s[2][0] == 'use' and s[2][1][0] == 'k' and isinstance(s[2][1][1], dict) and s[2][1][1].get('ty') == 'bool':
						out.add(s[1][0])
			self._bfl = out
		return self._bfl

	def flags_near(self, blocks, depth=8):
		"""bool flag locals with a definition within `depth` blocks downstream of any of `blocks` (the short-circuit temporaries a
		decision at one of these blocks feeds)"""
		fl = self.bool_flag_locals()
		out = set()
		frontier = set(blocks)
		seen = set(frontier)
		for _ in range(depth):
			nxt = set()
			for b in frontier:
				for s in self.blocks[b]['s']:
					if len(s[1]) == 1 and s[1][0] in fl:
						out.add(s[1][0])
				for n in self.succ(b):
					if n not in seen:
						seen.add(n)
						nxt.add(n)
			frontier = nxt
		return out

	def reach_bool(self, starts, removed_edges=(), removed_blocks=(), track=None, target=None):
		"""like reach(), refined by constant propagation of bool flag locals: after `x = const b` a `switchInt(x)` follows
		only the edge b selects. A value is forgotten when x is reassigned a non-constant and after the switch that consumed it
		(keeps the product small; forgetting only adds paths, so a 'not reachable' answer stays sound)."""
		removed_edges = set(removed_edges)
		removed_blocks = set(removed_blocks)
		track = self.bool_flag_locals() if track is None else set(track)
		max_states = 400000
		seen = set()
		blocks_seen = set()
		st = [(s, frozenset()) for s in starts if s not in removed_blocks]
		prev = {x: None for x in st} if target is not None else None
		while st:
			state = st.pop()
			if state in seen:
				continue
			seen.add(state)
			if target is not None and state[0] == target:
				out = []
				x = state
				while x is not None:
					out.append(x[0])
					x = prev[x]
				return out[::-1]
			if len(seen) > max_states:
				raise AnchorMissing('reach_bool: state space of %s exceeds %d states (track fewer flag locals)' % (self.name, max_states))
			b, val = state
			blocks_seen.add(b)
			v = dict(val)
			for s in self.blocks[b]['s']:
				dst = s[1]
				rv = s[2]
				if len(dst) == 1 and rv[0] == 'use' and rv[1][0] in ('c', 'm') and len(rv[1][1]) == 1 and rv[1][1][0] in v:
					# copy of a known flag into a temporary (`switchInt(move _t)` with `_t = copy flag`)
					v[dst[0]] = v[rv[1][1][0]]
				elif len(dst) == 1 and dst[0] in track:
					if rv[0] == 'use' and rv[1][0] == 'k' and isinstance(rv[1][1], dict) and rv[1][1].get('ty') == 'bool':
						v[dst[0]] = 1 if rv[1][1].get('v') else 0
					else:
						v.pop(dst[0], None)
				elif len(dst) == 1 and dst[0] in v:
					v.pop(dst[0], None)
				elif dst and dst[0] in v and len(dst) > 1:
					v.pop(dst[0], None)
			t = self.blocks[b]['t']
			succs = self.succ(b)
			if t[1] == 'call':
				d = t[2].get('dest')
				if d and d[0] in v:
					v.pop(d[0], None)
			if t[1] == 'switch' and t[2][0] in ('c', 'm') and len(t[2][1]) == 1 and t[2][1][0] in v:
				x = t[2][1][0]
				val_x = v.pop(x)
				vals = {vv: tb for vv, tb in t[3]}
				succs = [vals.get(val_x, t[4])]
			nv = frozenset(v.items())
			for s in succs:
				if (b, s) in removed_edges or s in removed_blocks:
					continue
				if (s, nv) not in seen:
					st.append((s, nv))
					if prev is not None and (s, nv) not in prev:
						prev[(s, nv)] = state
		if target is not None:
			return None
		return blocks_seen

	def bool_return_paths(self, removed_blocks=(), want=1, ret_local=0):
		"""a path (block list) from the entry to a `return` that avoids `removed_blocks` and on which the returned bool is not known to differ
		from `want`, or None.  Known values come from constant assignments, copies of known locals, and the edge taken at a `switchInt` on a
		local (or on a same-block copy of it): on the 0 edge of `switchInt(copy matches)` both the copy and `matches` are false.  A value is
		forgotten on any other assignment, on a call writing the local and when the local is mutably borrowed; forgetting only adds paths."""
		removed_blocks = set(removed_blocks)
		seen = set()
		start = (0, frozenset(), frozenset())
		prev = {start: None}
		st = [start]
		while st:
			state = st.pop()
			if state in seen:
				continue
			seen.add(state)
			if len(seen) > 200000:
				raise AnchorMissing('bool_return_paths: state space of %s too large' % self.name)
			b, val, ali = state
			v = dict(val); al = dict(ali)
			def kill(l):
				v.pop(l, None); al.pop(l, None)
				for k in [k for k, x in al.items() if x == l]:
					al.pop(k)
			for s in self.blocks[b]['s']:
				dst, rv = s[1], s[2]
				if not dst:
					continue
				if rv[0] in ('ref', 'rawptr') and rv[1] and len(rv[2]) == 1:
					kill(rv[2][0])
				if len(dst) == 1:
					d = dst[0]
					kill(d)
					if rv[0] == 'use' and rv[1][0] == 'k' and isinstance(rv[1][1], dict) and rv[1][1].get('ty') == 'bool':
						v[d] = 1 if rv[1][1].get('v') else 0
					elif rv[0] == 'use' and rv[1][0] in ('c', 'm') and len(rv[1][1]) == 1:
						src = rv[1][1][0]
						if src in v:
							v[d] = v[src]
						if (self.locals[src].get('ty') or '') == 'bool':
							al[d] = al.get(src, src)
				else:
					kill(dst[0])
			t = self.blocks[b]['t']
			if t[1] == 'ret':
				if v.get(ret_local) is None or v.get(ret_local) == want:
					out = []
					x = state
					while x is not None:
						out.append(x[0]); x = prev[x]
					return out[::-1]
				continue
			if t[1] == 'call':
				d = t[2].get('dest')
				if d:
					kill(d[0])
			edges = []
			if t[1] == 'switch' and t[2][0] in ('c', 'm') and len(t[2][1]) == 1 and (self.locals[t[2][1][0]].get('ty') or '') == 'bool':
				x = t[2][1][0]
				vals = {vv: tb for vv, tb in t[3]}
				if x in v:
					edges = [(vals.get(v[x], t[4]), None)]
				else:
					for vv, tb in t[3]:
						edges.append((tb, vv))
					others = [k for k in (0, 1) if k not in vals]
					edges.append((t[4], others[0] if len(others) == 1 else None))
				for tb, learnt in edges:
					if tb in removed_blocks:
						continue
					v2 = dict(v)
					if learnt is not None:
						v2[x] = learnt
						if x in al:
							v2[al[x]] = learnt
					ns = (tb, frozenset(v2.items()), frozenset(al.items()))
					if ns not in seen:
						prev.setdefault(ns, state); st.append(ns)
				continue
			for sblk in self.succ(b):
				if sblk in removed_blocks:
					continue
				ns = (sblk, frozenset(v.items()), frozenset(al.items()))
				if ns not in seen:
					prev.setdefault(ns, state); st.append(ns)
		return None

	def path_lines(self, path):
		out = []
		for b in path:
			ln = self.blocks[b]['t'][0]
			if not out or out[-1] != ln:
				out.append(ln)
		return out

	# ---- definitions and uses
	@property
	def defs(self):
		"""local -> list of (block, stmt index or 'T', place, rvalue-or-call)"""
		if self._defs is None:
			d = collections.defaultdict(list)
			for bi, b in enumerate(self.blocks):
				for si, s in enumerate(b['s']):
					d[s[1][0]].append((bi, si, s[1], s[2]))
				t = b['t']
				if t[1] == 'call':
					dest = t[2]['dest']
					d[dest[0]].append((bi, 'T', dest, ['call', t[2]]))
			self._defs = d
		return self._defs

	def whole_defs(self, l):
		"""definitions that assign the whole local (no projection)"""
		return [x for x in self.defs.get(l, []) if len(x[2]) == 1]

	def calls(self, pred=None):
		"""iterate (block, callinfo) of call terminators; callinfo has 'f','t','args','dest','ret'"""
		for bi, b in enumerate(self.blocks):
			t = b['t']
			if t[1] == 'call' or t[1] == 'tailcall':
				ci = t[2]
				if pred is None or pred(ci):
					yield bi, ci

	def call_blocks(self, callee_pred):
		"""blocks whose terminator calls a callee matching callee_pred(normalised path(s))"""
		out = []
		for bi, ci in self.calls():
			f = ci.get('f')
			if f is None:
				continue
			nf = norm(f)
			nt = norm(ci['t']) if ci.get('t') else nf
			if callee_pred(nf) or (nt != nf and callee_pred(nt)):
				out.append(bi)
		return out

	def return_blocks(self):
		return [i for i, b in enumerate(self.blocks) if b['t'][1] == 'ret']

	def line_of(self, b):
		return self.blocks[b]['t'][0]

	# ---- statements iteration
	def stmts(self):
		for bi, b in enumerate(self.blocks):
			for si, s in enumerate(b['s']):
				yield bi, si, s

	# ---- dominators (iterative, on non-cleanup CFG)
	def dominators(self):
		if hasattr(self, '_dom'):
			return self._dom
		n = len(self.blocks)
		order = []
		seen = set()
		def dfs(b):
			st = [(b, iter(self.succ(b)))]
			seen.add(b)
			while st:
				x, it = st[-1]
				adv = False
				for s in it:
					if s not in seen:
						seen.add(s)
						st.append((s, iter(self.succ(s))))
						adv = True
						break
				if not adv:
					order.append(x)
					st.pop()
		dfs(0)
		rpo = order[::-1]
		idx = {b: i for i, b in enumerate(rpo)}
		idom = {0: 0}
		changed = True
		while changed:
			changed = False
			for b in rpo[1:]:
				ps = [p for p in self.pred(b) if p in idom]
				if not ps:
					continue
				new = ps[0]
				for p in ps[1:]:
					a, c = p, new
					while a != c:
						while idx[a] > idx[c]:
							a = idom[a]
						while idx[c] > idx[a]:
							c = idom[c]
					new = a
				if idom.get(b) != new:
					idom[b] = new
					changed = True
		self._dom = idom
		return idom

	def dominates(self, a, b):
		idom = self.dominators()
		if b not in idom:
			return False
		x = b
		while True:
			if x == a:
				return True
			if x == 0:
				return a == 0
			x = idom[x]

# ----------------------------------------------------------------------------- expressions

class Expr:
	"""Expression trees rebuilt from MIR temporaries.  Node = tuple:
	('const', value|None, defpath|None, ty)      ('local', id, name)
	('field', base, name, owner)   ('deref', base)   ('downcast', base, variant)  ('index', base)
	('bin', op, a, b)  ('un', op, a)  ('cast', a, ty)  ('ref', a)  ('disc', a)
	('call', callee, [args])  ('agg', adt, variant, [args], [names])  ('unknown', text)
	"""
	def __init__(self, fu, max_depth=40):
		self.fu = fu
		self.max_depth = max_depth

	def of_operand(self, op, depth=0, at=None):
		k = op[0]
		if k == 'k':
			c = op[1]
			return ('const', c.get('v'), norm(c['d']) if c.get('d') else (norm(c['fn']) if c.get('fn') else None), c.get('ty'))
		if k in ('c', 'm'):
			return self.of_place(op[1], depth, at)
		return ('unknown', 'rt')

	def of_place(self, pl, depth=0, at=None):
		# closure upvars: (*_1).N is the captured variable named in the debug info
		if self.fu.upvar_list and len(pl) > 1:
			for upl, nm in self.fu.upvar_list:
				n = len(upl)
				if pl[:n] == upl:
					rest = pl[n:]
					return self._proj(('local', -1, nm), rest)
		base = self.of_local(pl[0], depth, at)
		return self._proj(base, pl[1:])

	def _proj(self, base, proj):
		e = base
		for el in proj:
			if el == '*':
				# deref of a ref collapses
				if e[0] == 'ref':
					e = e[1]
				else:
					e = ('deref', e)
			elif el.startswith('.'):
				nm, _, owner = el[1:].partition('#')
				# field of a known aggregate
				if e[0] == 'agg' and e[4] and nm in e[4]:
					e = e[3][e[4].index(nm)]
				elif e[0] == 'agg' and e[1] is None and nm.isdigit() and int(nm) < len(e[3]):
					e = e[3][int(nm)]
				elif nm == '0' and e[0] == 'downcast' and e[2] == 'Ready' and e[1][0] == 'call' and ((e[1][1] or '').endswith('Future::poll') or (len(e[1]) > 3 and (e[1][3] or '').endswith('Future::poll'))) and e[1][2]:
					# `.await`: payload of Poll::Ready(poll(Pin::new_unchecked(&mut into_future(fut)))) == await(fut)
					f = e[1][2][0]
					for _ in range(8):
						if f[0] in ('ref', 'deref'):
							f = f[1]
						elif f[0] == 'call' and f[2] and (f[1] or '').rsplit('::', 1)[-1] in ('new_unchecked', 'into_future', 'new', 'pin'):
							f = f[2][0]
						else:
							break
					e = ('call', 'await', [f], None)
				elif e[0] == 'bin' and e[1].endswith('WithOverflow'):
					if nm == '0':
						e = ('bin', e[1][:-len('WithOverflow')], e[2], e[3])
					else:
						e = ('unknown', 'overflowflag')
				else:
					e = ('field', e, nm, owner)
			elif el.startswith('@'):
				e = ('downcast', e, el[1:])
			else:
				e = ('index', e)
		return e

	def of_local(self, l, depth=0, at=None):
		fu = self.fu
		name = fu.local_name(l)
		if l != 0 and l <= fu.argc:
			return ('local', l, name or ('arg%d' % l))
		if depth > self.max_depth:
			return ('local', l, name)
		# writes through a pointer held in the local (`*_4 = ..`) do not redefine the local
		ds = [d for d in fu.defs.get(l, []) if len(d[2]) == 1 or d[2][1] != '*']
		whole = [d for d in ds if len(d[2]) == 1]
		if len(whole) == 1 and len(ds) == 1 and name is None:
			d = whole[0]
			return self.of_rvalue(d[3], depth + 1)
		if len(whole) == 1 and len(ds) == 1 and name is not None and (l not in fu.mut_borrowed or name in ('__awaitee', 'iter')):
			# a user variable assigned exactly once (let x = ...) and never mutably borrowed: transparent too
			d = whole[0]
			return self.of_rvalue(d[3], depth + 1)
		return ('local', l, name)

	def of_rvalue(self, rv, depth=0):
		k = rv[0]
		if k == 'use':
			return self.of_operand(rv[1], depth)
		if k == 'ref':
			return ('ref', self.of_place(rv[2], depth))
		if k == 'rawptr':
			return ('ref', self.of_place(rv[2], depth))
		if k == 'bin':
			return ('bin', rv[1], self.of_operand(rv[2], depth), self.of_operand(rv[3], depth))
		if k == 'un':
			return ('un', rv[1], self.of_operand(rv[2], depth))
		if k == 'cast':
			src_ty = None
			if rv[2][0] in ('c', 'm') and len(rv[2][1]) == 1:
				src_ty = self.fu.locals[rv[2][1][0]].get('ty')
			return ('cast', self.of_operand(rv[2], depth), rv[3], src_ty)
		if k == 'disc':
			return ('disc', self.of_place(rv[1], depth))
		if k == 'agg':
			return ('agg', norm(rv[2]) if rv[2] else None, rv[3],
				[self.of_operand(o, depth) for o in rv[4]], rv[5] if len(rv) > 5 else None)
		if k == 'call':
			ci = rv[1]
			f = ci.get('f')
			return ('call', norm(f) if f else None, [self.of_operand(a, depth) for a in ci['args']],
				norm(ci['t']) if ci.get('t') else None)
		if k == 'repeat':
			return ('agg', None, 'repeat', [self.of_operand(rv[1], depth)], None)
		return ('unknown', str(k))

def expr_str(e, depth=0):
	if depth > 12:
		return '...'
	k = e[0]
	if k == 'const':
		if e[2] and e[1] is not None:
			return '%s(=%s)' % (e[2].rsplit('::', 1)[-1], e[1])
		if e[2]:
			return e[2].rsplit('::', 1)[-1]
		return str(e[1]) if e[1] is not None else 'const:%s' % e[3]
	if k == 'local':
		return e[2] or '_%d' % e[1]
	if k == 'field':
		return '%s.%s' % (expr_str(e[1], depth + 1), e[2])
	if k == 'deref':
		return '*%s' % expr_str(e[1], depth + 1)
	if k == 'downcast':
		return '(%s as %s)' % (expr_str(e[1], depth + 1), e[2])
	if k == 'index':
		return '%s[..]' % expr_str(e[1], depth + 1)
	if k == 'bin':
		return '(%s %s %s)' % (expr_str(e[2], depth + 1), e[1], expr_str(e[3], depth + 1))
	if k == 'un':
		return '%s(%s)' % (e[1], expr_str(e[2], depth + 1))
	if k == 'cast':
		return '%s as %s' % (expr_str(e[1], depth + 1), e[2].rsplit('::', 1)[-1])
	if k == 'ref':
		return '&%s' % expr_str(e[1], depth + 1)
	if k == 'disc':
		return 'disc(%s)' % expr_str(e[1], depth + 1)
	if k == 'call':
		nm = (e[1] or '?').rsplit('::', 1)[-1]
		return '%s(%s)' % (nm, ', '.join(expr_str(a, depth + 1) for a in e[2]))
	if k == 'agg':
		return '%s::%s{%s}' % ((e[1] or '').rsplit('::', 1)[-1], e[2], ', '.join(expr_str(a, depth + 1) for a in e[3]))
	return '?%s' % (e[1],)

def expr_leaves(e, out=None):
	"""all const def-paths, field names, callee names, local names in an expression"""
	if out is None:
		out = {'consts': set(), 'fields': set(), 'calls': set(), 'locals': set(), 'values': set()}
	k = e[0]
	if k == 'const':
		if e[2]:
			out['consts'].add(e[2])
		if e[1] is not None:
			out['values'].add(e[1])
	elif k == 'local':
		if e[2]:
			out['locals'].add(e[2])
	elif k == 'field':
		out['fields'].add(e[2])
		expr_leaves(e[1], out)
	elif k in ('deref', 'downcast', 'index', 'ref', 'disc'):
		expr_leaves(e[1], out)
	elif k == 'bin':
		expr_leaves(e[2], out)
		expr_leaves(e[3], out)
	elif k == 'un':
		expr_leaves(e[2], out)
	elif k == 'cast':
		expr_leaves(e[1], out)
	elif k == 'call':
		if e[1]:
			out['calls'].add(e[1])
		if len(e) > 3 and e[3]:
			out['calls'].add(e[3])
		for a in e[2]:
			expr_leaves(a, out)
	elif k == 'agg':
		for a in e[3]:
			expr_leaves(a, out)
	return out

# transparent wrappers for arithmetic normal forms:  callee suffix -> operation
_ARITH_CALLS = {
	'saturating_add': 'Add', 'checked_add': 'Add', 'wrapping_add': 'Add', 'overflowing_add': 'Add',
	'saturating_sub': 'Sub', 'checked_sub': 'Sub', 'wrapping_sub': 'Sub',
	'saturating_mul': 'Mul', 'checked_mul': 'Mul', 'wrapping_mul': 'Mul',
}
_PASS_CALLS = ('unwrap', 'expect', 'unwrap_or', 'clone', 'into', 'from', 'deref', 'borrow', 'as_ref', 'to_owned',
	'unwrap_or_default', 'await', 'deref_mut', 'as_mut', 'branch')

def leaf_key(e):
	"""canonical string of a leaf expression (used as variable name in normal forms)"""
	k = e[0]
	if k == 'local':
		return e[2] or '_%d' % e[1]
	if k == 'field':
		return '%s.%s' % (leaf_key(e[1]), e[2])
	if k in ('deref', 'ref'):
		return leaf_key(e[1])
	if k == 'downcast':
		return leaf_key(e[1])
	if k == 'index':
		return leaf_key(e[1]) + '[]'
	if k == 'cast':
		return leaf_key(e[1])
	if k == 'call':
		nm = (e[1] or '?')
		tail = nm.rsplit('::', 1)[-1]
		if tail in _PASS_CALLS and e[2]:
			return leaf_key(e[2][0])
		return '%s(%s)' % (tail, ','.join(leaf_key(a) for a in e[2]))
	if k == 'const':
		return expr_str(e)
	if k == 'bin':
		return '(%s%s%s)' % (leaf_key(e[2]), e[1], leaf_key(e[3]))
	if k == 'disc':
		return 'disc(%s)' % leaf_key(e[1])
	return expr_str(e)

def linear(e, consts_used=None):
	"""linear normal form: (dict leaf->coeff, constant).  Named constants are folded to
	their values (and recorded in consts_used).  Non-linear parts become leaves."""
	if consts_used is None:
		consts_used = set()
	k = e[0]
	if k == 'const':
		if e[1] is not None:
			if e[2]:
				consts_used.add(e[2])
			return ({}, e[1])
		return ({leaf_key(e): 1}, 0)
	if k == 'cast':
		return linear(e[1], consts_used)
	if k in ('deref', 'ref'):
		return linear(e[1], consts_used)
	if k == 'bin' and e[1] in ('Add', 'Sub', 'AddWithOverflow', 'SubWithOverflow', 'AddUnchecked', 'SubUnchecked'):
		a, ka = linear(e[2], consts_used)
		b, kb = linear(e[3], consts_used)
		sgn = 1 if e[1].startswith('Add') else -1
		out = dict(a)
		for v, c in b.items():
			out[v] = out.get(v, 0) + sgn * c
			if out[v] == 0:
				del out[v]
		return (out, ka + sgn * kb)
	if k == 'bin' and e[1] in ('Mul', 'MulWithOverflow', 'MulUnchecked'):
		a, ka = linear(e[2], consts_used)
		b, kb = linear(e[3], consts_used)
		if not a:
			return ({v: c * ka for v, c in b.items()}, ka * kb)
		if not b:
			return ({v: c * kb for v, c in a.items()}, ka * kb)
		return ({leaf_key(e): 1}, 0)
	if k == 'bin' and e[1] in ('Div', 'Rem', 'Shl', 'Shr', 'BitAnd', 'BitOr'):
		# constant folding only (both operands evaluate to constants)
		a, ka = linear(e[2], consts_used)
		b, kb = linear(e[3], consts_used)
		if not a and not b and not (e[1] in ('Div', 'Rem') and kb == 0) and kb >= 0:
			return ({}, {'Div': lambda x, y: x // y, 'Rem': lambda x, y: x % y, 'Shl': lambda x, y: x << y, 'Shr': lambda x, y: x >> y,
				'BitAnd': lambda x, y: x & y, 'BitOr': lambda x, y: x | y}[e[1]](ka, kb))
		return ({leaf_key(e): 1}, 0)
	if k == 'call':
		tail = (e[1] or '').rsplit('::', 1)[-1]
		if tail in _ARITH_CALLS and len(e[2]) == 2:
			return linear(('bin', _ARITH_CALLS[tail], e[2][0], e[2][1]), consts_used)
		if tail in _PASS_CALLS and len(e[2]) >= 1:
			return linear(e[2][0], consts_used)
		if tail in ('branch',) and e[2]:
			return linear(e[2][0], consts_used)
	if k == 'downcast':
		return linear(e[1], consts_used)
	if k == 'field' and e[2] == '0' and e[1][0] in ('downcast',):
		# (x as Some).0 / (x as Continue).0 : payload of a transparent wrapper
		inner = e[1][1]
		if inner[0] == 'call':
			return linear(inner, consts_used)
	return ({leaf_key(e): 1}, 0)

_CMP_FLIP = {'Lt': 'Gt', 'Le': 'Ge', 'Gt': 'Lt', 'Ge': 'Le', 'Eq': 'Eq', 'Ne': 'Ne'}
_CMP_NEG = {'Lt': 'Ge', 'Le': 'Gt', 'Gt': 'Le', 'Ge': 'Lt', 'Eq': 'Ne', 'Ne': 'Eq'}

def cmp_normal(op, a, b):
	"""normal form of  a op b :  (terms, op', K)  meaning  sum(terms) op' K  with the
	lexicographically first leaf having a positive coefficient."""
	used = set()
	la, ka = linear(a, used)
	lb, kb = linear(b, used)
	terms = dict(la)
	for v, c in lb.items():
		terms[v] = terms.get(v, 0) - c
		if terms[v] == 0:
			del terms[v]
	K = kb - ka
	if terms:
		first = sorted(terms)[0]
		if terms[first] < 0:
			terms = {v: -c for v, c in terms.items()}
			K = -K
			op = _CMP_FLIP[op]
	return (terms, op, K, used)

def cmp_str(nf):
	terms, op, K = nf[0], nf[1], nf[2]
	s = ' '.join(('+' if c > 0 else '-') + ('' if abs(c) == 1 else str(abs(c)) + '*') + v for v, c in sorted(terms.items()))
	return '%s %s %s' % (s or '0', {'Lt': '<', 'Le': '<=', 'Gt': '>', 'Ge': '>=', 'Eq': '==', 'Ne': '!='}[op], K)

# ----------------------------------------------------------------------------- decisions

class Decision:
	"""A branch decision: at block `b` (a switch), edges in `true_edges` are taken when the
	condition holds, `false_edges` when it does not."""
	def __init__(self, b, true_edges, false_edges, what):
		self.b = b
		self.true_edges = true_edges
		self.false_edges = false_edges
		self.what = what

def _switch_targets(t):
	vals = {v: tb for v, tb in t[3]}
	return vals, t[4]

# How transparent callees map the truth of their input to their output.
# kind: 'bool' (value itself), 'result' (Ok = true), 'option' (Some = true), 'cf' (Continue = true)
_TRANSPARENT = {
	'core::ops::try_trait::Try::branch': 'cf',
	'core::result::Result::is_ok': ('result', 'bool', False),
	'core::result::Result::is_err': ('result', 'bool', True),
	'core::option::Option::is_some': ('option', 'bool', False),
	'core::option::Option::is_none': ('option', 'bool', True),
	'core::ops::bit::Not::not': ('bool', 'bool', True),
	'core::result::Result::map_err': ('result', 'result', False),
	'core::result::Result::map': ('result', 'result', False),
	'core::result::Result::or_else': None,
	'core::result::Result::ok': ('result', 'option', False),
	'core::result::Result::err': ('result', 'option', True),
	'core::option::Option::ok_or': ('option', 'result', False),
	'core::option::Option::ok_or_else': ('option', 'result', False),
	'core::option::Option::map': ('option', 'option', False),
	'core::option::Option::as_ref': ('option', 'option', False),
	'core::option::Option::as_mut': ('option', 'option', False),
	'core::option::Option::cloned': ('option', 'option', False),
	'core::option::Option::copied': ('option', 'option', False),
	'core::result::Result::as_ref': ('result', 'result', False),
	'core::clone::Clone::clone': 'same',
	'core::future::into_future::IntoFuture::into_future': 'same',
	'core::pin::Pin::new_unchecked': 'same',
	'core::pin::Pin::new': 'same',
	'alloc::boxed::Box::pin': 'same',
	'alloc::boxed::Box::new': 'same',
	'core::future::future::Future::poll': 'poll',
	'core::convert::Into::into': None,
}

def decisions_on(fu, seeds):
	"""seeds: list of (local, kind, negated) produced by some check, kind in
	{'bool','result','option','cf'}.  Propagates through copies/moves/refs/casts/Not/
	discriminant/transparent calls and returns the list of Decisions taken on them."""
	taint = {}   # local -> (kind, neg)
	place_seeds = []
	for l, kind, neg in seeds:
		if callable(l):
			place_seeds.append((l, kind, neg))
		else:
			taint[l] = (kind, neg)
	def src_taint(pl):
		# taint of a source place: a bare (possibly dereferenced) tainted local, or a seeded place
		if (len(pl) == 1 or all(e == '*' for e in pl[1:])) and pl[0] in taint:
			return taint[pl[0]]
		for pred, kind, neg in place_seeds:
			if pred(pl):
				return (kind, neg)
		# payload of Poll::Ready of a polled tainted future
		if len(pl) == 3 and pl[1] == '@Ready' and pl[0] in taint and taint[pl[0]][0].startswith('poll:'):
			return (taint[pl[0]][0][5:], taint[pl[0]][1])
		return None
	# discriminant locals: local -> (kind, neg) of the place it was read from
	disc = {}
	changed = True
	# simple fixpoint over all statements (functions are small enough)
	it = 0
	while changed and it < 50:
		changed = False
		it += 1
		for bi, b in enumerate(fu.blocks):
			for s in b['s']:
				dst = s[1]
				rv = s[2]
				if len(dst) != 1:
					continue
				d = dst[0]
				src = None
				neg = False
				k = rv[0]
				st = None
				if k == 'use' and rv[1][0] in ('c', 'm'):
					st = src_taint(rv[1][1])
				elif k == 'ref':
					st = src_taint(rv[2])
				if st is not None:
					if taint.get(d) != st:
						taint[d] = st
						changed = True
					continue
				if k in ('use', 'ref'):
					continue
				elif k == 'cast' and rv[2][0] in ('c', 'm') and len(rv[2][1]) == 1:
					src = rv[2][1][0]
				elif k == 'un' and rv[1] == 'Not' and rv[2][0] in ('c', 'm') and len(rv[2][1]) == 1:
					src = rv[2][1][0]
					neg = True
				elif k == 'disc':
					pl = rv[1]
					stt = src_taint(pl)
					if stt is not None:
						kd, ng = stt
						if kd in ('result', 'option', 'cf') and disc.get(d) != (kd, ng):
							disc[d] = (kd, ng)
							changed = True
					continue
				if src is not None and src in taint:
					kd, ng = taint[src]
					nv = (kd, ng != neg)
					if taint.get(d) != nv:
						taint[d] = nv
						changed = True
			t = b['t']
			if t[1] == 'call':
				ci = t[2]
				f = norm(ci['f']) if ci.get('f') else None
				decl = norm(ci['t']) if ci.get('t') else f
				rule = _TRANSPARENT.get(decl) or _TRANSPARENT.get(f)
				if rule and ci['args'] and ci['args'][0][0] in ('c', 'm') and len(ci['dest']) == 1:
					apl = ci['args'][0][1]
					stt = src_taint(apl)
					if stt is not None:
						kd, ng = stt
						nv = None
						if rule == 'poll':
							if not kd.startswith('poll:'):
								nv = ('poll:' + kd, ng)
						elif kd.startswith('poll:'):
							nv = None
						elif rule == 'cf':
							if kd == 'result' or kd == 'option':
								nv = ('cf', ng)
						elif rule == 'same':
							nv = (kd, ng)
						else:
							ink, outk, flip = rule
							if kd == ink:
								nv = (outk, ng != flip)
						if nv and taint.get(ci['dest'][0]) != nv:
							taint[ci['dest'][0]] = nv
							changed = True
	out = []
	for bi, b in enumerate(fu.blocks):
		t = b['t']
		if t[1] != 'switch':
			continue
		op = t[2]
		if op[0] not in ('c', 'm'):
			continue
		vals, other = _switch_targets(t)
		if len(op[1]) != 1:
			# switch directly on a projected place, e.g. `match r { Ok(true) => .. }` tests (r as Ok).0
			stt = src_taint(op[1])
			if stt is not None and stt[0] == 'bool':
				f_t = vals.get(0)
				if f_t is not None:
					t_t = vals.get(1, other)
					te, fe = [(bi, t_t)], [(bi, f_t)]
					if stt[1]:
						te, fe = fe, te
					out.append(Decision(bi, te, fe, 'bool'))
			continue
		l = op[1][0]
		if l in taint and taint[l][0] == 'bool':
			neg = taint[l][1]
			# value 0 = false
			f_t = vals.get(0)
			if f_t is None:
				continue
			t_t = vals.get(1, other)
			te, fe = [(bi, t_t)], [(bi, f_t)]
			if neg:
				te, fe = fe, te
			out.append(Decision(bi, te, fe, 'bool'))
		elif l in disc:
			kd, neg = disc[l]
			# variant index: Result Ok=0 Err=1 ; Option None=0 Some=1 ; ControlFlow Continue=0 Break=1
			true_idx = {'result': 0, 'option': 1, 'cf': 0}[kd]
			te, fe = [], []
			for v, tb in vals.items():
				(te if v == true_idx else fe).append((bi, tb))
			# otherwise edge: the remaining variant (2-variant enums)
			if true_idx not in vals:
				te.append((bi, other))
			elif (1 - true_idx) not in vals:
				fe.append((bi, other))
			if neg:
				te, fe = fe, te
			out.append(Decision(bi, te, fe, kd))
	return out, taint

def ret_kind_of_callee(facts, callee):
	return None

# ----------------------------------------------------------------------------- site selectors

def sites_call(fu, names, facts=None):
	"""blocks in fu calling any of `names` (normalised full paths or suffixes)"""
	names = [norm(n) for n in names]
	def pred(p):
		for n in names:
			if p == n or p.endswith('::' + n) or (n.startswith('<') and p == n):
				return True
		return False
	return fu.call_blocks(pred)

def sites_call_via_closures(facts, fu, names):
	"""blocks of fu that call one of `names` directly, or call anything with a closure argument (built in fu) whose
	body - transitively through nested closures - calls one of `names` (e.g. `opt.and_then(|x| self.f(x))`)"""
	out = set(sites_call(fu, names))
	clos = {}   # local -> closure def path
	for bi, si, s in fu.stmts():
		rv = s[2]
		if rv[0] == 'agg' and rv[1] == 'closure' and len(s[1]) == 1:
			clos[s[1][0]] = norm(rv[2])
	if not clos:
		return out
	def calls_it(c):
		for n in [k for k in facts.fns if k == c or k.startswith(c + '::{')]:
			try:
				if sites_call(facts.func(n), names):
					return True
			except AnchorMissing:
				pass
		return False
	hit = {l for l, c in clos.items() if calls_it(c)}
	if not hit:
		return out
	# locals that are moves/refs of a hit closure
	alias = set(hit)
	for _ in range(3):
		for bi, si, s in fu.stmts():
			rv = s[2]
			if len(s[1]) == 1 and ((rv[0] == 'use' and rv[1][0] in ('c', 'm') and rv[1][1][0] in alias) or (rv[0] == 'ref' and rv[2][0] in alias)):
				alias.add(s[1][0])
	for b, ci in fu.calls():
		if any(a[0] in ('c', 'm') and a[1][0] in alias for a in ci['args']):
			out.add(b)
	return out

def sites_construct(fu, adt, variant=None):
	"""(block, stmt) of aggregate constructions of adt[::variant]"""
	out = []
	for bi, si, s in fu.stmts():
		rv = s[2]
		if rv[0] == 'agg' and rv[1] == 'adt':
			a = norm(rv[2])
			if (a == adt or a.endswith('::' + adt)) and (variant is None or rv[3] == variant):
				out.append((bi, si))
	return out

def sites_field_write(fu, field, owner_suffix=None):
	"""(block, stmt) assigning to a place whose last field projection is `field`"""
	out = []
	for bi, si, s in fu.stmts():
		pl = s[1]
		fl = [e for e in pl[1:] if isinstance(e, str) and e.startswith('.')]
		if not fl:
			continue
		nm, _, owner = fl[-1][1:].partition('#')
		if nm == field and (owner_suffix is None or norm(owner).endswith(owner_suffix)):
			out.append((bi, si))
	return out

def call_result_seed(fu, block, kind, neg=False):
	"""seed for decisions_on from the destination of the call terminating `block`"""
	ci = fu.blocks[block]['t'][2]
	dest = ci['dest']
	if len(dest) != 1:
		return None
	return (dest[0], kind, neg)

# ----------------------------------------------------------------------------- primitives

def P1_who_may_call(facts, rule, callees, allowed, floor=1, kinds=('call', 'ref'), note=''):
	"""every caller (lexical root function) of any callee is in `allowed`.
	callees / allowed are rule-table names resolved with facts.fn (allowed may contain
	names that do not exist any more: that is not an error; a callee that does not exist is)."""
	res = []
	targets = []
	for c in callees:
		try:
			targets.append(facts.fn(c))
		except AnchorMissing as e:
			# trait items without a body are not in fns.tsv; accept exact normalised names
			n = norm(c)
			facts.calls
			if n in facts.callers_of:
				targets.append(n)
			else:
				cands = [k for k in facts.callers_of if k.endswith('::' + n)]
				if len(cands) == 1:
					targets.append(cands[0])
				else:
					return [Result(rule, False, 'anchor:' + c, 'anchor missing: %s (%s)' % (c, e))]
	# impls of a trait item count as the item itself
	extra = []
	for (tr, st, m, tm) in facts.impls:
		if tm in targets and m not in targets:
			extra.append(m)
	allowed_n = set()
	for a in allowed:
		try:
			allowed_n.add(facts.fn(a))
		except AnchorMissing:
			allowed_n.add(norm(a))
	seen_sites = 0
	seen_callers = set()
	bad = []
	for t in targets + extra:
		for rec in facts.callers(t, kinds):
			caller = root_fn(rec[0])
			# forwarding impls of the same trait item (blanket Deref impls etc.) are the item itself
			seen_sites += 1
			seen_callers.add(caller)
			if caller in allowed_n or caller in targets or caller in extra:
				continue
			bad.append((caller, t, rec[3]))
	if seen_sites < floor:
		res.append(Result(rule, False, 'floor', 'only %d call sites of %s found, expected >= %d (rule would be vacuous)' % (seen_sites, callees, floor), seen_sites))
	for caller, t, line in sorted(set(bad)):
		res.append(Result(rule, False, 'caller:%s->%s' % (caller, t.rsplit('::', 1)[-1]),
			'%s is called from %s which is not in the allowed caller set%s' % (t, caller, (' (' + note + ')') if note else ''),
			seen_sites, where=facts.where(caller, line)))
	if not res:
		res.append(Result(rule, True, 'ok', 'callers of %s = %s' % ([c.rsplit('::', 1)[-1] for c in callees], sorted(x.rsplit('::', 1)[-1] for x in seen_callers)), seen_sites,
			detail={'callers': sorted(seen_callers)}))
	return res

def P2_construct_census(facts, rule, adt, variant, allowed, floor=1, note='', allow_derives=True):
	try:
		a = facts.adt(adt)
	except AnchorMissing as e:
		return [Result(rule, False, 'anchor:' + adt, 'anchor missing: %s' % e)]
	if allow_derives:
		# derived Clone and the type's own deserialiser rebuild existing values; they are not new constructions
		allowed = list(allowed) + ['<%s as core::clone::Clone>::clone' % a] + [
			'<%s as lightning::util::ser::%s>::read' % (a, t) for t in ('Readable', 'MaybeReadable', 'ReadableArgs', 'LengthReadable')]
	if variant is not None and not any(v[0] == variant for v in facts.adts[a]):
		return [Result(rule, False, 'anchor:%s::%s' % (adt, variant), 'anchor missing: variant %s::%s' % (adt, variant))]
	allowed_n = set()
	for x in allowed:
		try:
			allowed_n.add(facts.fn(x))
		except AnchorMissing:
			allowed_n.add(norm(x))
	sites = []
	for (ad, v), lst in facts.constructs.items():
		if ad == a and (variant is None or v == variant):
			sites += lst
	res = []
	if len(sites) < floor:
		res.append(Result(rule, False, 'floor', 'only %d construction sites of %s::%s (expected >= %d)' % (len(sites), adt, variant, floor), len(sites)))
	seen = set()
	for fn, line in sites:
		r = root_fn(fn)
		seen.add(r)
		if r not in allowed_n:
			res.append(Result(rule, False, 'constructor:%s::%s@%s' % (adt, variant, r),
				'%s::%s is constructed in %s which is not in the allowed set%s' % (adt, variant, r, (' (' + note + ')') if note else ''),
				len(sites), where=facts.where(r, line)))
	if not res:
		res.append(Result(rule, True, 'ok', '%s::%s constructed only in %s' % (adt.rsplit('::', 1)[-1], variant, sorted(x.rsplit('::', 1)[-1] for x in seen)), len(sites), detail={'constructors': sorted(seen)}))
	return _dedup(res)

def P3_field_census(facts, rule, field, allowed, kinds=('w', 'wi', 'bm', 'bmi'), floor=1, note='', ignore_callees=()):
	"""every function that writes / mutably borrows Adt.field is in `allowed`.
	allowed: list of function names, or dict name -> reason."""
	try:
		f = facts.field(field)
	except AnchorMissing as e:
		return [Result(rule, False, 'anchor:' + field, 'anchor missing: %s' % e)]
	allowed_n = set()
	for x in allowed:
		try:
			allowed_n.add(facts.fn(x))
		except AnchorMissing:
			allowed_n.add(norm(x))
	res = []
	n = 0
	seen = set()
	for fn, k, line in facts.fieldacc[f]:
		kk, _, callee = k.partition(':')
		if kk not in kinds:
			continue
		if callee and any(callee.endswith(ic) for ic in ignore_callees):
			continue
		n += 1
		r = root_fn(fn)
		seen.add(r)
		if r not in allowed_n:
			res.append(Result(rule, False, 'writer:%s@%s' % (field, r),
				'%s is %s in %s which is not in the allowed writer set%s' % (field, {'w': 'written', 'wi': 'written (inner field)', 'bm': 'mutably borrowed', 'bmi': 'mutably borrowed (inner)'}.get(kk, kk) + ((' via ' + callee.rsplit('::', 1)[-1]) if callee else ''), r, (' (' + note + ')') if note else ''),
				n, where=facts.where(r, line)))
	if n < floor:
		res.append(Result(rule, False, 'floor', 'only %d write sites of %s (expected >= %d)' % (n, field, floor), n))
	if not res:
		res.append(Result(rule, True, 'ok', '%s mutated only in %s' % (field, sorted(x.rsplit('::', 1)[-1] for x in seen)), n, detail={'writers': sorted(seen)}))
	return _dedup(res)

def _dedup(res):
	out = []
	seen = set()
	for r in res:
		if (r.key, r.ok) in seen:
			continue
		seen.add((r.key, r.ok))
		out.append(r)
	return out

def P4_guarded(facts, rule, fu, acts, decisions, want_true=True, what='', key=None, exempt_edges=()):
	"""every path from entry to an act block passes a `want_true` edge of one of the
	decisions.  acts: set of blocks. decisions: list of Decision."""
	key = key or ('%s@%s' % (what, fu.name))
	if not acts:
		return [Result(rule, False, 'anchor:act:' + key, 'anchor missing: no act site for %s in %s' % (what, fu.name))]
	if not decisions:
		# no decision found at all: either the check was removed or its result is not branched on
		p = fu.path([0], acts)
		return [Result(rule, False, 'guard:' + key, 'no branch on %s found in %s; act reachable unguarded' % (what, fu.name),
			len(acts), where=facts.where(fu.name, fu.line_of(sorted(acts)[0])), detail={'path_lines': fu.path_lines(p) if p else None})]
	pass_edges = set()
	for d in decisions:
		for e in (d.true_edges if want_true else d.false_edges):
			pass_edges.add(e)
	removed = set(pass_edges) | set(exempt_edges)
	p = fu.path([0], acts, removed_edges=removed)
	if p is not None:
		return [Result(rule, False, 'guard:' + key,
			'%s: act reachable without passing the %s edge of %s (path through lines %s)' % (fu.name, 'true' if want_true else 'false', what, fu.path_lines(p)[:30]),
			len(acts), where=facts.where(fu.name, fu.line_of(p[-1])), detail={'path_blocks': p, 'path_lines': fu.path_lines(p)})]
	# the acts must be reachable at all through the pass edges (otherwise dead code / inverted)
	if fu.path([0], acts) is None:
		return [Result(rule, False, 'dead:' + key, '%s: act for %s unreachable' % (fu.name, what), len(acts))]
	return [Result(rule, True, 'ok:' + key, '%s: %d act site(s) guarded by %s (%d decision(s))' % (fu.name.rsplit('::', 1)[-1], len(acts), what, len(decisions)), len(acts) + len(decisions))]

def P5_must_pass(facts, rule, fu, frm, to, through, what='', key=None, through_edges=()):
	"""no path from any block in `frm` to any block in `to` avoiding all blocks in `through`
	(and all edges in `through_edges`)"""
	key = key or ('%s@%s' % (what, fu.name))
	if not to:
		return [Result(rule, False, 'anchor:to:' + key, 'anchor missing: no target site for %s in %s' % (what, fu.name))]
	if not through and not through_edges:
		return [Result(rule, False, 'anchor:through:' + key, 'anchor missing: no pass-through site for %s in %s' % (what, fu.name))]
	if not frm:
		return [Result(rule, False, 'anchor:from:' + key, 'anchor missing: no start site for %s in %s' % (what, fu.name))]
	p = fu.path(frm, to, removed_blocks=through, removed_edges=through_edges)
	if p is not None:
		return [Result(rule, False, 'bypass:' + key, '%s: %s can be bypassed (path through lines %s)' % (fu.name, what, fu.path_lines(p)[:30]),
			len(to), where=facts.where(fu.name, fu.line_of(p[-1])), detail={'path_blocks': p, 'path_lines': fu.path_lines(p)})]
	return [Result(rule, True, 'ok:' + key, '%s: every path to %d target(s) passes %s' % (fu.name.rsplit('::', 1)[-1], len(to), what), len(to) + len(through))]

def P12_const_rel(facts, rule, desc, names, pred):
	vals = {}
	for n in names:
		try:
			vals[n] = facts.const(n)
		except AnchorMissing as e:
			return [Result(rule, False, 'anchor:' + n, 'anchor missing: %s' % e)]
	ok = bool(pred(vals))
	return [Result(rule, ok, ('ok:' if ok else 'constrel:') + desc, '%s with %s' % (desc, vals), len(names))]

# ---- return classification -----------------------------------------------------------

def ret_assignments(fu):
	"""(block, stmt|'T', classification) for every assignment to _0.
	classification: ('variant', adt, variant) | ('call', callee) | ('copy',) | ('other',)"""
	out = []
	for d in fu.defs.get(0, []):
		bi, si, pl, rv = d
		if len(pl) != 1:
			continue
		if rv[0] == 'agg' and rv[1] == 'adt':
			out.append((bi, si, ('variant', norm(rv[2]), rv[3])))
		elif rv[0] == 'call':
			ci = rv[1]
			out.append((bi, si, ('call', norm(ci['t']) if ci.get('t') else (norm(ci['f']) if ci.get('f') else None))))
		elif rv[0] == 'use':
			out.append((bi, si, ('copy', rv[1])))
		else:
			out.append((bi, si, ('other',)))
	return out

def ok_return_blocks(fu, variants=('Ok', 'Some')):
	"""blocks that assign _0 = Ok(..)/Some(..) (success returns)"""
	return sorted({bi for bi, si, c in ret_assignments(fu) if c[0] == 'variant' and c[2] in variants})

def err_return_blocks(fu):
	out = set()
	for bi, si, c in ret_assignments(fu):
		if c[0] == 'variant' and c[2] in ('Err', 'None'):
			out.add(bi)
		if c[0] == 'call' and c[1] and c[1].endswith('FromResidual::from_residual'):
			out.add(bi)
	return sorted(out)

# ---- comparison sites ----------------------------------------------------------------

_CMP_OPS = ('Lt', 'Le', 'Gt', 'Ge', 'Eq', 'Ne')

def comparisons(fu):
	"""all integer/bool comparison statements: (block, stmt, dest_local, op, exprA, exprB)"""
	ex = Expr(fu)
	out = []
	for bi, si, s in fu.stmts():
		rv = s[2]
		if rv[0] == 'bin' and rv[1] in _CMP_OPS and len(s[1]) == 1:
			out.append((bi, si, s[1][0], rv[1], ex.of_operand(rv[2]), ex.of_operand(rv[3])))
	return out

def find_cmp(fu, need_consts=(), need_fields=(), need_calls=(), need_locals=(), ops=None):
	"""comparison statements whose operands mention all the given leaves"""
	out = []
	for c in comparisons(fu):
		bi, si, dl, op, a, b = c
		if ops and op not in ops:
			continue
		lv = expr_leaves(a)
		expr_leaves(b, lv)
		if not all(any(x == n or x.endswith('::' + n) for x in lv['consts']) for n in need_consts):
			continue
		if not all(n in lv['fields'] for n in need_fields):
			continue
		if not all(any(x.endswith(n) for x in lv['calls']) for n in need_calls):
			continue
		if not all(n in lv['locals'] for n in need_locals):
			continue
		out.append(c)
	return out

def cmp_decisions(fu, cmp_sites):
	"""Decisions for comparison statements (true edge = comparison holds)"""
	seeds = [(c[2], 'bool', False) for c in cmp_sites]
	ds, _ = decisions_on(fu, seeds)
	return ds

def call_decisions(fu, call_blocks, kind, neg=False):
	seeds = []
	for b in call_blocks:
		s = call_result_seed(fu, b, kind, neg)
		if s:
			seeds.append(s)
	ds, _ = decisions_on(fu, seeds)
	return ds

def place_decisions(fu, place_pred, kind):
	"""Decisions from discriminant reads of places matching place_pred(place) (match / if let
	on a field or local), kind in result/option/cf"""
	out = []
	for bi, b in enumerate(fu.blocks):
		for s in b['s']:
			rv = s[2]
			if rv[0] == 'disc' and len(s[1]) == 1 and place_pred(rv[1]):
				dl = s[1][0]
				# find the switch using dl
				for bj, bb in enumerate(fu.blocks):
					t = bb['t']
					if t[1] == 'switch' and t[2][0] in ('c', 'm') and t[2][1] == [dl]:
						vals, other = _switch_targets(t)
						true_idx = {'result': 0, 'option': 1, 'cf': 0}[kind]
						te, fe = [], []
						for v, tb in vals.items():
							(te if v == true_idx else fe).append((bj, tb))
						if true_idx not in vals:
							te.append((bj, other))
						else:
							fe.append((bj, other)) if (1 - true_idx) not in vals else None
						out.append(Decision(bj, te, fe, kind))
	return out

def variant_switch_on(fu, key_re, adt_variants):
	"""like variant_switch_edges, selecting the matched place by the canonical key of its expression
	(follows references: `match &x.state` reads the discriminant through a temporary)"""
	ex = Expr(fu)
	return variant_switch_edges(fu, lambda pl: _re.search(key_re, leaf_key(ex.of_place(pl))) is not None, adt_variants)

def variant_switch_edges(fu, place_pred, adt_variants):
	"""for `match place {..}` on an enum: returns list of (switch block, {variant_name: target}, otherwise).
	adt_variants: ordered list of variant names of the enum (from facts.adts)."""
	out = []
	for bi, b in enumerate(fu.blocks):
		for s in b['s']:
			rv = s[2]
			if rv[0] == 'disc' and len(s[1]) == 1 and place_pred(rv[1]):
				dl = s[1][0]
				for bj, bb in enumerate(fu.blocks):
					t = bb['t']
					if t[1] == 'switch' and t[2][0] in ('c', 'm') and t[2][1] == [dl]:
						vals, other = _switch_targets(t)
						m = {}
						for v, tb in vals.items():
							if v < len(adt_variants):
								m[adt_variants[v]] = tb
						out.append((bj, m, other))
	return out

def enum_variants(facts, adt):
	a = facts.adt(adt)
	out = []
	for rec in facts.adts[a]:
		if rec[0] not in out:
			out.append(rec[0])
	return out

def loop_heads(fu):
	"""blocks that fetch the next loop item (`Iterator::next`): cutting there confines a search to one iteration"""
	return set(fu.call_blocks(lambda p: p.endswith('Iterator::next') or p.endswith('::next')))

def const_index_accesses(fu):
	"""array/slice element accesses with a constant index:  [(block, 'w'|'r', base place (without the index), index value, rvalue-or-None, line)]"""
	idx_const = {}
	for bi, si, s in fu.stmts():
		if len(s[1]) == 1 and s[2][0] == 'use' and s[2][1][0] == 'k' and (s[2][1][1].get('ty') == 'usize') and s[2][1][1].get('v') is not None:
			idx_const.setdefault(s[1][0], set()).add(s[2][1][1]['v'])
	def idx_of(el):
		if isinstance(el, str) and el.startswith('[_') and el.endswith(']'):
			try:
				l = int(el[2:-1])
			except ValueError:
				return None
			v = idx_const.get(l)
			if v and len(v) == 1:
				return list(v)[0]
		return None
	out = []
	for bi, si, s in fu.stmts():
		pl = s[1]
		if len(pl) > 1 and idx_of(pl[-1]) is not None:
			out.append((bi, 'w', pl[:-1], idx_of(pl[-1]), s[2], s[0]))
		rv = s[2]
		ops = []
		if rv[0] == 'use':
			ops = [rv[1]]
		elif rv[0] == 'bin':
			ops = [rv[2], rv[3]]
		elif rv[0] == 'agg':
			ops = rv[4]
		for o in ops:
			if o[0] in ('c', 'm') and len(o[1]) > 1 and idx_of(o[1][-1]) is not None:
				out.append((bi, 'r', o[1][:-1], idx_of(o[1][-1]), None, s[0]))
	return out

def control_conds(fu, block):
	"""branch conditions that can steer control away from `block` within one loop iteration (cheap control dependence):
	[(switch block, condition key, line)]"""
	ex = Expr(fu)
	out = []
	back = fu.reach_back([block])
	heads = loop_heads(fu)
	for bi in sorted(back):
		t = fu.blocks[bi]['t']
		if t[1] != 'switch':
			continue
		succs = fu.succ(bi)
		cut = {bi} | {h for h in heads if bi in fu.reach([h]) and h in fu.reach([bi])}
		avoid = [s for s in succs if block not in fu.reach([s], removed_blocks=cut)]
		reach = [s for s in succs if block in fu.reach([s], removed_blocks=cut)]
		if reach and avoid:
			e = ex.of_operand(t[2])
			out.append((bi, leaf_key(e) if e[0] != 'disc' else 'disc:' + leaf_key(e[1]), fu.line_of(bi)))
	return out

def back_edge_heads(fu):
	"""heads of natural loops: targets of edges whose source they dominate (covers `loop {}` / `while`, not only iterator loops)"""
	if hasattr(fu, '_beh'):
		return fu._beh
	out = set()
	for a, b in fu.edges():
		if fu.dominates(b, a):
			out.add(b)
	fu._beh = out
	return out

def P4_fail_blocks(facts, rule, fu, acts, decisions, want_true=True, what='', key=None, min_decisions=1, stop_blocks=()):
	"""from the failing edge of every decision no act is reachable (unless a pass edge of
	one of the decisions is taken again, e.g. on the next loop iteration)."""
	key = key or ('%s@%s' % (what, fu.name))
	if not acts:
		return [Result(rule, False, 'anchor:act:' + key, 'anchor missing: no act site for %s in %s' % (what, fu.name))]
	if len(decisions) < min_decisions:
		return [Result(rule, False, 'guard:' + key, '%s: found %d branch(es) on %s, expected >= %d (result ignored?)' % (fu.name, len(decisions), what, min_decisions), len(acts),
			where=facts.where(fu.name, fu.line_of(sorted(acts)[0])))]
	pass_edges = set()
	for d in decisions:
		for e in (d.true_edges if want_true else d.false_edges):
			pass_edges.add(e)
	out = []
	for d in decisions:
		fe = d.false_edges if want_true else d.true_edges
		if not fe:
			out.append(Result(rule, False, 'guard:' + key, '%s: branch on %s at line %d has no failing edge' % (fu.name, what, fu.line_of(d.b)), len(acts), where=facts.where(fu.name, fu.line_of(d.b))))
			continue
		starts = [e[1] for e in fe]
		p = fu.path(starts, acts, removed_edges=pass_edges, removed_blocks=stop_blocks)
		if p is not None:
			out.append(Result(rule, False, 'guard:' + key, '%s: after %s fails (line %d) the act is still reachable (lines %s)' % (fu.name, what, fu.line_of(d.b), fu.path_lines(p)[:20]),
				len(acts), where=facts.where(fu.name, fu.line_of(p[-1])), detail={'path_blocks': p}))
	if not out:
		out.append(Result(rule, True, 'ok:' + key, '%s: failing %s (%d branch(es)) never reaches the %d act site(s)' % (fu.name.rsplit('::', 1)[-1], what, len(decisions), len(acts)), len(acts) + len(decisions)))
	return _dedup(out)

def act_blocks(fu, calls=(), constructs=(), field_writes=()):
	"""union of blocks for call / construct / field-write selectors"""
	out = set()
	if calls:
		out |= set(sites_call(fu, calls))
	for c in constructs:
		adt, var = c if isinstance(c, tuple) else (c, None)
		out |= {b for b, s in sites_construct(fu, adt, var)}
	for f in field_writes:
		out |= {b for b, s in sites_field_write(fu, f)}
	return out

def guarded_by_call(facts, rule, fn, acts, check_calls, kind, want_true=True, what=None, exempt_edges=(), mode='both', min_decisions=1):
	"""acts (dict for act_blocks or a set of blocks) in function fn are guarded by the result
	of calling one of check_calls (kind: bool/result/option)."""
	fu = facts.func(fn)
	if isinstance(acts, dict):
		ab = act_blocks(fu, **acts)
	else:
		ab = set(acts)
	cb = sites_call(fu, check_calls)
	what = what or ('%s %s' % ('/'.join(c.rsplit('::', 1)[-1] for c in check_calls), {('bool', True): 'true', ('bool', False): 'false', ('result', True): 'Ok', ('result', False): 'Err', ('option', True): 'Some', ('option', False): 'None'}[(kind, want_true)]))
	if not cb:
		return [Result(rule, False, 'anchor:check:%s@%s' % (what, fu.name), 'anchor missing: %s does not call %s any more' % (fu.name, check_calls), where=facts.where(fu.name))]
	ds = call_decisions(fu, cb, kind)
	out = []
	if mode in ('both', 'all-paths'):
		out += P4_guarded(facts, rule, fu, ab, ds, want_true, what, exempt_edges=exempt_edges)
	if mode in ('both', 'fail-blocks'):
		out += P4_fail_blocks(facts, rule, fu, ab, ds, want_true, what, min_decisions=max(min_decisions, 1))
	return out


# ----------------------------------------------------------------------------- comparison guards (P7)

import re as _re

class Guard:
	"""one comparison statement with its normal form and its branch decision"""
	def __init__(self, fu, c):
		self.fu = fu
		self.block, self.stmt, self.dest, self.op, self.a, self.b = c
		self.nf = cmp_normal(self.op, self.a, self.b)
		self.line = fu.blocks[self.block]['s'][self.stmt][0]
		self._dec = None
	@property
	def decisions(self):
		if self._dec is None:
			self._dec, _ = decisions_on(self.fu, [(self.dest, 'bool', False)])
		return self._dec
	def oriented(self, pos_re):
		"""normal form oriented so that the leaf matching pos_re has a positive coefficient"""
		terms, op, K, used = self.nf
		for v, c in terms.items():
			if _re.search(pos_re, v):
				if c < 0:
					return ({x: -y for x, y in terms.items()}, _CMP_FLIP[op], -K, used)
				return (terms, op, K, used)
		return None
	def text(self):
		return cmp_str(self.nf)

def guards_in(facts, fn, with_closures=True):
	out = []
	names = facts.family(fn) if with_closures else [facts.fn(fn)]
	for n in names:
		try:
			fu = facts.func(n)
		except AnchorMissing:
			continue
		for c in comparisons(fu):
			out.append(Guard(fu, c))
	return out

def match_guards(guards, pos_re, neg_re=None, extra=0):
	"""guards whose normal form has exactly: one +1 leaf matching pos_re, (one -1 leaf matching
	neg_re if given), and `extra` further leaves"""
	out = []
	for g in guards:
		o = g.oriented(pos_re)
		if o is None:
			continue
		terms = o[0]
		pos = [v for v, c in terms.items() if _re.search(pos_re, v) and c == 1]
		if len(pos) != 1:
			continue
		rest = {v: c for v, c in terms.items() if v != pos[0]}
		if neg_re is not None:
			neg = [v for v, c in rest.items() if _re.search(neg_re, v) and c == -1]
			if len(neg) != 1:
				continue
			del rest[neg[0]]
		if len(rest) != extra:
			continue
		out.append((g, o))
	return out

def P7_guard(facts, rule, fn, label, pos_re, neg_re, want_op, want_K, count=1, with_closures=True, extra=0, true_reaches=None, true_avoids=None, exclusive=True):
	"""the function contains exactly `count` comparison(s) of the shape  pos - neg  <op>  K.
	true_reaches: optional predicate(fu, block) -> bool; the comparison's true edge must reach
	such a block and its false edge must not (ties the guard to the outcome it protects)."""
	gs = guards_in(facts, fn, with_closures)
	ms = match_guards(gs, pos_re, neg_re, extra)
	key = '%s@%s' % (label, facts.fn(fn).rsplit('::', 1)[-1])
	if len(ms) < count:
		return [Result(rule, False, 'guard:' + key, '%s: expected %d comparison(s) relating %s and %s (%s), found %d; comparisons present: %s' % (
			facts.fn(fn), count, pos_re, neg_re, label, len(ms), [g.text() for g in gs][:12]), len(gs), where=facts.where(facts.fn(fn)))]
	out = []
	for g, o in ms:
		terms, op, K, used = o
		ok = (op == want_op and K == want_K)
		# accept the logically identical strict/non-strict twin:  x < K+1  ==  x <= K  (integers)
		if not ok and {op, want_op} == {'Lt', 'Le'}:
			ok = (op == 'Lt' and K == want_K + 1) or (op == 'Le' and K == want_K - 1)
		if not ok and {op, want_op} == {'Gt', 'Ge'}:
			ok = (op == 'Gt' and K == want_K - 1) or (op == 'Ge' and K == want_K + 1)
		msg = '%s: %s is `%s` (expected %s %s %s)' % (g.fu.name.rsplit('::', 1)[-1], label, cmp_str(o), '+'.join(sorted(terms)), want_op, want_K)
		if ok and true_reaches is not None:
			ds = g.decisions
			if not ds:
				ok = False
				msg += '; result is not branched on'
			for d in ds:
				tt = [e[1] for e in d.true_edges]
				ft = [e[1] for e in d.false_edges]
				pe = set(d.true_edges)
				rt = g.fu.reach(tt)
				rf = g.fu.reach(ft, removed_edges=pe)
				if not any(true_reaches(g.fu, b) for b in rt):
					ok = False
					msg += '; true edge does not reach the expected outcome'
				if exclusive and any(true_reaches(g.fu, b) for b in rf):
					ok = False
					msg += '; expected outcome also reachable when the comparison is false'
		out.append(Result(rule, ok, ('ok:' if ok else 'shape:') + key, msg, 1, where=facts.where(g.fu.name, g.line), detail={'normal_form': cmp_str(o), 'consts': sorted(used)}))
	return out

def constructs_pred(adt, variant):
	def pred(fu, b):
		for s in fu.blocks[b]['s']:
			rv = s[2]
			if rv[0] == 'agg' and rv[1] == 'adt' and norm(rv[2]).endswith(adt) and rv[3] == variant:
				return True
		return False
	return pred

# ----------------------------------------------------------------------------- error discipline (P14)

_AWAIT_MACHINERY = ('IntoFuture::into_future', 'Pin::new_unchecked', 'Pin::new', 'Future::poll', 'future::get_context')

def result_consumed(fu, call_block, kind='result'):
	"""what happens to the (possibly awaited) result of the call ending `call_block`:
	returns (status, how) with status in {'branched','returned','stored','passed','dropped'}."""
	seed = call_result_seed(fu, call_block, kind)
	if seed is None:
		return ('stored', 'assigned into a place')
	return value_consumed(fu, seed)

def value_consumed(fu, seed):
	"""what happens to the value held in the seed local (local, kind, neg): see result_consumed"""
	ds, taint = decisions_on(fu, [seed])
	if ds:
		return ('branched', 'line %d' % fu.line_of(ds[0].b))
	tl = set(taint)
	# value-flow closure through plain moves into other locals / aggregates / refs
	changed = True
	how = None
	while changed:
		changed = False
		for bi, si, s in fu.stmts():
			rv = s[2]
			ops = []
			if rv[0] == 'use':
				ops = [rv[1]]
			elif rv[0] == 'agg':
				ops = rv[4]
			elif rv[0] == 'ref':
				ops = [['c', rv[2]]]
			elif rv[0] == 'cast':
				ops = [rv[2]]
			for o in ops:
				if o[0] in ('c', 'm') and o[1][0] in tl:
					d = s[1][0]
					if d == 0:
						return ('returned', 'line %d' % s[0])
					if rv[0] == 'agg' and rv[1] in ('closure',):
						return ('passed', 'captured by a closure/async block at line %d' % s[0])
					if len(s[1]) > 1:
						return ('stored', 'line %d' % s[0])
					if d not in tl:
						tl.add(d)
						changed = True
	for b, ci in fu.calls():
		f = norm(ci.get('t') or ci.get('f') or '')
		if any(f.endswith(m) for m in _AWAIT_MACHINERY):
			# dest of the machinery continues the flow (already in taint)
			continue
		for a in ci['args']:
			if a[0] in ('c', 'm') and a[1][0] in tl:
				if f in _TRANSPARENT or (norm(ci.get('f') or '') in _TRANSPARENT):
					d = ci['dest'][0]
					if d == 0:
						return ('returned', 'line %d' % fu.line_of(b))
					continue
				return ('passed', 'argument of %s at line %d' % (f.rsplit('::', 1)[-1], fu.line_of(b)))
	# second pass: transparent call destinations (map_err etc.) may be returned
	for b, ci in fu.calls():
		f = norm(ci.get('t') or ci.get('f') or '')
		if (f in _TRANSPARENT or norm(ci.get('f') or '') in _TRANSPARENT) and any(a[0] in ('c', 'm') and a[1][0] in tl for a in ci['args']):
			if ci['dest'][0] == 0:
				return ('returned', 'line %d' % fu.line_of(b))
	return ('dropped', '')

# ----------------------------------------------------------------------------- field coverage (P11)

def reachable_fns(facts, roots, depth=2, prefix='lightning'):
	"""functions reachable from roots through resolved in-workspace calls up to `depth`, with closures"""
	facts.calls
	seen = {}
	work = []
	for r in roots:
		n = facts.fn(r)
		seen[n] = 0
		work.append(n)
	while work:
		x = work.pop()
		d = seen[x]
		fam = [x] + [c for c in facts.closures_of(x)] if x in facts.fns else [x]
		for f in fam:
			seen.setdefault(f, d)
			if d >= depth:
				continue
			for rec in facts.callees_of.get(f, []):
				c = rec[1]
				if c.startswith(prefix) or c.startswith('<' + prefix):
					if c not in seen and c in facts.fns:
						seen[c] = d + 1
						work.append(c)
	return set(seen)

def P11_field_coverage(facts, rule, adt, writer_roots, not_persisted, depth=2, variant=None):
	"""every field of `adt` is read somewhere under the writer (or is on the reviewed list)"""
	try:
		a = facts.adt(adt)
	except AnchorMissing as e:
		return [Result(rule, False, 'anchor:' + adt, 'anchor missing: %s' % e)]
	fields = [rec[1] for rec in facts.adts[a] if rec[1] != '-' and (variant is None or rec[0] == variant)]
	if not fields:
		return [Result(rule, False, 'anchor:fields:' + adt, 'anchor missing: %s has no fields' % adt)]
	try:
		fns = reachable_fns(facts, writer_roots, depth)
	except AnchorMissing as e:
		return [Result(rule, False, 'anchor:writer:' + adt, 'anchor missing: %s' % e)]
	out = []
	covered = 0
	stale = [f for f in not_persisted if f not in fields]
	for f in fields:
		key = '%s.%s' % (a, f)
		recs = facts.fieldacc.get(key, [])
		hit = any(r[0] in fns for r in recs)
		if hit:
			covered += 1
			continue
		if f in not_persisted:
			continue
		out.append(Result(rule, False, 'unwritten:%s.%s' % (adt.rsplit('::', 1)[-1], f), 'field %s.%s is never read under the writer %s (no longer persisted?) and is not on the reviewed not-persisted list' % (adt.rsplit('::', 1)[-1], f, [w.rsplit('::', 1)[-1] for w in writer_roots]), 1))
	if not out:
		out.append(Result(rule, True, 'ok:coverage:' + adt.rsplit('::', 1)[-1], '%s: %d of %d fields are read under the writer; %d on the reviewed not-persisted list' % (adt.rsplit('::', 1)[-1], covered, len(fields), len([f for f in fields if f in not_persisted])), len(fields)))
	return out

# ----------------------------------------------------------------------------- decision tables (P8)

def path_table(fu, max_paths=2000):
	"""enumerates the acyclic entry->return paths of a small function and returns rows
	(conds, result) where conds maps a condition key ('disc:<place>' or '<bool expr>') to
	either an int value or ('not', frozenset(excluded)), and result is the expression last
	assigned to the return place on that path."""
	ex = Expr(fu)
	rows = []
	count = [0]
	def walk(b, conds, ret, seen):
		if count[0] > max_paths:
			raise AnchorMissing('too many paths in %s for table extraction' % fu.name)
		blk = fu.blocks[b]
		for s in blk['s']:
			if s[1] == [0]:
				ret = ex.of_rvalue(s[2])
		t = blk['t']
		k = t[1]
		if k == 'ret':
			count[0] += 1
			rows.append((dict(conds), ret))
			return
		if k == 'call' and t[2]['dest'] == [0]:
			ret = ex.of_rvalue(['call', t[2]])
		if k == 'switch':
			e = ex.of_operand(t[2])
			key = ('disc:' + leaf_key(e[1])) if e[0] == 'disc' else leaf_key(e)
			vals = t[3]
			listed = [v for v, _ in vals]
			for v, tb in vals:
				if key in conds:
					c = conds[key]
					if isinstance(c, tuple):
						if v in c[1]:
							continue
					elif c != v:
						continue
				if (b, tb) in seen:
					continue
				nc = dict(conds)
				nc[key] = v
				walk(tb, nc, ret, seen | {(b, tb)})
			# otherwise edge
			ob = t[4]
			if key in conds:
				c = conds[key]
				if not isinstance(c, tuple) and c in listed:
					return
				if not isinstance(c, tuple):
					if (b, ob) not in seen:
						walk(ob, conds, ret, seen | {(b, ob)})
					return
			if (b, ob) not in seen and fu.blocks[ob]['t'][1] != 'unreachable':
				nc = dict(conds)
				prev = nc.get(key)
				excl = frozenset(listed) | (prev[1] if isinstance(prev, tuple) else frozenset())
				nc[key] = ('not', excl)
				walk(ob, nc, ret, seen | {(b, ob)})
			return
		for s2 in fu.succ(b):
			if (b, s2) in seen:
				continue
			walk(s2, conds, ret, seen | {(b, s2)})
	walk(0, {}, None, frozenset())
	return rows

def table_lookup(rows, assignment):
	"""assignment: list of (key regex, value). returns the set of result strings of the rows
	consistent with it (a row is consistent if each of its conditions whose key matches a regex agrees)."""
	out = set()
	for conds, ret in rows:
		ok = True
		for key, c in conds.items():
			for rx, val in assignment:
				if _re.search(rx, key):
					if isinstance(c, tuple):
						if val in c[1]:
							ok = False
					elif c != val:
						ok = False
		if ok:
			out.add(expr_str(ret) if ret is not None else 'None')
	return out

def switches_on_var(fu, name):
	"""switch blocks whose operand is (a copy of) the user variable `name`:
	returns [(block, false_target, true_target)] for boolean switches"""
	ex = Expr(fu)
	targets = []
	want = []
	for l, nm in fu.vars.items():
		if nm == name:
			want.append(ex.of_local(l))
			want.append(('local', l, nm))
	out = []
	for bi, b in enumerate(fu.blocks):
		t = b['t']
		if t[1] == 'switch' and t[2][0] in ('c', 'm'):
			e = ex.of_operand(t[2])
			if e in want or (e[0] == 'local' and e[2] == name):
				f_t = [tb for v, tb in t[3] if v == 0]
				out.append((bi, f_t[0] if f_t else None, t[4]))
	return out

# ---- accumulators returned at success exits ---------------------------------------------

def accumulator_exits(fu, kinds=('alloc::vec::Vec<', 'HashMap<', 'VecDeque<', 'BTreeMap<')):
	"""Functions that build a collection in a local L and return it inside the tuple of their success value at more than one exit.
	Returns [(position, L, name, n_exits_returning_L, [(exit block, path from a mutation of L to that exit) for exits that return something
	else at that position although L may already hold entries])]."""
	live = fu.reach([0])
	ex = Expr(fu)
	def strip(e):
		while e[0] in ('ref', 'deref'):
			e = e[1]
		return e
	rets = []
	for bi, si, st in fu.stmts():
		rv = st[2]
		if st[1] == [0] and rv[0] == 'agg' and bi in live:
			if rv[1] == 'adt' and rv[3] in ('Ok', 'Some') and rv[4]:
				e = ex.of_operand(rv[4][0])
			elif rv[1] == 'tuple':
				e = ex.of_rvalue(rv)
			else:
				continue
			if e[0] == 'agg' and e[1] is None and len(e[3]) >= 2:
				rets.append((bi, [strip(x) for x in e[3]]))
	out = []
	if len(rets) < 2 or len({len(r[1]) for r in rets}) != 1:
		return out
	for i in range(len(rets[0][1])):
		for L in sorted({r[1][i][1] for r in rets if r[1][i][0] == 'local'}):
			ty = fu.locals[L].get('ty') or ''
			if L <= fu.argc or not any(ty.startswith(k) or (k in ty and not ty.startswith('&')) for k in kinds):
				continue
			# blocks that may add to L: a mutable borrow of L (push / extend / insert / a closure capturing it)
			mut = set()
			for bi, si, st in fu.stmts():
				rv = st[2]
				if rv[0] == 'ref' and rv[1] is True and rv[2] and rv[2][0] == L and bi in live:
					mut.add(bi)
			good = [r[0] for r in rets if r[1][i][0] == 'local' and r[1][i][1] == L]
			lost = []
			for r in rets:
				if r[1][i][0] == 'local' and r[1][i][1] == L:
					continue
				p = fu.path(sorted(mut), [r[0]]) if mut else None
				if p is not None:
					lost.append((r[0], p))
			out.append((i, L, fu.local_name(L), len(good), lost))
	return out

def P_accum_returned(facts, rule, fn, expect_names=None, min_instances=1):
	"""what a function accumulated in a local collection is returned at every success exit: an exit returning something else in that
	position must not be reachable from any point where the collection may already have received an entry"""
	fu = facts.func(fn)
	inst = accumulator_exits(fu)
	short = facts.fn(fn).rsplit('::', 1)[-1]
	out = []
	if len(inst) < min_instances:
		return [Result(rule, False, 'anchor:accumulator@' + short, '%s: expected >= %d collection(s) accumulated and returned at several exits, found %d' % (short, min_instances, len(inst)), len(inst), where=facts.where(fu.name))]
	for pos, L, name, n_good, lost in inst:
		ok = not lost
		msg = '%s: the collection built in position %d of the result is returned at all %d exits that follow an insertion' % (short, pos, n_good)
		if lost:
			b, p = lost[0]
			msg = '%s: an exit (line %s) returns something else in position %d of the result although entries may already have been added (path through lines %s) - they are silently dropped' % (short, fu.line_of(b), pos, fu.path_lines(p)[:8])
		out.append(Result(rule, ok, ('ok:' if ok else 'dropped:') + 'accumulated-returned@%s:%d' % (short, pos), msg, n_good + len(lost), where=facts.where(fu.name, fu.line_of(lost[0][0]) if lost else None)))
	return out

def variant_return_table(facts, fn, adt, self_place=(1, '*')):
	"""for an accessor `fn(&self) -> T { match self { V1(..) => e1, .. } }`: {variant: [expr of each value assigned to _0 in that arm]}.
	The arm of a variant is what is reachable from its switch target; the switch is the one on the discriminant of *self."""
	fu = facts.func(fn)
	variants = enum_variants(facts, adt)
	sw = variant_switch_edges(fu, lambda pl: tuple(pl) == tuple(self_place), variants)
	if not sw:
		raise AnchorMissing('%s: no match on self found' % fn)
	bj, m, other = sw[0]
	ex = Expr(fu)
	out = {}
	for v in variants:
		tgt = m.get(v, other)
		if tgt is None:
			continue
		blocks = fu.reach([tgt], removed_blocks=[bj])
		vals = []
		for d in fu.defs.get(0, []):
			bi, si, pl, rv = d
			if bi not in blocks or len(pl) != 1:
				continue
			if si == 'T':
				ci = fu.blocks[bi]['t'][2]
				vals.append(('call', norm(ci.get('f') or '') , [ex.of_operand(a) for a in ci['args']], norm(ci['t']) if ci.get('t') else None))
			else:
				vals.append(ex.of_rvalue(fu.blocks[bi]['s'][si][2]))
		out[v] = vals
	return out

def accumulator_inputs(fu, local):
	"""field names (owner-qualified `Owner.field`) read by the right-hand sides of every definition of `local`
	(what a running total is made of); the local itself is skipped. Call terminators defining it contribute their arguments."""
	ex = Expr(fu, max_depth=12)
	out = set()
	def walk(e, depth=0):
		if depth > 14 or not isinstance(e, tuple):
			return
		k = e[0]
		if k == 'local':
			return
		if k == 'field':
			if not (isinstance(e[1], tuple) and e[1][0] == 'downcast') and not str(e[2]).isdigit():
				out.add('%s.%s' % ((e[3] or '?').rsplit('::', 1)[-1], e[2]))
			walk(e[1], depth + 1)
			return
		for x in e[1:]:
			if isinstance(x, tuple):
				walk(x, depth + 1)
			elif isinstance(x, list):
				for y in x:
					if isinstance(y, tuple):
						walk(y, depth + 1)
	for d in fu.defs.get(local, []):
		b, si = d[0], d[1]
		if si == 'T':
			ci = fu.blocks[b]['t'][2]
			for a in ci['args']:
				walk(ex.of_operand(a))
			continue
		rv = fu.blocks[b]['s'][si][2]
		if rv[0] == 'bin':
			for op in (rv[2], rv[3]):
				if op[0] in ('c', 'm') and op[1] == [local]:
					continue
				walk(ex.of_operand(op))
		elif rv[0] == 'use':
			walk(ex.of_operand(rv[1]))
		else:
			walk(ex.of_rvalue(rv))
	return out

def expr_local_ids(e, out=None):
	"""indices of all locals occurring in an expression (a parameter is 1..argc, a user variable any index)"""
	if out is None:
		out = set()
	k = e[0]
	if k == 'local':
		out.add(e[1])
	elif k in ('field', 'deref', 'downcast', 'index', 'ref', 'disc', 'cast'):
		expr_local_ids(e[1], out)
	elif k == 'bin':
		expr_local_ids(e[2], out); expr_local_ids(e[3], out)
	elif k == 'un':
		expr_local_ids(e[2], out)
	elif k == 'call':
		for a in e[2]:
			expr_local_ids(a, out)
	elif k == 'agg':
		for a in e[3]:
			expr_local_ids(a, out)
	return out

_SHORT_CIRCUIT = ('find_map', 'find', 'next', 'nth', 'last', 'take', 'take_while', 'skip', 'skip_while', 'step_by', 'position', 'rposition',
	'any', 'all', 'min', 'max', 'min_by_key', 'max_by_key', 'first', 'peekable', 'map_while', 'try_fold', 'try_for_each', 'next_back', 'reduce')

def iterator_chain(e):
	"""adaptor names (outermost first) of an iterator expression `collect(filter_map(iter(x), ..))`"""
	names = []
	while e[0] in ('ref', 'deref'):
		e = e[1]
	while e[0] == 'call' and e[2]:
		names.append((e[1] or '').rsplit('::', 1)[-1])
		e = e[2][0]
		while e[0] in ('ref', 'deref'):
			e = e[1]
	return names, e

def chain_is_exhaustive(e):
	"""True when no adaptor of the chain can stop before the end of the underlying collection"""
	names, base = iterator_chain(e)
	return not any(n in _SHORT_CIRCUIT for n in names), names


def guards_of_lock(fu, field_suffix):
	"""[(lock block, set of locals holding the guard)] for every `<field>.lock()` (Mutex / RwLock read / write) whose receiver is rooted in a
	field ending with field_suffix; the guard is followed through unwrap / expect and moves into named locals"""
	ex = Expr(fu)
	out = []
	for b, ci in fu.calls():
		f = norm(ci.get('f') or ci.get('t') or '')
		if not f.endswith(('::lock', '::write', '::read')) or not ci['args'] or fu.is_cleanup(b):
			continue
		k = leaf_key(ex.of_operand(ci['args'][0]))
		if not k.endswith(field_suffix):
			continue
		d = ci.get('dest')
		if not d:
			continue
		G = {d[0]}
		for _ in range(6):
			for b2, c2 in fu.calls():
				f2 = norm(c2.get('f') or '')
				if f2.endswith(('::unwrap', '::expect')) and c2['args'] and c2['args'][0][0] in ('c', 'm') and c2['args'][0][1] and c2['args'][0][1][0] in G and c2.get('dest'):
					G.add(c2['dest'][0])
			for bi, si, s in fu.stmts():
				rv = s[2]
				if len(s[1]) == 1 and rv[0] == 'use' and rv[1][0] == 'm' and len(rv[1][1]) == 1 and rv[1][1][0] in G:
					G.add(s[1][0])
		out.append((b, G))
	return out

def release_blocks(fu, G):
	"""blocks that end the life of a guard held in one of the locals G: its scope-end drop, or a call that takes it by value (mem::drop)"""
	out = set()
	for bi, b in enumerate(fu.blocks):
		t = b['t']
		if fu.is_cleanup(bi):
			continue
		if t[1] == 'drop' and t[2] and t[2][0] in G and len(t[2]) == 1:
			out.add(bi)
		if t[1] == 'call' and not norm(t[2].get('f') or '').endswith(('::unwrap', '::expect')):
			for a in t[2]['args']:
				if a[0] == 'm' and len(a[1]) == 1 and a[1][0] in G:
					out.add(bi)
	return out

def P_held_across(facts, rule, fu, field_suffix, act_blocks, what, key):
	"""every act block is reached only with the lock on `field_suffix` held: some acquisition dominates it and no release of that guard lies
	between the acquisition and the act"""
	locks = guards_of_lock(fu, field_suffix)
	if not locks or not act_blocks:
		return [Result(rule, False, 'anchor:' + key, '%s: lock on %s (%d) / %s (%d) not found' % (fu.name.rsplit('::', 1)[-1], field_suffix, len(locks), what, len(act_blocks)), where=facts.where(fu.name))]
	out = []
	for i, P in enumerate(sorted(act_blocks)):
		held = False
		why = 'no acquisition of the lock dominates it'
		for L, G in locks:
			if not fu.dominates(L, P):
				continue
			rel = release_blocks(fu, G)
			between = [R for R in rel if R in fu.reach([L]) and P in fu.reach([R], removed_blocks={L})]
			if not between:
				held = True
				break
			why = 'the guard taken at line %s is released at line %s before it' % (fu.line_of(L), fu.line_of(sorted(between)[0]))
		out.append(Result(rule, held, ('ok:' if held else 'unlocked:') + key + '@%d' % i, '%s: %s runs with the %s lock held' % (fu.name.rsplit('::', 1)[-1], what, field_suffix) if held else '%s: %s (line %s) runs without the %s lock: %s' % (fu.name.rsplit('::', 1)[-1], what, fu.line_of(P), field_suffix, why), 2, where=facts.where(fu.name, fu.line_of(P))))
	return out
