"""Constant census of linear forms (rule ids NN.K): the constants and coefficients of the arithmetic a reviewed function performs do not change silently.

NN.N (rules/arith.py) pins WHICH kinds of arithmetic a function performs; it is deliberately blind to how often, so a dropped `- 1`, `<` for `<=`
inside a computed bound, an operand pair swapped, a value scaled by 1000 once too often or not at all go unnoticed when the function keeps some other
add/sub.  This census pins the remaining structure that is still independent of run-time values: every comparison and every maximal arithmetic
expression of a function is brought into a LINEAR NORMAL FORM over name-free atoms

    comparison:  c1*A1 + c2*A2 + ... >= K      (integers: `x > K` is `x >= K+1`, `x <= K` is `-x >= -K`; a comparison and its negation are the same
                                                 form - `if !(a < b) {X} else {Y}` is `if a >= b {X} else {Y}` - and `==` / `!=` likewise)
    value:       c1*A1 + c2*A2 + ... + K        (operands of min / max / div_ceil, stored values, call arguments: every arithmetic expression that is
                                                 not itself a linear sub-term of a larger one or of a comparison)

where an atom is what the expression reads, described without local names: `arg:<type>`, `L:<type>` for a local, `.field` chains, `callee(args)`, named
constants by name, non-linear sub-terms recursively.  Temporaries and `let` bindings assigned once are looked through, so hoisting, renaming, operand
swapping (`a > b` as `b < a`), moving a term across the comparison (`h >= e - B` as `h + B >= e`), negating a condition with its branches swapped,
`x + 1 > y` for `x >= y`, splitting or merging arms (forms are a SET per function) all leave the census unchanged.  The SHAPE of a form is its atom
tuple; the table (rules/linforms_table.json, per build profile) holds per reviewed function and shape the set of (coefficients, K).  Judged: a shape
that the reviewed function has and still has must keep exactly its set of (coefficients, K).  Not judged: shapes that appear or disappear (a guard
or computation added, removed or rewritten in another style - the guard, mutation and arithmetic censuses judge those), new functions.  Atoms with
equal descriptions are ordered by declaration order of the locals they read, so swapping the declarations of two same-typed locals that are later
compared with each other needs a reviewed table update - like every census here."""
import json, os, collections, re
from engine import *
from engine import _CMP_OPS, _ARITH_CALLS, _PASS_CALLS

_LIN_OPS = ('Add', 'Sub', 'Mul')
_ARITH_BIN = ('Add', 'Sub', 'Mul', 'Div', 'Rem', 'Shl', 'Shr')

def _opn(op):
	for suf in ('WithOverflow', 'Unchecked'):
		if op.endswith(suf):
			return op[:-len(suf)]
	return op

def ntree(e):
	"""hashable copy of an Expr tree with normalised operator names"""
	k = e[0]
	if k == 'bin':
		return ('bin', _opn(e[1]), ntree(e[2]), ntree(e[3]))
	if k == 'un':
		return ('un', e[1], ntree(e[2]))
	if k in ('deref', 'ref', 'disc', 'index'):
		return (k, ntree(e[1]))
	if k == 'cast':
		return ('cast', ntree(e[1]), e[2])
	if k == 'field':
		return ('field', ntree(e[1]), e[2])
	if k == 'downcast':
		return ('downcast', ntree(e[1]), e[2])
	if k == 'call':
		return ('call', e[1], tuple(ntree(a) for a in e[2]), e[3] if len(e) > 3 else None)
	if k == 'agg':
		return ('agg', e[1], e[2], tuple(ntree(a) for a in e[3]))
	if k == 'const':
		return ('const', e[1], e[2], e[3])
	if k == 'local':
		return ('local', e[1], e[2])
	return ('unknown', str(e[1:]))

class Lin:
	def __init__(self, fu):
		self.fu = fu
		self.subs = set()      # ntrees met in a linear position below a root
		self.vorder = {nm: 10 ** 6 + i for i, (nm, pl) in enumerate(fu.js['vars'])}

	def rank(self, e):
		k = e[0]
		if k == 'local':
			return e[1] if e[1] >= 0 else self.vorder.get(e[2], 10 ** 7)
		if k == 'const' or k == 'unknown':
			return 10 ** 8
		if k in ('bin',):
			return min(self.rank(e[2]), self.rank(e[3]))
		if k == 'call':
			return min([self.rank(a) for a in e[2]] or [10 ** 8])
		if k == 'agg':
			return min([self.rank(a) for a in e[3]] or [10 ** 8])
		return self.rank(e[1]) if len(e) > 1 and isinstance(e[1], tuple) else 10 ** 8

	def label(self, e, depth=0):
		"""name-free description of an atom"""
		if depth > 10:
			return '...'
		k = e[0]
		if k == 'local':
			if e[1] < 0:
				return 'up'
			ty = (self.fu.locals[e[1]].get('ty') or '?') if e[1] < len(self.fu.locals) else '?'
			ty = re.sub(r"'\w+ ?", '', ty)
			return ('arg:' if 0 < e[1] <= self.fu.argc else 'L:') + ty
		if k == 'field':
			return '%s.%s' % (self.label(e[1], depth + 1), e[2])
		if k in ('deref', 'ref'):
			return self.label(e[1], depth + 1)
		if k == 'downcast':
			return '%s@%s' % (self.label(e[1], depth + 1), e[2])
		if k == 'index':
			return self.label(e[1], depth + 1) + '[]'
		if k == 'cast':
			return self.label(e[1], depth + 1)
		if k == 'const':
			if e[2]:
				return e[2].rsplit('::', 1)[-1]
			return str(e[1]) if e[1] is not None else 'const'
		if k == 'call':
			tail = (e[1] or (e[3] if len(e) > 3 else None) or '?').rsplit('::', 1)[-1]
			if tail in _PASS_CALLS and e[2]:
				return self.label(e[2][0], depth + 1)
			return '%s(%s)' % (tail, ','.join(self.form_str(a, depth + 1) for a in e[2]))
		if k == 'bin':
			a, b = self.form_str(e[2], depth + 1), self.form_str(e[3], depth + 1)
			if e[1] in ('Mul', 'BitAnd', 'BitOr', 'BitXor') and b < a:
				a, b = b, a
			return '(%s %s %s)' % (a, e[1], b)
		if k == 'un':
			return '%s(%s)' % (e[1], self.form_str(e[2], depth + 1))
		if k == 'disc':
			return 'disc(%s)' % self.label(e[1], depth + 1)
		if k == 'agg':
			return 'agg:%s' % (e[2],)
		return '?'

	def form_str(self, e, depth=0):
		"""name-free rendering of a (possibly linear) sub-expression, used inside labels of non-linear atoms"""
		terms, K = self.lin(e, top=False, depth=depth)
		atoms = self.ordered(terms)
		s = ' '.join('%+d*%s' % (c, l) for l, c in atoms)
		if K or not s:
			s += ' %+d' % K
		return s.strip()

	def lin(self, e, top=True, depth=0):
		"""({ntree-key: [coeff, leaf expr]}, K).  Every strict sub-node met in linear position is recorded in self.subs."""
		if not top:
			self.subs.add(e)
		k = e[0]
		if depth > 30:
			return ({e: [1, e]}, 0)
		if k == 'const' and e[1] is not None and isinstance(e[1], int) and not isinstance(e[1], bool):
			return ({}, e[1])
		if k in ('cast', 'deref', 'ref'):
			return self.lin(e[1], False, depth + 1)
		if k == 'bin' and e[1] in ('Add', 'Sub'):
			a, ka = self.lin(e[2], False, depth + 1)
			b, kb = self.lin(e[3], False, depth + 1)
			sgn = 1 if e[1] == 'Add' else -1
			out = {x: list(v) for x, v in a.items()}
			for x, (c, le) in b.items():
				if x in out:
					out[x][0] += sgn * c
					if out[x][0] == 0:
						del out[x]
				else:
					out[x] = [sgn * c, le]
			return (out, ka + sgn * kb)
		if k == 'bin' and e[1] == 'Mul':
			a, ka = self.lin(e[2], False, depth + 1)
			b, kb = self.lin(e[3], False, depth + 1)
			if not a:
				return ({x: [c * ka, le] for x, (c, le) in b.items() if c * ka}, ka * kb)
			if not b:
				return ({x: [c * kb, le] for x, (c, le) in a.items() if c * kb}, ka * kb)
			return ({e: [1, e]}, 0)
		if k == 'call':
			tail = (e[1] or '').rsplit('::', 1)[-1]
			if tail in _ARITH_CALLS and len(e[2]) == 2 and (e[1] or '').startswith('core::num::'):
				return self.lin(('bin', _ARITH_CALLS[tail], e[2][0], e[2][1]), top, depth + 1)
			if tail in _PASS_CALLS and len(e[2]) >= 1:
				return self.lin(e[2][0], False, depth + 1)
		if k == 'downcast':
			return self.lin(e[1], False, depth + 1)
		if k == 'field' and e[2] == '0' and e[1][0] == 'downcast' and e[1][1][0] == 'call':
			return self.lin(e[1][1], False, depth + 1)
		return ({e: [1, e]}, 0)

	def ordered(self, terms):
		"""[(label, coeff)] sorted by (label, declaration rank)"""
		xs = [(self.label(le), self.rank(le), c) for x, (c, le) in terms.items()]
		xs.sort(key=lambda t: (t[0], t[1]))
		return [(l, c) for l, r, c in xs]

class Consumed:
	"""Is the value an arithmetic statement computes only a linear sub-term of a larger arithmetic expression or of a comparison?  Decided per
	OCCURRENCE (the statement's destination temporary and its uses), not per expression text: `d * 1000` compared in one place and handed to
	`min` in another are two occurrences, the second of which is a value of its own."""
	def __init__(self, fu):
		self.fu = fu
		self.uses = collections.defaultdict(list)
		for bi, si, s in fu.stmts():
			dst, rv = s[1], s[2]
			k = rv[0]
			ops = []
			if k in ('use', 'un', 'cast'):
				ops = [rv[1] if k != 'un' else rv[2]] if k != 'cast' else [rv[1]]
			elif k == 'bin':
				ops = [rv[2], rv[3]]
			elif k == 'agg':
				ops = list(rv[4])
			elif k == 'repeat':
				ops = [rv[1]]
			elif k in ('ref', 'rawptr'):
				self.uses[rv[2][0]].append(('other',))
			elif k == 'disc':
				self.uses[rv[1][0]].append(('other',))
			for o in ops:
				if isinstance(o, (list, tuple)) and o and o[0] in ('c', 'm'):
					self.uses[o[1][0]].append(('stmt', rv, o[1], dst))
		for bi, b in enumerate(fu.blocks):
			t = b['t']
			if t[1] in ('call', 'tailcall'):
				for i, a in enumerate(t[2]['args']):
					if a and a[0] in ('c', 'm'):
						self.uses[a[1][0]].append(('call', t[2], a[1]))
			elif t[1] == 'switch':
				if t[2][0] in ('c', 'm'):
					self.uses[t[2][1][0]].append(('other',))
			elif t[1] == 'assert':
				pass
			elif t[1] == 'drop':
				pass
		self.memo = {}

	def transparent(self, l):
		fu = self.fu
		if l == 0 or l <= fu.argc:
			return False
		ds = [d for d in fu.defs.get(l, []) if len(d[2]) == 1 or d[2][1] != '*']
		whole = [d for d in ds if len(d[2]) == 1]
		if not (len(whole) == 1 and len(ds) == 1):
			return False
		name = fu.local_name(l)
		return name is None or l not in fu.mut_borrowed

	def consumed(self, l, depth=0):
		if l in self.memo:
			return self.memo[l]
		self.memo[l] = False
		if depth > 12 or not self.transparent(l):
			return False
		us = self.uses.get(l, [])
		real = 0
		ok = True
		for u in us:
			if u[0] == 'other':
				ok = False; break
			if u[0] == 'stmt':
				rv, pl, dst = u[1], u[2], u[3]
				if len(pl) > 1:
					if len(pl) == 2 and pl[1].startswith('.1'):
						continue   # overflow flag of a checked operation (dev profile)
					if not (len(pl) == 2 and pl[1].startswith('.0')):
						ok = False; break
				real += 1
				if rv[0] == 'bin' and (_opn(rv[1]) in _LIN_OPS or _opn(rv[1]) in _CMP_OPS) and len(pl) == 1:
					continue
				if rv[0] in ('use', 'cast') and len(dst) == 1 and self.consumed(dst[0], depth + 1):
					continue
				ok = False; break
			if u[0] == 'call':
				ci, pl = u[1], u[2]
				real += 1
				f = norm(ci.get('f') or '')
				tail = f.rsplit('::', 1)[-1]
				if len(pl) == 1 and tail in _ARITH_CALLS and f.startswith('core::num::') and len(ci['args']) == 2:
					continue
				if len(pl) == 1 and tail in _PASS_CALLS and ci.get('dest') and len(ci['dest']) == 1 and self.consumed(ci['dest'][0], depth + 1):
					continue
				ok = False; break
		res = ok and real > 0
		self.memo[l] = res
		return res

def forms_of(fu):
	"""set of (kind, shape, variant) of one body; kind in cmp / eq / val"""
	ex = Expr(fu)
	L = Lin(fu)
	out = {}
	cands = []
	for bi, si, s in fu.stmts():
		if fu.is_cleanup(bi):
			continue
		rv = s[2]
		if rv[0] != 'bin':
			continue
		op = _opn(rv[1])
		if op in _CMP_OPS:
			a, b = ntree(ex.of_operand(rv[2])), ntree(ex.of_operand(rv[3]))
			ta, ka = L.lin(a, top=False)
			tb, kb = L.lin(b, top=False)
			terms = {x: list(v) for x, v in ta.items()}
			for x, (c, le) in tb.items():
				if x in terms:
					terms[x][0] -= c
					if terms[x][0] == 0:
						del terms[x]
				else:
					terms[x] = [-c, le]
			K = kb - ka
			atoms = L.ordered(terms)
			if not atoms:
				continue
			labels = tuple(l for l, c in atoms)
			cs = [c for l, c in atoms]
			if op in ('Eq', 'Ne'):
				if len(labels) == 1 and re.search(r'BitAnd \+1\)$|^\(\+1 BitAnd |Rem \+2\)$', labels[0]):
					# a two-valued atom (`t & 1`, `t % 2`): `== 0`, `!= 1`, `!= 0` with the branches swapped are one test; the form carries nothing to pin
					continue
				if cs[0] < 0:
					cs = [-c for c in cs]; K = -K
				out.setdefault((('eq',) + labels), set()).add((tuple(cs), K))
				where = s[0]
			else:
				# bring to  sum >= K
				if op == 'Gt':
					K = K + 1
				elif op == 'Le':
					cs = [-c for c in cs]; K = -K
				elif op == 'Lt':
					cs = [-c for c in cs]; K = -K + 1
				if cs[0] < 0:
					# the negation  -sum >= 1 - K  is the same decision with the branches swapped
					cs = [-c for c in cs]; K = 1 - K
				out.setdefault((('cmp',) + labels), set()).add((tuple(cs), K))
		elif op in _ARITH_BIN:
			cands.append((ntree(ex.of_rvalue(rv)), s[0], s[1][0] if len(s[1]) == 1 else None))
	for b, ci in fu.calls():
		if fu.is_cleanup(b):
			continue
		f = norm(ci.get('f') or '')
		tail = f.rsplit('::', 1)[-1]
		if tail in _ARITH_CALLS and f.startswith('core::num::') and len(ci['args']) == 2:
			cands.append((ntree(('call', f, [ex.of_operand(a) for a in ci['args']], None)), fu.line_of(b), ci['dest'][0] if ci.get('dest') and len(ci['dest']) == 1 else None))
	cons = Consumed(fu)
	for e, line, dest in cands:
		if dest is not None and cons.consumed(dest):
			continue
		terms, K = L.lin(e, top=True)
		atoms = L.ordered(terms)
		if not atoms:
			continue
		if len(atoms) == 1 and atoms[0][1] == 1 and K == 0:
			continue
		labels = tuple(l for l, c in atoms)
		out.setdefault((('val',) + labels), set()).add((tuple(c for l, c in atoms), K))
	return out

_C = {}

def census(F, file_res):
	key = (F.dir, tuple(file_res))
	if key in _C:
		return _C[key]
	tab = {}
	where = {}
	known = collections.defaultdict(set)
	for n, r in F.fns.items():
		if not n.startswith(('lightning', '<lightning')) or 'ser_macros' in r['file'] or F.impl_kind.get(root_fn(n)) == 'derived':
			continue
		fl = r['file'].split('/')[0] + ':' + (r['file'].split('src/')[-1] if 'src/' in r['file'] else r['file'])
		if not any(re.search(p, fl.replace(':', '/src/')) for p in file_res):
			continue
		tail = root_fn(n).rsplit('::', 1)[-1]
		known[fl].add(tail)
		try:
			fu = F.func(n)
		except AnchorMissing:
			continue
		try:
			fs = forms_of(fu)
		except RecursionError:
			continue
		for shape, variants in fs.items():
			k = (fl, tail, '|'.join(shape))
			tab.setdefault(k, set()).update(variants)
			where.setdefault(k, n)
	_C[key] = (tab, where, known)
	return _C[key]

_T = None
def table():
	global _T
	if _T is None:
		p = os.path.join(os.path.dirname(os.path.abspath(__file__)), 'linforms_table.json')
		_T = json.load(open(p)) if os.path.exists(p) else {}
	return _T

def vstr(v):
	return '(%s; K=%d)' % (','.join('%+d' % c for c in v[0]), v[1])

def rule(F, rule_id, file_res, floor=1):
	tab, where, known = census(F, file_res)
	prof = 'dev' if F.dir.rstrip('/').endswith('-dev') else 'release'
	T = table().get(prof)
	if T is None:
		return [Result(rule_id, False, 'anchor:linforms-table', 'no reviewed linear-form table for build profile %s' % prof)]
	out = []
	n = 0
	for fl, fns in T.items():
		if not any(re.search(p, fl.replace(':', '/src/')) for p in file_res):
			continue
		for tail, shapes in fns.items():
			if tail not in known.get(fl, ()):
				continue
			for shape, variants in shapes.items():
				cur = tab.get((fl, tail, shape))
				if cur is None:
					continue
				n += 1
				rev = {(tuple(v[0]), v[1]) for v in variants}
				if rev != cur:
					lost = sorted(rev - cur); gained = sorted(cur - rev)
					fn = where.get((fl, tail, shape))
					out.append(Result(rule_id, False, 'linform:%s:%s' % (tail, shape[:90]),
						'%s: the %s over atoms [%s] had coefficients/constant %s in the reviewed tree and has %s now - a constant (`+ 1` / `- 1`), a strictness (`<` / `<=`), a scale factor or the direction of a comparison changed while the expression kept reading the same things'
						% (tail, {'cmp': 'comparison (normalised to sum >= K)', 'eq': 'equality test', 'val': 'arithmetic expression'}[shape.split('|', 1)[0]],
						shape.split('|', 1)[1] if '|' in shape else '', ' '.join(vstr(v) for v in lost) or '(kept)', ' '.join(vstr(v) for v in gained) or '(nothing new)'), 1,
						where=F.where(fn) if fn else fl))
	if n < floor:
		return [Result(rule_id, False, 'anchor:linforms', 'only %d reviewed linear forms found again in %s (expected >= %d)' % (n, file_res, floor))]
	if not out:
		out.append(Result(rule_id, True, 'ok:linforms', '%d (function, shape) linear forms of comparisons and arithmetic expressions in %s keep their coefficients and constants' % (n, '|'.join(file_res)), n))
	return out

import arith
SCOPE = {pid: (res, 1) for pid, (res, fl) in arith.SCOPE.items()}
SCOPE['C08'] = ([r'ln/channelmanager\.rs$', r'ln/channel\.rs$', r'chain/channelmonitor\.rs$', r'ln/onion_payment\.rs$'], 1)
SCOPE['C10'] = ([r'ln/channelmanager\.rs$', r'ln/channel\.rs$'], 1)
SCOPE['C12'] = ([r'util/ser\.rs$', r'ln/channel\.rs$', r'ln/channelmanager\.rs$', r'chain/channelmonitor\.rs$', r'routing/scoring\.rs$', r'routing/gossip\.rs$', r'util/sweep\.rs$', r'chain/onchaintx\.rs$', r'chain/package\.rs$', r'events/mod\.rs$'], 1)

def for_property(F, pid, rule_id):
	res, floor = SCOPE[pid]
	return rule(F, rule_id, res, floor)
