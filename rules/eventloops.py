"""Event-replay rule (ids NN.E): an event is removed from its queue only if the handler returned Ok.

The event loops of ChannelManager, ChannelMonitor and ChainMonitor (three macro bodies, sync and async expansions) hand each queued event to
the user's handler and afterwards drain `..num_handled_events` from the queue; an event whose handler returned Err(ReplayEvent) must stay
queued (it is the only delivery of a SpendableOutputs descriptor, of a PaymentSent / PaymentFailed outcome).  Decided per expansion: the local
that bounds the `drain(..n)` of a `pending_events` collection is written (apart from its initialisation with a constant) only in blocks that
every path from the entry reaches through the Ok edge of a branch on the handler's Result<(), ReplayEvent>."""
from engine import *
import mutations

def _handler_switches(fu):
	def is_handler_result(pl):
		ty = (fu.locals[pl[0]].get('ty') or '').lstrip('&')
		# the Result itself, not the Poll<Result<..>> of the awaited handler (whose Ready arm is not the Ok arm)
		return ty.startswith('core::result::Result<') and 'ReplayEvent' in ty
	sw = variant_switch_edges(fu, is_handler_result, ['Ok', 'Err'])
	exr = Expr(fu)
	for b2, ci2 in fu.calls():
		f2 = norm(ci2.get('f') or '')
		if f2.endswith(('Result::is_ok', 'Result::is_err')) and ci2['args']:
			a0 = ci2['args'][0]
			ids = set(expr_local_ids(exr.of_operand(a0))) | ({a0[1][0]} if a0[0] in ('c', 'm') and a0[1] else set())
			if any('ReplayEvent' in (fu.locals[l].get('ty') or '') for l in ids):
				for d in call_decisions(fu, [b2], 'bool'):
					t_e = d.true_edges if f2.endswith('is_ok') else d.false_edges
					f_e = d.false_edges if f2.endswith('is_ok') else d.true_edges
					if t_e and f_e:
						sw.append((t_e[0][0], {'Ok': t_e[0][1], 'Err': f_e[0][1]}, f_e[0][1]))
	return sw

def loops(F, prefixes=('lightning::', '<lightning::')):
	"""[(fn name, fu, drain block, counter local)] for every drain(..n) of a pending_events collection in a function that has a handler result"""
	out = []
	for n in sorted(F.fns):
		if not n.startswith(prefixes) or not ('process_pending_events' in n or 'process_events' in n):
			continue
		try:
			fu = F.func(n)
		except AnchorMissing:
			continue
		if not any('ReplayEvent' in (l.get('ty') or '') and 'Result<' in (l.get('ty') or '') for l in fu.locals):
			continue
		ex = Expr(fu, max_depth=12)
		for b, ci in fu.calls():
			f = norm(ci.get('f') or ci.get('t') or '')
			if not f.endswith('::drain') or len(ci['args']) < 2:
				continue
			rf = mutations.root_field(ex.of_operand(ci['args'][0]), ex)
			if not rf or not rf.endswith('.pending_events'):
				continue
			e = ex.of_operand(ci['args'][1])
			ids = [l for l in expr_local_ids(e) if (fu.locals[l].get('ty') or '') == 'usize' and fu.local_name(l)]
			# the bound is `RangeTo { end: n }`: n is the user variable inside
			if e[0] == 'agg' and ids:
				out.append((n, fu, b, ids[0]))
	return out

def rule(F, rule_id, file_re, floor):
	import re
	out = []
	cnt = 0
	for n, fu, db, ctr in loops(F):
		if not re.search(file_re, F.fns[n]['file']):
			continue
		cnt += 1
		short = F.fns[n]['file'].rsplit('/', 1)[-1][:-3] + '::' + root_fn(n).rsplit('::', 1)[-1]
		sw = _handler_switches(fu)
		if not sw:
			out.append(Result(rule_id, False, 'anchor:handler-result@' + short, '%s: no branch on the event handler result found' % short, where=F.where(n)))
			continue
		# blocks writing the counter with anything but a constant
		incs = set()
		for bi, si, s in fu.stmts():
			if s[1] == [ctr] and not (s[2][0] == 'use' and s[2][1][0] == 'k'):
				incs.add(bi)
		if not incs:
			out.append(Result(rule_id, False, 'anchor:handled-counter@' + short, '%s: the handled-events counter is never advanced' % short, where=F.where(n)))
			continue
		# `if let Err(e) = res { .. break }` lists only the Err value: the Ok edge is then the switch's `otherwise`
		ok_edges = {(sb, m['Ok'] if m.get('Ok') is not None else other) for sb, m, other in sw if (m.get('Ok') is not None or ('Err' in m and other is not None))}
		p = fu.path([0], incs, removed_edges=ok_edges)
		ok = p is None and bool(ok_edges)
		out.append(Result(rule_id, ok, ('ok:' if ok else 'lost:') + 'event-drained-only-after-ok@' + short,
			'%s: the count of events drained from pending_events is advanced only on the Ok arm of the handler result' % short if ok else
			'%s: the count of events drained from pending_events is advanced whatever the handler returned (lines %s): an event the handler could not process (Err(ReplayEvent)) is dropped from the queue instead of being replayed' % (short, fu.path_lines(p)[-6:] if p else '?'),
			len(incs) + len(sw), where=F.where(n, fu.line_of(sorted(incs)[0]))))
	if cnt < floor:
		out.append(Result(rule_id, False, 'floor:event-loops', 'only %d event loop(s) draining pending_events found in %s (expected >= %d)' % (cnt, file_re, floor), cnt))
	return out
