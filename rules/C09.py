"""C09 - no state is revealed to the peer before its monitor update is durable (structural part)."""
from engine import *
import linforms
import obligations
import re
import provenance
import guards
import arith
import errprop
import writes
import mutations

CH = 'lightning::ln::channel::'
FC = CH + 'FundedChannel::'
CC = CH + 'ChannelContext::'
CM = 'lightning::ln::channelmanager::ChannelManager::'
CHM = 'lightning::chain::chainmonitor::ChainMonitor::'

EXPLANATION = ('Censuses and path rules over lightning::ln::channel, ln::channelmanager and chain::chainmonitor: monitor update ids are '
	'produced only by +1 steps at a frozen set of sites and every ChannelMonitorUpdate built in the channel carries that id; held updates '
	'form a FIFO; every channel function that hands out a new ChannelMonitorUpdate pauses the channel (MonitorUpdateInProgress) on every '
	'path that returns it; the held messages (revoke_and_ack / commitment update) are regenerated only on restore, reestablish (when no '
	'update is in progress) or signer unblock; monitor_updating_restored is reachable only when all in-flight updates completed and no '
	'blocked update is pending; Watch::update_channel is called from one routine after the update was queued in-flight; '
	'ChainMonitor reports Completed only when no update is pending. Also: a channel_ready withheld while a monitor update is in flight is recorded as pending on every exit that follows the state transition; completion actions and channel resumption after a new update are released on the all-in-flight-updates-complete component only. Decides who-may-call / must-pass-through facts for all paths; the '
	'exact release order of messages under all interleavings is not decided.')
ASSUMPTIONS = ['Watch/Persist implementations outside the workspace honour the documented contract', 'calls through generic receivers are attributed to the trait item']

def _shape(e):
	terms, k = linear(e)
	if len(terms) == 1 and list(terms.values()) == [1]:
		leaf = list(terms)[0]
		if 'latest_monitor_update_id' in leaf and 'unblocked' not in leaf:
			# k == 0: the field is reset to a value saved from it earlier (the id already given to an update)
			return {1: 'inc', -1: 'dec', 0: 'copy-update-id'}.get(k, 'other:%s' % k)
		if 'get_latest_unblocked_monitor_update_id' in leaf and k == 1:
			return 'unblocked+1'
		if leaf.endswith('update_id') and k == 0:
			return 'copy-update-id'
		if leaf.endswith('update_id') and k == -1:
			return 'copy-update-id-1'
	return 'other:' + expr_str(e)[:80]

def r09a(F):
	out = []
	ALLOWED = {
		CC + 'force_shutdown': {'unblocked+1'},
		FC + 'build_commitment_no_status_check': {'inc'},
		FC + 'claim_htlc_while_disconnected_dropping_mon_update_legacy': {'copy-update-id'},
		FC + 'commitment_signed_update_monitor': {'inc', 'copy-update-id'},
		FC + 'free_holding_cell_htlcs': {'copy-update-id', 'inc'},
		FC + 'get_shutdown': {'inc'},
		FC + 'get_update_fulfill_htlc': {'inc', 'dec'},
		FC + 'get_update_fulfill_htlc_and_commit': {'copy-update-id'},
		FC + 'maybe_promote_splice_funding': {'inc'},
		FC + 'revoke_and_ack': {'inc', 'copy-update-id'},
		FC + 'shutdown': {'inc'},
		FC + 'splice_initial_commitment_signed': {'inc'},
	}
	out += P3_field_census(F, '09.a', 'ChannelContext.latest_monitor_update_id', list(ALLOWED), floor=15)
	n = 0
	for fn, shapes in ALLOWED.items():
		try:
			fu = F.func(fn)
		except AnchorMissing:
			continue
		ex = Expr(fu)
		for b, s in sites_field_write(fu, 'latest_monitor_update_id', 'ChannelContext'):
			st = fu.blocks[b]['s'][s]
			sh = _shape(ex.of_rvalue(st[2]))
			n += 1
			ok = sh in shapes
			out.append(Result('09.a', ok, ('ok:' if ok else 'shape:') + 'update-id-write@%s' % fn.rsplit('::', 1)[-1],
				'%s: latest_monitor_update_id = %s [%s] (allowed here: %s)' % (fn.rsplit('::', 1)[-1], expr_str(ex.of_rvalue(st[2]))[:100], sh, sorted(shapes)), 1, where=F.where(fn, st[0])))
	# re-numbering of already built updates only at the two frozen sites
	out += P3_field_census(F, '09.a', 'ChannelMonitorUpdate.update_id', [FC + 'get_update_fulfill_htlc_and_commit', CM + 'from_channel_manager_data'], floor=2)
	# blocked updates: FIFO discipline
	FIFO = {
		(FC + 'get_update_fulfill_htlc_and_commit', 'deref_mut'), (FC + 'get_update_fulfill_htlc_and_commit', 'push'),
		(FC + 'on_startup_drop_completed_blocked_mon_updates_through', 'retain'), (FC + 'push_ret_blockable_mon_update', 'push'),
		(FC + 'revoke_and_ack', 'push'), (FC + 'unblock_next_blocked_monitor_update', 'remove'),
	}
	f = F.field('ChannelContext.blocked_monitor_updates')
	seen = 0
	for fn, k, line in F.fieldacc[f]:
		kk, _, callee = k.partition(':')
		if kk not in ('w', 'bm', 'wi', 'bmi'):
			continue
		seen += 1
		key = (root_fn(fn), callee.rsplit('::', 1)[-1] if callee else kk)
		ok = key in FIFO
		if not ok:
			out.append(Result('09.a', False, 'fifo:%s:%s' % (key[0].rsplit('::', 1)[-1], key[1]), 'blocked_monitor_updates is mutated by %s via %s, which is not one of the FIFO operations (push / remove(0) / startup retain / renumbering)' % key, 1, where=F.where(root_fn(fn), line)))
	if seen < 6:
		out.append(Result('09.a', False, 'floor:fifo', 'only %d mutation sites of blocked_monitor_updates' % seen, seen))
	else:
		out.append(Result('09.a', True, 'ok:fifo', 'blocked_monitor_updates mutated only by the %d FIFO operations' % seen, seen))
	# remove(0): the released update is the oldest
	fu = F.func(FC + 'unblock_next_blocked_monitor_update')
	ex = Expr(fu)
	for b in fu.call_blocks(lambda p: p == 'alloc::vec::Vec::remove'):
		e = ex.of_operand(fu.blocks[b]['t'][2]['args'][1])
		ok = e[0] == 'const' and e[1] == 0
		out.append(Result('09.a', ok, ('ok:' if ok else 'shape:') + 'remove-first', 'unblock_next_blocked_monitor_update removes index %s (expected 0)' % expr_str(e), 1, where=F.where(fu.name, fu.line_of(b))))
	return out

def r09b(F):
	out = []
	CHS = [CC + 'force_shutdown', FC + 'build_commitment_no_status_check', FC + 'commitment_signed_update_monitor', FC + 'free_holding_cell_htlcs', FC + 'get_shutdown',
		FC + 'get_update_fulfill_htlc', FC + 'maybe_promote_splice_funding', FC + 'revoke_and_ack', FC + 'shutdown', FC + 'splice_initial_commitment_signed']
	CMS = [CM + 'claim_mpp_part', CM + 'from_channel_manager_data', CM + 'handle_post_event_actions']
	out += P2_construct_census(F, '09.b', 'lightning::chain::channelmonitor::ChannelMonitorUpdate', 'ChannelMonitorUpdate', CHS + CMS, floor=13)
	for fn in CHS:
		fu = F.func(fn)
		ex = Expr(fu)
		for b, s in sites_construct(fu, 'ChannelMonitorUpdate', 'ChannelMonitorUpdate'):
			rv = fu.blocks[b]['s'][s][2]
			e = ex.of_operand(rv[4][rv[5].index('update_id')])
			lv = expr_leaves(e)
			ok = 'latest_monitor_update_id' in lv['fields']
			terms, k = linear(e)
			if ok and fn.endswith('free_holding_cell_htlcs'):
				ok = k == 1
			elif ok:
				ok = k == 0
			out.append(Result('09.b', ok, ('ok:' if ok else 'shape:') + 'update-id-source@' + fn.rsplit('::', 1)[-1], '%s builds ChannelMonitorUpdate{update_id: %s}' % (fn.rsplit('::', 1)[-1], expr_str(e)[:80]), 1, where=F.where(fn, fu.line_of(b))))
	# manager side: closed-channel updates take ids from closed_channel_monitor_update_ids / the monitor
	for fn in (CM + 'claim_mpp_part', CM + 'handle_post_event_actions'):
		fu = F.func(fn)
		ex = Expr(fu)
		for b, s in sites_construct(fu, 'ChannelMonitorUpdate', 'ChannelMonitorUpdate'):
			rv = fu.blocks[b]['s'][s][2]
			e = ex.of_operand(rv[4][rv[5].index('update_id')])
			txt = expr_str(e)
			ok = 'closed_channel_monitor_update_ids' in txt or 'latest_update_id' in txt or 'update_id' in txt
			out.append(Result('09.b', ok, ('ok:' if ok else 'shape:') + 'closed-update-id@' + fn.rsplit('::', 1)[-1], '%s builds a post-close ChannelMonitorUpdate with update_id %s' % (fn.rsplit('::', 1)[-1], txt[:100]), 1, where=F.where(fn, fu.line_of(b))))
	return out

def r09c(F):
	"""functions that build and hand out a fresh update pause the channel on every path that returns it"""
	out = []
	# builder -> who is responsible for pausing
	SELF_PAUSING = [FC + 'commitment_signed_update_monitor', FC + 'free_holding_cell_htlcs', FC + 'get_shutdown', FC + 'maybe_promote_splice_funding',
		FC + 'revoke_and_ack', FC + 'shutdown', FC + 'splice_initial_commitment_signed']
	def upd_returns(fu):
		ex = Expr(fu)
		errs = set(err_return_blocks(fu))
		out_ = set()
		for bi, si, c in ret_assignments(fu):
			if bi in errs:
				continue
			if si == 'T':
				txt = expr_str(ex.of_rvalue(['call', fu.blocks[bi]['t'][2]]))
			else:
				txt = expr_str(ex.of_rvalue(fu.blocks[bi]['s'][si][2]))
			if 'ChannelMonitorUpdate' in txt or 'monitor_update' in txt or 'push_ret_blockable_mon_update' in txt:
				out_.add(bi)
		return out_
	def in_progress_edges(fu):
		ds = call_decisions(fu, sites_call(fu, ['is_monitor_update_in_progress']), 'bool')
		return {e for d in ds for e in d.true_edges}
	for fn in SELF_PAUSING:
		fu = F.func(fn)
		cons = {b for b, s in sites_construct(fu, 'ChannelMonitorUpdate', 'ChannelMonitorUpdate')}
		pause = set(sites_call(fu, ['FundedChannel::monitor_updating_paused']))
		rets = upd_returns(fu) & fu.reach(cons)
		out += P5_must_pass(F, '09.c', fu, cons, rets, pause, 'monitor_updating_paused() (or MonitorUpdateInProgress already known set) between building the update and returning it', through_edges=in_progress_edges(fu))
	# wrappers pause for the inner builders
	for wrapper, inner in ((FC + 'get_update_fulfill_htlc_and_commit', 'FundedChannel::get_update_fulfill_htlc'), (FC + 'send_htlc_and_commit', 'FundedChannel::build_commitment_no_status_check')):
		fu = F.func(wrapper)
		pause = set(sites_call(fu, ['FundedChannel::monitor_updating_paused']))
		inner_b = sites_call(fu, [inner])
		somes = upd_returns(fu) & fu.reach(inner_b)
		out += P5_must_pass(F, '09.c', fu, inner_b, somes, pause, 'monitor_updating_paused() in %s after %s' % (wrapper.rsplit('::', 1)[-1], inner.rsplit('::', 1)[-1]))
	# the builders that do not pause themselves are only called from the pausing wrappers
	out += P1_who_may_call(F, '09.c', [FC + 'get_update_fulfill_htlc'], [FC + 'get_update_fulfill_htlc_and_commit', FC + 'free_holding_cell_htlcs', FC + 'claim_htlc_while_disconnected_dropping_mon_update_legacy'], floor=3)
	# monitor_updating_paused really sets the flag
	fu = F.func(FC + 'monitor_updating_paused')
	st = set(sites_call(fu, ['set_monitor_update_in_progress']))
	out += P5_must_pass(F, '09.c', fu, [0], fu.return_blocks(), st, 'set_monitor_update_in_progress()')
	return out

def r09d(F):
	out = []
	REL = [FC + 'monitor_updating_restored', FC + 'channel_reestablish', FC + 'signer_maybe_unblocked']
	out += P1_who_may_call(F, '09.d', [FC + 'get_last_revoke_and_ack'], REL, floor=3)
	out += P1_who_may_call(F, '09.d', [FC + 'get_last_commitment_update_for_send'], REL, floor=3)
	fn = FC + 'channel_reestablish'
	out += guarded_by_call(F, '09.d', fn, {'calls': ['FundedChannel::get_last_revoke_and_ack']}, ['is_monitor_update_in_progress'], 'bool', False)
	out += guarded_by_call(F, '09.d', fn, {'calls': ['FundedChannel::get_last_commitment_update_for_send']}, ['is_monitor_update_in_progress'], 'bool', False)
	# signer-pending flags are set only inside the two generators / the resend stanzas directly after them
	out += P3_field_census(F, '09.d', 'ChannelContext.signer_pending_revoke_and_ack',
		[FC + 'get_last_revoke_and_ack', FC + 'signer_maybe_unblocked', FC + 'monitor_updating_restored', FC + 'channel_reestablish', CC + 'remove_uncommitted_htlcs_and_mark_paused'], floor=2)
	out += P3_field_census(F, '09.d', 'ChannelContext.signer_pending_commitment_update',
		[FC + 'get_last_commitment_update_for_send', FC + 'signer_maybe_unblocked', FC + 'monitor_updating_restored', FC + 'channel_reestablish', CC + 'remove_uncommitted_htlcs_and_mark_paused'], floor=2)
	return out

def r09e(F):
	out = []
	out += P1_who_may_call(F, '09.e', [FC + 'monitor_updating_restored'], [CM + 'try_resume_channel_post_monitor_update'], floor=1)
	out += P1_who_may_call(F, '09.e', [CM + 'try_resume_channel_post_monitor_update'],
		[CM + 'channel_monitor_updated', CM + 'handle_initial_monitor', CM + 'handle_new_monitor_update_with_status'], floor=3)
	# inside: blocked updates pending => no restore
	fn = CM + 'try_resume_channel_post_monitor_update'
	fu = F.func(fn)
	acts = set(sites_call(fu, ['FundedChannel::monitor_updating_restored']))
	gs = [g for g in guards_in(F, fn, False) if 'blocked_monitor_updates_pending' in g.text()]
	if not gs:
		out.append(Result('09.e', False, 'guard:blocked-pending', 'try_resume_channel_post_monitor_update no longer tests blocked_monitor_updates_pending()', where=F.where(fn)))
	for g in gs:
		nf = g.nf
		ne = (nf[1], nf[2]) in (('Ne', 0), ('Gt', 0))
		out += P4_guarded(F, '09.e', fu, acts, g.decisions, not ne, 'blocked_monitor_updates_pending() == 0')
	# channel_monitor_updated: resume only when nothing is in flight any more and the channel is waiting
	fn = CM + 'channel_monitor_updated'
	fu = F.func(fn)
	acts = set(sites_call(fu, ['ChannelManager::try_resume_channel_post_monitor_update']))
	gs = [g for g in guards_in(F, fn, False) if g.text().startswith('+remaining_in_flight') or 'remaining_in_flight' in g.text()]
	if not gs:
		out.append(Result('09.e', False, 'guard:remaining_in_flight', 'channel_monitor_updated no longer tests remaining_in_flight', where=F.where(fn)))
	for g in gs:
		ne = (g.nf[1], g.nf[2]) in (('Ne', 0), ('Gt', 0))
		out += P4_guarded(F, '09.e', fu, acts, g.decisions, not ne, 'remaining_in_flight == 0')
	out += guarded_by_call(F, '09.e', fn, acts, ['is_awaiting_monitor_update'], 'bool', True)
	# retain keeps exactly the updates newer than the highest applied one
	out += P7_guard(F, '09.e', fn, 'in-flight retain', r'update_id$', r'highest_applied_update_id', 'Gt', 0)
	# handle_initial_monitor: only on Completed
	out += guarded_by_call(F, '09.e', CM + 'handle_initial_monitor', {'calls': ['ChannelManager::try_resume_channel_post_monitor_update']}, ['ChannelManager::handle_monitor_update_res'], 'bool', True)
	# handle_new_monitor_update_with_status: only when the tuple's second component (all updates complete) is true
	fn = CM + 'handle_new_monitor_update_with_status'
	fu = F.func(fn)
	acts = set(sites_call(fu, ['ChannelManager::try_resume_channel_post_monitor_update']))
	cb = sites_call(fu, ['handle_new_monitor_update_locked_actions_handled_by_caller'])
	seeds = []
	for b in cb:
		d = fu.blocks[b]['t'][2]['dest']
		if len(d) == 1:
			seeds.append(((lambda dl: (lambda pl: pl[0] == dl and place_fields(pl) == ['1']))(d[0]), 'bool', False))
	ds, _ = decisions_on(fu, seeds)
	out += P4_guarded(F, '09.e', fu, acts, ds, True, 'all_updates_complete (second component of handle_new_monitor_update_locked_actions_handled_by_caller)')
	# ... and that component is update_completed && in_flight_updates.is_empty()
	fn = CM + 'handle_new_monitor_update_locked_actions_handled_by_caller'
	fu = F.func(fn)
	ex = Expr(fu)
	found = False
	for bi, si, c in ret_assignments(fu):
		if si == 'T':
			continue
		rv = fu.blocks[bi]['s'][si][2]
		if rv[0] == 'agg' and rv[1] == 'tuple' and len(rv[4]) == 2 and rv[4][1][0] in ('c', 'm'):
			l = rv[4][1][1][0]
			defs = fu.whole_defs(l)
			srcs = []
			for d in defs:
				e = ex.of_rvalue(d[3])
				srcs.append((d[0], e))
			nonfalse = [(b, e) for b, e in srcs if not (e[0] == 'const' and e[1] == 0)]
			if not nonfalse:
				continue
			found = True
			ok = all(e[0] == 'call' and (e[1] or '').endswith('is_empty') and 'in_flight' in expr_str(e) for b, e in nonfalse)
			out.append(Result('09.e', ok, ('ok:' if ok else 'shape:') + 'all-complete-value', 'all_updates_completed is %s (expected in_flight_updates.is_empty() under update_completed)' % [expr_str(e)[:80] for b, e in nonfalse], len(nonfalse), where=F.where(fn, fu.line_of(bi))))
			acts2 = {b for b, e in nonfalse}
			ds2 = call_decisions(fu, sites_call(fu, ['ChannelManager::handle_monitor_update_res']), 'bool')
			out += P4_guarded(F, '09.e', fu, acts2, ds2, True, 'update_completed (handle_monitor_update_res)')
	if not found:
		out.append(Result('09.e', False, 'anchor:all-complete-value', 'could not locate the (update_completed, all_updates_completed) return tuple', where=F.where(fn)))
	# handle_monitor_update_res: true only for Completed
	fu = F.func(CM + 'handle_monitor_update_res')
	vs = enum_variants(F, 'lightning::chain::ChannelMonitorUpdateStatus')
	sw = variant_switch_edges(fu, lambda pl: True, vs)
	ok = False
	ex = Expr(fu)
	true_blocks = set()
	for d in fu.defs.get(0, []):
		e = ex.of_rvalue(d[3])
		if e[0] == 'const' and e[1] == 1:
			true_blocks.add(d[0])
	for b, m, other in sw:
		if 'Completed' in m:
			allowed = fu.reach([m['Completed']])
			others = [t for v, t in m.items() if v != 'Completed']
			ok = bool(true_blocks) and true_blocks <= allowed and not (fu.reach(others) & true_blocks)
	out.append(Result('09.e', ok, ('ok:' if ok else 'shape:') + 'res-true-only-completed', 'handle_monitor_update_res returns true only in the Completed arm', len(sw), where=F.where(fu.name)))
	return out

def r09f(F):
	out = []
	out += P2_construct_census(F, '09.f', 'lightning::ln::msgs::MessageSendEvent', 'SendRevokeAndACK', [CM + 'handle_channel_resumption', CM + 'signer_unblocked'], floor=2)
	out += P2_construct_census(F, '09.f', 'lightning::ln::msgs::MessageSendEvent', 'UpdateHTLCs',
		[CM + 'handle_channel_resumption', CM + 'signer_unblocked', CM + 'funding_transaction_signed', CM + 'internal_tx_complete'], floor=3)
	out += P2_construct_census(F, '09.f', 'lightning::ln::msgs::MessageSendEvent', 'SendChannelReady', [CM + 'send_channel_ready'], floor=1)
	out += P2_construct_census(F, '09.f', 'lightning::ln::msgs::MessageSendEvent', 'SendFundingSigned', [CM + 'internal_funding_created', CM + 'signer_unblocked'], floor=2)
	out += P1_who_may_call(F, '09.f', [CM + 'handle_channel_resumption'], [CM + 'internal_channel_reestablish', CM + 'try_resume_channel_post_monitor_update'], floor=2)
	# internal_funding_created sends funding_signed only when the initial monitor persist completed
	return out

def r09g(F):
	out = []
	out += P1_who_may_call(F, '09.g', ['lightning::chain::Watch::update_channel'], [CM + 'handle_new_monitor_update_locked_actions_handled_by_caller'], floor=1,
		note='monitor updates reach the Watch only through the routine that first records them as in-flight')
	fn = CM + 'handle_new_monitor_update_locked_actions_handled_by_caller'
	fu = F.func(fn)
	# the update is pushed in flight (in the unwrap_or_else closure) before the Watch sees it
	pushers = [n for n in F.family(fn) if F.func(n).call_blocks(lambda p: p == 'alloc::vec::Vec::push')]
	ok = any(n != F.fn(fn) for n in pushers)
	uoe = fu.call_blocks(lambda p: p.endswith('Option::unwrap_or_else'))
	upd = sites_call(fu, ['chain::Watch::update_channel'])
	out.append(Result('09.g', ok and bool(uoe), ('ok:' if ok and uoe else 'order:') + 'push-in-flight', 'the new update is pushed to in_flight_monitor_updates (unless it is a replay of an identical one) in %s' % [x.rsplit('::', 1)[-1] for x in pushers], len(pushers), where=F.where(fn)))
	out += P5_must_pass(F, '09.g', fu, [0], upd, set(uoe), 'in-flight registration before Watch::update_channel')
	# removal from the in-flight vector only when the update completed
	rm = set(fu.call_blocks(lambda p: p == 'alloc::vec::Vec::remove'))
	out += guarded_by_call(F, '09.g', fn, rm, ['ChannelManager::handle_monitor_update_res'], 'bool', True)
	# Watch is only invoked once background events ran; otherwise the update is queued as a background event
	loads = fu.call_blocks(lambda p: p.endswith('AtomicBool::load') or p.endswith('Atomic::load'))
	ds = call_decisions(fu, loads, 'bool')
	out += P4_guarded(F, '09.g', fu, set(upd), ds, True, 'background_events_processed_since_startup')
	return out

def r09h(F):
	out = []
	out += P2_construct_census(F, '09.h', 'lightning::chain::channelmonitor::MonitorEvent', 'Completed', [CHM + 'channel_monitor_updated', CHM + 'update_channel_internal'], floor=2)
	fn = CHM + 'channel_monitor_updated'
	fu = F.func(fn)
	acts = {b for b, s in sites_construct(fu, 'MonitorEvent', 'Completed')}
	out += guarded_by_call(F, '09.h', fn, acts, ['has_pending_updates'], 'bool', False)
	# update_channel_internal: update_monitor is applied before the persister is told
	fn = CHM + 'update_channel_internal'
	fu = F.func(fn)
	um = set(sites_call(fu, ['ChannelMonitor::update_monitor']))
	pe = sites_call(fu, ['chainmonitor::Persist::update_persisted_channel'])
	out += P5_must_pass(F, '09.h', fu, [0], pe, um, 'ChannelMonitor::update_monitor before Persist::update_persisted_channel')
	# InProgress => the update id is recorded as pending
	vs = enum_variants(F, 'lightning::chain::ChannelMonitorUpdateStatus')
	push = set(fu.call_blocks(lambda p: p == 'alloc::vec::Vec::push'))
	ok = False
	for b, m, other in variant_switch_edges(fu, lambda pl: True, vs):
		if 'InProgress' in m and 'Completed' in m:
			r = fu.reach([m['InProgress']], removed_blocks=[m['Completed']])
			if r & push:
				ok = True
	out.append(Result('09.h', ok, ('ok:' if ok else 'shape:') + 'inprogress-recorded', 'the InProgress arm records the update id in pending_monitor_updates', len(push), where=F.where(fn)))
	return out

def r09i(F):
	out = []
	out += P1_who_may_call(F, '09.i', [CM + 'handle_monitor_update_completion_actions'],
		[CM + 'post_monitor_update_unlock', CM + 'handle_post_monitor_update_chan_resume', CM + 'channel_monitor_updated', CM + 'apply_post_close_monitor_update',
		 CM + 'handle_post_event_actions', CM + 'claim_mpp_part', CM + 'handle_post_close_monitor_update'], floor=5)
	return out

def r09j(F):
	"""pausing accumulates what is held: nothing already held is overwritten by a later pause"""
	out = []
	fn = FC + 'monitor_updating_paused'
	fu = F.func(fn)
	ex = Expr(fu)
	for fld in ('monitor_pending_forwards', 'monitor_pending_failures', 'monitor_pending_finalized_fulfills'):
		f = F.field('ChannelContext.' + fld)
		ops = set()
		for fn2, k, line in F.fieldacc[f]:
			if root_fn(fn2) != F.fn(fn):
				continue
			kk, _, callee = k.partition(':')
			if kk in ('w', 'wi'):
				ops.add('assign')
			elif kk in ('bm', 'bmi'):
				ops.add(callee.rsplit('::', 1)[-1] if callee else 'borrow')
		ok = ops == {'extend'} or ops == {'append'} or ops == {'extend', 'append'}
		out.append(Result('09.j', ok, ('ok:' if ok else 'shape:') + 'accumulate:' + fld, 'monitor_updating_paused updates %s via %s (expected extend/append only: a second pause must not drop what an earlier one holds)' % (fld, sorted(ops)), max(1, len(ops)), where=F.where(fn)))
	for fld in ('monitor_pending_revoke_and_ack', 'monitor_pending_commitment_signed', 'monitor_pending_channel_ready'):
		ws = sites_field_write(fu, fld)
		if not ws:
			out.append(Result('09.j', False, 'anchor:' + fld, 'monitor_updating_paused does not write %s' % fld, where=F.where(fn)))
		for b, si in ws:
			st = fu.blocks[b]['s'][si]
			e = ex.of_rvalue(st[2])
			ok = e[0] == 'bin' and e[1] == 'BitOr' and fld in leaf_key(e[2]) + leaf_key(e[3])
			out.append(Result('09.j', ok, ('ok:' if ok else 'shape:') + 'accumulate:' + fld, '%s = %s (expected old | new)' % (fld, expr_str(e)[:80]), 1, where=F.where(fn, st[0])))
	# the renumbered preimage update takes the id of the FIRST blocked update
	fn = FC + 'get_update_fulfill_htlc_and_commit'
	fu = F.func(fn)
	ex = Expr(fu)
	found = False
	# the id given to the preimage update when held updates exist: the value stored into `<update local>.update_id` (not through the held list)
	srcs = []
	for bi, si, st in fu.stmts():
		fl = place_fields(st[1])
		if fl == ['update_id'] and st[2][0] == 'use' and st[2][1][0] in ('c', 'm') and len(st[2][1][1]) == 1:
			srcs.append(st[2][1][1][0])
	for l in srcs:
		if True:
			found = True
			e = ex.of_local(l)
			txt = expr_str(e)
			first = False
			def walk(x):
				nonlocal first
				if x[0] == 'call':
					tail = (x[1] or '').rsplit('::', 1)[-1]
					if tail in ('get', 'first') and 'blocked_monitor_updates' in expr_str(x):
						if tail == 'first' or (len(x[2]) > 1 and x[2][1][0] == 'const' and x[2][1][1] == 0):
							first = True
					for a in x[2]:
						walk(a)
				elif x[0] in ('ref', 'deref', 'cast', 'downcast', 'disc', 'un'):
					walk(x[1] if x[0] != 'un' else x[2])
				elif x[0] == 'field':
					walk(x[1])
			walk(e)
			out.append(Result('09.j', first, ('ok:' if first else 'shape:') + 'renumber-first', 'a preimage update flying ahead of blocked updates takes id %s (expected the id of blocked_monitor_updates[0])' % txt[:120], 1, where=F.where(fn)))
	if not found:
		out.append(Result('09.j', False, 'anchor:renumber-site', 'get_update_fulfill_htlc_and_commit: no store `update.update_id = <local>` (renumbering of the preimage update) found'))
	# ChainMonitor::watch_channel_internal: an InProgress initial persist is recorded as pending
	fn = CHM + 'watch_channel_internal'
	fu = F.func(fn)
	ex = Expr(fu)
	vs = enum_variants(F, 'lightning::chain::ChannelMonitorUpdateStatus')
	push = [b for b in fu.call_blocks(lambda p: p == 'alloc::vec::Vec::push')]
	ok = False
	for sb, m, other in variant_switch_edges(fu, lambda pl: True, vs):
		if 'InProgress' in m and 'Completed' in m:
			r = fu.reach([m['InProgress']], removed_blocks=[m['Completed']])
			for b in push:
				if b in r and b not in fu.reach([m['Completed']], removed_blocks=[m['InProgress']]):
					a = expr_str(ex.of_operand(fu.blocks[b]['t'][2]['args'][1]))
					if 'get_latest_update_id' in a or 'update_id' in a:
						ok = True
	out.append(Result('09.j', ok, ('ok:' if ok else 'shape:') + 'initial-inprogress-recorded', 'watch_channel_internal records the initial update id as pending in the InProgress arm', len(push), where=F.where(fn)))
	okc = False
	for b, si in sites_construct(fu, 'MonitorHolder', 'MonitorHolder'):
		rv = fu.blocks[b]['s'][si][2]
		e = ex.of_operand(rv[4][rv[5].index('pending_monitor_updates')])
		if 'pending_monitor_updates' in expr_str(e) and 'Vec::new' not in expr_str(e) and 'new()' != expr_str(e):
			okc = True
		txt = expr_str(e)
	out.append(Result('09.j', okc, ('ok:' if okc else 'shape:') + 'holder-pending-init', 'MonitorHolder.pending_monitor_updates is initialised from the vector filled above (%s)' % (txt[:60] if 'txt' in dir() else '-'), 1, where=F.where(fn)))
	return out

SELF_BLOCKING = {
	CC + 'force_shutdown': 'closes the channel: its update is numbered after the last unblocked id and all held updates are dropped with the channel',
	FC + 'build_commitment_no_status_check': 'returns the update to its callers, each of which either pushes it through push_ret_blockable_mon_update or merges it into an update that is',
	FC + 'get_update_fulfill_htlc': 'preimage updates deliberately jump the queue; get_update_fulfill_htlc_and_commit renumbers the held updates behind it',
	FC + 'revoke_and_ack': 'routes its update itself: held (pushed to blocked_monitor_updates) when blocked updates exist or the RAA blocker says so',
}

def r09k(F):
	"""held monitor updates keep the id order: every new update of a live channel queues behind held ones, and all held ones are renumbered together"""
	out = []
	ctors = sorted({root_fn(fn) for (a, v), lst in F.constructs.items() if a == 'lightning::chain::channelmonitor::ChannelMonitorUpdate' for fn, line in lst if root_fn(fn).startswith(CH)})
	if len(ctors) < 8:
		out.append(Result('09.k', False, 'floor:update-constructors', 'only %d ChannelMonitorUpdate constructors found in ln::channel' % len(ctors), len(ctors)))
	allowed_self = {F.fn(k) for k in SELF_BLOCKING if F.has_fn(k)}
	push = F.fn(FC + 'push_ret_blockable_mon_update')
	for c in ctors:
		if c.endswith('::read') or c.endswith('::clone'):
			continue
		fu = F.func(c)
		pb = set(sites_call(fu, [push]))
		cb = {b for b, s in sites_construct(fu, 'ChannelMonitorUpdate', 'ChannelMonitorUpdate')}
		if c in allowed_self:
			out.append(Result('09.k', True, 'ok:self-blocking@' + c.rsplit('::', 1)[-1], '%s builds an update without push_ret_blockable_mon_update (reviewed: %s)' % (c.rsplit('::', 1)[-1], [v for k, v in SELF_BLOCKING.items() if F.has_fn(k) and F.fn(k) == c][0][:120]), len(cb)))
			continue
		if not pb:
			out.append(Result('09.k', False, 'unqueued:' + c.rsplit('::', 1)[-1], '%s builds a ChannelMonitorUpdate that is not passed through push_ret_blockable_mon_update: it would reach the Watch ahead of held updates with lower ids' % c, len(cb), where=F.where(c, fu.line_of(sorted(cb)[0]))))
			continue
		# the freshly built update never flows into the return value directly: only what push_ret_blockable_mon_update hands back does
		taint = set()
		for b, si in sites_construct(fu, 'ChannelMonitorUpdate', 'ChannelMonitorUpdate'):
			taint.add(fu.blocks[b]['s'][si][1][0])
		leak = None
		for _ in range(6):
			for bi, si, st in fu.stmts():
				rv = st[2]
				ops = []
				if rv[0] == 'use':
					ops = [rv[1]]
				elif rv[0] == 'agg':
					ops = rv[4]
				if any(o[0] in ('c', 'm') and o[1][0] in taint and len(o[1]) == 1 for o in ops):
					d = st[1][0]
					if d == 0:
						leak = st[0]
					elif len(st[1]) == 1:
						taint.add(d)
		out.append(Result('09.k', leak is None, ('ok:' if leak is None else 'unqueued:') + 'queued@' + c.rsplit('::', 1)[-1], '%s: the update it builds reaches the caller only through push_ret_blockable_mon_update' % c.rsplit('::', 1)[-1] if leak is None else '%s returns the freshly built update directly (line %s), bypassing the queue of held updates' % (c, leak), len(cb) + len(pb), where=F.where(c, leak)))
	# renumbering: when a preimage update jumps the queue every held update is bumped - the store sits in a loop over iter_mut() of the held list
	fn = FC + 'get_update_fulfill_htlc_and_commit'
	fu = F.func(fn)
	ex = Expr(fu)
	bumps = []
	for bi, si, s in fu.stmts():
		fl = place_fields(s[1])
		if fl and fl[-1] == 'update_id' and len(fl) >= 2 and fl[-2] == 'update':
			e = ex.of_rvalue(s[2])   # dev profile: `t = a +? 1; assert; x = t.0` folds to the same Add tree
			if e[0] == 'bin' and e[1].startswith('Add') and linear(e)[1] == 1:
				bumps.append((bi, ex.of_place(s[1])))
	okb = False
	for bi, base in bumps:
		lv = expr_leaves(base)
		okb = okb or ('blocked_monitor_updates' in lv['fields'] and any(c.endswith('iter_mut') for c in lv['calls']) and any(c.endswith('::next') for c in lv['calls']))
	out.append(Result('09.k', okb, ('ok:' if okb else 'shape:') + 'renumber-all-held', 'the `update_id += 1` renumbering applies to every element of blocked_monitor_updates (loop over iter_mut()): %s' % [expr_str(b)[:90] for _, b in bumps], len(bumps), where=F.where(fn)))
	return out

def _bool_phis(fu):
	"""boolean locals assigned constant true on some blocks and constant false on others and then switched on:
	[(local, true_blocks, false_blocks, [(switch_block, false_target, true_target)])]"""
	out = []
	for l, defs in fu.defs.items():
		tb, fb, other = set(), set(), 0
		for bi, si, pl, rv in defs:
			if len(pl) != 1:
				other += 1
			elif rv[0] == 'use' and rv[1][0] == 'k' and rv[1][1].get('ty') == 'bool':
				(tb if rv[1][1].get('v') else fb).add(bi)
			else:
				other += 1
		if tb and fb and not other:
			sw = []
			for bi, b in enumerate(fu.blocks):
				t = b['t']
				if t[1] != 'switch' or t[2][0] not in ('c', 'm') or len(t[2][1]) != 1:
					continue
				sl = t[2][1][0]
				sd = fu.defs.get(sl, [])
				if sl != l and len(sd) == 1 and sd[0][3][0] == 'use' and sd[0][3][1][0] in ('c', 'm') and sd[0][3][1][1] == [l]:
					sl = l
				if sl == l:
					f_t = [x for v, x in t[3] if v == 0]
					sw.append((bi, f_t[0] if f_t else None, t[4]))
			if sw:
				out.append((l, tb, fb, sw))
	return out

def r09l(F):
	"""what is withheld because a monitor update is in flight is remembered, and released only when ALL in-flight updates completed"""
	out = []
	# (i) check_get_channel_ready: once the channel state has moved to "our channel_ready is due", every way out of the function goes through the
	#     monitor-update-in-progress decision, whose true edge records monitor_pending_channel_ready before returning
	fn = FC + 'check_get_channel_ready'
	fu = F.func(fn)
	mon = sites_call(fu, [CH + 'ChannelState::is_monitor_update_in_progress'])
	trans = set(sites_call(fu, [CH + 'ChannelState::set_our_channel_ready'])) | {b for b, s in sites_field_write(fu, 'channel_state')}
	trans &= fu.reach([0])
	exits = [bi for bi, b in enumerate(fu.blocks) if b['t'][1] == 'ret']
	if len(mon) != 1 or not trans or not exits:
		out.append(Result('09.l', False, 'anchor:channel-ready-hold', 'check_get_channel_ready: expected one is_monitor_update_in_progress() decision and the state transition (found %d / %d)' % (len(mon), len(trans)), where=F.where(fn)))
	else:
		# the transition arms set a boolean (`need_commitment_update = true`); the switch on it cannot take its false edge after them
		infeasible = set()
		for l, tb, fb, sw in _bool_phis(fu):
			# correlate only when every transition block flows into a true-assignment and into no false-assignment without passing a true one
			if all((x in tb or any(t in fu.reach([x]) for t in tb)) and not any(f in fu.reach([x], removed_blocks=tb - {x}) - {x} for f in fb) for x in trans):
				for sb, ft, tt in sw:
					if ft is not None:
						infeasible.add((sb, ft))
		ds = call_decisions(fu, mon, 'bool')
		dblocks = {d.b for d in ds}
		esc = fu.path(sorted(trans), exits, removed_edges=infeasible, removed_blocks=dblocks) if dblocks else [0]
		ok = esc is None
		out.append(Result('09.l', ok, ('ok:' if ok else 'forgotten:') + 'channel-ready-hold-decided', 'check_get_channel_ready: after the state moves to "channel_ready due", every exit is behind the monitor-update-in-progress decision%s' % ('' if ok else ' - escaping path through lines %s: a channel_ready withheld for another reason while an update is in flight is never recorded as pending and is not released when the update completes' % fu.path_lines(esc)[:8]), len(trans) + len(exits), where=F.where(fn, fu.line_of(mon[0]))))
		w = {b for b, s in sites_field_write(fu, 'monitor_pending_channel_ready')}
		for d in ds:
			out += P5_must_pass(F, '09.l', fu, [e[1] for e in d.true_edges], exits, w, 'monitor_pending_channel_ready recorded on the in-progress arm', key='channel-ready-hold-recorded')
	# (ii) the (this update completed, all in-flight updates completed) pair: completion actions / channel resumption are released on the second
	#      component only, and that component is `completed && in_flight.is_empty()`
	fn = CM + 'handle_new_monitor_update_locked_actions_handled_by_caller'
	fu = F.func(fn)
	n_ret = 0
	bad = []
	for bi, si, pl, rv in fu.defs.get(0, []):
		if len(pl) != 1 or bi not in fu.reach([0]):
			continue
		if not (rv[0] == 'agg' and rv[1] == 'tuple' and len(rv[4]) == 2):
			bad.append('return value at line %s is not a pair' % fu.line_of(bi))
			continue
		n_ret += 1
		op = rv[4][1]
		if op[0] == 'k':
			if op[1].get('v'):
				bad.append('all-complete is constant true at line %s' % fu.line_of(bi))
			continue
		for dbi, dsi, dpl, drv in fu.defs.get(op[1][0], []):
			if drv[0] == 'use' and drv[1][0] == 'k' and not drv[1][1].get('v'):
				continue
			if drv[0] == 'call' and norm(drv[1].get('f') or drv[1].get('t') or '').endswith('Vec::is_empty'):
				conds = [k for sb, k, ln in control_conds(fu, dbi)]
				if not any('handle_monitor_update_res' in k for k in conds):
					bad.append('is_empty() at line %s is not conditional on the update having completed' % fu.line_of(dbi))
				continue
			bad.append('all-complete assigned from something other than false / in_flight.is_empty() at line %s' % fu.line_of(dbi))
	ok = not bad and n_ret >= 2
	out.append(Result('09.l', ok, ('ok:' if ok else 'early:') + 'all-complete-definition', 'the second component returned by handle_new_monitor_update_locked_actions_handled_by_caller is false or (this update completed && no update left in flight)%s' % ('' if ok else ': %s' % bad), n_ret, where=F.where(fn)))
	short = 'handle_new_monitor_update_locked_actions_handled_by_caller'
	RELEASE = ('ChannelManager::try_resume_channel_post_monitor_update', 'ChannelManager::handle_monitor_update_completion_actions', 'FundedChannel::monitor_updating_restored', 'BTreeMap::remove', 'ChannelManager::handle_post_monitor_update_chan_resume')
	F.calls
	callers = sorted({rec[0] for rec in F.callers_of.get(F.fn(fn), [])})
	n_rel = 0
	for cn in callers:
		cu = F.func(cn)
		cs = sites_call(cu, [fn])
		after = cu.reach(cs) - set(cs)
		for b, ci in cu.calls():
			f = norm(ci.get('f') or ci.get('t') or '')
			if b in after and any(f.endswith(r) for r in RELEASE):
				conds = [(k, ln) for sb, k, ln in control_conds(cu, b) if short in k]
				if not conds and not any(b in cu.reach([x]) for x in cs):
					continue
				# a release that is not conditional on the call's result at all is not this rule's business (e.g. unrelated map removals)
				if not conds:
					continue
				n_rel += 1
				on0 = [k for k, ln in conds if k.rstrip(')').endswith('.0') or k.endswith(').0')]
				on1 = [k for k, ln in conds if k.endswith(').1')]
				ok = bool(on1)
				out.append(Result('09.l', ok, ('ok:' if ok else 'early:') + 'release-on-all-complete@%s:%s' % (cn.rsplit('::', 1)[-1], f.rsplit('::', 1)[-1]), '%s: %s after a new monitor update is conditional on ALL in-flight updates being complete (second component)%s' % (cn.rsplit('::', 1)[-1], f.rsplit('::', 1)[-1], '' if ok else ' - it is conditional on the first component (this update completed) only: during start-up replay an earlier update can complete while a later one is still in flight, and the later one\'s completion actions would run'), 1, where=F.where(cn, cu.line_of(b))))
	if n_rel < 2:
		out.append(Result('09.l', False, 'floor:release-sites', 'only %d release sites conditional on the result of %s (expected >= 2)' % (n_rel, short), n_rel, where=F.where(fn)))
	return out

def r09m(F):
	"""restart: in-flight updates that did not reach the monitor are replayed; the channel counts as fully persisted only when ALL of them did
	(same structural rule as 10.c - releasing held messages / completion actions after a partial replay is a C09 violation too)"""
	import C10
	out = []
	for r in C10.r10c(F):
		r.rule = '09.m'
		out.append(r)
	return out

def r09n(F):
	"""after a channel is closed its further monitor updates are numbered from closed_channel_monitor_update_ids: the entry made when a
	funded channel closes is the id of the last update the channel GENERATED (ChannelForceClosed included, held updates included) - seeded
	with the last *released* id, the next post-close update re-uses an id the Watch has already seen"""
	out = []
	n = 0
	for name in F.family('lightning::ln::channelmanager::ChannelManager::locked_handle_funded_close_internal'):
		fu = F.func(name)
		ex = Expr(fu)
		for b, ci in fu.calls():
			f = norm(ci.get('f') or '')
			if (f.endswith('::insert') or f.endswith('or_insert')) and ci['args'] and 'closed_channel_monitor_update_ids' in expr_str(ex.of_operand(ci['args'][0])):
				n += 1
				v = expr_str(ex.of_operand(ci['args'][-1]))
				ok = bool(re.search(r'(^|[^a-z_])get_latest_monitor_update_id\(', v)) and 'unblocked' not in v
				out.append(Result('09.n', ok, ('ok:' if ok else 'id:') + 'closed-channel-id-seed', 'locked_handle_funded_close_internal records %s as the closed channel\'s last update id (expected get_latest_monitor_update_id: the last id generated, not the last one released)' % v[:90], 1, where=None if ok else F.where(name, fu.line_of(b))))
	if n == 0:
		out.append(Result('09.n', False, 'anchor:closed-channel-id-seed', 'locked_handle_funded_close_internal no longer inserts into closed_channel_monitor_update_ids'))
	return out

RULES = [
	('09.m', 'restart: every in-flight update missing from the monitor is replayed; all-completed means all', r09m),
	('09.a', 'monitor update ids advance by +1 at frozen sites; blocked updates form a FIFO', r09a),
	('09.b', 'every ChannelMonitorUpdate is built with the channel\'s current update id', r09b),
	('09.c', 'builders of a new update pause the channel (MonitorUpdateInProgress) on every path returning it', r09c),
	('09.d', 'held revoke_and_ack / commitment update regenerated only on restore / reestablish (no update in progress) / signer unblock', r09d),
	('09.e', 'monitor_updating_restored only when all in-flight updates completed and no blocked update is pending', r09e),
	('09.f', 'state-revealing message events are produced only by handle_channel_resumption and the frozen signer/open sites', r09f),
	('09.g', 'Watch::update_channel only after in-flight registration; removed from in-flight only on Completed', r09g),
	('09.h', 'ChainMonitor: Completed event only when nothing is pending; update applied before persisting; InProgress recorded', r09h),
	('09.i', 'completion actions run only from the frozen completion sites', r09i),
	('09.k', 'every new update of a live channel queues behind held updates; held updates are renumbered together', r09k),
	('09.l', 'a withheld channel_ready is recorded as pending; completion actions are released only when all in-flight updates completed', r09l),
	('09.j', 'held state accumulates across pauses; renumbering uses the first blocked id; an InProgress initial persist is tracked', r09j),
	('09.p', 'same-name field transfer: structs carrying this property\'s quantities are filled from the same-named field or a reviewed alias (rules/provenance.py)', lambda F: provenance.for_property(F, 'C09', '09.p')),
	('09.n', 'post-close update ids continue from the last id the channel generated', r09n),
	('09.y', 'no reviewed function gained a swallowed error (the Result of a fallible in-crate call dropped; rules/provenance.py)', lambda F: provenance.dr_for_property(F, 'C09', '09.y')),
]
RULES.append(('09.u', 'obligation-carrying values returned by workspace calls (to-fail HTLC lists, monitor updates, events, peer messages, claim packages) are never dropped on a path that does not examine them (rules/obligations.py)', lambda F: obligations.for_property(F, 'C09', '09.u')))
RULES.append(('09.t', 'identity comparisons: every reviewed (function, identity type) == / != comparison (HTLCSource, Txid, OutPoint, ChannelId, PaymentHash, PublicKey, ...) is still made - a function does not silently change what it matches by (rules/provenance.py)', lambda F: provenance.ids_for_property(F, 'C09', '09.t')))
RULES.append(('09.R', 'state resets: every reviewed constant write to persistent state (flag = true / false, counter = 0, pending slot = None) of a function is still made (rules/provenance.py)', lambda F: provenance.flags_for_property(F, 'C09', '09.R')))
RULES.append(('09.M', 'collection mutations: every reviewed (function, stored collection, mutator class: add / remove / filter / empty / swap / order) triple is still present - an entry that is no longer removed, inserted or drained on one path (rules/mutations.py)', lambda F: mutations.for_property(F, 'C09', '09.M')))
RULES.append(('09.G', 'guard census: no reviewed call of a workspace function and no reviewed mutation of a stored collection gained a controlling branch condition (an added `&& cond`, early return / continue, more specific match arm in front of an act); counts per call site, name free (rules/guards.py)', lambda F: guards.for_property(F, 'C09', '09.G')))
RULES.append(('09.W', 'field assignments: every reviewed (function, Type.field) direct assignment is still made - state that a path no longer updates, or updates only conditionally (get_or_insert for an overwrite); generalises NN.R (rules/writes.py)', lambda F: writes.for_property(F, 'C09', '09.W')))

def r09L(F):
	"""the per-monitor pending_monitor_updates lock is held from ChannelMonitor::update_monitor through the persister call to the bookkeeping of its
	result (MonitorHolder docs): a completion reported by another thread while the persister call is still running must wait, otherwise it finds
	the update id not yet recorded, and the id pushed afterwards stays pending forever - no MonitorEvent::Completed is ever produced for that
	channel again and every held message stays held (lock-scope rule: acquisition dominates the act and no release of that guard lies between)"""
	fn = 'lightning::chain::chainmonitor::ChainMonitor::update_channel_internal'
	fu = F.func(fn)
	persist = set(fu.call_blocks(lambda p: p.endswith('Persist::update_persisted_channel')))
	upd = set(fu.call_blocks(lambda p: p.endswith('ChannelMonitor::update_monitor') or p.endswith('::update_monitor')))
	ex = Expr(fu)
	push = set()
	for b, ci in fu.calls():
		if norm(ci.get('f') or '').endswith('Vec::push') and ci['args']:
			import mutations
			rf = mutations.root_field(ex.of_operand(ci['args'][0]), ex)
			if rf and rf.endswith('.pending_monitor_updates'):
				push.add(b)
	out = []
	out += P_held_across(F, '09.L', fu, 'pending_monitor_updates', persist, 'the persister call (update_persisted_channel)', 'persist-under-pending-lock')
	out += P_held_across(F, '09.L', fu, 'pending_monitor_updates', upd, 'ChannelMonitor::update_monitor', 'update-under-pending-lock')
	out += P_held_across(F, '09.L', fu, 'pending_monitor_updates', push, 'recording the in-progress update id', 'record-under-pending-lock')
	# one critical section: the acquisition that covers the persister call is the one whose guard receives the push
	locks = guards_of_lock(fu, 'pending_monitor_updates')
	n = len([1 for L, G in locks if any(fu.dominates(L, p) for p in persist)])
	ok = n == 1 and len(locks) == 1
	out.append(Result('09.L', ok, ('ok:' if ok else 'split:') + 'one-critical-section', 'update_channel_internal takes the pending_monitor_updates lock once (%d acquisition(s)): update, persist and bookkeeping form one critical section' % len(locks), len(locks), where=F.where(fn)))
	return out

RULES.append(('09.L', 'lock scope: the pending_monitor_updates lock is held from update_monitor through the persister call to the recording of its result (acquisition dominates, no release in between, one critical section)', r09L))
RULES.append(('09.X', 'error propagation: once a branch has found a Result of the function\'s own error type to be Err, no path returns Ok(..) or an unrelated value - a failed monitor write is not reported as Completed (value-refined walk, rules/errprop.py)', lambda F: errprop.rule(F, '09.X', r'util/persist\.rs$|chain/chainmonitor\.rs$', 3, exceptions={'list_paginated_with_values': 'a key removed between listing and reading is not part of the page (NotFound only; every other error is returned)', 'list': 'a directory entry that vanished between read_dir and the check is skipped / included by design', 'list_paginated_impl': 'same tolerance as list for entries deleted during the scan'})))
RULES.append(('09.N', 'arithmetic census: per reviewed function the set of operation kinds (group: add/sub, mul, div, rem, shift, bit, min, max, div_ceil ...; flavour: plain / checked / saturating / wrapping) keeps its kinds: no reviewed function lost or gained a kind of arithmetic altogether - a rounding direction (`/` for div_ceil), saturating for checked, min for max (rules/arith.py; counts and value arithmetic itself are not judged)', lambda F: arith.for_property(F, 'C09', '09.N')))
RULES.append(('09.K', 'constant census of linear forms: every comparison (normalised to sum >= K over name-free atoms, a comparison and its negation being one form) and every maximal arithmetic expression of a reviewed function keeps its coefficients and its constant - a dropped or added `+ 1` / `- 1`, `<` for `<=` inside a computed bound, a scale factor applied twice or not at all, swapped operands of a comparison (rules/linforms.py; shapes that appear or disappear are not judged, the guard / arithmetic censuses judge those)', lambda F: linforms.for_property(F, 'C09', '09.K')))
