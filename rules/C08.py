"""C08 - HTLC deadlines: constants, the shape of every deadline guard, and the relations between sites."""
from engine import *
import linforms
import guards
import provenance

MONP = 'lightning::chain::channelmonitor::'
CMP = 'lightning::ln::channelmanager::'
OP = 'lightning::ln::onion_payment::'
FC = 'lightning::ln::channel::FundedChannel::'

EXPLANATION = ('Every block-height deadline comparison named by the property is rebuilt from MIR into the linear normal form '
	'`expiry - height <op> K` with K folded from the evaluated named constants, and checked against the value the property '
	'demands (operator, constant, and which outcome the true edge leads to). Relations between the constants are re-derived from '
	'their values. Algebraically equivalent rewrites pass; a </<= slip, a wrong constant, a dropped guard or an inverted branch '
	'does not. Also: every Ok exit of do_best_block_updated returns the HTLCs just dropped from the holding cell. Decides the shape of the guards for all integers at once; not whether the timing race is won.')
ASSUMPTIONS = ['heights do not overflow u32', 'block confirmation times (the actual race) are out of scope']

def consts(F):
	g = lambda n: F.const(n)
	return {
		'MBC': g(MONP + 'MAX_BLOCKS_FOR_CONF'), 'CCB': g(MONP + 'CLTV_CLAIM_BUFFER'), 'LGP': g(MONP + 'LATENCY_GRACE_PERIOD_BLOCKS'),
		'HFB': g(MONP + 'HTLC_FAIL_BACK_BUFFER'), 'ARD': g(MONP + 'ANTI_REORG_DELAY'), 'MIN_CLTV': g(CMP + 'MIN_CLTV_EXPIRY_DELTA'),
		'MIN_FINAL': g(CMP + 'MIN_FINAL_CLTV_EXPIRY_DELTA'), 'FAR': g(CMP + 'CLTV_FAR_FAR_AWAY'),
	}

def r08a(F):
	c = consts(F)
	out = []
	def rel(desc, ok):
		out.append(Result('08.a', bool(ok), ('ok:' if ok else 'constrel:') + desc, '%s with %s' % (desc, c), 1))
	rel('HTLC_FAIL_BACK_BUFFER == CLTV_CLAIM_BUFFER + LATENCY_GRACE_PERIOD_BLOCKS', c['HFB'] == c['CCB'] + c['LGP'])
	rel('CLTV_CLAIM_BUFFER == 2*MAX_BLOCKS_FOR_CONF', c['CCB'] == 2 * c['MBC'])
	rel('MIN_CLTV_EXPIRY_DELTA >= 2*LGP + 2*MAX_BLOCKS_FOR_CONF + ANTI_REORG_DELAY', c['MIN_CLTV'] >= 2 * c['LGP'] + 2 * c['MBC'] + c['ARD'])
	rel('MIN_FINAL_CLTV_EXPIRY_DELTA >= HTLC_FAIL_BACK_BUFFER + 3', c['MIN_FINAL'] >= c['HFB'] + 3)
	rel('LATENCY_GRACE_PERIOD_BLOCKS >= 1 and ANTI_REORG_DELAY >= 1', c['LGP'] >= 1 and c['ARD'] >= 1)
	rel('CLTV_FAR_FAR_AWAY > MIN_CLTV_EXPIRY_DELTA + HTLC_FAIL_BACK_BUFFER', c['FAR'] > c['MIN_CLTV'] + c['HFB'])
	return out

def r08b(F):
	c = consts(F)
	fn = OP + 'create_recv_pending_htlc_info'
	# S1: final-hop HTLC refused iff expiry - height <= HFB + 1
	out = P7_guard(F, '08.b', fn, 'final-hop too-soon', r'^cltv_expiry$', r'^current_height$', 'Le', c['HFB'] + 1,
		true_reaches=constructs_pred('LocalHTLCFailureReason', 'PaymentClaimBuffer'))
	# the height argument is the chain tip height at every caller that supplies one
	return out

def r08c(F):
	c = consts(F)
	fn = OP + 'check_incoming_htlc_cltv'
	R = 'lightning::ln::onion_utils::LocalHTLCFailureReason'
	out = []
	out += P7_guard(F, '08.c', fn, 'forward too-soon', r'^cltv_expiry$', r'^cur_height$', 'Le', c['HFB'], true_reaches=constructs_pred('LocalHTLCFailureReason', 'CLTVExpiryTooSoon'))
	out += P7_guard(F, '08.c', fn, 'forward too-far', r'^cltv_expiry$', r'^cur_height$', 'Gt', c['FAR'], true_reaches=constructs_pred('LocalHTLCFailureReason', 'CLTVExpiryTooFar'), count=1)
	out += P7_guard(F, '08.c', fn, 'outgoing too-soon', r'^outgoing_cltv_value$', r'^cur_height$', 'Le', c['LGP'], true_reaches=constructs_pred('LocalHTLCFailureReason', 'OutgoingCLTVTooSoon'))
	out += P7_guard(F, '08.c', fn, 'cltv delta', r'^cltv_expiry$', r'^outgoing_cltv_value$', 'Lt', 0, extra=1, true_reaches=constructs_pred('LocalHTLCFailureReason', 'IncorrectCLTVExpiry'))
	# filter: P7_guard with the same leaves returns both the too-soon and too-far comparisons; keep per-label verdicts consistent
	out = _pick(out)
	# S9: the height handed in is tip + 1 at the manager call site
	cm = F.func(CMP + 'ChannelManager::can_forward_htlc_should_intercept')
	ex = Expr(cm)
	n = 0
	for b in sites_call(cm, ['onion_payment::check_incoming_htlc_cltv']):
		n += 1
		e = ex.of_operand(cm.blocks[b]['t'][2]['args'][0])
		terms, k = linear(e)
		ok = k == 1 and len(terms) == 1 and list(terms.values()) == [1] and 'best_block' in list(terms)[0] and list(terms)[0].endswith('height')
		out.append(Result('08.c', ok, ('ok:' if ok else 'shape:') + 'cur_height-arg', 'check_incoming_htlc_cltv is given cur_height = %s (expected best_block.height + 1)' % expr_str(e), 1, where=F.where(cm.name, cm.line_of(b))))
	if n == 0:
		out.append(Result('08.c', False, 'anchor:cltv-call', 'can_forward_htlc_should_intercept no longer calls check_incoming_htlc_cltv'))
	# no Ok (forward / intercept) outcome without passing the CLTV checks
	out += guarded_by_call(F, '08.c', cm.name, set(ok_return_blocks(cm)), ['onion_payment::check_incoming_htlc_cltv'], 'result', True)
	out += P1_who_may_call(F, '08.c', [OP + 'check_incoming_htlc_cltv'], [CMP + 'ChannelManager::can_forward_htlc_should_intercept', OP + 'peel_payment_onion'], floor=2)
	return out

def _pick(results):
	"""P7_guard matched by leaves only: when two guards share the leaves (too-soon / too-far) each label
	is satisfied if one of the matched comparisons has the expected shape."""
	by = {}
	for r in results:
		lab = r.key.split(':', 1)[1] if ':' in r.key else r.key
		by.setdefault((r.rule, lab), []).append(r)
	out = []
	for (rule, lab), rs in by.items():
		oks = [r for r in rs if r.ok]
		if oks:
			out.append(oks[0])
		else:
			out += rs
	return out

def r08d(F):
	c = consts(F)
	out = []
	# S3: MPP part timed out on chain iff height >= expiry - HFB  <=>  expiry - height <= HFB
	out += P7_guard(F, '08.d', CMP + 'MppPart::check_onchain_timeout', 'claimable HTLC on-chain timeout', r'cltv_expiry$', r'^height$', 'Le', c['HFB'])
	# its callers hand in the new tip height
	# S5: intercepted HTLCs
	out += P7_guard(F, '08.d', CMP + 'ChannelManager::do_chain_event', 'intercepted HTLC timeout', r'outgoing_cltv_value$', r'^height$', 'Le', c['HFB'])
	# S4: claim_deadline = min expiry - HFB
	fu = F.func(CMP + 'ChannelManager::handle_claimable_htlc')
	ex = Expr(fu)
	found = 0
	for b, s in sites_construct(fu, 'Event', 'PaymentClaimable'):
		rv = fu.blocks[b]['s'][s][2]
		e = ex.of_operand(rv[4][rv[5].index('claim_deadline')])
		found += 1
		# Some(x - HFB)
		inner = e[3][0] if e[0] == 'agg' and e[2] == 'Some' and e[3] else e
		terms, k = linear(inner)
		ok = k == -c['HFB'] and len(terms) == 1 and list(terms.values()) == [1]
		out.append(Result('08.d', ok, ('ok:' if ok else 'shape:') + 'claim_deadline', 'PaymentClaimable.claim_deadline = %s (expected Some(min cltv_expiry - HTLC_FAIL_BACK_BUFFER(=%d)))' % (expr_str(e), c['HFB']), 1, where=F.where(fu.name, fu.line_of(b))))
	if not found:
		out.append(Result('08.d', False, 'anchor:PaymentClaimable', 'handle_claimable_htlc constructs no Event::PaymentClaimable'))
	return out

def r08e(F):
	c = consts(F)
	fn = MONP + 'ChannelMonitorImpl::should_broadcast_holder_commitment_txn'
	out = []
	# S6 (three expansions of scan_commitment!): outbound: expiry + LGP <= height ; inbound with preimage: expiry <= height + CCB
	out += P7_guard(F, '08.e', fn, 'outbound HTLC expired grace', r'cltv_expiry$', r'best_block\.height$|^height$', 'Le', -c['LGP'], count=3)
	out += P7_guard(F, '08.e', fn, 'inbound HTLC claim buffer', r'cltv_expiry$', r'best_block\.height$|^height$', 'Le', c['CCB'], count=3)
	out = _pick_n(out, 3)
	# S7: holding-cell HTLCs: limit = height + LGP, dropped iff expiry <= limit
	fu = F.func(FC + 'do_best_block_updated')
	ex = Expr(fu)
	lim = None
	# the limit handed to the holding-cell / unforwarded-HTLC expiry filter: a u32 local computed from the height parameter
	cands = []
	for l in fu.vars:
		if l > fu.argc and (fu.locals[l].get('ty') or '') == 'u32':
			e = ex.of_local(l)
			t_, k_ = linear(e)
			if len(t_) == 1 and list(t_.values())[0] == 1 and list(t_)[0] == (fu.local_name(2) or 'height') and k_ != 0:
				cands.append(e)
	if len(cands) == 1:
		lim = cands[0]
	if lim is None:
		out.append(Result('08.e', False, 'anchor:unforwarded-limit', 'do_best_block_updated: expected one u32 local of the form height + const (the unforwarded-HTLC expiry limit), found %d' % len(cands)))
	else:
		terms, k = linear(lim)
		ok = k == c['LGP'] and len(terms) == 1 and list(terms.values()) == [1]
		out.append(Result('08.e', ok, ('ok:' if ok else 'shape:') + 'unforwarded-limit', 'unforwarded_htlc_cltv_limit = %s (expected height + LATENCY_GRACE_PERIOD_BLOCKS)' % expr_str(lim), 1, where=F.where(fu.name)))
	out += P7_guard(F, '08.e', FC + 'do_best_block_updated', 'holding-cell HTLC expiry', r'cltv_expiry$', r'^[a-z_][a-z0-9_]*$', 'Le', 0)
	# the HTLCs dropped from the holding cell are reported at EVERY successful exit: each Ok((_, X, _)) returns the vector the retain closure filled
	filled = set()
	for bi, si, st in fu.stmts():
		rv = st[2]
		if rv[0] == 'agg' and rv[1] == 'closure' and any(norm(ci.get('f') or '').endswith('Vec::retain') for b2, ci in fu.calls() if b2 == bi or True):
			for op in rv[4]:
				if op[0] in ('c', 'm') and len(op[1]) == 1:
					for d in fu.defs.get(op[1][0], []):
						if d[3][0] == 'ref' and d[3][1] is True:
							e = ex.of_rvalue(d[3])
							while e[0] in ('ref', 'deref'):
								e = e[1]
							if e[0] == 'local' and 'Vec<(' in (fu.locals[e[1]].get('ty') or '') and 'HTLCSource' in (fu.locals[e[1]].get('ty') or ''):
								filled.add(e[1])
	if len(filled) != 1:
		out.append(Result('08.e', False, 'anchor:timed-out-vector', 'do_best_block_updated: the vector filled by the holding-cell retain closure was not found (%d candidates)' % len(filled), where=F.where(fu.name)))
	else:
		L = list(filled)[0]
		n_ok, lost = 0, []
		for bi, si, st in fu.stmts():
			rv = st[2]
			if st[1] == [0] and rv[0] == 'agg' and rv[1] == 'adt' and rv[3] == 'Ok' and bi in fu.reach([0]):
				n_ok += 1
				e = ex.of_operand(rv[4][0])
				el = e[3][1] if e[0] == 'agg' and e[1] is None and len(e[3]) == 3 else None
				while el is not None and el[0] in ('ref', 'deref'):
					el = el[1]
				if not (el is not None and el[0] == 'local' and el[1] == L):
					lost.append(fu.line_of(bi))
		okl = n_ok >= 3 and not lost
		out.append(Result('08.e', okl, ('ok:' if okl else 'dropped:') + 'timed-out-holding-cell-htlcs-returned', 'do_best_block_updated: every one of the %d Ok exits returns the HTLCs that were just dropped from the holding cell%s' % (n_ok, '' if not lost else ' - not at line(s) %s: those HTLCs are gone from the holding cell but never failed back, so the inbound HTLC stays pending until the upstream peer closes the channel' % lost), n_ok, where=F.where(fu.name, lost[0] if lost else None)))
	# the deadline scans cover every commitment an HTLC can live in: current AND previous counterparty commitment
	for fn2 in (fn, MONP + 'ChannelMonitorImpl::block_confirmed'):
		fu2 = F.func(fn2)
		ex2 = Expr(fu2)
		seen = set()
		for b, ci in fu2.calls():
			c = norm(ci.get('f') or '')
			if c.endswith('HashMap::get') and len(ci['args']) > 1 and 'counterparty_claimable_outpoints' in expr_str(ex2.of_operand(ci['args'][0])):
				k = expr_str(ex2.of_operand(ci['args'][1]))
				for w in ('current_counterparty_commitment_txid', 'prev_counterparty_commitment_txid'):
					if w in k:
						seen.add(w)
		ok = seen == {'current_counterparty_commitment_txid', 'prev_counterparty_commitment_txid'}
		out.append(Result('08.e', ok, ('ok:' if ok else 'coverage:') + 'both-counterparty-commitments@' + fn2.rsplit('::', 1)[-1],
			'%s looks up counterparty_claimable_outpoints for %s (expected both the current and the previous counterparty commitment)' % (fn2.rsplit('::', 1)[-1], sorted(seen)), 2, where=F.where(fn2)))
	return out

def _pick_n(results, n):
	by = {}
	for r in results:
		lab = r.key.split(':', 1)[1] if ':' in r.key else r.key
		by.setdefault((r.rule, lab), []).append(r)
	out = []
	for (rule, lab), rs in by.items():
		oks = [r for r in rs if r.ok]
		if len(oks) >= n:
			out += oks[:n]
		else:
			out += rs if not oks else oks + [r for r in rs if not r.ok][: n - len(oks)]
	return out

def r08f(F):
	c = consts(F)
	out = []
	# S8: confirmation threshold = height + ANTI_REORG_DELAY - 1 (monitor and onchaintx siblings)
	for fn, label in ((MONP + 'OnchainEventEntry::confirmation_threshold', 'monitor'), ('lightning::chain::onchaintx::OnchainEventEntry::confirmation_threshold', 'onchaintx')):
		fu = F.func(fn)
		ex = Expr(fu)
		best = None
		cands = []
		for bi, si, s in fu.stmts():
			rv = s[2]
			if rv[0] == 'bin' and rv[1].startswith(('Add', 'Sub')):
				e = ex.of_rvalue(rv)
				terms, k = linear(e)
				cands.append((terms, k, e))
				if k == c['ARD'] - 1 and len(terms) == 1 and list(terms.values()) == [1] and list(terms)[0].endswith('height'):
					best = e
		# also direct return expression
		ok = best is not None
		out.append(Result('08.f', ok, ('ok:' if ok else 'shape:') + 'threshold@' + label,
			'%s confirmation_threshold base = %s (expected self.height + ANTI_REORG_DELAY - 1 = height + %d)' % (label, expr_str(best) if best else [expr_str(x[2]) for x in cands][:4], c['ARD'] - 1), max(1, len(cands)), where=F.where(fu.name)))
	out += P7_guard(F, '08.f', MONP + 'OnchainEventEntry::has_reached_confirmation_threshold', 'threshold reached', r'best_block\.height$', r'confirmation_threshold\(self\)$', 'Ge', 0)
	out += P7_guard(F, '08.f', 'lightning::chain::onchaintx::OnchainEventEntry::has_reached_confirmation_threshold', 'threshold reached (onchaintx)', r'^height$', r'confirmation_threshold\(self\)$', 'Ge', 0)
	# the restart-time replay waits for the same depth as the live path (a fail-back after 1 confirmation gives the upstream HTLC up while a reorg can still hand the downstream one to the peer)
	import chainrules
	out += chainrules.restart_replay_guard(F, '08.f')
	return out

def r08g(F):
	"""relations between sites, on the extracted normal forms"""
	c = consts(F)
	out = []
	def K(fn, pos, neg, pick=None):
		ms = match_guards(guards_in(F, fn), pos, neg)
		ks = sorted({(o[1], o[2]) for g, o in ms})
		return ks
	s1 = K(OP + 'create_recv_pending_htlc_info', r'^cltv_expiry$', r'^current_height$')
	s2 = K(OP + 'check_incoming_htlc_cltv', r'^cltv_expiry$', r'^cur_height$')
	s3 = K(CMP + 'MppPart::check_onchain_timeout', r'cltv_expiry$', r'^height$')
	s5 = K(CMP + 'ChannelManager::do_chain_event', r'outgoing_cltv_value$', r'^height$')
	s6 = K(MONP + 'ChannelMonitorImpl::should_broadcast_holder_commitment_txn', r'cltv_expiry$', r'best_block\.height$|^height$')
	def le(ks):
		return [k for op, k in ks if op == 'Le'] + [k - 1 for op, k in ks if op == 'Lt']
	def rel(desc, ok, detail):
		out.append(Result('08.g', bool(ok), ('ok:' if ok else 'relation:') + desc, '%s (%s)' % (desc, detail), 1))
	d = 'S1=%s S2=%s S3=%s S5=%s S6=%s' % (s1, s2, s3, s5, s6)
	rel('final-hop acceptance bound is exactly one block tighter than the fail-back threshold', le(s1) and le(s3) and le(s1)[0] == le(s3)[0] + 1, d)
	rel('forwarding too-soon bound equals the fail-back threshold', le(s2) and le(s3) and min(le(s2)) == le(s3)[0], d)
	rel('intercepted-HTLC timeout equals the fail-back threshold', le(s5) and le(s3) and le(s5)[0] == le(s3)[0], d)
	rel('on-chain claim buffer is smaller than the fail-back threshold by LATENCY_GRACE_PERIOD_BLOCKS', le(s6) and le(s3) and max(le(s6)) == le(s3)[0] - c['LGP'], d)
	rel('outbound on-chain grace equals LATENCY_GRACE_PERIOD_BLOCKS', le(s6) and min(le(s6)) == -c['LGP'], d)
	return out

RULES = [
	('08.a', 'relations between the deadline constants (re-derived from evaluated values)', r08a),
	('08.b', 'S1 final-hop receive: refused iff expiry - height <= HTLC_FAIL_BACK_BUFFER + 1', r08b),
	('08.c', 'S2 forwarding admission: four CLTV guards with their failure reasons; height argument = tip + 1', r08c),
	('08.d', 'S3/S4/S5 manager timeouts and claim_deadline use HTLC_FAIL_BACK_BUFFER', r08d),
	('08.e', 'S6/S7 monitor force-close conditions and holding-cell expiry', r08e),
	('08.f', 'S8 anti-reorg confirmation threshold', r08f),
	('08.g', 'cross-site relations between the extracted bounds', r08g),
	('08.z', 'named protocol / policy constants in this property\'s files have their reviewed values (rules/provenance.py)', lambda F: provenance.consts_for_property(F, 'C08', '08.z')),
]
RULES.append(('08.G', 'guard census restricted to the deadline-handling functions (block_confirmed, do_best_block_updated, best_block_updated, do_chain_event, the forward admission helpers, timer_tick_occurred, the claims-view updaters): no reviewed call or stored-collection mutation gained a controlling condition - a fail-back / timeout / claim that silently stops happening in one situation (rules/guards.py)', lambda F: guards.for_property(F, 'C08', '08.G')))
RULES.append(('08.K', 'constant census of linear forms: every comparison (normalised to sum >= K over name-free atoms, a comparison and its negation being one form) and every maximal arithmetic expression of a reviewed function keeps its coefficients and its constant - a dropped or added `+ 1` / `- 1`, `<` for `<=` inside a computed bound, a scale factor applied twice or not at all, swapped operands of a comparison (rules/linforms.py; shapes that appear or disappear are not judged, the guard / arithmetic censuses judge those)', lambda F: linforms.for_property(F, 'C08', '08.K')))

def r08i(F):
	"""the advertised claim deadline is the EARLIEST part's expiry less the fail-back buffer, taken over the complete HTLC set: a deadline taken from the
	first / last part or computed before the completing part was added is later than the height at which the node itself fails one part back (08.d),
	so the payment cannot be claimed at every height strictly below it.  Same analysis as 04.i, judged here for what C08 states."""
	import C04
	out = []
	for r in C04.r04i(F):
		r.rule = '08.i'
		out.append(r)
	return out

RULES.append(('08.i', 'PaymentClaimable.claim_deadline derives from Iterator::min over the parts of the complete HTLC set (computed after check_incoming_mpp_part added the completing part)', r08i))
