"""C02 - a forwarding node never loses money on an HTLC it forwards (structural part)."""
from engine import *
import linforms
import obligations
import ordimpls
import provenance
import guards
import arith
import writes
import mutations

CH = 'lightning::ln::channel::'
FC = CH + 'FundedChannel::'
CM = 'lightning::ln::channelmanager::ChannelManager::'
MON = 'lightning::chain::channelmonitor::ChannelMonitorImpl::'
MONP = 'lightning::chain::channelmonitor::'

EXPLANATION = ('Path and census rules over ln::channelmanager, ln::channel and chain::channelmonitor: a preimage learnt from the '
	'downstream peer always reaches claim_funds_internal and, for forwarded HTLCs, registers an RAA-monitor-update blocker first; '
	'the blocker really blocks (revoke_and_ack holds the monitor update while hold_mon_update is set); blockers are released only '
	'from the completion/event/background sites; an upstream failure is generated only from the frozen set of callers (never directly '
	'from update_fail_htlc), and the channel hands HTLCs to fail upstream only from revoke_and_ack (removal irrevocable), holding-cell '
	'drops or closure; the monitor fails HTLCs back on chain only from matured events, a confirmed funding spend, or the closed-channel '
	'near-expiry rule; forwarding admission enforces fee and CLTV-delta inequalities. Also: HTLCs to fail / forward collected while freeing the holding cell or resuming a channel are returned at every exit; a confirmed holder commitment is compared with its own (previous vs current) HTLC data before HTLCs missing from it are failed back. Decides these shapes for all paths; balance '
	'arithmetic and the firing of completion actions under every schedule are not decided.')
ASSUMPTIONS = ['messages from one peer are processed serially (documented LDK invariant)', 'arithmetic of fee computation is not verified beyond the comparison shapes']

def r02a(F):
	fn = CM + 'internal_update_fulfill_htlc'
	fu = F.func(fn)
	out = []
	claim = set(sites_call(fu, ['ChannelManager::claim_funds_internal']))
	oks = ok_return_blocks(fu)
	out += P5_must_pass(F, '02.a', fu, [0], oks, claim, 'claim_funds_internal before returning Ok')
	out += guarded_by_call(F, '02.a', fn, claim, ['FundedChannel::update_fulfill_htlc'], 'result', True)
	# the preimage handed upstream is the one in the message
	ex = Expr(fu)
	for b in claim:
		e = ex.of_operand(fu.blocks[b]['t'][2]['args'][2])
		ok = 'payment_preimage' in expr_str(e) and 'msg' in expr_str(e)
		out.append(Result('02.a', ok, ('ok:' if ok else 'shape:') + 'preimage-arg', 'claim_funds_internal is given %s (expected msg.payment_preimage)' % expr_str(e)[:80], 1, where=F.where(fn, fu.line_of(b))))
	out += P1_who_may_call(F, '02.h', [CM + 'claim_funds_internal'], [CM + 'internal_update_fulfill_htlc', CM + 'process_pending_monitor_events', CM + 'from_channel_manager_data'], floor=3)
	# all three learn-the-preimage paths exist
	callers = {root_fn(r[0]) for r in F.callers(F.fn(CM + 'claim_funds_internal'))}
	for need in ('internal_update_fulfill_htlc', 'process_pending_monitor_events', 'from_channel_manager_data'):
		ok = any(c.endswith('::' + need) for c in callers)
		out.append(Result('02.h', ok, ('ok:' if ok else 'missing:') + 'claim-path:' + need, 'claim_funds_internal is %scalled from %s (message / chain / startup replay paths must all exist)' % ('' if ok else 'NOT ', need), 1))
	return out

def r02b(F):
	fn = CM + 'internal_update_fulfill_htlc'
	fu = F.func(fn)
	out = []
	claim = sites_call(fu, ['ChannelManager::claim_funds_internal'])
	upd = sites_call(fu, ['FundedChannel::update_fulfill_htlc'])
	ph = set(sites_call(fu, ['HTLCSource::previous_hop_data', 'previous_hop_data']))
	out += P5_must_pass(F, '02.b', fu, upd, claim, ph, 'iteration over previous_hop_data() (RAA blocker registration) between update_fulfill_htlc and claim_funds_internal')
	mk = sites_call(fu, ['RAAMonitorUpdateBlockingAction::from_prev_hop_data'])
	push = set(fu.call_blocks(lambda p: p == 'alloc::vec::Vec::push'))
	ok = bool(mk) and bool(fu.reach(mk) & push)
	out.append(Result('02.b', ok, ('ok:' if ok else 'missing:') + 'raa-blocker-push', 'a RAAMonitorUpdateBlockingAction::from_prev_hop_data(..) is pushed for every previous hop', len(mk), where=F.where(fn)))
	# ... into actions_blocking_raa_monitor_updates of that peer, keyed by the downstream channel id
	ex = Expr(fu)
	ent = [b for b in fu.call_blocks(lambda p: p.endswith('BTreeMap::entry')) if 'actions_blocking_raa_monitor_updates' in expr_str(ex.of_operand(fu.blocks[b]['t'][2]['args'][0]))]
	ok = False
	for b in ent:
		k = expr_str(ex.of_operand(fu.blocks[b]['t'][2]['args'][1]))
		if 'msg' in k and 'channel_id' in k:
			ok = True
	out.append(Result('02.b', ok, ('ok:' if ok else 'shape:') + 'raa-blocker-key', 'the blocker is stored under actions_blocking_raa_monitor_updates[msg.channel_id]', len(ent), where=F.where(fn)))
	return out

def r02c(F):
	out = []
	# manager passes raa_monitor_updates_held(..) as hold_mon_update
	fn = CM + 'internal_revoke_and_ack'
	fu = F.func(fn)
	ex = Expr(fu)
	n = 0
	for b in sites_call(fu, ['FundedChannel::revoke_and_ack']):
		n += 1
		e = ex.of_operand(fu.blocks[b]['t'][2]['args'][4])
		ok = e[0] == 'call' and (e[1] or '').endswith('raa_monitor_updates_held')
		out.append(Result('02.c', ok, ('ok:' if ok else 'shape:') + 'hold-arg', 'FundedChannel::revoke_and_ack(.., hold_mon_update = %s) (expected raa_monitor_updates_held(..))' % expr_str(e)[:80], 1, where=F.where(fn, fu.line_of(b))))
	if not n:
		out.append(Result('02.c', False, 'anchor:raa-call', 'internal_revoke_and_ack does not call FundedChannel::revoke_and_ack'))
	# raa_monitor_updates_held looks at the blocker map and at pending ReleaseRAAChannelMonitorUpdate events
	h = F.func(CM + 'raa_monitor_updates_held')
	ok = bool(h.call_blocks(lambda p: p.endswith('BTreeMap::get'))) and any('ReleaseRAAChannelMonitorUpdate' in json.dumps(F.func(n2).js['blocks']) for n2 in F.family(CM + 'raa_monitor_updates_held'))
	out.append(Result('02.c', ok, ('ok:' if ok else 'shape:') + 'held-sources', 'raa_monitor_updates_held consults the blocker map and pending ReleaseRAAChannelMonitorUpdate events', 1, where=F.where(h.name)))
	# channel: the update is returned only when release_monitor, which needs !hold_mon_update and no blocked updates
	fn = FC + 'revoke_and_ack'
	fu = F.func(fn)
	ex = Expr(fu)
	# the release flag = the bool local that is `false` on one path and `!<bool parameter>` (the hold flag) on the other
	rl = []
	for l in range(fu.argc + 1, len(fu.locals)):
		ds_ = fu.whole_defs(l)
		if len(ds_) >= 2 and (fu.locals[l].get('ty') or '') == 'bool':
			es = [ex.of_rvalue(d[3]) for d in ds_]
			if any(e[0] == 'const' and e[1] == 0 for e in es) and any(e[0] == 'un' and e[1] == 'Not' and e[2][0] == 'local' and 1 <= e[2][1] <= fu.argc for e in es):
				rl.append(l)
	if len(rl) != 1:
		return out + [Result('02.c', False, 'anchor:release-flag', 'revoke_and_ack: expected one release flag of the shape `<cond> && !hold_mon_update`, found %d' % len(rl), where=F.where(fn))]
	rl = rl[0]
	acts = set()
	for bi, si, c in ret_assignments(fu):
		if si == 'T' or bi in set(err_return_blocks(fu)):
			continue
		txt = expr_str(ex.of_rvalue(fu.blocks[bi]['s'][si][2]))
		if 'Some{' in txt and 'monitor_update' in txt:
			acts.add(bi)
	ds, _ = decisions_on(fu, [(rl, 'bool', False)])
	out += P4_guarded(F, '02.c', fu, acts, ds, True, 'release_monitor')
	defs = fu.whole_defs(rl)
	nonfalse = []
	for d in defs:
		e = ex.of_rvalue(d[3])
		if not (e[0] == 'const' and e[1] == 0):
			nonfalse.append((d[0], e))
	ok = bool(nonfalse) and all(e[0] == 'un' and e[1] == 'Not' and e[2][0] == 'local' and 1 <= e[2][1] <= fu.argc and (fu.locals[e[2][1]].get('ty') or '') == 'bool' for b, e in nonfalse)
	out.append(Result('02.c', ok, ('ok:' if ok else 'shape:') + 'release_monitor-def', 'release_monitor can only become %s (expected !hold_mon_update under blocked_monitor_updates.is_empty())' % [expr_str(e) for b, e in nonfalse], len(defs), where=F.where(fn)))
	ie = [b for b in fu.call_blocks(lambda p: p == 'alloc::vec::Vec::is_empty') if 'blocked_monitor_updates' in expr_str(ex.of_operand(fu.blocks[b]['t'][2]['args'][0]))]
	out += P4_guarded(F, '02.c', fu, {b for b, e in nonfalse}, call_decisions(fu, ie, 'bool'), True, 'blocked_monitor_updates.is_empty()')
	# when not released the update is queued (pushed to blocked_monitor_updates) on every such return
	return out

def r02d(F):
	out = []
	out += P1_who_may_call(F, '02.d', [CM + 'handle_monitor_update_release'],
		[CM + 'handle_monitor_update_completion_actions', CM + 'handle_post_event_actions', CM + 'process_background_events'], floor=5)
	out += P3_field_census(F, '02.d', 'PeerState.actions_blocking_raa_monitor_updates',
		[CM + 'internal_update_fulfill_htlc', CM + 'claim_mpp_part', CM + 'handle_monitor_update_release', CM + 'handle_monitor_update_completion_actions', CM + 'from_channel_manager_data'], floor=6)
	# handle_monitor_update_release removes exactly the completed blocker (retain != blocker) before re-testing the hold
	fu = F.func(CM + 'handle_monitor_update_release')
	rt = fu.call_blocks(lambda p: p == 'alloc::vec::Vec::retain')
	held = sites_call(fu, ['ChannelManager::raa_monitor_updates_held'])
	unb = set(sites_call(fu, ['FundedChannel::unblock_next_blocked_monitor_update']))
	ok = bool(rt) and bool(held)
	out.append(Result('02.d', ok, ('ok:' if ok else 'shape:') + 'release-retain', 'handle_monitor_update_release drops the completed blocker (Vec::retain) and re-tests raa_monitor_updates_held', len(rt) + len(held), where=F.where(fu.name)))
	out += guarded_by_call(F, '02.d', fu.name, unb, ['ChannelManager::raa_monitor_updates_held'], 'bool', False)
	return out

def r02e(F):
	out = []
	ALLOWED = ['claim_payment_internal', 'close_channel_internal', 'do_chain_event', 'fail_holding_cell_htlcs', 'fail_htlc_backwards_with_reason', 'fail_intercepted_htlc',
		'finish_close_channel', 'from_channel_manager_data', 'internal_process_pending_htlc_forwards', 'internal_shutdown', 'post_monitor_update_unlock',
		'process_pending_monitor_events', 'timer_tick_occurred']
	out += P1_who_may_call(F, '02.e', [CM + 'fail_htlc_backwards_internal'], [CM + a for a in ALLOWED], floor=13,
		note='an upstream failure may only be produced where the downstream removal is irrevocable, the HTLC was never forwarded, or the channel is closed')
	# channel side: HTLCs to fail upstream are handed over only through monitor_updating_paused(.., pending_fails, ..)
	out += P3_field_census(F, '02.e', 'ChannelContext.monitor_pending_failures', [FC + 'monitor_updating_paused', FC + 'monitor_updating_restored'], floor=2)
	# ... and only revoke_and_ack passes a non-empty vector
	mp = F.fn(FC + 'monitor_updating_paused')
	n = 0
	for rec in F.callers(mp, ('call',)):
		caller = root_fn(rec[0])
		fu = F.func(rec[0])
		ex = Expr(fu)
		for b in sites_call(fu, ['FundedChannel::monitor_updating_paused']):
			n += 1
			e = ex.of_operand(fu.blocks[b]['t'][2]['args'][5])
			empty = e[0] == 'call' and (e[1] or '').endswith('Vec::new')
			if caller.endswith('::revoke_and_ack'):
				ok = leaf_key(e) == 'revoked_htlcs'
				out.append(Result('02.e', ok, ('ok:' if ok else 'shape:') + 'pending_fails@revoke_and_ack', 'revoke_and_ack passes pending_fails = %s' % expr_str(e)[:60], 1, where=F.where(caller, fu.line_of(b))))
			else:
				out.append(Result('02.e', empty, ('ok:' if empty else 'shape:') + 'pending_fails@' + caller.rsplit('::', 1)[-1], '%s passes pending_fails = %s (expected Vec::new(): only a revoke_and_ack makes a removal irrevocable)' % (caller.rsplit('::', 1)[-1], expr_str(e)[:60]), 1, where=F.where(caller, fu.line_of(b))))
	if n < 12:
		out.append(Result('02.e', False, 'floor:paused-calls', 'only %d monitor_updating_paused call sites (expected >= 12)' % n, n))
	# revoked_htlcs is filled only for outbound HTLCs in AwaitingRemovedRemoteRevoke (the removal the RAA just made irrevocable)
	vs = enum_variants(F, CH + 'OutboundHTLCState')
	filled = []
	for nme in F.family(FC + 'revoke_and_ack'):
		fu = F.func(nme)
		ex = Expr(fu)
		pushes = [b for b in fu.call_blocks(lambda p: p == 'alloc::vec::Vec::push') if leaf_key(ex.of_operand(fu.blocks[b]['t'][2]['args'][0])).endswith('revoked_htlcs')]
		if not pushes:
			continue
		filled.append(nme)
		sw = variant_switch_on(fu, r'\.state$', vs)
		ok = False
		for sb, m, other in sw:
			if 'AwaitingRemovedRemoteRevoke' in m:
				removed = [(sb, t) for v, t in m.items() if v == 'AwaitingRemovedRemoteRevoke']
				p = fu.path([0], pushes, removed_edges=removed)
				if p is None:
					ok = True
		out.append(Result('02.e', ok, ('ok:' if ok else 'guard:') + 'revoked_htlcs-state', '%s pushes to revoked_htlcs only under OutboundHTLCState::AwaitingRemovedRemoteRevoke' % nme.rsplit('::', 2)[-1], len(pushes), where=F.where(nme)))
	if not filled:
		out.append(Result('02.e', False, 'anchor:revoked_htlcs', 'revoke_and_ack no longer fills revoked_htlcs'))
	# update_fail_htlc handlers do not fail upstream themselves
	for h in ('internal_update_fail_htlc', 'internal_update_fail_malformed_htlc'):
		reach = set()
		st = [F.fn(CM + h)]
		F.calls
		depth = {st[0]: 0}
		while st:
			x = st.pop()
			if x in reach:
				continue
			reach.add(x)
			for fam in ([x] + F.closures_of(x) if x in F.fns else [x]):
				for r in F.callees_of.get(fam, []):
					if r[1].startswith('lightning::ln::channelmanager::') and depth[x] < 3 and r[1] not in depth:
						depth[r[1]] = depth[x] + 1
						st.append(r[1])
		ok = F.fn(CM + 'fail_htlc_backwards_internal') not in reach
		out.append(Result('02.e', ok, ('ok:' if ok else 'reach:') + h, '%s does %sreach fail_htlc_backwards_internal within the manager (depth 3)' % (h, 'not ' if ok else ''), len(reach), where=F.where(F.fn(CM + h))))
	return out

def r02f(F):
	out = []
	out += P2_construct_census(F, '02.f', MONP + 'HTLCUpdate', 'HTLCUpdate',
		[MON + 'block_confirmed', MON + 'fail_htlcs_from_update_after_funding_spend', MON + 'is_resolving_htlc_output'], floor=5)
	c = F.const(MONP + 'LATENCY_GRACE_PERIOD_BLOCKS')
	fn = MON + 'block_confirmed'
	fu = F.func(fn)
	ex = Expr(fu)
	sites = sites_construct(fu, 'HTLCUpdate', 'HTLCUpdate')
	timed = []
	matured = []
	for b, s in sites:
		rv = fu.blocks[b]['s'][s][2]
		src = expr_str(ex.of_operand(rv[4][rv[5].index('source')]))
		# the matured-event site takes everything from the OnchainEvent::HTLCUpdate being processed
		if 'HTLCUpdate' in src and 'event' in src:
			matured.append(b)
		else:
			timed.append(b)
	ok = len(matured) >= 1 and len(timed) == 1
	out.append(Result('02.f', ok, ('ok:' if ok else 'shape:') + 'fail-back-sites', 'block_confirmed builds HTLCUpdate at %d matured-event site(s) and %d time-triggered site(s)' % (len(matured), len(timed)), len(sites), where=F.where(fn)))
	if timed:
		out += guarded_by_call(F, '02.f', fn, set(timed), ['ChannelMonitorImpl::no_further_updates_allowed'], 'bool', True)
		ms = match_guards(guards_in(F, fn, False), r'inbound_htlc_expiry', r'height$|max_expiry_height$', 0)
		okc = False
		for g, o in ms:
			# inbound_htlc_expiry > max_expiry_height ( = height + LGP ) => skip
			if (o[1], o[2]) in (('Gt', 0), ('Gt', c), ('Ge', 1), ('Ge', c + 1)):
				okc = True
				out += P4_guarded(F, '02.f', fu, set(timed), g.decisions, False, 'inbound HTLC expires within LATENCY_GRACE_PERIOD_BLOCKS')
		out.append(Result('02.f', okc, ('ok:' if okc else 'guard:') + 'near-expiry-cmp', 'near-expiry fail-back compares inbound_htlc_expiry with height + LATENCY_GRACE_PERIOD_BLOCKS: %s' % [cmp_str(o) for g, o in ms], max(1, len(ms)), where=F.where(fn)))
		for l, nm in fu.vars.items():
			if nm == 'max_expiry_height':
				terms, k = linear(ex.of_local(l))
				okm = k == c and len(terms) == 1 and list(terms)[0].endswith('height')
				out.append(Result('02.f', okm, ('ok:' if okm else 'shape:') + 'max_expiry_height', 'max_expiry_height = %s (expected height + LATENCY_GRACE_PERIOD_BLOCKS)' % expr_str(ex.of_local(l)), 1, where=F.where(fn)))
	# matured site sits in the loop over events that reached the confirmation threshold (see C11)
	import chainrules
	out += chainrules.restart_replay_guard(F, '02.f')
	import C03
	out += C03.r03n(F, '02.f')
	return out

def r02g(F):
	out = []
	fn = FC + 'internal_htlc_satisfies_config'
	fu = F.func(fn)
	gs = guards_in(F, fn)
	txt = [g.text() for g in gs]
	# amount_msat < fee  and  amount_msat - fee < amt_to_forward  => FeeInsufficient
	out += P7_guard(F, '02.g', fn, 'fee: amount >= fee', r'amount_msat$', r'unwrap|fee', 'Lt', 0, true_reaches=constructs_pred('LocalHTLCFailureReason', 'FeeInsufficient'), exclusive=False)
	out += P7_guard(F, '02.g', fn, 'fee: amount - fee >= amt_to_forward', r'amount_msat$', r'^amt_to_forward$', 'Lt', 0, extra=1, true_reaches=constructs_pred('LocalHTLCFailureReason', 'FeeInsufficient'))
	out += P7_guard(F, '02.g', fn, 'cltv: expiry >= outgoing + delta', r'cltv_expiry$', r'^outgoing_cltv_value$', 'Lt', 0, extra=1, true_reaches=constructs_pred('LocalHTLCFailureReason', 'IncorrectCLTVExpiry'))
	# fee = amt*prop/1e6 + base
	fee_ok = False
	# the fee computation may sit in the function, its closures or a helper of channel.rs it calls directly
	helpers = [n for n in reachable_fns(F, [fn], depth=1) if n.startswith(('lightning::ln::channel::', '<lightning::ln::channel::'))]
	for n in list(dict.fromkeys(list(F.family(fn)) + sorted(helpers))):
		try:
			f2 = F.func(n)
		except AnchorMissing:
			continue
		ex = Expr(f2)
		for bi, si, s in f2.stmts():
			rv = s[2]
			if rv[0] == 'bin' and rv[1] in ('Div', 'DivUnchecked'):
				e = ex.of_rvalue(rv)
				if e[3][0] == 'const' and e[3][1] == 1000000:
					fee_ok = True
	out.append(Result('02.g', fee_ok, ('ok:' if fee_ok else 'shape:') + 'prop-fee-divisor', 'proportional fee is divided by 1_000_000', 1, where=F.where(fn)))
	# the forwarding path consults it, and a failure rejects the forward
	out += P1_who_may_call(F, '02.g', [FC + 'htlc_satisfies_config'], [CM + 'can_forward_htlc_to_outgoing_channel'], floor=1)
	cf = CM + 'can_forward_htlc_to_outgoing_channel'
	cfu = F.func(cf)
	errs = set(err_return_blocks(cfu))
	through = set(sites_call(cfu, ['FundedChannel::htlc_satisfies_config'])) | errs
	out += P5_must_pass(F, '02.g', cfu, [0], cfu.return_blocks(), through, 'htlc_satisfies_config (its result is the return value) or an explicit Err')
	# cltv_expiry_delta advertised is at least MIN_CLTV_EXPIRY_DELTA
	g = F.func(CH + 'ChannelContext::get_cltv_expiry_delta')
	ex = Expr(g)
	okm = any((norm(ci.get('t') or ci.get('f') or '').endswith('cmp::max') or norm(ci.get('f') or '').endswith('::max')) and 'MIN_CLTV_EXPIRY_DELTA' in expr_str(ex.of_rvalue(['call', ci])) for b, ci in g.calls())
	out.append(Result('02.g', okm, ('ok:' if okm else 'shape:') + 'min-cltv-delta', 'get_cltv_expiry_delta = max(config, MIN_CLTV_EXPIRY_DELTA)', 1, where=F.where(g.name)))
	return out

def r02j(F):
	"""forwards to an SCID without a channel (intercepts, phantom): the only admission check is local to can_forward_htlc_should_intercept"""
	out = []
	fn = CM + 'can_forward_htlc_should_intercept'
	fu = F.func(fn)
	oks = set(ok_return_blocks(fu))
	cb = set(sites_call(fu, [CM + 'do_funded_channel_callback']))
	if not oks or not cb:
		return [Result('02.j', False, 'anchor:should_intercept', 'can_forward_htlc_should_intercept: Ok returns / do_funded_channel_callback not found (%d/%d)' % (len(oks), len(cb)), where=F.where(fn))]
	some_edges = []
	for d in call_decisions(fu, cb, 'option'):
		some_edges += d.true_edges
	if not some_edges:
		out.append(Result('02.j', False, 'anchor:known-channel-switch', 'can_forward_htlc_should_intercept no longer matches on the result of do_funded_channel_callback', where=F.where(fn)))
	gs = guards_in(F, fn, False)
	amt = match_guards(gs, r'outgoing_amt_msat$', r'amount_msat$', 0)
	if len(amt) != 1:
		out.append(Result('02.j', False, 'guard:unknown-scid-amount', 'can_forward_htlc_should_intercept: the check `outgoing_amt_msat > amount_msat => FeeInsufficient` for HTLCs without an outgoing channel is missing (comparisons: %s)' % [g.text() for g in gs], len(gs), where=F.where(fn)))
	else:
		g, o = amt[0]
		ok = (o[1], o[2]) in (('Gt', 0), ('Ge', 1))
		out.append(Result('02.j', ok, ('ok:' if ok else 'shape:') + 'unknown-scid-amount', 'no-channel forwards are rejected iff `%s` (expected outgoing_amt_msat - amount_msat > 0): never offer more downstream than received' % cmp_str(o), 1, where=F.where(fn, g.line)))
		# every Ok is behind the known-channel arm (which runs the channel's own admission check) or behind this comparison's false edge
		out += P4_guarded(F, '02.j', fu, oks, g.decisions, False, 'outgoing amount <= incoming amount (or a known channel did the check)', key='unknown-scid-amount-guard', exempt_edges=some_edges)
	cl = [g for g in gs if any('cltv_expiry' in v for v in g.nf[0]) or ('saturating_sub' in g.text() and 'cltv' in g.text())]
	mind = F.const('lightning::ln::channelmanager::MIN_CLTV_EXPIRY_DELTA')
	okc = False
	for g in cl:
		terms, op, K, used = g.nf
		if any(c.endswith('MIN_CLTV_EXPIRY_DELTA') for c in used) and ((op, K) in (('Lt', mind), ('Le', mind - 1))):
			okc = True
			out += P4_guarded(F, '02.j', fu, oks, g.decisions, False, 'cltv delta >= MIN_CLTV_EXPIRY_DELTA (or a known channel did the check)', key='unknown-scid-cltv-guard', exempt_edges=some_edges)
	out.append(Result('02.j', okc, ('ok:' if okc else 'guard:') + 'unknown-scid-cltv', 'no-channel forwards are rejected when cltv_expiry - outgoing_cltv_value < MIN_CLTV_EXPIRY_DELTA (%s)' % [g.text() for g in cl], len(cl), where=F.where(fn)))
	# the known-channel arm: the callback runs can_forward_htlc_to_outgoing_channel and obeys it
	okcb = False
	for n in F.family(fn):
		if n == fu.name:
			continue
		f2 = F.func(n)
		c2 = sites_call(f2, [CM + 'can_forward_htlc_to_outgoing_channel'])
		if c2:
			rs = guarded_by_call(F, '02.j', n, set(ok_return_blocks(f2)), [CM + 'can_forward_htlc_to_outgoing_channel'], 'result', True)
			out += rs
			okcb = True
	out.append(Result('02.j', okcb, ('ok:' if okcb else 'guard:') + 'known-channel-admission', 'for a known outgoing channel the callback runs can_forward_htlc_to_outgoing_channel (fee / CLTV admission, 02.g)', 1, where=F.where(fn)))
	# and the generic CLTV window check guards every Ok
	out += guarded_by_call(F, '02.j', fn, oks, ['onion_payment::check_incoming_htlc_cltv'], 'result', True)
	# forward_intercepted_htlc has no amount check of its own: the expected amount it is given comes from the pending HTLC
	return out

def r02k(F):
	"""HTLC failures and forwards collected while a channel resumes / frees its holding cell are handed on at every exit"""
	out = []
	out += P_accum_returned(F, '02.k', 'lightning::ln::channel::FundedChannel::free_holding_cell_htlcs')
	out += P_accum_returned(F, '02.k', 'lightning::ln::channelmanager::ChannelManager::handle_channel_resumption', min_instances=2)
	return out

def r02l(F):
	"""when one of OUR commitment transactions confirms, the HTLCs failed back at once are those missing from the commitment that CONFIRMED:
	the previous holder commitment is compared with the previous commitment's HTLC data, the current one with the current data"""
	out = []
	fn = 'lightning::chain::channelmonitor::ChannelMonitorImpl::check_spend_holder_transaction'
	fu = F.func(fn)
	live = fu.reach([0])
	def reads(field):
		got = set()
		for bi, si, st in fu.stmts():
			if any(field in str(x) for x in (st[1], st[2])):
				got.add(bi)
		for b, ci in fu.calls():
			if field in str(ci['args']):
				got.add(b)
		return got & live
	rp, rc = reads('prev_holder_htlc_data'), reads('current_holder_htlc_data')
	ok = False
	where = None
	if rp and rc:
		for bi in sorted(live):
			t = fu.blocks[bi]['t']
			if t[1] != 'switch':
				continue
			succs = sorted(set(fu.succ(bi)))
			if len(succs) != 2:
				continue
			r0 = fu.reach([succs[0]], removed_blocks={bi}); r1 = fu.reach([succs[1]], removed_blocks={bi})
			e0, e1 = r0 - r1, r1 - r0
			# one arm consults only the previous data, the other only the current data
			if (rp & e0 and rc & e1 and not rp & e1 and not rc & e0) or (rp & e1 and rc & e0 and not rp & e0 and not rc & e1):
				ok = True
				where = fu.line_of(bi)
	out.append(Result('02.l', ok, ('ok:' if ok else 'wrong-commitment:') + 'holder-commitment-htlc-data-per-arm', 'check_spend_holder_transaction: the HTLC set compared with the confirmed holder commitment is chosen per arm - previous commitment: prev_holder_htlc_data (%d read(s)), current: current_holder_htlc_data (%d read(s))%s' % (len(rp), len(rc), '' if ok else ' - an HTLC that has an output in the confirmed previous commitment but was already removed from the latest one would be failed back upstream while its output is still claimable downstream'), len(rp) + len(rc), where=F.where(fn, where)))
	return out

def r02m(F):
	"""a forwarded claim survives a restart: the downstream monitor learns the preimages of the outbound HTLCs a new holder commitment
	removes, whichever update variant is used (same structural rule as 10.j; without it a stale-manager restart never replays the claim upstream)"""
	import C10
	out = []
	for r in C10.r10j(F):
		r.rule = '02.m'
		out.append(r)
	return out

def r02n(F):
	"""a preimage that arrives after the upstream commitment confirmed claims EVERY HTLC output with that payment hash (a forwarder may have
	relayed several HTLCs with one hash): same structural rule as 07.k, re-labelled - with one claim only the node pays out downstream more
	than it reclaims upstream"""
	import C07
	out = []
	for r in C07.r07k(F):
		r.rule = '02.n'
		out.append(r)
	return out

RULES = [
	('02.a', 'a preimage from update_fulfill_htlc always reaches claim_funds_internal (message, chain and startup paths exist)', r02a),
	('02.b', 'an RAA blocker is registered for every previous hop before the claim is handed upstream', r02b),
	('02.c', 'the blocker blocks: hold_mon_update comes from raa_monitor_updates_held and routes the RAA update to the blocked queue', r02c),
	('02.d', 'blockers are released only from the completion / event / background sites', r02d),
	('02.e', 'upstream failure only from the frozen callers; channel hands over fails only from revoke_and_ack under AwaitingRemovedRemoteRevoke', r02e),
	('02.f', 'monitor: on-chain fail-back only from matured events, confirmed funding spend or the closed-channel near-expiry rule', r02f),
	('02.g', 'forwarding admission: fee and CLTV-delta inequalities; advertised delta >= MIN_CLTV_EXPIRY_DELTA', r02g),
	('02.k', 'HTLCs to fail / forward collected by free_holding_cell_htlcs and handle_channel_resumption are returned at every exit', r02k),
	('02.l', 'a confirmed holder commitment is compared with its own HTLC data (previous vs current) before failing back the HTLCs it lacks', r02l),
	('02.j', 'forwards without an outgoing channel (intercepts / phantom): outgoing amount <= incoming amount and minimum CLTV delta', r02j),
	('02.m', 'every holder-commitment monitor update variant carries the preimages of the outbound HTLCs it removes (restart replay of forwarded claims)', r02m),
	('02.n', 'a late preimage claims every matching HTLC output of the confirmed counterparty commitment (07.k under C02)', r02n),
	('02.p', 'same-name field transfer: structs carrying this property\'s quantities are filled from the same-named field or a reviewed alias (rules/provenance.py)', lambda F: provenance.for_property(F, 'C02', '02.p')),
	('02.q', 'no call hands a value named like one parameter of the callee to a different parameter (swapped type-compatible arguments; rules/provenance.py)', lambda F: provenance.swaps_for_property(F, 'C02', '02.q')),
	('02.v', 'field-versus-field comparisons (a received value against a limit, an id against an id) are the reviewed ones: same fields, same operator (rules/provenance.py)', lambda F: provenance.cmps_for_property(F, 'C02', '02.v')),
	('02.z', 'named protocol / policy constants in this property\'s files have their reviewed values (rules/provenance.py)', lambda F: provenance.consts_for_property(F, 'C02', '02.z')),
	('02.s', 'no reviewed function gained a short-circuiting iterator adaptor (find / find_map / take / position ...: an every-element walk that stops at the first match; rules/provenance.py)', lambda F: provenance.sc_for_property(F, 'C02', '02.s')),
	('02.y', 'no reviewed function gained a swallowed error (the Result of a fallible in-crate call dropped; rules/provenance.py)', lambda F: provenance.dr_for_property(F, 'C02', '02.y')),
	('02.o', 'hand-written eq / cmp / partial_cmp / hash impls in this property\'s files: same field on both sides, reviewed direction, no reviewed key lost, hash within eq (rules/ordimpls.py)', lambda F: ordimpls.for_property(F, 'C02', '02.o')),
]
RULES.append(('02.u', 'obligation-carrying values returned by workspace calls (to-fail HTLC lists, monitor updates, events, peer messages, claim packages) are never dropped on a path that does not examine them (rules/obligations.py)', lambda F: obligations.for_property(F, 'C02', '02.u')))
RULES.append(('02.t', 'identity comparisons: every reviewed (function, identity type) == / != comparison (HTLCSource, Txid, OutPoint, ChannelId, PaymentHash, PublicKey, ...) is still made - a function does not silently change what it matches by (rules/provenance.py)', lambda F: provenance.ids_for_property(F, 'C02', '02.t')))
RULES.append(('02.M', 'collection mutations: every reviewed (function, stored collection, mutator class: add / remove / filter / empty / swap / order) triple is still present - an entry that is no longer removed, inserted or drained on one path (rules/mutations.py)', lambda F: mutations.for_property(F, 'C02', '02.M')))
RULES.append(('02.G', 'guard census: no reviewed call of a workspace function and no reviewed mutation of a stored collection gained a controlling branch condition (an added `&& cond`, early return / continue, more specific match arm in front of an act); counts per call site, name free (rules/guards.py)', lambda F: guards.for_property(F, 'C02', '02.G')))
RULES.append(('02.W', 'field assignments: every reviewed (function, Type.field) direct assignment is still made - state that a path no longer updates, or updates only conditionally (get_or_insert for an overwrite); generalises NN.R (rules/writes.py)', lambda F: writes.for_property(F, 'C02', '02.W')))

def r02j9(F):
	"""a forward / fail-back held while a monitor update is in flight survives a second pause: overwritten, the upstream HTLC is never failed back or the forward never made (09.j's accumulate clause, re-labelled)"""
	import C09
	out = []
	for r in C09.r09j(F):
		if 'accumulate:' in r.key and any(f in r.key for f in ('monitor_pending_failures', 'monitor_pending_forwards')):
			r.rule = '02.J'
			out.append(r)
	if not out:
		out.append(Result('02.J', False, 'anchor:accumulate', 'monitor_updating_paused: accumulate clauses of 09.j not found'))
	return out
RULES.append(('02.J', 'a forward / fail-back held while a monitor update is in flight survives a second pause (09.j under C02)', r02j9))
RULES.append(('02.N', 'arithmetic census: per reviewed function the set of operation kinds (group: add/sub, mul, div, rem, shift, bit, min, max, div_ceil ...; flavour: plain / checked / saturating / wrapping) keeps its kinds: no reviewed function lost or gained a kind of arithmetic altogether - a rounding direction (`/` for div_ceil), saturating for checked, min for max (rules/arith.py; counts and value arithmetic itself are not judged)', lambda F: arith.for_property(F, 'C02', '02.N')))
RULES.append(('02.K', 'constant census of linear forms: every comparison (normalised to sum >= K over name-free atoms, a comparison and its negation being one form) and every maximal arithmetic expression of a reviewed function keeps its coefficients and its constant - a dropped or added `+ 1` / `- 1`, `<` for `<=` inside a computed bound, a scale factor applied twice or not at all, swapped operands of a comparison (rules/linforms.py; shapes that appear or disappear are not judged, the guard / arithmetic censuses judge those)', lambda F: linforms.for_property(F, 'C02', '02.K')))
