"""Obligation-carrying values are never dropped unexamined (rule ids NN.u).

Channel and monitor routines hand their caller things the caller must act on: the list of HTLCs to fail backwards
(`Vec<(HTLCSource, PaymentHash)>`), a `ChannelMonitorUpdate` to persist, events and peer messages to deliver, forwarding / claim
instructions.  The type system does not force the caller to look at them.  For every local whose type carries such an obligation and whose
value comes from a call of a workspace function (directly or moved out of the tuple / struct the call returned) the rule decides, on the
CFG of the caller:

	no path leads from the definition to the scope-end drop of the local without mentioning the local at all
	(no read, borrow, move, test or call argument).

A path that drops a freshly returned to-fail list without even testing it for emptiness loses those HTLCs silently (the upstream HTLC is
never failed, an outbound payment never reaches a terminal event); a monitor update dropped that way is never persisted.  This is a
necessary condition only: a path that looks at the value and then ignores it is not judged.  Empty constructors (`Vec::new`, `new_hash_map`,
`Default::default`, ..) and values read back from storage are not producers.  Paths are taken on the plain CFG (unwind edges ignored);
the sites where an unexamined path exists on the reviewed tree are listed in _OK with the reason it is infeasible or deliberate."""
import re, collections, json
from engine import *

_TY = re.compile(r'HTLCSource|ChannelMonitorUpdate|HTLCFailReason|PendingHTLCInfo|PendingAddHTLCInfo|HTLCForwardInfo|MonitorEvent|'
	r'events::Event\b|MessageSendEvent|PaymentPreimage|ShutdownResult|MonitorRestoreUpdates|ReestablishResponses|HTLCDestination|'
	r'PaymentClaimDetails|BumpTransactionEvent|ClaimEvent|PackageTemplate|SpendableOutputDescriptor')
_NOT_PRODUCER = re.compile(r'::(read|new|default|with_capacity|hash_map_with_capacity|new_hash_map|new_hash_set|hash_set_with_capacity|clone)$')

# (function root tail, local name) -> reason.  Reviewed against the source.
_OK = {
	('process_pending_events', 'repeated_events'): '`let (pending_events, repeated_events);` is assigned in the arm that goes on; the other arm breaks out before the assignment (the drop on that path sees an uninitialised slot)',
	('process_pending_events_async', 'repeated_events'): 'same macro body (process_events_body) as process_pending_events',
	('funding_transaction_signed', 'counterparty_initial_commitment_signed_result'): 'field of the destructured FundingTxSigned: examined by the match that follows whenever the Ok arm is taken; the path that skips it is the arm in which funding_tx is None and the match still runs (path-insensitive join)',
	('queue_latest_holder_commitment_txn_for_broadcast', 'claimable_outpoints'): 'manual-broadcast channels whose funding transaction has not been seen on chain deliberately queue nothing (early return behind require_funding_seen && is_manual_broadcast && !funding_seen_onchain)',
	('block_confirmed', 'new_outpoints'): 'same manual-broadcast rule: the freshly generated holder claims are appended only if !is_manual_broadcast || funding_seen_onchain',
	('internal_channel_reestablish', 'htlc_forwards'): 'handle_channel_resumption is called with empty forward / failure lists here, so the list it returns is empty by construction (only a debug_assert looks at it)',
	('build_commitment_no_status_check', 'htlcs_ref'): 'the HTLC list of every funding scope is identical; only the first scope\'s copy is turned into CommitmentHTLCData (htlc_data.is_none()), the copies of further scopes are dropped by design',
}

_CACHE = {}

def _mentions(fu, bi, l, from_stmt=0):
	b = fu.blocks[bi]
	def pl_has(pl):
		return bool(pl) and pl[0] == l
	def op_has(op):
		return op[0] in ('c', 'm') and pl_has(op[1])
	def rv_has(rv):
		k = rv[0]
		if k == 'use':
			return op_has(rv[1])
		if k in ('ref', 'rawptr'):
			return pl_has(rv[2])
		if k == 'bin':
			return op_has(rv[2]) or op_has(rv[3])
		if k in ('un', 'cast'):
			return op_has(rv[2])
		if k in ('disc', 'len'):
			return pl_has(rv[1])
		if k == 'agg':
			return any(op_has(o) for o in rv[4])
		if k == 'repeat':
			return op_has(rv[1])
		s = json.dumps(rv)
		return ('[%d,' % l) in s or ('[%d]' % l) in s
	for si, s in enumerate(b['s']):
		if si < from_stmt:
			continue
		if rv_has(s[2]):
			return True
		if len(s[1]) > 1 and s[1][0] == l:
			return True
	t = b['t']
	if t[1] in ('call', 'tailcall'):
		if any(op_has(a) for a in t[2]['args']):
			return True
	if t[1] == 'switch' and op_has(t[2]):
		return True
	if t[1] == 'yield':
		s = json.dumps(t)
		return ('[%d,' % l) in s or ('[%d]' % l) in s
	return False

def census(F):
	"""[(file, fn, root tail, local name, type, producer, def line, drop line, unexamined: bool)]"""
	if F.dir in _CACHE:
		return _CACHE[F.dir]
	out = []
	for n, r in F.fns.items():
		if not n.startswith(('lightning', '<lightning')):
			continue
		try:
			fu = F.func(n)
		except AnchorMissing:
			continue
		cand = [i for i, l in enumerate(fu.locals) if i > fu.argc and not (l.get('ty') or '').startswith('&') and _TY.search(l.get('ty') or '')]
		if not cand:
			continue
		for l in cand:
			wd = fu.whole_defs(l)
			drops = [bi for bi, b in enumerate(fu.blocks) if b['t'][1] == 'drop' and b['t'][2] == [l] and not fu.is_cleanup(bi)]
			if not wd or not drops:
				continue
			ment = None
			for (bi, si, pl, rv) in wd:
				prod = None
				if si == 'T':
					prod = norm(rv[1].get('f') or '')
				elif rv[0] == 'use' and rv[1][0] in ('m', 'c'):
					src = rv[1][1][0]
					sd = fu.whole_defs(src)
					if len(sd) == 1 and sd[0][1] == 'T':
						prod = norm(sd[0][3][1].get('f') or '')
				if not prod or not prod.startswith(('lightning', '<lightning')) or _NOT_PRODUCER.search(prod):
					continue
				if ment is None:
					ment = {b2 for b2 in range(len(fu.blocks)) if _mentions(fu, b2, l)}
				unexamined = False
				dline = None
				if not (si != 'T' and _mentions(fu, bi, l, from_stmt=si + 1)):
					reach = fu.reach(fu.succ(bi), removed_blocks=ment)
					hit = [d for d in drops if d in reach]
					if hit:
						unexamined = True
						dline = fu.line_of(hit[0])
				out.append((r['file'], n, root_fn(n).rsplit('::', 1)[-1], fu.local_name(l) or '_%s' % (fu.locals[l].get('ty') or '')[:40], fu.locals[l].get('ty') or '', prod, fu.line_of(bi), dline, unexamined))
	_CACHE[F.dir] = out
	return out

def rule(F, rule_id, file_res, floor=1, ty_re=None):
	cz = census(F)
	if ty_re:
		cz = [x for x in cz if re.search(ty_re, x[4])]
	out = []
	n = 0
	seen = set()
	for (fl, fn, tail, nm, ty, prod, line, dline, bad) in cz:
		if not any(re.search(p, fl) for p in file_res):
			continue
		n += 1
		if not bad or (tail, nm) in _OK:
			continue
		k = (tail, nm)
		if k in seen:
			continue
		seen.add(k)
		out.append(Result(rule_id, False, 'unexamined:%s:%s' % (tail, nm), '%s: `%s` (%s), returned by %s, is dropped on a path that never looks at it (definition line %s, drop line %s): the HTLC failures / monitor update / events / messages it carries are lost on that path' % (tail, nm, re.sub(r'\b\w+::', '', ty)[:90], prod.rsplit('::', 1)[-1], line, dline), 1, where=F.where(fn, line)))
	if n < floor:
		return [Result(rule_id, False, 'anchor:obligations', 'only %d obligation-carrying call results found in %s (expected >= %d)' % (n, file_res, floor))]
	if not out:
		out.append(Result(rule_id, True, 'ok:obligations', '%d obligation-carrying values returned by workspace calls in %s (to-fail lists, monitor updates, events, messages, claims): none is dropped on a path that never examines it' % (n, '|'.join(file_res)), n))
	return out

SCOPE = {
	'C01': ([r'ln/channel\.rs$'], 30),
	'C02': ([r'ln/channelmanager\.rs$', r'ln/channel\.rs$'], 40),
	'C03': ([r'ln/channelmanager\.rs$', r'ln/outbound_payment\.rs$', r'ln/channel\.rs$'], 40),
	'C04': ([r'ln/channelmanager\.rs$'], 20),
	'C06': ([r'chain/channelmonitor\.rs$', r'chain/onchaintx\.rs$', r'chain/package\.rs$'], 10),
	'C07': ([r'chain/channelmonitor\.rs$', r'chain/onchaintx\.rs$', r'chain/package\.rs$', r'util/sweep\.rs$'], 10),
	'C09': ([r'ln/channelmanager\.rs$', r'ln/channel\.rs$', r'chain/chainmonitor\.rs$'], 40),
	'C10': ([r'ln/channelmanager\.rs$'], 50),
}

_HTLC = r'HTLCSource|HTLCFailReason|PendingHTLCInfo|PendingAddHTLCInfo|HTLCForwardInfo|PaymentPreimage|HTLCDestination|PaymentClaimDetails|events::Event\b|ShutdownResult|MonitorRestoreUpdates'
_MON = r'ChannelMonitorUpdate|MonitorEvent|MessageSendEvent|MonitorRestoreUpdates|ReestablishResponses|ShutdownResult'
_CLAIM = r'PackageTemplate|ClaimEvent|BumpTransactionEvent|SpendableOutputDescriptor|events::Event\b|MonitorEvent|HTLCSource|PaymentPreimage'
TYPES = {'C01': None, 'C02': _HTLC, 'C03': _HTLC, 'C04': _HTLC, 'C06': _CLAIM, 'C07': _CLAIM, 'C09': _MON, 'C10': None}

def for_property(F, pid, rule_id):
	res, floor = SCOPE[pid]
	return rule(F, rule_id, res, floor, TYPES.get(pid))
