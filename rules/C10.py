"""C10 - restarting from persisted state is safe at every crash point (structural part)."""
from engine import *
import linforms
import obligations
import provenance
import guards
import mutations
import eventloops
import re
import chainrules

CM = 'lightning::ln::channelmanager::ChannelManager::'
FC = 'lightning::ln::channel::FundedChannel::'
FN = CM + 'from_channel_manager_data'

EXPLANATION = ('Shape of the restart routine ChannelManager::from_channel_manager_data on MIR: a channel is resumed only past the four '
	'manager-behind-monitor comparisons (otherwise force-closed with OutdatedChannelManager and a regenerated close update numbered after the '
	'monitor); a monitor behind the manager is refused (DangerousValue); in-flight updates newer than the monitor are all replayed and '
	'"all complete" really means all; monitor updates reach the Watch only after background events ran; the startup reconstruction calls exist. '
	'Together with the write-side rules of C12. Also: event completion actions are queued only on the Ok arm of the handler result (sync and async event loops); every holder-commitment update variant carries the claimed outbound HTLCs and the monitor records them whichever variant arrives. Decides these necessary conditions; sufficiency at every crash point is not decided.')
ASSUMPTIONS = ['ChannelMonitors handed to the reader are the latest persisted ones (Watch contract)', 'write-side coverage is decided under C12']

def _cmp(F, pos, neg):
	return match_guards(guards_in(F, FN), pos, neg, 0)

def r10a(F):
	out = []
	fu = F.func(FN)
	ex = Expr(fu)
	# resume site: channel_by_id.insert(.., Channel::from(channel)) in the main body
	resume = set()
	for b, ci in fu.calls():
		f = norm(ci.get('f') or '')
		if f.endswith('HashMap::insert') and len(ci['args']) >= 3:
			a0 = expr_str(ex.of_operand(ci['args'][0]))
			a2 = expr_str(ex.of_operand(ci['args'][2]))
			if 'channel_by_id' in a0 and 'from(' in a2:
				resume.add(b)
	if not resume:
		return [Result('10.a', False, 'anchor:resume-insert', 'from_channel_manager_data: no channel_by_id.insert(.., Channel::from(channel)) found', where=F.where(FN))]
	shut = set(sites_call(fu, ['ChannelContext::force_shutdown', 'FundedChannel::force_shutdown']))
	CMPS = [
		('holder commitment number', r'get_cur_holder_commitment_number\(', r'get_cur_holder_commitment_transaction_number\(channel\)'),
		('revoked counterparty number', r'get_min_seen_secret\(', r'get_revoked_counterparty_commitment_transaction_number\(channel\)'),
		('counterparty commitment number', r'get_cur_counterparty_commitment_number\(', r'get_cur_counterparty_commitment_transaction_number\(channel\)'),
		('monitor update id', r'get_latest_monitor_update_id\(channel', r'get_latest_update_id\('),
	]
	for label, pos, neg in CMPS:
		ms = [(g, o) for g, o in _cmp(F, pos, neg) if g.fu.name == fu.name]
		good = [(g, o) for g, o in ms if (o[1], o[2]) in (('Lt', 0), ('Le', -1))]
		if not good:
			out.append(Result('10.a', False, 'guard:stale:' + label, 'from_channel_manager_data: no `monitor ahead of manager` comparison for the %s (found %s)' % (label, [cmp_str(o) for g, o in ms]), len(ms), where=F.where(FN)))
			continue
		ds = []
		for g, o in good:
			ds += g.decisions
		# resume only when the comparison is false; stale => force_shutdown reachable
		out += P4_guarded(F, '10.a', fu, resume, ds, False, 'manager is not behind the monitor (%s)' % label, key='stale:' + label)
		reach_shut = any(fu.reach([e[1] for e in d.true_edges]) & shut for d in ds)
		out.append(Result('10.a', reach_shut, ('ok:' if reach_shut else 'guard:') + 'stale-closes:' + label, 'a stale %s leads to force_shutdown(OutdatedChannelManager)' % label, len(ds), where=F.where(FN, good[0][0].line)))
	# the regenerated close update is numbered after the monitor
	okid = False
	for b, si in sites_field_write(fu, 'update_id', 'ChannelMonitorUpdate'):
		e = ex.of_rvalue(fu.blocks[b]['s'][si][2])
		t = expr_str(e)
		if 'get_latest_update_id' in t and ('saturating_add' in t or 'Add' in t):
			terms, k = linear(e)
			if k == 1:
				okid = True
	out.append(Result('10.a', okid, ('ok:' if okid else 'shape:') + 'close-update-id', 'the close update regenerated for a stale channel gets update_id = monitor.get_latest_update_id() + 1', 1, where=F.where(FN)))
	# force_shutdown reason
	okr = bool({b for b, s in sites_construct(fu, 'ClosureReason', 'OutdatedChannelManager')})
	out.append(Result('10.a', okr, ('ok:' if okr else 'shape:') + 'outdated-reason', 'stale channels are closed with ClosureReason::OutdatedChannelManager', 1, where=F.where(FN)))
	# the converse: monitor behind manager => DangerousValue
	ms = [(g, o) for g, o in _cmp(F, r'get_latest_unblocked_monitor_update_id\(', r'max_in_flight_update_id')]
	good = [(g, o) for g, o in ms if (o[1], o[2]) in (('Gt', 0), ('Ge', 1))]
	if not good:
		out.append(Result('10.a', False, 'guard:dangerous', 'no `manager ahead of monitor and in-flight updates` comparison found (%s)' % [cmp_str(o) for g, o in ms], len(ms), where=F.where(FN)))
	else:
		g = good[0][0]
		dv = constructs_pred('DecodeError', 'DangerousValue')
		ok = False
		for d in g.decisions:
			tb = g.fu.reach([e[1] for e in d.true_edges])
			if any(dv(g.fu, b) for b in tb):
				ok = True
		out.append(Result('10.a', ok, ('ok:' if ok else 'guard:') + 'dangerous-value', 'a channel ahead of its monitor (beyond the in-flight updates) is refused with DecodeError::DangerousValue', 1, where=F.where(FN, g.line)))
		oks = set(ok_return_blocks(fu))
		out += P4_fail_blocks(F, '10.a', g.fu, oks, g.decisions, False, 'channel not ahead of monitor', key='dangerous->ok')
	return out

def r10c(F):
	out = []
	fam = F.family(FN)
	gs = guards_in(F, FN)
	done = [g for g in gs if re.search(r'get_latest_update_id\(monitor\)', g.text()) and 'update.update_id' in g.text()]
	le = [g for g in done if (g.nf[1], g.nf[2]) in (('Ge', 0), ('Gt', -1))]   # latest - id >= 0  <=> id <= latest (completed)
	gt = [g for g in done if (g.nf[1], g.nf[2]) in (('Lt', 0), ('Le', -1))]   # latest - id < 0   <=> id > latest (replay)
	out.append(Result('10.c', len(le) >= 2, ('ok:' if len(le) >= 2 else 'shape:') + 'completed-filter', 'in-flight updates counted as completed iff update_id <= monitor.get_latest_update_id(): %d site(s) %s' % (len(le), [g.text() for g in done][:4]), len(done), where=F.where(FN)))
	out.append(Result('10.c', len(gt) >= 2, ('ok:' if len(gt) >= 2 else 'shape:') + 'replay-filter', 'in-flight updates replayed iff update_id > monitor.get_latest_update_id(): %d site(s)' % len(gt), len(done), where=F.where(FN)))
	# replay pushes MonitorUpdateRegeneratedOnStartup on the true edge
	for g in gt:
		acts = {b for b, s in sites_construct(g.fu, 'BackgroundEvent', 'MonitorUpdateRegeneratedOnStartup')}
		out += P4_guarded(F, '10.c', g.fu, acts, g.decisions, True, 'update is newer than the monitor', key='replay@' + g.fu.name.rsplit('::', 1)[-1])
	# all complete == every in-flight update completed
	fu = F.func(FN)
	eqs = [g for g in gs if g.fu.name == fu.name and 'count(' in g.text() and 'len(' in g.text()]
	good = [g for g in eqs if (g.nf[1], g.nf[2]) == ('Eq', 0)]
	out.append(Result('10.c', len(good) >= 2, ('ok:' if len(good) >= 2 else 'shape:') + 'all-completed', '`all updates completed` compares the number of completed in-flight updates with the number of in-flight updates: %s' % [g.text()[-60:] for g in eqs], max(1, len(eqs)), where=F.where(FN)))
	for g in good:
		acts = set()
		for b, s in sites_construct(fu, 'BackgroundEvent', 'MonitorUpdatesComplete'):
			acts.add(b)
		ds = g.decisions
		# each expansion guards its own construction: the construction reachable from this decision's true edge
		mine = {b for b in acts if any(b in fu.reach([e[1] for e in d.true_edges], removed_edges=[e2 for d2 in ds for e2 in d2.false_edges]) for d in ds)}
		ok = bool(mine) and not any(b in fu.reach([e[1] for e in d.false_edges], removed_edges=[e2 for d2 in ds for e2 in d2.true_edges]) and False for d in ds for b in mine)
		out.append(Result('10.c', bool(mine), ('ok:' if mine else 'guard:') + 'complete-event@%d' % len(mine), 'MonitorUpdatesComplete is queued on the all-completed edge', len(acts), where=F.where(FN, g.line)))
	# the in-flight set is kept (re-inserted) for the peer state in both arms
	return out

def r10b(F):
	out = []
	out += P3_field_census(F, '10.b', 'ChannelManager.background_events_processed_since_startup',
		[CM + 'process_background_events', CM + 'new', CM + 'from_channel_manager_data'], kinds=('w', 'wi', 'bm', 'bmi'), floor=0)
	out = [r for r in out if r.key != 'floor']
	# stores to the flag
	F.calls
	stores = []
	for k in F.fns:
		if not k.startswith('lightning::ln::channelmanager::'):
			continue
	f = F.field('ChannelManager.background_events_processed_since_startup')
	st = {root_fn(fn) for fn, k, line in F.fieldacc[f] if k.endswith('::store') or k.endswith('Atomic::store') or k.endswith('AtomicBool::store')}
	ok = st == {F.fn(CM + 'process_background_events')}
	out.append(Result('10.b', ok, ('ok:' if ok else 'writer:') + 'flag-store', 'background_events_processed_since_startup is stored only in %s' % sorted(x.rsplit('::', 1)[-1] for x in st), len(st)))
	out += P1_who_may_call(F, '10.b', [CM + 'process_background_events'],
		['lightning::ln::channelmanager::PersistenceNotifierGuard::optionally_notify', 'lightning::ln::channelmanager::PersistenceNotifierGuard::manually_notify',
		 CM + 'process_pending_events', '<lightning::ln::channelmanager::ChannelManager as lightning::events::EventsProvider>::process_pending_events', CM + 'process_pending_events_async', 'lightning::ln::channelmanager::PersistenceNotifierGuard::notify_on_drop'], floor=2)
	return out

def r10d(F):
	out = []
	out += P1_who_may_call(F, '10.d', [FC + 'on_startup_drop_completed_blocked_mon_updates_through'], [FN], floor=1)
	out += P1_who_may_call(F, '10.f', ['lightning::ln::outbound_payment::OutboundPayments::insert_from_monitor_on_startup'], [FN], floor=1)
	callers = {root_fn(r[0]) for r in F.callers(F.fn(CM + 'claim_funds_internal'))} 
	ok = F.fn(FN) in callers
	out.append(Result('10.f', ok, ('ok:' if ok else 'missing:') + 'startup-claim-replay', 'from_channel_manager_data replays pending claims through claim_funds_internal', 1, where=F.where(FN)))
	n = len([r for r in F.callers(F.fn(CM + 'fail_htlc_backwards_internal')) if root_fn(r[0]) == F.fn(FN)])
	out.append(Result('10.f', n >= 2, ('ok:' if n >= 2 else 'missing:') + 'startup-fail-replay', 'from_channel_manager_data fails back HTLCs that were dropped while offline (%d call sites, expected >= 2)' % n, n, where=F.where(FN)))
	# closed channels without a manager entry get a ChannelForceClosed update unless the monitor already refuses updates
	fu = F.func(FN)
	acts = {b for b, s in sites_construct(fu, 'ChannelMonitorUpdateStep', 'ChannelForceClosed')}
	out += guarded_by_call(F, '10.d', FN, acts, ['no_further_updates_allowed'], 'bool', False)
	return out

OPAY = 'lightning::ln::outbound_payment::'
OP = OPAY + 'OutboundPayments::'

def r10g(F):
	"""payments rebuilt from monitors: an entry that had not yet recorded any HTLC is replaced by a Retryable one holding the HTLC found in the monitor"""
	out = []
	fn = OP + 'insert_from_monitor_on_startup'
	fu = F.func(fn)
	adt = F.adt(OPAY + 'PendingOutboundPayment')
	vs = enum_variants(F, adt)
	with_privs = {rec[0] for rec in F.adts[adt] if rec[1] == 'session_privs'}
	pre_htlc = [v for v in vs if v not in with_privs]
	if len(pre_htlc) < 2 or len(with_privs) < 3:
		return [Result('10.g', False, 'anchor:variants', 'PendingOutboundPayment: variants with/without session_privs not recognised (%s / %s)' % (sorted(with_privs), pre_htlc))]
	sw = [x for x in variant_switch_edges(fu, lambda pl: True, vs) if len(x[1]) >= 2]
	if not sw:
		return [Result('10.g', False, 'anchor:variant-switch', 'insert_from_monitor_on_startup no longer matches on the existing PendingOutboundPayment variant', where=F.where(fn))]
	sb, m, other = max(sw, key=lambda x: len(x[1]))
	retry = {b for b, s in sites_construct(fu, 'PendingOutboundPayment', 'Retryable')}
	ins = set(sites_call(fu, [OPAY + 'PendingOutboundPayment::insert']))
	targets = set(m.values()) | {other}
	def arm(v):
		return m.get(v, other)
	for v in vs:
		tb = arm(v)
		same = {x for x in vs if arm(x) == tb}
		r = fu.reach([tb], removed_blocks=(targets - {tb}) | {sb})
		if v in pre_htlc:
			ok = bool(r & retry) and not (r & ins)
			out.append(Result('10.g', ok, ('ok:' if ok else 'table:') + 'rebuild:' + v, 'an existing %s entry (no HTLC recorded yet) is replaced by a Retryable payment holding the monitor\'s HTLC' % v if ok else 'an existing %s entry is NOT converted to Retryable when the monitor already holds an HTLC for it: the payment would be sent again' % v, 1, where=F.where(fn, fu.line_of(tb))))
		else:
			ok = bool(r & ins) and not (r & retry)
			out.append(Result('10.g', ok, ('ok:' if ok else 'table:') + 'add-path:' + v, 'an existing %s entry gets the monitor\'s HTLC added as one more path' % v, 1, where=F.where(fn, fu.line_of(tb))))
	return out

def r10h(F):
	"""the monitor is told a payment's resolution was handled only together with the LAST event generated for it"""
	out = []
	fn = OP + 'fail_htlc'
	fu = F.func(fn)
	ex = Expr(fu)
	pushes = []
	for b in fu.call_blocks(lambda p: p.endswith('VecDeque::push_back')):
		a = ex.of_operand(fu.blocks[b]['t'][2]['args'][1])
		act = None
		if a[0] == 'agg' and len(a[3]) == 2:
			act = a[3][1]
		if act is None:
			continue
		is_none = act[0] == 'agg' and act[2] == 'None'
		ev = expr_str(a[3][0])
		pushes.append((b, is_none, ev))
	withact = [p for p in pushes if not p[1]]
	if len(pushes) < 2 or not withact:
		return [Result('10.h', False, 'anchor:event-pushes', 'fail_htlc: event pushes with their completion actions not found (%d pushes, %d with an action)' % (len(pushes), len(withact)), len(pushes), where=F.where(fn))]
	allb = {p[0] for p in pushes}
	for b, is_none, ev in withact:
		later = fu.reach([s2 for s2 in fu.succ(b)]) & allb
		out.append(Result('10.h', not later, ('ok:' if not later else 'order:') + 'action-on-last-event@%d' % withact.index((b, is_none, ev)), 'the completion action (ReleasePaymentCompleteChannelMonitorUpdate) rides on the last event pushed for the HTLC' if not later else 'an event carrying the completion action is followed by another event push (line %s): handling the first event would already tell the monitor the payment is resolved, and a crash before the terminal event loses it' % [fu.line_of(x) for x in later], len(pushes), where=F.where(fn, fu.line_of(b))))
	# and every path to return that pushes anything ends with an action-carrying push
	nb = [p[0] for p in pushes if p[1]]
	for b in nb:
		p = fu.path([s2 for s2 in fu.succ(b)], fu.return_blocks(), removed_blocks={x[0] for x in withact})
		out.append(Result('10.h', p is None, ('ok:' if p is None else 'order:') + 'none-push-followed@%d' % nb.index(b), 'an event pushed without completion action is always followed by the event that carries it', 1, where=F.where(fn, fu.line_of(b))))
	return out

def r10i(F):
	"""an event's completion action runs only once the user's handler returned Ok for that event: an event kept for replay keeps its action"""
	out = []
	F.calls
	users = sorted({r[0] for r in F.callers_of.get(F.fn(CM + 'handle_post_event_actions'), [])})
	n = 0
	for cn in users:
		fu = F.func(cn)
		pushes = []
		for b, ci in fu.calls():
			f = norm(ci.get('f') or ci.get('t') or '')
			a = ci['args'][0] if ci['args'] else None
			if f.endswith('Vec::push') and a and a[0] in ('c', 'm') and 'Vec<lightning::ln::channelmanager::EventCompletionAction>' in (fu.locals[a[1][0]].get('ty') or ''):
				pushes.append(b)
		if not pushes:
			continue
		# the switch on the handler's Result<(), ReplayEvent>
		def is_handler_result(pl):
			ty = (fu.locals[pl[0]].get('ty') or '').lstrip('&')
			return ty.startswith('core::result::Result<') and 'ReplayEvent' in ty   # not the Poll<Result<..>> of the awaited handler
		sw = variant_switch_edges(fu, is_handler_result, ['Ok', 'Err'])
		# the same test written with is_ok() / is_err()
		exr = Expr(fu)
		for b2, ci2 in fu.calls():
			f2 = norm(ci2.get('f') or '')
			if f2.endswith(('Result::is_ok', 'Result::is_err')) and ci2['args']:
				a0 = ci2['args'][0]
				ids = set(expr_local_ids(exr.of_operand(a0))) | ({a0[1][0]} if a0[0] in ('c', 'm') and a0[1] else set())
				if any('ReplayEvent' in (fu.locals[l].get('ty') or '') for l in ids):
					for d in call_decisions(fu, [b2], 'bool'):
						t_e = d.true_edges if f2.endswith('is_ok') else d.false_edges
						f_e = d.false_edges if f2.endswith('is_ok') else d.true_edges
						if t_e and f_e:
							sw.append((t_e[0][0], {'Ok': t_e[0][1], 'Err': f_e[0][1]}, f_e[0][1]))
		short = cn.split('::')[-1] if '{closure' not in cn else cn.split('::')[-2]
		if not sw:
			out.append(Result('10.i', False, 'anchor:handler-result@' + short, '%s: no switch on the event handler result found' % short, where=F.where(cn)))
			continue
		for b in pushes:
			n += 1
			ok = False
			for sb, m, other in sw:
				okb = m.get('Ok')
				errb = m.get('Err', other)
				if okb is None:
					continue
				# the push is reachable from the Ok arm and from nowhere else: not from entry once the Ok edge is cut
				if b in fu.reach([okb], removed_blocks={sb}) and fu.path([0], [b], removed_edges={(sb, okb)}) is None:
					ok = True
			out.append(Result('10.i', ok, ('ok:' if ok else 'early:') + 'completion-action-after-handler-ok@' + short, '%s: the EventCompletionAction of an event is queued for execution only on the Ok arm of the handler result%s' % (short, '' if ok else ' - it is queued whatever the handler returned: an event the handler asked to replay (Err(ReplayEvent)) stays queued but its action (e.g. the monitor update marking the payment resolved) already ran, so after a restart the event is never regenerated'), 1, where=F.where(cn, fu.line_of(b))))
	if n < 2:
		out.append(Result('10.i', False, 'floor:event-loops', 'only %d event-processing loop(s) with completion actions found (expected the sync and the async expansion)' % n, n))
	return out

def r10j(F):
	"""every monitor update recording a new holder commitment carries the preimages of the outbound HTLCs that commitment removes: whichever
	ChannelMonitorUpdateStep variant is used (single or batched / splice), its claimed_htlcs field is filled from the same list"""
	out = []
	adt = 'lightning::chain::channelmonitor::ChannelMonitorUpdateStep'
	a = F.adt(adt)
	want = sorted({r[0] for r in F.adts[a] if r[1] == 'claimed_htlcs'})
	vs = enum_variants(F, adt)
	fn = 'lightning::ln::channel::FundedChannel::commitment_signed_update_monitor'
	fu = F.func(fn)
	ex = Expr(fu)
	if len(want) < 2:
		return [Result('10.j', False, 'anchor:claimed_htlcs-variants', 'expected >= 2 ChannelMonitorUpdateStep variants with a claimed_htlcs field, found %s' % want)]
	def is_step(pl):
		ty = fu.locals[pl[0]].get('ty') or ''
		return 'ChannelMonitorUpdateStep' in ty
	sws = [x for x in variant_switch_edges(fu, is_step, vs) if set(want) & set(x[1])]
	if len(sws) != 1:
		return [Result('10.j', False, 'anchor:step-switch', 'commitment_signed_update_monitor: expected one match on the update step, found %d' % len(sws), where=F.where(fn))]
	sb, m, other = sws[0]
	regions = {v: fu.reach([t], removed_blocks={sb}) for v, t in m.items()}
	regions['_'] = fu.reach([other], removed_blocks={sb})
	for v in want:
		if v not in m:
			out.append(Result('10.j', False, 'missing-arm:' + v, 'commitment_signed_update_monitor has no arm for ChannelMonitorUpdateStep::%s although it carries claimed_htlcs' % v, where=F.where(fn)))
			continue
		excl = set(regions[v])
		for v2, r in regions.items():
			if v2 != v:
				excl -= r
		stores = []
		for bi in sorted(excl):
			for st in fu.blocks[bi]['s']:
				pl = st[1]
				if len(pl) == 2 and pl[1] == '*' and 'SentHTLCId' in (fu.locals[pl[0]].get('ty') or '') and (fu.locals[pl[0]].get('ty') or '').startswith('&mut'):
					e = ex.of_rvalue(st[2])
					lv = expr_leaves(e)
					fresh = any(c.endswith('Vec::new') or c.endswith('Default::default') for c in lv['calls']) and not lv['locals']
					stores.append((bi, fresh, leaf_key(e)[:60]))
		good = [x for x in stores if not x[1]]
		ok = bool(good)
		out.append(Result('10.j', ok, ('ok:' if ok else 'forgotten:') + 'claimed-htlcs-filled@' + v, 'commitment_signed_update_monitor: the %s arm stores the list of claimed outbound HTLCs into the update (%s)%s' % (v, [x[2] for x in stores], '' if ok else ' - without it the monitor never learns the preimage: after a restart with a stale manager the payment is reported failed although it was claimed'), len(stores) + 1, where=F.where(fn, fu.line_of(m[v]))))
	# ... and the monitor side records them whichever variant arrives: both arms of update_monitor hand the variant's claimed_htlcs on,
	#     the legacy routine forwards its parameter, and update_holder_commitment_data inserts every entry into counterparty_fulfilled_htlcs
	MONI = 'lightning::chain::channelmonitor::ChannelMonitorImpl::'
	def is_claimed_param(fu2, e):
		return any(1 <= l <= fu2.argc and 'SentHTLCId' in (fu2.locals[l].get('ty') or '') for l in expr_local_ids(e))
	def arg_keys(fn, callee):
		fu2 = F.func(fn); ex2 = Expr(fu2)
		got = []
		for b in sites_call(fu2, [MONI + callee]):
			es = [ex2.of_operand(a) for a in fu2.blocks[b]['t'][2]['args']]
			got.append((fu2.line_of(b), [('<claimed-param>' if is_claimed_param(fu2, e) else leaf_key(e)) for e in es]))
		return got
	for fn2, callee, how in ((MONI + 'update_monitor', 'provide_latest_holder_commitment_tx', 'field'), (MONI + 'update_monitor', 'update_holder_commitment_data', 'field'), (MONI + 'provide_latest_holder_commitment_tx', 'update_holder_commitment_data', 'param')):
		sites = arg_keys(fn2, callee)
		ok = bool(sites)
		for line, keys in sites:
			if how == 'field':
				ok = ok and any(k.endswith('.claimed_htlcs') for k in keys)
			else:
				ok = ok and any(k == '<claimed-param>' for k in keys)
		out.append(Result('10.j', ok, ('ok:' if ok else 'forgotten:') + 'claimed-htlcs-handed-on@%s->%s' % (fn2.rsplit('::', 1)[-1], callee), '%s passes the claimed HTLCs of the update to %s (%d call site(s))' % (fn2.rsplit('::', 1)[-1], callee, len(sites)), len(sites), where=F.where(fn2)))
	uh = F.func(MONI + 'update_holder_commitment_data')
	exu = Expr(uh)
	ins = []
	for b, ci in uh.calls():
		if norm(ci.get('f') or '').endswith('HashMap::insert') and ci['args'] and leaf_key(exu.of_operand(ci['args'][0])).endswith('counterparty_fulfilled_htlcs'):
			ins.append((b, [('<claimed-param>' if is_claimed_param(uh, exu.of_operand(a)) else leaf_key(exu.of_operand(a))) for a in ci['args'][1:]]))
	ok = bool(ins) and all(all(k == '<claimed-param>' for k in ks) for b, ks in ins)
	if ok:
		# the insertion loop is entered unconditionally: nothing but the error returns lies between entry and the loop
		heads = loop_heads(uh) | back_edge_heads(uh)
		ok = all(any(b in uh.reach([h]) for h in heads) for b, ks in ins)
	out.append(Result('10.j', ok, ('ok:' if ok else 'forgotten:') + 'claimed-htlcs-recorded', 'update_holder_commitment_data inserts every claimed HTLC (id -> preimage) into counterparty_fulfilled_htlcs (%s)' % [ks for b, ks in ins], len(ins), where=F.where(uh.name)))
	return out

def r10k(F):
	"""deserialization: (i) the legacy in-flight-update map (keyed by funding outpoint) is converted only when the new map (keyed by channel id) is
	absent - the two are never merged, because after a splice the legacy key no longer names the channel; (ii) the "does this closed monitor
	need an update-id entry" threshold used at start-up equals the one used when a channel is closed at run time"""
	out = []
	rfn = '<lightning::ln::channelmanager::ChannelManagerData as lightning::util::ser::ReadableArgs>::read'
	fu = F.func(rfn)
	fam = F.family(rfn)
	conv = [n for n in fam if n != F.fn(rfn) and any(norm(ci.get('f') or '').endswith('ChannelId::v1_from_funding_outpoint') for b, ci in F.func(n).calls())]
	sites = []
	for bi, si, st in fu.stmts():
		rv = st[2]
		if rv[0] == 'agg' and rv[1] == 'closure' and norm(rv[2]) in conv and bi in fu.reach([0]):
			sites.append(bi)
	for b, ci in fu.calls():
		if norm(ci.get('f') or '').endswith('ChannelId::v1_from_funding_outpoint') and b in fu.reach([0]):
			sites.append(b)
	if not sites:
		out.append(Result('10.k', False, 'anchor:legacy-in-flight-conversion', 'ChannelManagerData::read no longer converts legacy in-flight updates', where=F.where(rfn)))
	for bi in sites:
		conds = control_conds(fu, bi)
		# the conversion must sit on the None edge of the switch on the new map
		okc = False
		for sb, k, ln in conds:
			if k.startswith('disc:') and 'in_flight_monitor_updates' in k and 'legacy' not in k:
				t = fu.blocks[sb]['t']
				none_t = [tb for v, tb in t[3] if v == 0]
				none_t = none_t[0] if none_t else t[4]
				some_ts = [tb for v, tb in t[3] if v != 0] + ([t[4]] if none_t != t[4] else [])
				in_none = bi in fu.reach([none_t], removed_blocks={sb})
				in_some = any(bi in fu.reach([x], removed_blocks={sb}) for x in some_ts)
				okc = in_none and not in_some
		out.append(Result('10.k', okc, ('ok:' if okc else 'merged:') + 'legacy-in-flight-only-when-new-absent', 'legacy in-flight monitor updates are converted to channel-id keys only on the arm where the new map is absent%s' % ('' if okc else ' - converting them although the new map is present re-keys the update of a spliced channel to a channel id that has no monitor: the manager can no longer be read'), len(conds), where=F.where(rfn, fu.line_of(bi))))
	# (ii) sibling thresholds
	def thresholds(fn, leaf_re):
		ts = []
		for cu in [F.func(x) for x in F.family(fn)]:
			for c in comparisons(cu):
				g = Guard(cu, c)
				if len(g.nf[0]) == 1 and re.search(leaf_re, list(g.nf[0])[0]) and list(g.nf[0].values())[0] == 1:
					ts.append((g.nf[1], g.nf[2], g.line))
		return ts
	a = thresholds(CM + 'from_channel_manager_data', r'get_latest_update_id\(')
	b = thresholds(CM + 'locked_handle_funded_close_internal', r'get_latest_monitor_update_id\(|^update_id$')
	a1 = {(op, k) for op, k, ln in a if op in ('Gt', 'Ge') and k in (0, 1, 2, 3)}
	b1 = {(op, k) for op, k, ln in b if op in ('Gt', 'Ge') and k in (0, 1, 2, 3)}
	def canon(x):
		return {k + (1 if op == 'Gt' else 0) for op, k in x}
	ok = bool(a1) and bool(b1) and canon(a1) == canon(b1) == {2}
	out.append(Result('10.k', ok, ('ok:' if ok else 'threshold:') + 'closed-monitor-tracking-threshold', 'a closed channel gets a closed_channel_monitor_update_ids entry iff its monitor saw an update beyond the closing one (update id >= 2): start-up uses %s, run-time close uses %s%s' % (sorted(a1), sorted(b1), '' if ok else ' - with different thresholds a monitor at exactly that id has no entry (and possibly no peer state) after a restart, and handling its payment resolution panics'), len(a) + len(b), where=F.where(CM + 'from_channel_manager_data')))
	return out

def r10l(F):
	"""the Fulfilled marker of an outbound payment outlives its HTLCs: it is what keeps the restart logic from rebuilding the payment from the
	monitor as retryable (same structural rule as 03.f: idle ticks are counted only while session_privs is empty)"""
	import C03
	out = [r for r in C03.r03f(F) if 'idle-ticks' in r.key]
	for r in out:
		r.rule = '10.l'
	if not out:
		out.append(Result('10.l', False, 'anchor:idle-ticks', 'the idle-tick rule of remove_stale_payments was not found'))
	return out

RULES = [
	('10.a', 'resume only when the manager is not behind the monitor (else force-close + regenerated update); monitor behind manager => DangerousValue', r10a),
	('10.b', 'the Watch is driven only after background events ran; the flag is stored only by process_background_events', r10b),
	('10.c', 'in-flight replay: exactly the updates newer than the monitor are replayed; all-complete means all', r10c),
	('10.g', 'payments rebuilt from monitors: entries without recorded HTLCs become Retryable, others get the path added', r10g),
	('10.h', 'the payment-complete monitor update is released only by the last event of a failed HTLC', r10h),
	('10.i', 'event completion actions are queued only after the handler returned Ok (sync and async event loops)', r10i),
	('10.j', 'every holder-commitment monitor update variant carries the claimed outbound HTLCs (sibling arms agree)', r10j),
	('10.k', 'deserialization: legacy in-flight map only when the new one is absent; closed-monitor tracking threshold equals the run-time one', r10k),
	('10.l', 'a fulfilled payment is forgotten only once none of its HTLCs is outstanding (it guards the restart rebuild)', r10l),
	('10.m', 'restart-time replay of on-chain HTLC failures: waits for maturity; compares a confirmed counterparty commitment (current or previous) with its own HTLC list', lambda F: chainrules.restart_replay_guard(F, '10.m')),
	('10.d', 'startup-only helpers are reachable only from the restart routine; reconstruction calls exist', r10d),
	('10.p', 'same-name field transfer: structs carrying this property\'s quantities are filled from the same-named field or a reviewed alias (rules/provenance.py)', lambda F: provenance.for_property(F, 'C10', '10.p')),
	('10.v', 'field-versus-field comparisons (a received value against a limit, an id against an id) are the reviewed ones: same fields, same operator (rules/provenance.py)', lambda F: provenance.cmps_for_property(F, 'C10', '10.v')),
]
RULES.append(('10.u', 'obligation-carrying values returned by workspace calls (to-fail HTLC lists, monitor updates, events, peer messages, claim packages) are never dropped on a path that does not examine them (rules/obligations.py)', lambda F: obligations.for_property(F, 'C10', '10.u')))
RULES.append(('10.t', 'identity comparisons: every reviewed (function, identity type) == / != comparison (HTLCSource, Txid, OutPoint, ChannelId, PaymentHash, PublicKey, ...) is still made - a function does not silently change what it matches by (rules/provenance.py)', lambda F: provenance.ids_for_property(F, 'C10', '10.t')))
RULES.append(('10.M', 'collection mutations: every reviewed (function, stored collection, mutator class: add / remove / filter / empty / swap / order) triple is still present - an entry that is no longer removed, inserted or drained on one path (rules/mutations.py)', lambda F: mutations.for_property(F, 'C10', '10.M')))
RULES.append(('10.E', 'event replay: the count of events drained from pending_events (ChannelManager, ChannelMonitor, ChainMonitor; sync and async expansions) is advanced only on the Ok arm of the handler result - an event whose handler failed stays queued and is replayed (rules/eventloops.py)', lambda F: eventloops.rule(F, '10.E', r'.', 5)))
RULES.append(('10.G', 'guard census: no reviewed call of a workspace function and no reviewed mutation of a stored collection gained a controlling branch condition (an added `&& cond`, early return / continue, more specific match arm in front of an act); counts per call site, name free (rules/guards.py)', lambda F: guards.for_property(F, 'C10', '10.G')))
RULES.append(('10.K', 'constant census of linear forms: every comparison (normalised to sum >= K over name-free atoms, a comparison and its negation being one form) and every maximal arithmetic expression of a reviewed function keeps its coefficients and its constant - a dropped or added `+ 1` / `- 1`, `<` for `<=` inside a computed bound, a scale factor applied twice or not at all, swapped operands of a comparison (rules/linforms.py; shapes that appear or disappear are not judged, the guard / arithmetic censuses judge those)', lambda F: linforms.for_property(F, 'C10', '10.K')))

def r10n(F):
	"""a restart is a disconnect the peer also saw: FundedChannel::write stores the channel as the peer will see it after reconnecting - inbound
	HTLCs the peer announced but did not commit are dropped AND the inbound HTLC id counter is reduced by their number, an announced inbound fee
	update is dropped - exactly what the in-memory disconnect path does.  A snapshot taken between update_add_htlc and commitment_signed that keeps
	the unreduced counter rejects the peer's (correct) retransmission after the restart with "Remote skipped HTLC ID" and force-closes a channel
	that was in sync: resuming at that crash point is not safe.  Same structural rules as 12.g, judged here for C10."""
	import C12
	out = []
	for r in C12.r12g(F):
		r.rule = '10.n'
		out.append(r)
	return out

RULES.append(('10.n', 'the persisted channel equals the channel after the disconnect a restart implies (inbound HTLC id counter reduced by the dropped uncommitted HTLCs, announced fee update dropped) - so that the peer\'s retransmission after a restart from a snapshot taken mid-update is accepted', r10n))
