"""Hand-written one-byte enum codecs (`match self { A => 0u8.write(w), .. }` / `match u8::read(r)? { 0 => A, .. }`): the variant->byte table
of the writer and the byte->variant table of the reader are extracted from the MIR and compared. Used by C12 (12.h)."""
from engine import *

def writer_table(F, n, adt):
	"""{variant: [first u8 constant written in the arm exclusive to that variant]} or None when `n` is not of the shape"""
	fu = F.func(n); ex = Expr(fu)
	vs = enum_variants(F, adt)
	sws = [x for x in variant_switch_edges(fu, lambda pl: pl[0] == 1, vs)]
	if not sws:
		return None
	sb, m, other = sws[0]
	if sb not in fu.reach([0]):
		return None
	tab = {}
	for v, t in m.items():
		r = fu.reach([t], removed_blocks={sb})
		others = set()
		for v2, t2 in m.items():
			if v2 != v and t2 != t:      # variants grouped in one arm (`A | B => ..`) share the target
				others |= fu.reach([t2], removed_blocks={sb})
		excl = r - others
		vals = []
		for b, ci in fu.calls():
			if b in excl and norm(ci.get('f') or '').endswith('<u8 as lightning::util::ser::Writeable>::write'):
				e = ex.of_operand(ci['args'][0])
				while e[0] in ('ref', 'deref'):
					e = e[1]
				vals.append(e[1] if e[0] == 'const' else None)
		tab[v] = vals
	return tab

def reader_table(F, n, adt):
	"""{byte: set(variants constructed in the arm exclusive to that byte)} for the widest switch on a u8 that was read from the stream"""
	fu = F.func(n); ex = Expr(fu)
	best = None
	live = fu.reach([0])
	for bi, b in enumerate(fu.blocks):
		t = b['t']
		if t[1] == 'switch' and t[2][0] in ('c', 'm') and len(t[2][1]) == 1 and fu.locals[t[2][1][0]].get('ty') == 'u8' and bi in live:
			e = ex.of_operand(t[2])
			if not any(c.endswith('::read') for c in expr_leaves(e)['calls']):
				continue
			vals = {v: tb for v, tb in t[3]}
			if len(vals) >= 2 and (best is None or len(vals) > len(best[1])):
				best = (bi, vals, t[4])
	if not best:
		return None
	sb, vals, other = best
	tab = {}
	for v, tb in vals.items():
		r = fu.reach([tb], removed_blocks={sb})
		others = fu.reach([other], removed_blocks={sb})
		for v2, t2 in vals.items():
			if v2 != v:
				others |= fu.reach([t2], removed_blocks={sb})
		got = set()
		for bi in r - others:
			for st in fu.blocks[bi]['s']:
				rv = st[2]
				if rv[0] == 'agg' and rv[1] == 'adt' and norm(rv[2]) == adt:
					got.add(rv[3])
		tab[v] = got
	return tab

def codecs(F, prefix='<lightning::'):
	"""[(adt, writer fn, {variant: byte}, reader fn, {byte: variants})] for every enum whose writer has the one-byte-per-arm shape"""
	out = []
	for n in sorted(F.fns):
		if not (n.startswith(prefix) and n.endswith(' as lightning::util::ser::Writeable>::write')):
			continue
		adt = n[1:].split(' as ')[0]
		try:
			wt = writer_table(F, n, adt)
		except (AnchorMissing, KeyError, IndexError):
			wt = None
		if not wt or len(wt) < 2 or not all(len(v) == 1 and v[0] is not None for v in wt.values()):
			continue
		w = {v: x[0] for v, x in wt.items()}
		for r in sorted(x for x in F.fns if x.startswith('<' + adt + ' as lightning::util::ser::') and x.endswith('::read') and '{closure' not in x):
			try:
				rt = reader_table(F, r, adt)
			except (AnchorMissing, KeyError, IndexError):
				rt = None
			if rt:
				out.append((adt, n, w, r, rt))
	return out
