"""Sibling agreement of enum accessors (rule ids NN.A).

An accessor `fn f(&self) -> T { match self { V1(a) => a.x, V2(b) => b.x, V3(_) => None } }` is a table variant -> value.  When it returns the
field `x` of the payload for one variant, every other variant whose payload carries a field of the same name and type must return that field
too - a variant moved to the `=> None` / default arm keeps type-checking ("the confirmation height of this claim kind is not tracked") and
silently changes what every caller computes for that kind of object.  Deviations on the reviewed tree are the exception table below, each
with its reason.  Decided from the MIR of each accessor: the arm of a variant is what is reachable from its switch target."""
import collections, re
from engine import *

def _strip(e):
	for _ in range(30):
		k = e[0]
		if k in ('deref', 'ref', 'cast'):
			e = e[1]; continue
		if k == 'call' and e[2] and (e[1] or '').rsplit('::', 1)[-1] in ('clone', 'as_ref', 'copied', 'cloned', 'into', 'as_deref', 'as_slice', 'as_str', 'to_owned', 'deref', 'borrow', 'as_mut'):
			e = e[2][0]; continue
		if k == 'agg' and e[2] in ('Some', 'Ok') and len(e[3]) == 1:
			e = e[3][0]; continue
		return e
	return e

def _payload_fields(F, adt, variant):
	"""{field name: type} reachable as `payload.field` for this variant: the variant's own named fields, or the fields of its single struct payload"""
	recs = [r for r in F.adts[adt] if r[0] == variant]
	out = {}
	named = [r for r in recs if r[1] != '-' and not str(r[1]).isdigit()]
	for r in named:
		out[r[1]] = r[2]
	tup = [r for r in recs if str(r[1]).isdigit()]
	if len(tup) == 1:
		ty = norm(tup[0][2])
		if ty in F.adts:
			for r in F.adts[ty]:
				if r[1] != '-' and not str(r[1]).isdigit() and r[0] == ty.rsplit('::', 1)[-1]:
					out[r[1]] = r[2]
	return out

def _field_of_self_variant(e):
	"""name of the payload field an expression reads (self@V.0.field or self@V.field), else None"""
	e = _strip(e)
	if e[0] != 'field' or str(e[2]).isdigit():
		return None
	b = e[1]
	for _ in range(6):
		if b[0] in ('deref', 'ref'):
			b = b[1]; continue
		if b[0] == 'field' and str(b[2]).isdigit():
			b = b[1]; continue
		if b[0] == 'local' and b[1] > 1:
			return None
		break
	if b[0] == 'downcast':
		return e[2]
	return None

_CACHE = {}

def _table(F, fu, adt, variants):
	"""variant -> values assigned to the return place in its arm, and variant -> blocks of its arm (reachable from its switch target)"""
	sw = variant_switch_edges(fu, lambda pl: tuple(pl) == (1, '*'), variants)
	if not sw:
		return {}, {}
	bj, m, other = sw[0]
	ex = Expr(fu)
	out, bl = {}, {}
	for v in variants:
		tgt = m.get(v, other)
		if tgt is None:
			continue
		blocks = fu.reach([tgt], removed_blocks=[bj])
		vals = []
		for d in fu.defs.get(0, []):
			bi, si, pl, rv = d
			if bi not in blocks or len(pl) != 1:
				continue
			if si == 'T':
				ci = fu.blocks[bi]['t'][2]
				vals.append(('call', norm(ci.get('f') or ''), [ex.of_operand(a) for a in ci['args']], norm(ci['t']) if ci.get('t') else None))
			else:
				vals.append(ex.of_rvalue(fu.blocks[bi]['s'][si][2]))
		out[v] = vals
		bl[v] = blocks
	return out, bl

def _resolve(fu, e, blocks):
	"""a binding of an or-pattern (`A { x, .. } | B { x, .. } => *x`) has one definition per alternative: inside the arm of one variant the
	definition that lies in that variant's own blocks is the one that counts"""
	ex = Expr(fu)
	for _ in range(6):
		e = _strip(e)
		if e[0] == 'local' and e[1] > fu.argc:
			ds = [d for d in fu.defs.get(e[1], []) if len(d[2]) == 1 and d[0] in blocks]
			if len(ds) == 1 and ds[0][1] != 'T':
				e = ex.of_rvalue(ds[0][3], 1)
				continue
		return e
	return e

def census(F, prefix=('lightning',)):
	"""[(fn, adt, field, variant, returns_field: bool, line)] for every (accessor, field it returns for some variant, variant carrying that field)"""
	if F.dir in _CACHE:
		return _CACHE[F.dir]
	out = []
	for n, r in F.fns.items():
		if not n.startswith(prefix) or '{closure' in n or 'ser_macros' in r['file']:
			continue
		try:
			fu = F.func(n)
		except AnchorMissing:
			continue
		if fu.argc < 1:
			continue
		ty = (fu.locals[1].get('ty') or '')
		if not ty.startswith('&'):
			continue
		adt = norm(ty.lstrip('&').replace('mut ', '').split('<')[0].strip())
		if adt not in F.adts:
			continue
		variants = enum_variants(F, adt)
		if len(variants) < 2 or variants == [adt.rsplit('::', 1)[-1]]:
			continue
		try:
			tab, blocks_of = _table(F, fu, adt, variants)
		except (AnchorMissing, Exception):
			continue
		if not tab:
			continue
		per = {}
		for v, vals in tab.items():
			per[v] = {f for f in (_field_of_self_variant(_resolve(fu, x, blocks_of[v])) for x in vals) if f}
		returned = set().union(*per.values()) if per else set()
		for f in sorted(returned):
			tys = {}
			for v in variants:
				pf = _payload_fields(F, adt, v)
				if f in pf:
					tys[v] = pf[f]
			givers = [v for v in tys if f in per.get(v, ())]
			if not givers:
				continue
			t0 = tys[givers[0]]
			for v in tys:
				if tys[v] != t0 or v not in tab:
					continue
				out.append((n, adt, f, v, f in per.get(v, ()), r['line'] if 'line' in r else 0))
	_CACHE[F.dir] = out
	return out

# (accessor tail, enum tail, field, variant) that do NOT return the same-named field, with the reason
EXCEPTIONS = {
	('claimable_amount_satoshis', 'Balance', 'amount_satoshis', 'MaybePreimageClaimableHTLC'): 'documented: an HTLC we can claim only if we learn the preimage is not counted as claimable (returns 0 by design)',
}

SCOPE = {
	'C01': ([r'ln/channel\.rs$', r'ln/interactivetxs\.rs$', r'ln/funding\.rs$'], 10),
	'C03': ([r'ln/outbound_payment\.rs$'], 7),
	'C06': ([r'chain/package\.rs$', r'chain/channelmonitor\.rs$'], 12),
	'C07': ([r'chain/package\.rs$', r'chain/channelmonitor\.rs$', r'util/sweep\.rs$', r'sign/mod\.rs$'], 20),
	'C11': ([r'chain/package\.rs$', r'chain/channelmonitor\.rs$'], 12),
	'C14': ([r'ln/onion_utils\.rs$', r'blinded_path/payment\.rs$'], 14),
	'C16': ([r'routing/router\.rs$', r'routing/gossip\.rs$'], 22),
	'C17': ([r'routing/gossip\.rs$', r'routing/utxo\.rs$'], 10),
	'C18': ([r'offers/'], 6),
}

def for_property(F, pid, rule_id):
	res, floor = SCOPE[pid]
	return rule(F, rule_id, res, floor)

def rule(F, rule_id, file_res, floor=1):
	out = []
	n = 0
	byfn = collections.defaultdict(list)
	for fn, adt, f, v, ok, line in census(F):
		if not any(re.search(p, F.fns[fn]['file']) for p in file_res):
			continue
		byfn[(fn, adt, f)].append((v, ok))
	for (fn, adt, f), rows in sorted(byfn.items()):
		n += len(rows)
		tail = root_fn(fn).rsplit('::', 1)[-1]
		et = adt.rsplit('::', 1)[-1]
		bad = [v for v, ok in rows if not ok and (tail, et, f, v) not in EXCEPTIONS]
		for v in bad:
			out.append(Result(rule_id, False, 'accessor:%s::%s:%s@%s' % (et, tail, f, v), '%s::%s returns the payload field `%s` for %s but not for the variant %s, which carries a field of the same name and type: objects of that kind are answered with the default (None / 0 / false) instead of their own value' % (et, tail, f, ', '.join(v2 for v2, ok in rows if ok)[:120], v), 1, where=F.where(fn)))
		if not bad:
			out.append(Result(rule_id, True, 'ok:accessor:%s::%s:%s' % (et, tail, f), '%s::%s returns `%s` for every one of the %d variant(s) that carry it' % (et, tail, f, len(rows)), len(rows)))
	if n < floor:
		return [Result(rule_id, False, 'anchor:accessors', 'only %d (accessor, field, variant) cells found in %s (expected >= %d)' % (n, file_res, floor))]
	return out
