"""Field-assignment census (rule ids NN.W): every reviewed (function, Type.field) direct assignment is still made.

The constant resets of NN.R are the special case `field = false / 0 / None`; the general case - `part.total_value_received = Some(total)`,
`self.context.cur_counterparty_commitment_transaction_number -= 1`, `entry.last_update = now` - is state that a path forgets to update when the
assignment disappears or is turned into a conditional form (`get_or_insert`, `if x.is_none() { x = .. }` keeps the assignment; `get_or_insert`
does not).  The table (rules/writes_table.json) holds the (file, function, OwnerType.field) triples with a direct assignment on the reviewed
tree, in both build profiles; a reviewed triple must not disappear while the function exists.  Constructors / readers / derived impls are not
judged, new triples and new functions are not judged, the assigned value is not judged (the provenance rules look at values)."""
import json, os, collections, re
from engine import *

_C = {}

def census(F):
	if F.dir in _C:
		return _C[F.dir]
	keys = set()
	where = {}
	known = collections.defaultdict(set)
	for n, r in F.fns.items():
		if n.startswith(('lightning', '<lightning')):
			fl = r['file'].split('/')[0] + ':' + (r['file'].split('src/')[-1] if 'src/' in r['file'] else r['file'])
			known[fl].add(root_fn(n).rsplit('::', 1)[-1])
	for fld, recs in F.fieldacc.items():
		owner, _, name = fld.rpartition('.')
		if name.isdigit() or not owner.startswith(('lightning', 'bitcoin')):
			continue
		ot = owner.rsplit('::', 1)[-1]
		for fn, k, line in recs:
			if k != 'w':
				continue
			r = F.fns.get(fn)
			if r is None or 'ser_macros' in r['file'] or F.impl_kind.get(root_fn(fn)) == 'derived':
				continue
			tail = root_fn(fn).rsplit('::', 1)[-1]
			if tail in ('new', 'read', 'default', 'from', 'clone') or tail.startswith(('new_', 'read_', 'from_', 'with_')) or 'Readable' in fn:
				continue
			fl = r['file'].split('/')[0] + ':' + (r['file'].split('src/')[-1] if 'src/' in r['file'] else r['file'])
			kk = (fl, tail, ot + '.' + name)
			keys.add(kk)
			where.setdefault(kk, (fn, line))
	_C[F.dir] = (keys, where, known)
	return _C[F.dir]

_T = None
def table():
	global _T
	if _T is None:
		_T = json.load(open(os.path.join(os.path.dirname(os.path.abspath(__file__)), 'writes_table.json')))
	return _T

def rule(F, rule_id, file_res, floor=1):
	keys, where, known = census(F)
	out = []
	n = 0
	for fl, tail, fld in sorted(tuple(x) for x in table()['keys']):
		if not any(re.search(p, fl.replace(':', '/src/')) for p in file_res):
			continue
		if tail not in known.get(fl, ()):
			continue
		n += 1
		if (fl, tail, fld) not in keys:
			fns = [x for x in F.fns if root_fn(x).rsplit('::', 1)[-1] == tail and F.fns[x]['file'].endswith(fl.split(':', 1)[1])]
			out.append(Result(rule_id, False, 'write-lost:%s:%s' % (tail, fld), '%s no longer assigns %s (reviewed: it did): the field keeps its old value on a path on which it used to be updated' % (tail, fld), 1, where=F.where(fns[0]) if fns else fl))
	if n < floor:
		return [Result(rule_id, False, 'anchor:writes', 'only %d reviewed field assignments left in %s (expected >= %d)' % (n, file_res, floor))]
	if not out:
		out.append(Result(rule_id, True, 'ok:writes', '%d reviewed (function, field) assignments in %s are all still made' % (n, '|'.join(file_res)), n))
	return out

SCOPE = {
	'C01': ([r'ln/channel\.rs$', r'ln/interactivetxs\.rs$', r'ln/funding\.rs$'], 208),
	'C02': ([r'ln/channelmanager\.rs$'], 9),
	'C03': ([r'ln/outbound_payment\.rs$', r'ln/channelmanager\.rs$'], 18),
	'C04': ([r'ln/channelmanager\.rs$', r'ln/inbound_payment\.rs$'], 9),
	'C05': ([r'ln/channel\.rs$'], 185),
	'C06': ([r'chain/channelmonitor\.rs$', r'chain/onchaintx\.rs$', r'chain/package\.rs$'], 38),
	'C07': ([r'chain/channelmonitor\.rs$', r'chain/onchaintx\.rs$', r'chain/package\.rs$', r'util/sweep\.rs$'], 46),
	'C09': ([r'ln/channel\.rs$', r'ln/channelmanager\.rs$'], 194),
	'C11': ([r'chain/channelmonitor\.rs$', r'chain/onchaintx\.rs$', r'ln/channel\.rs$'], 218),
	'C14': ([r'ln/onion_utils\.rs$'], 4),
	'C15': ([r'ln/peer_handler\.rs$', r'ln/peer_channel_encryptor\.rs$'], 31),
	'C16': ([r'routing/router\.rs$', r'routing/scoring\.rs$'], 26),
	'C17': ([r'routing/gossip\.rs$', r'lightning-rapid-gossip-sync/'], 10),
	'C18': ([r'lightning-invoice/', r'offers/'], 48),
}

def for_property(F, pid, rule_id):
	res, floor = SCOPE[pid]
	return rule(F, rule_id, res, floor)
