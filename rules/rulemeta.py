import importlib
def describe(pid):
	mod = importlib.import_module(pid)
	return {
		'explanation': mod.EXPLANATION,
		'assumptions': getattr(mod, 'ASSUMPTIONS', []),
		'rules': [{'id': rid, 'what': desc} for rid, desc, _ in mod.RULES],
	}
