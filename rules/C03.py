"""C03 - every outbound payment reaches a truthful terminal outcome (structural part)."""
from engine import *

OP = 'lightning::ln::outbound_payment::OutboundPayments::'
POP = 'lightning::ln::outbound_payment::PendingOutboundPayment::'
CM = 'lightning::ln::channelmanager::ChannelManager::'
FC = 'lightning::ln::channel::FundedChannel::'
EV = 'lightning::events::Event'

EXPLANATION = ('Censuses and guarded-act rules on ln::outbound_payment, ln::channelmanager and ln::channel: the two terminal events are '
	'constructed only at the frozen sites; PaymentSent is pushed only when the payment is not yet fulfilled and is followed by mark_fulfilled on '
	'every path, with payment_hash = SHA256(preimage) of the same preimage; PaymentFailed from an HTLC failure requires (part removed) and (not '
	'fulfilled) and (no parts remaining) and (Abandoned) and removes the entry; claim/fail enter only from the manager funnels; a new payment id '
	'enters the map only through vacant-entry inserts; an outbound HTLC is marked fulfilled only by a preimage hashing to its payment hash. '
	'Decides exactly-once / never-contradict necessary conditions on all paths; cross-restart replay order and failure attribution values are not decided.')
ASSUMPTIONS = ['SHA256 implementation is correct', 'events are delivered to the user in queue order']

def r03a(F):
	out = []
	out += P2_construct_census(F, '03.a', EV, 'PaymentSent', [OP + 'claim_htlc'], floor=1, note='exactly one place may announce success')
	out += P2_construct_census(F, '03.a', EV, 'PaymentFailed',
		[OP + 'fail_htlc', OP + 'abandon_payment', OP + 'remove_stale_payments', OP + 'check_retry_payments', OP + 'find_route_and_send_payment', OP + 'static_invoice_received'], floor=6)
	out += P1_who_may_call(F, '03.d', [OP + 'claim_htlc'], [CM + 'claim_funds_internal', CM + 'from_channel_manager_data'], floor=2)
	out += P1_who_may_call(F, '03.d', [OP + 'fail_htlc'], [CM + 'fail_htlc_backwards_internal'], floor=1)
	return out

def r03b(F):
	out = []
	fn = OP + 'claim_htlc'
	fu = F.func(fn)
	ex = Expr(fu)
	sent = {b for b, s in sites_construct(fu, 'Event', 'PaymentSent')}
	out += guarded_by_call(F, '03.b', fn, sent, [POP + 'is_fulfilled'], 'bool', False)
	mf = set(sites_call(fu, [POP + 'mark_fulfilled']))
	out += P5_must_pass(F, '03.b', fu, sent, fu.return_blocks(), mf, 'mark_fulfilled() after queuing PaymentSent')
	# the event's hash is the hash of the event's preimage
	for b, si in sites_construct(fu, 'Event', 'PaymentSent'):
		rv = fu.blocks[b]['s'][si][2]
		pre = expr_str(ex.of_operand(rv[4][rv[5].index('payment_preimage')]))
		h = expr_str(ex.of_operand(rv[4][rv[5].index('payment_hash')]))
		ok = ('hash(' in h or 'Hash' in h) and 'payment_preimage' in h and 'payment_preimage' in pre
		out.append(Result('03.b', ok, ('ok:' if ok else 'shape:') + 'sent-hash', 'PaymentSent{payment_preimage: %s, payment_hash: %s} (expected hash of that same preimage)' % (pre[:40], h[:90]), 1, where=F.where(fn, fu.line_of(b))))
		pid = expr_str(ex.of_operand(rv[4][rv[5].index('payment_id')]))
		ok = 'payment_id' in pid
		out.append(Result('03.b', ok, ('ok:' if ok else 'shape:') + 'sent-id', 'PaymentSent.payment_id = %s' % pid[:60], 1, where=F.where(fn, fu.line_of(b))))
	# the entry is looked up by the payment id (occupied entry), never inserted here
	ins = fu.call_blocks(lambda p: p.endswith('VacantEntry::insert') or p.endswith('HashMap::insert'))
	out.append(Result('03.b', not ins, ('ok:' if not ins else 'shape:') + 'claim-no-insert', 'claim_htlc never creates a payment entry', 1, where=F.where(fn)))
	return out

def r03c(F):
	out = []
	fn = OP + 'fail_htlc'
	fu = F.func(fn)
	failed = {b for b, s in sites_construct(fu, 'Event', 'PaymentFailed')}
	out += guarded_by_call(F, '03.c', fn, failed, [POP + 'remove'], 'bool', True)
	out += guarded_by_call(F, '03.c', fn, failed, [POP + 'is_fulfilled'], 'bool', False)
	gs = [g for g in guards_in(F, fn, False) if 'remaining_parts' in g.text()]
	if not gs:
		out.append(Result('03.c', False, 'guard:remaining_parts', 'fail_htlc no longer tests remaining_parts()', where=F.where(fn)))
	for g in gs:
		eq = (g.nf[1], g.nf[2]) == ('Eq', 0)
		out += P4_guarded(F, '03.c', fu, failed, g.decisions, eq, 'remaining_parts() == 0')
	vs = enum_variants(F, 'lightning::ln::outbound_payment::PendingOutboundPayment')
	ok = False
	for sb, m, other in variant_switch_on(fu, r'get\(', vs):
		if 'Abandoned' in m and fu.path([0], failed, removed_edges=[(sb, m['Abandoned'])]) is None:
			ok = True
	out.append(Result('03.c', ok, ('ok:' if ok else 'guard:') + 'abandoned', 'PaymentFailed is built only when the entry is PendingOutboundPayment::Abandoned', len(failed), where=F.where(fn)))
	rm = set(fu.call_blocks(lambda p: p.endswith('OccupiedEntry::remove')))
	out += P5_must_pass(F, '03.c', fu, failed, fu.return_blocks(), rm, 'removal of the payment entry after building PaymentFailed')
	# the terminal event is queued after the path event
	return out

def r03e(F):
	"""a new payment id enters the map only through vacant inserts (duplicate ids are refused)"""
	out = []
	fns = [k for k in F.fns if k.startswith('lightning::ln::outbound_payment::OutboundPayments::')]
	vac, occ, plain = {}, {}, {}
	for k in fns:
		fu = F.func(k)
		ex = Expr(fu)
		for b, ci in fu.calls():
			f = norm(ci.get('f') or '')
			if f.endswith('VacantEntry::insert') or f.endswith('VacantEntry::insert_entry'):
				vac.setdefault(root_fn(k), []).append(fu.line_of(b))
			elif f.endswith('OccupiedEntry::insert'):
				occ.setdefault(root_fn(k), []).append(fu.line_of(b))
			elif f.endswith('HashMap::insert') and ci['args'] and 'pending_outbound_payments' in expr_str(ex.of_operand(ci['args'][0])) + str(fu.vars.values()):
				if 'outbounds' in expr_str(ex.of_operand(ci['args'][0])) or 'pending_outbound' in expr_str(ex.of_operand(ci['args'][0])):
					plain.setdefault(root_fn(k), []).append(fu.line_of(b))
	VAC_OK = {OP + 'add_new_pending_payment', OP + 'add_new_awaiting_invoice', OP + 'add_new_awaiting_offer', OP + 'insert_from_monitor_on_startup', OP + 'create_pending_payment', OP + 'test_add_new_pending_payment', OP + 'pay_for_bolt12_invoice'}
	bad = set(vac) - {F.fn(x) if F.has_fn(x) else x for x in VAC_OK}
	ok = not bad and len(vac) >= 3
	out.append(Result('03.e', ok, ('ok:' if ok else 'writer:') + 'vacant-inserts', 'new payment ids are inserted (VacantEntry::insert) in %s%s' % (sorted(x.rsplit('::', 1)[-1] for x in vac), (' unexpected: %s' % sorted(bad)) if bad else ''), len(vac)))
	OCC_OK = {OP + 'static_invoice_received', OP + 'mark_invoice_received_and_get_details', OP + 'received_offer', OP + 'send_payment_for_bolt12_invoice_internal', OP + 'add_new_awaiting_invoice'}
	bad = (set(occ) | set(plain)) - {F.fn(x) if F.has_fn(x) else x for x in OCC_OK}
	ok = not bad
	out.append(Result('03.e', ok, ('ok:' if ok else 'writer:') + 'overwriting-inserts', 'existing entries are overwritten only by the BOLT-12 state upgrades in %s%s' % (sorted(x.rsplit('::', 1)[-1] for x in list(occ) + list(plain)), (' unexpected: %s' % sorted(bad)) if bad else ''), len(occ) + len(plain) + 1))
	# add_new_pending_payment refuses an occupied id
	for fn in (OP + 'add_new_pending_payment', OP + 'add_new_awaiting_invoice'):
		fu = F.func(fn)
		dup = {b for b, s in sites_construct(fu, 'PaymentSendFailure', 'DuplicatePayment')} | set(err_return_blocks(fu))
		vs = ['Occupied', 'Vacant']
		ok = False
		for sb, m, other in variant_switch_edges(fu, lambda pl: True, vs):
			if 'Occupied' in m and 'Vacant' in m:
				occ_reach = fu.reach([m['Occupied']], removed_blocks=[m['Vacant']])
				ins = set(fu.call_blocks(lambda p: p.endswith('VacantEntry::insert')))
				if not (occ_reach & ins) and (occ_reach & dup):
					ok = True
		out.append(Result('03.e', ok, ('ok:' if ok else 'guard:') + 'duplicate-refused@' + fn.rsplit('::', 1)[-1], '%s returns an error (and inserts nothing) when the id is already present' % fn.rsplit('::', 1)[-1], 1, where=F.where(fn)))
	return out

def r03f(F):
	out = []
	fn = OP + 'remove_stale_payments'
	c = F.const('lightning::ln::outbound_payment::IDEMPOTENCY_TIMEOUT_TICKS')
	gs = [g for g in guards_in(F, fn) if 'timer_ticks_without_htlcs' in g.text()]
	ok = any((g.nf[1], g.nf[2]) in (('Gt', c), ('Ge', c + 1), ('Le', c), ('Lt', c + 1)) for g in gs)
	out.append(Result('03.f', ok, ('ok:' if ok else 'shape:') + 'idempotency-timeout', 'a fulfilled entry is forgotten only after timer_ticks_without_htlcs exceeds IDEMPOTENCY_TIMEOUT_TICKS (%d): %s' % (c, [g.text() for g in gs]), max(1, len(gs)), where=F.where(F.fn(fn))))
	return out

def r03g(F):
	out = []
	fn = CM + 'fail_htlc_backwards_internal'
	fu = F.func(fn)
	vs = enum_variants(F, 'lightning::ln::channelmanager::fuzzy_channelmanager::HTLCSource')
	fh = set(sites_call(fu, [OP + 'fail_htlc']))
	ok = False
	for sb, m, other in variant_switch_edges(fu, lambda pl: True, vs):
		if 'OutboundRoute' in m:
			# every path from the OutboundRoute arm to a return passes fail_htlc
			if fu.path([m['OutboundRoute']], fu.return_blocks(), removed_blocks=fh) is None and fh:
				ok = True
	out.append(Result('03.g', ok, ('ok:' if ok else 'bypass:') + 'outbound-route-fails', 'fail_htlc_backwards_internal: every path of the OutboundRoute arm reaches OutboundPayments::fail_htlc', len(fh), where=F.where(fn)))
	return out

def r03h(F):
	out = []
	fn = FC + 'mark_outbound_htlc_removed'
	fu = F.func(fn)
	ex = Expr(fu)
	stores = {b for b, s in sites_field_write(fu, 'state')}
	# preimage hash check
	cmpb = []
	for b, ci in fu.calls():
		f = norm(ci.get('t') or ci.get('f') or '')
		if f.endswith('PartialEq::ne') or f.endswith('PartialEq::eq'):
			t = expr_str(ex.of_operand(ci['args'][0])) + ' ' + expr_str(ex.of_operand(ci['args'][1]))
			if 'payment_hash' in t and 'hash(' in t:
				cmpb.append((b, f.endswith('::ne')))
	if not cmpb:
		out.append(Result('03.h', False, 'guard:preimage-hash', 'mark_outbound_htlc_removed no longer compares SHA256(preimage) with the HTLC payment hash', where=F.where(fn)))
	else:
		seeds = [call_result_seed(fu, b, 'bool', neg) for b, neg in cmpb]
		ds, _ = decisions_on(fu, [s for s in seeds if s])
		# exemption: outcome is a failure (no preimage to check)
		out += P4_fail_blocks(F, '03.h', fu, stores, ds, True, 'SHA256(preimage) == htlc.payment_hash')
	vs = enum_variants(F, 'lightning::ln::channel::OutboundHTLCState')
	ok = False
	for sb, m, other in variant_switch_on(fu, r'state$', vs):
		if 'Committed' in m and fu.path([0], stores, removed_edges=[(sb, m['Committed'])]) is None:
			ok = True
	out.append(Result('03.h', ok, ('ok:' if ok else 'guard:') + 'only-committed', 'an outbound HTLC is marked RemoteRemoved only from OutboundHTLCState::Committed', len(stores), where=F.where(fn)))
	out += P1_who_may_call(F, '03.h', [fn], [FC + 'update_fulfill_htlc', FC + 'update_fail_htlc', FC + 'update_fail_malformed_htlc'], floor=3)
	return out

RULES = [
	('03.a', 'terminal events are constructed only at the frozen sites; claim/fail are entered only from the manager funnels', r03a),
	('03.b', 'PaymentSent only when not yet fulfilled, then mark_fulfilled; hash = SHA256(same preimage)', r03b),
	('03.c', 'PaymentFailed from an HTLC failure only when removed, not fulfilled, no parts remain, Abandoned; then the entry is removed', r03c),
	('03.e', 'new payment ids only through vacant inserts; duplicates refused', r03e),
	('03.f', 'fulfilled entries are forgotten only after the idempotency timeout', r03f),
	('03.g', 'a failed outbound-route HTLC always reaches OutboundPayments::fail_htlc', r03g),
	('03.h', 'an outbound HTLC is marked fulfilled only by a preimage that hashes to its payment hash, from Committed', r03h),
]
