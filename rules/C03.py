"""C03 - every outbound payment reaches a truthful terminal outcome (structural part)."""
from engine import *
import linforms
import obligations
import ordimpls
import provenance
import guards
import arith
import writes
import mutations
import accessors
import eventloops

OP = 'lightning::ln::outbound_payment::OutboundPayments::'
POP = 'lightning::ln::outbound_payment::PendingOutboundPayment::'
CM = 'lightning::ln::channelmanager::ChannelManager::'
FC = 'lightning::ln::channel::FundedChannel::'
EV = 'lightning::events::Event'

EXPLANATION = ('Censuses and guarded-act rules on ln::outbound_payment, ln::channelmanager and ln::channel: the two terminal events are '
	'constructed only at the frozen sites; PaymentSent is pushed only when the payment is not yet fulfilled and is followed by mark_fulfilled on '
	'every path, with payment_hash = SHA256(preimage) of the same preimage; PaymentFailed from an HTLC failure requires (part removed) and (not '
	'fulfilled) and (no parts remaining) and (Abandoned) and removes the entry; claim/fail enter only from the manager funnels; a new payment id '
	'enters the map only through vacant-entry inserts; an outbound HTLC is marked fulfilled only by a preimage hashing to its payment hash. '
	'Also: the monitor-release completion action rides on the last (terminal) event pushed by fail_htlc. Decides exactly-once / never-contradict necessary conditions on all paths; cross-restart replay order and failure attribution values are not decided.')
ASSUMPTIONS = ['SHA256 implementation is correct', 'events are delivered to the user in queue order']

def r03a(F):
	out = []
	out += P2_construct_census(F, '03.a', EV, 'PaymentSent', [OP + 'claim_htlc'], floor=1, note='exactly one place may announce success')
	out += P2_construct_census(F, '03.a', EV, 'PaymentFailed',
		[OP + 'fail_htlc', OP + 'abandon_payment', OP + 'remove_stale_payments', OP + 'check_retry_payments', OP + 'find_route_and_send_payment', OP + 'static_invoice_received'], floor=6)
	out += P1_who_may_call(F, '03.d', [OP + 'claim_htlc'], [CM + 'claim_funds_internal', CM + 'from_channel_manager_data'], floor=2)
	out += P1_who_may_call(F, '03.d', [OP + 'fail_htlc'], [CM + 'fail_htlc_backwards_internal'], floor=1)
	return out

def r03b(F):
	out = []
	fn = OP + 'claim_htlc'
	fu = F.func(fn)
	ex = Expr(fu)
	sent = {b for b, s in sites_construct(fu, 'Event', 'PaymentSent')}
	out += guarded_by_call(F, '03.b', fn, sent, [POP + 'is_fulfilled'], 'bool', False)
	mf = set(sites_call(fu, [POP + 'mark_fulfilled']))
	out += P5_must_pass(F, '03.b', fu, sent, fu.return_blocks(), mf, 'mark_fulfilled() after queuing PaymentSent')
	# the event's hash is the hash of the event's preimage
	for b, si in sites_construct(fu, 'Event', 'PaymentSent'):
		rv = fu.blocks[b]['s'][si][2]
		pre = expr_str(ex.of_operand(rv[4][rv[5].index('payment_preimage')]))
		h = expr_str(ex.of_operand(rv[4][rv[5].index('payment_hash')]))
		ok = ('hash(' in h or 'Hash' in h) and 'payment_preimage' in h and 'payment_preimage' in pre
		out.append(Result('03.b', ok, ('ok:' if ok else 'shape:') + 'sent-hash', 'PaymentSent{payment_preimage: %s, payment_hash: %s} (expected hash of that same preimage)' % (pre[:40], h[:90]), 1, where=F.where(fn, fu.line_of(b))))
		pid = expr_str(ex.of_operand(rv[4][rv[5].index('payment_id')]))
		ok = 'payment_id' in pid
		out.append(Result('03.b', ok, ('ok:' if ok else 'shape:') + 'sent-id', 'PaymentSent.payment_id = %s' % pid[:60], 1, where=F.where(fn, fu.line_of(b))))
	# the entry is looked up by the payment id (occupied entry), never inserted here
	ins = fu.call_blocks(lambda p: p.endswith('VacantEntry::insert') or p.endswith('HashMap::insert'))
	out.append(Result('03.b', not ins, ('ok:' if not ins else 'shape:') + 'claim-no-insert', 'claim_htlc never creates a payment entry', 1, where=F.where(fn)))
	return out

def r03c(F):
	out = []
	fn = OP + 'fail_htlc'
	fu = F.func(fn)
	failed = {b for b, s in sites_construct(fu, 'Event', 'PaymentFailed')}
	out += guarded_by_call(F, '03.c', fn, failed, [POP + 'remove'], 'bool', True)
	out += guarded_by_call(F, '03.c', fn, failed, [POP + 'is_fulfilled'], 'bool', False)
	gs = [g for g in guards_in(F, fn, False) if 'remaining_parts' in g.text()]
	if not gs:
		out.append(Result('03.c', False, 'guard:remaining_parts', 'fail_htlc no longer tests remaining_parts()', where=F.where(fn)))
	for g in gs:
		eq = (g.nf[1], g.nf[2]) == ('Eq', 0)
		out += P4_guarded(F, '03.c', fu, failed, g.decisions, eq, 'remaining_parts() == 0')
	vs = enum_variants(F, 'lightning::ln::outbound_payment::PendingOutboundPayment')
	ok = False
	for sb, m, other in variant_switch_on(fu, r'get\(', vs):
		if 'Abandoned' in m and fu.path([0], failed, removed_edges=[(sb, m['Abandoned'])]) is None:
			ok = True
	out.append(Result('03.c', ok, ('ok:' if ok else 'guard:') + 'abandoned', 'PaymentFailed is built only when the entry is PendingOutboundPayment::Abandoned', len(failed), where=F.where(fn)))
	rm = set(fu.call_blocks(lambda p: p.endswith('OccupiedEntry::remove')))
	out += P5_must_pass(F, '03.c', fu, failed, fu.return_blocks(), rm, 'removal of the payment entry after building PaymentFailed')
	# the terminal event is queued after the path event
	return out

def r03e(F):
	"""a new payment id enters the map only through vacant inserts (duplicate ids are refused)"""
	out = []
	fns = [k for k in F.fns if k.startswith('lightning::ln::outbound_payment::OutboundPayments::')]
	vac, occ, plain = {}, {}, {}
	for k in fns:
		fu = F.func(k)
		ex = Expr(fu)
		for b, ci in fu.calls():
			f = norm(ci.get('f') or '')
			if f.endswith('VacantEntry::insert') or f.endswith('VacantEntry::insert_entry'):
				vac.setdefault(root_fn(k), []).append(fu.line_of(b))
			elif f.endswith('OccupiedEntry::insert'):
				occ.setdefault(root_fn(k), []).append(fu.line_of(b))
			elif f.endswith('HashMap::insert') and ci['args'] and 'pending_outbound_payments' in expr_str(ex.of_operand(ci['args'][0])) + str(fu.vars.values()):
				if 'outbounds' in expr_str(ex.of_operand(ci['args'][0])) or 'pending_outbound' in expr_str(ex.of_operand(ci['args'][0])):
					plain.setdefault(root_fn(k), []).append(fu.line_of(b))
	VAC_OK = {OP + 'add_new_pending_payment', OP + 'add_new_awaiting_invoice', OP + 'add_new_awaiting_offer', OP + 'insert_from_monitor_on_startup', OP + 'create_pending_payment', OP + 'test_add_new_pending_payment', OP + 'pay_for_bolt12_invoice'}
	bad = set(vac) - {F.fn(x) if F.has_fn(x) else x for x in VAC_OK}
	ok = not bad and len(vac) >= 3
	out.append(Result('03.e', ok, ('ok:' if ok else 'writer:') + 'vacant-inserts', 'new payment ids are inserted (VacantEntry::insert) in %s%s' % (sorted(x.rsplit('::', 1)[-1] for x in vac), (' unexpected: %s' % sorted(bad)) if bad else ''), len(vac)))
	OCC_OK = {OP + 'static_invoice_received', OP + 'mark_invoice_received_and_get_details', OP + 'received_offer', OP + 'send_payment_for_bolt12_invoice_internal', OP + 'add_new_awaiting_invoice'}
	bad = (set(occ) | set(plain)) - {F.fn(x) if F.has_fn(x) else x for x in OCC_OK}
	ok = not bad
	out.append(Result('03.e', ok, ('ok:' if ok else 'writer:') + 'overwriting-inserts', 'existing entries are overwritten only by the BOLT-12 state upgrades in %s%s' % (sorted(x.rsplit('::', 1)[-1] for x in list(occ) + list(plain)), (' unexpected: %s' % sorted(bad)) if bad else ''), len(occ) + len(plain) + 1))
	# add_new_pending_payment refuses an occupied id
	for fn in (OP + 'add_new_pending_payment', OP + 'add_new_awaiting_invoice'):
		fu = F.func(fn)
		dup = {b for b, s in sites_construct(fu, 'PaymentSendFailure', 'DuplicatePayment')} | set(err_return_blocks(fu))
		vs = ['Occupied', 'Vacant']
		ok = False
		for sb, m, other in variant_switch_edges(fu, lambda pl: True, vs):
			if 'Occupied' in m and 'Vacant' in m:
				occ_reach = fu.reach([m['Occupied']], removed_blocks=[m['Vacant']])
				ins = set(fu.call_blocks(lambda p: p.endswith('VacantEntry::insert')))
				if not (occ_reach & ins) and (occ_reach & dup):
					ok = True
		out.append(Result('03.e', ok, ('ok:' if ok else 'guard:') + 'duplicate-refused@' + fn.rsplit('::', 1)[-1], '%s returns an error (and inserts nothing) when the id is already present' % fn.rsplit('::', 1)[-1], 1, where=F.where(fn)))
	return out

def r03f(F):
	out = []
	fn = OP + 'remove_stale_payments'
	c = F.const('lightning::ln::outbound_payment::IDEMPOTENCY_TIMEOUT_TICKS')
	gs = [g for g in guards_in(F, fn) if 'timer_ticks_without_htlcs' in g.text()]
	ok = any((g.nf[1], g.nf[2]) in (('Gt', c), ('Ge', c + 1), ('Le', c), ('Lt', c + 1)) for g in gs)
	out.append(Result('03.f', ok, ('ok:' if ok else 'shape:') + 'idempotency-timeout', 'a fulfilled entry is forgotten only after timer_ticks_without_htlcs exceeds IDEMPOTENCY_TIMEOUT_TICKS (%d): %s' % (c, [g.text() for g in gs]), max(1, len(gs)), where=F.where(F.fn(fn))))
	# ... and the idle ticks are only counted once no HTLC of the payment is outstanding: the flag guarding the tick increment starts as
	# session_privs.is_empty() and can only be lowered to false afterwards (pending events)
	okg, seen, n_inc = False, [], 0
	for n in F.family(fn):
		cu = F.func(n)
		cex = Expr(cu)
		for bi, si, st in cu.stmts():
			rv = st[2]
			if bi in cu.reach([0]) and rv[0] in ('bin', 'cbin') and rv[1].startswith('Add') and 'timer_ticks_without_htlcs' in expr_str(cex.of_rvalue(rv)):
				n_inc += 1
				conds = control_conds(cu, bi)
				if not conds:
					continue
				sb = conds[-1][0]
				op = cu.blocks[sb]['t'][2]
				if op[0] not in ('c', 'm') or len(op[1]) != 1:
					seen.append('guard is not a flag: %s' % conds[-1][1][-40:])
					continue
				L = op[1][0]
				d1 = cu.defs.get(L, [])
				if len(d1) == 1 and d1[0][3][0] == 'use' and d1[0][3][1][0] in ('c', 'm') and len(d1[0][3][1][1]) == 1:
					L = d1[0][3][1][1][0]
				kinds = []
				for dbi, dsi, dpl, drv in cu.defs.get(L, []):
					if drv[0] == 'use' and drv[1][0] == 'k' and drv[1][1].get('ty') == 'bool' and not drv[1][1].get('v'):
						kinds.append('false')
					elif drv[0] == 'call' and norm(drv[1].get('f') or '').endswith('::is_empty') and 'session_privs' in leaf_key(cex.of_operand(drv[1]['args'][0])):
						kinds.append('session_privs.is_empty()')
					else:
						kinds.append('other')
				seen.append(kinds)
				okg = 'session_privs.is_empty()' in kinds and 'other' not in kinds
	out.append(Result('03.f', okg and n_inc >= 1, ('ok:' if okg and n_inc >= 1 else 'early:') + 'idle-ticks-only-without-htlcs', 'remove_stale_payments counts idle ticks of a fulfilled payment only while session_privs is empty (the guarding flag is assigned %s)%s' % (seen, '' if okg else ' - a fulfilled payment whose HTLC is still pending would be forgotten after the timeout; after a restart it is rebuilt from the monitor as retryable and reported failed although PaymentSent was delivered'), n_inc, where=F.where(F.fn(fn))))
	return out

def r03g(F):
	out = []
	fn = CM + 'fail_htlc_backwards_internal'
	fu = F.func(fn)
	vs = enum_variants(F, 'lightning::ln::channelmanager::fuzzy_channelmanager::HTLCSource')
	fh = set(sites_call(fu, [OP + 'fail_htlc']))
	ok = False
	for sb, m, other in variant_switch_edges(fu, lambda pl: True, vs):
		if 'OutboundRoute' in m:
			# every path from the OutboundRoute arm to a return passes fail_htlc
			if fu.path([m['OutboundRoute']], fu.return_blocks(), removed_blocks=fh) is None and fh:
				ok = True
	out.append(Result('03.g', ok, ('ok:' if ok else 'bypass:') + 'outbound-route-fails', 'fail_htlc_backwards_internal: every path of the OutboundRoute arm reaches OutboundPayments::fail_htlc', len(fh), where=F.where(fn)))
	return out

def r03h(F):
	out = []
	fn = FC + 'mark_outbound_htlc_removed'
	fu = F.func(fn)
	ex = Expr(fu)
	stores = {b for b, s in sites_field_write(fu, 'state')}
	# preimage hash check
	cmpb = []
	for b, ci in fu.calls():
		f = norm(ci.get('t') or ci.get('f') or '')
		if f.endswith('PartialEq::ne') or f.endswith('PartialEq::eq'):
			t = expr_str(ex.of_operand(ci['args'][0])) + ' ' + expr_str(ex.of_operand(ci['args'][1]))
			if 'payment_hash' in t and 'hash(' in t:
				cmpb.append((b, f.endswith('::ne')))
	if not cmpb:
		out.append(Result('03.h', False, 'guard:preimage-hash', 'mark_outbound_htlc_removed no longer compares SHA256(preimage) with the HTLC payment hash', where=F.where(fn)))
	else:
		seeds = [call_result_seed(fu, b, 'bool', neg) for b, neg in cmpb]
		ds, _ = decisions_on(fu, [s for s in seeds if s])
		# exemption: outcome is a failure (no preimage to check)
		out += P4_fail_blocks(F, '03.h', fu, stores, ds, True, 'SHA256(preimage) == htlc.payment_hash')
	vs = enum_variants(F, 'lightning::ln::channel::OutboundHTLCState')
	ok = False
	for sb, m, other in variant_switch_on(fu, r'state$', vs):
		if 'Committed' in m and fu.path([0], stores, removed_edges=[(sb, m['Committed'])]) is None:
			ok = True
	out.append(Result('03.h', ok, ('ok:' if ok else 'guard:') + 'only-committed', 'an outbound HTLC is marked RemoteRemoved only from OutboundHTLCState::Committed', len(stores), where=F.where(fn)))
	out += P1_who_may_call(F, '03.h', [fn], [FC + 'update_fulfill_htlc', FC + 'update_fail_htlc', FC + 'update_fail_malformed_htlc'], floor=3)
	return out

def r03i(F):
	"""a path whose HTLC was handed to the channel (Ok, or Err(MonitorUpdateInProgress): committed but awaiting persistence) stays in flight"""
	out = []
	fn = OP + 'handle_pay_route_err'
	vs = enum_variants(F, 'lightning::util::errors::APIError')
	if 'MonitorUpdateInProgress' not in vs:
		return [Result('03.i', False, 'anchor:APIError::MonitorUpdateInProgress', 'anchor missing: APIError::MonitorUpdateInProgress')]
	mip = vs.index('MonitorUpdateInProgress')
	# the classifier closure of the PartialFailure arm: returns Some((path, session_priv)) for paths to be forgotten
	hit = None
	for n in F.family(fn):
		if n == F.fn(fn):
			continue
		fu = F.func(n)
		try:
			rows = path_table(fu)
		except AnchorMissing:
			continue
		rets = {expr_str(r)[:12] for c, r in rows if r is not None}
		if any(x.startswith('Option::Some') for x in rets) and any(x.startswith('Option::None') for x in rets) and any(any(k.startswith('disc:') or 'is_err' in k or 'is_ok' in k for k in c) for c, r in rows):
			hit = (fu, rows)
	if hit is None:
		return [Result('03.i', False, 'anchor:failed-paths-classifier', 'handle_pay_route_err: the closure selecting the failed paths of a partial failure was not found', where=F.where(F.fn(fn)))]
	fu, rows = hit
	bad = []
	n_some = 0
	for conds, ret in rows:
		if ret is None or not expr_str(ret).startswith('Option::Some'):
			continue
		n_some += 1
		# a row that forgets the path must require: result is Err (disc 1) and the error is not MonitorUpdateInProgress
		res_keys = sorted(k for k in conds if k.startswith('disc:'))
		outer = [k for k in res_keys if not any(k2 != k and k2.startswith(k) for k2 in res_keys)] if False else res_keys
		k_res = min(res_keys, key=len) if res_keys else None
		k_err = max(res_keys, key=len) if len(res_keys) > 1 else None
		def allows(c, v):
			return (isinstance(c, tuple) and v not in c[1]) or (not isinstance(c, tuple) and c == v)
		if k_res is None and any('is_err' in k or 'is_ok' in k for k in conds):
			bad.append('an Err path is forgotten without looking at the error kind (Err(MonitorUpdateInProgress) is a committed HTLC awaiting persistence)')
			continue
		if k_res is None or allows(conds[k_res], 0):
			bad.append('a successfully sent path (Ok) is forgotten')
		if k_err is None:
			if k_res is not None and allows(conds[k_res], 1):
				bad.append('an Err path is forgotten without looking at the error kind')
		elif allows(conds[k_err], mip):
			bad.append('a path that returned Err(MonitorUpdateInProgress) is forgotten although its HTLC is committed')
	ok = n_some >= 1 and not bad
	out.append(Result('03.i', ok, ('ok:' if ok else 'inflight:') + 'partial-failure-classifier', 'handle_pay_route_err forgets (removes the session key of) exactly the paths with Err(e), e != MonitorUpdateInProgress (%d forgetting row(s))%s' % (n_some, '' if not bad else ': ' + '; '.join(sorted(set(bad)))), len(rows), where=F.where(fu.name)))
	# sibling classification: the path-failed events skip MonitorUpdateInProgress as well
	pf = F.func(OP + 'push_path_failed_evs_and_scids')
	evs = {b for b, s in sites_construct(pf, 'Event', 'PaymentPathFailed')}
	sw = [x for x in variant_switch_edges(pf, lambda pl: True, vs) if 'MonitorUpdateInProgress' in x[1]]
	oks = False
	for sb, m, other in sw:
		r = pf.reach([m['MonitorUpdateInProgress']], removed_blocks=loop_heads(pf) | {sb})
		oks = not (r & evs)
	out.append(Result('03.i', oks and bool(evs), ('ok:' if oks and evs else 'inflight:') + 'no-path-failed-for-in-progress', 'push_path_failed_evs_and_scids emits no PaymentPathFailed for Err(MonitorUpdateInProgress)', len(sw) + len(evs), where=F.where(pf.name)))
	# and the sender counts it as sent (PartialFailure, not AllFailedResendSafe)
	pr = F.func(OP + 'pay_route_internal')
	sw = [x for x in variant_switch_edges(pr, lambda pl: True, vs) if 'MonitorUpdateInProgress' in x[1]]
	okp = False
	for sb, m, other in sw:
		r = pr.reach([m['MonitorUpdateInProgress']], removed_blocks=loop_heads(pr) | {sb})
		names = set()
		for b in r:
			for st in pr.blocks[b]['s']:
				if len(st[1]) == 1 and st[2][0] == 'use' and st[2][1][0] == 'k' and st[2][1][1].get('v') == 1:
					names.add(pr.local_name(st[1][0]))
		okp = 'has_ok' in names or len(names - {None}) >= 2
	out.append(Result('03.i', okp, ('ok:' if okp else 'inflight:') + 'in-progress-counts-as-sent', 'pay_route_internal counts Err(MonitorUpdateInProgress) as a sent path (sets the ok and err flags)', len(sw), where=F.where(pr.name)))
	return out

def r03j(F):
	"""HTLC failures parked behind a monitor update are handed to the manager when the update completes - connected or not"""
	out = []
	fn = FC + 'monitor_updating_restored'
	fu = F.func(fn)
	ex = Expr(fu)
	cons = sites_construct(fu, 'MonitorRestoreUpdates', 'MonitorRestoreUpdates')
	if len(cons) < 2:
		return [Result('03.j', False, 'anchor:MonitorRestoreUpdates', 'monitor_updating_restored: expected the connected and the disconnected MonitorRestoreUpdates construction, found %d' % len(cons), len(cons), where=F.where(fn))]
	# the swap that drains each parked list
	swaps = {}
	for b in fu.call_blocks(lambda p: p.endswith('mem::swap') or p.endswith('mem::take') or p.endswith('mem::replace')):
		fl = set()
		for a in fu.blocks[b]['t'][2]['args']:
			fl |= expr_leaves(ex.of_operand(a))['fields']
		for lst in ('monitor_pending_failures', 'monitor_pending_forwards', 'monitor_pending_finalized_fulfills'):
			if lst in fl:
				swaps[lst] = b
	for lst, fld in (('monitor_pending_failures', 'failed_htlcs'), ('monitor_pending_forwards', 'accepted_htlcs'), ('monitor_pending_finalized_fulfills', 'finalized_claimed_htlcs')):
		if lst not in swaps:
			out.append(Result('03.j', False, 'anchor:drain:' + lst, 'monitor_updating_restored no longer drains %s' % lst, where=F.where(fn)))
			continue
		sb = swaps[lst]
		drained = ex.of_operand(fu.blocks[sb]['t'][2]['args'][0])
		dk = leaf_key(drained)
		for b, si in cons:
			agg = ex.of_rvalue(fu.blocks[b]['s'][si][2])
			names = agg[4] or []
			if fld not in names:
				out.append(Result('03.j', False, 'anchor:field:' + fld, 'MonitorRestoreUpdates has no field %s' % fld, where=F.where(fn)))
				continue
			v = agg[3][names.index(fld)]
			vk = leaf_key(v)
			same = vk == dk
			p = fu.path([0], [b], removed_blocks={sb})
			ok = same and p is None
			out.append(Result('03.j', ok, ('ok:' if ok else 'parked:') + '%s@line-class-%d' % (fld, cons.index((b, si))), 'monitor_updating_restored returns %s = the drained %s at its %s exit%s' % (fld, lst, 'early (peer disconnected)' if cons.index((b, si)) == 0 and len(cons) > 1 else 'normal', '' if ok else (' - it returns `%s` instead' % expr_str(v)[:40] if not same else ' - the drain can be bypassed')), 2, where=F.where(fn, fu.line_of(b))))
	return out

def r03k(F):
	"""the terminal event survives a crash: the monitor learns that the resolution was handled only from the LAST event of the HTLC
	(same structural rule as 10.h; re-labelled here because losing the terminal PaymentFailed is a C03 violation too)"""
	import C10
	out = []
	for r in C10.r10h(F):
		r.rule = '03.k'
		out.append(r)
	return out

def r03l(F):
	"""after a restart an outbound payment is reported failed from chain data only once the closing transaction is buried: the restart-time
	replay waits for the monitor's confirmation threshold (same rule as 02.f / 11.c)"""
	import chainrules
	return chainrules.restart_replay_guard(F, '03.l')

def r03m(F):
	"""stale-manager restart: the HTLCs the manager fails back for a channel it must force-close are ALL outbound HTLCs the channel still holds
	(inflight_htlc_sources is unfiltered on pending_outbound_htlcs: an HTLC in any state, including one whose removal is only awaiting the peer's
	revocation, is still the manager's to resolve when the monitor no longer knows it)"""
	out = []
	fn = 'lightning::ln::channel::FundedChannel::inflight_htlc_sources'
	fam = F.family(fn)
	main = F.func(fn)
	ex = Expr(main)
	iters = [b for b, ci in main.calls() if norm(ci.get('f') or '').endswith('::iter') and ci['args'] and leaf_key(ex.of_operand(ci['args'][0])).endswith('pending_outbound_htlcs')]
	bad = []
	SELECTIVE = ('::filter', '::filter_map', '::take_while', '::skip_while', '::skip', '::take', '::step_by', '::find', '::flat_map')
	for b, ci in main.calls():
		f = norm(ci.get('f') or ci.get('t') or '')
		if f.endswith(SELECTIVE) and ci['args'] and 'pending_outbound_htlcs' in leaf_key(ex.of_operand(ci['args'][0])):
			bad.append('%s over pending_outbound_htlcs (line %s)' % (f.rsplit('::', 1)[-1], main.line_of(b)))
	for n in fam:
		cu = F.func(n)
		for bi, si, st in cu.stmts():
			if st[2][0] == 'disc' and 'OutboundHTLCState' in (cu.locals[st[2][1][0]].get('ty') or ''):
				bad.append('a test of the OutboundHTLCState (line %s)' % st[0])
	ok = bool(iters) and not bad
	out.append(Result('03.m', ok, ('ok:' if ok else 'filtered:') + 'inflight-sources-unfiltered', 'inflight_htlc_sources reports every entry of pending_outbound_htlcs (%d iteration(s))%s' % (len(iters), '' if not bad else '; selective steps: %s - an outbound HTLC left out here is never failed back when a stale manager is reloaded, and its payment stays pending for ever' % bad), len(iters) + len(bad), where=F.where(fn)))
	out += P1_who_may_call(F, '03.m', [fn], ['lightning::ln::channelmanager::ChannelManager::compute_inflight_htlcs', 'lightning::ln::channelmanager::ChannelManager::from_channel_manager_data'], floor=2)
	return out

def r03n(F, rule='03.n'):
	"""a counterparty-commitment update applied after the funding was spent fails only HTLCs that are in NO commitment the monitor already knew:
	the known-source test consults the previous counterparty commitment and both holder commitments, and every fail-back sits on its false edge"""
	out = []
	fn = 'lightning::chain::channelmonitor::ChannelMonitorImpl::fail_htlcs_from_update_after_funding_spend'
	fam = F.family(fn)
	reads = {}
	for k, v in F.fieldacc.items():
		if 'channelmonitor::FundingScope' in k or 'channelmonitor::ChannelMonitorImpl' in k:
			for r in v:
				if r[0] in fam:
					reads.setdefault(k.rsplit('.', 1)[-1], set()).add(r[0])
	want = ['prev_counterparty_commitment_txid', 'counterparty_claimable_outpoints', 'current_holder_commitment_tx', 'prev_holder_commitment_tx', 'current_holder_htlc_data', 'prev_holder_htlc_data']
	miss = [w for w in want if w not in reads]
	ok = not miss
	out.append(Result(rule, ok, ('ok:' if ok else 'forgotten-commitment:') + 'known-source-test-covers-all-commitments', 'fail_htlcs_from_update_after_funding_spend consults the previous counterparty commitment and the current / previous holder commitment before calling an HTLC new%s' % ('' if ok else ' - it no longer reads %s: an HTLC that lives only in that commitment is failed back (PaymentFailed) while its output is still claimable on chain' % miss), len(want), where=F.where(fn)))
	fu = F.func(fn)
	# the closure deciding "known" is called in the loop; HTLCUpdate constructions / pushes are on its false edge
	clos = [n for n in fam if n != F.fn(fn) and any(w in reads and n in reads[w] for w in ('prev_counterparty_commitment_txid', 'current_holder_commitment_tx'))]
	calls = [b for b, ci in fu.calls() if norm(ci.get('f') or ci.get('t') or '') in clos]
	acts = {b for b, si in sites_construct(fu, 'HTLCUpdate', 'HTLCUpdate')} | {b for b, si in sites_construct(fu, 'OnchainEvent', 'HTLCUpdate')}
	if not calls or not acts:
		out.append(Result(rule, False, 'anchor:known-source-call', 'fail_htlcs_from_update_after_funding_spend: the call of the known-source test / the fail-back constructions were not found (%d / %d)' % (len(calls), len(acts)), where=F.where(fn)))
	else:
		ds = call_decisions(fu, calls, 'bool')
		out += P4_guarded(F, rule, fu, acts, ds, False, 'HTLC source is not in any known commitment', key='fail-back-only-unknown-sources')
	return out

RULES = [
	('03.a', 'terminal events are constructed only at the frozen sites; claim/fail are entered only from the manager funnels', r03a),
	('03.b', 'PaymentSent only when not yet fulfilled, then mark_fulfilled; hash = SHA256(same preimage)', r03b),
	('03.c', 'PaymentFailed from an HTLC failure only when removed, not fulfilled, no parts remain, Abandoned; then the entry is removed', r03c),
	('03.e', 'new payment ids only through vacant inserts; duplicates refused', r03e),
	('03.f', 'fulfilled entries are forgotten only after the idempotency timeout', r03f),
	('03.g', 'a failed outbound-route HTLC always reaches OutboundPayments::fail_htlc', r03g),
	('03.h', 'an outbound HTLC is marked fulfilled only by a preimage that hashes to its payment hash, from Committed', r03h),
	('03.i', 'paths handed to a channel (Ok / MonitorUpdateInProgress) stay in flight: classifier, path-failed events and sender agree', r03i),
	('03.k', 'the payment-complete monitor release rides on the last (terminal) event pushed by fail_htlc', r03k),
	('03.l', 'restart-time replay of on-chain failures waits for the confirmation threshold', r03l),
	('03.m', 'stale-manager restart fails back every outbound HTLC the channel holds (inflight_htlc_sources unfiltered)', r03m),
	('03.n', 'late counterparty-commitment update: only HTLCs in no known commitment are failed back', r03n),
	('03.j', 'failures / forwards / finalized claims parked behind a monitor update are all returned when it completes, at every exit', r03j),
	('03.p', 'same-name field transfer: structs carrying this property\'s quantities are filled from the same-named field or a reviewed alias (rules/provenance.py)', lambda F: provenance.for_property(F, 'C03', '03.p')),
	('03.q', 'no call hands a value named like one parameter of the callee to a different parameter (swapped type-compatible arguments; rules/provenance.py)', lambda F: provenance.swaps_for_property(F, 'C03', '03.q')),
	('03.v', 'field-versus-field comparisons (a received value against a limit, an id against an id) are the reviewed ones: same fields, same operator (rules/provenance.py)', lambda F: provenance.cmps_for_property(F, 'C03', '03.v')),
	('03.s', 'no reviewed function gained a short-circuiting iterator adaptor (find / find_map / take / position ...: an every-element walk that stops at the first match; rules/provenance.py)', lambda F: provenance.sc_for_property(F, 'C03', '03.s')),
	('03.y', 'no reviewed function gained a swallowed error (the Result of a fallible in-crate call dropped; rules/provenance.py)', lambda F: provenance.dr_for_property(F, 'C03', '03.y')),
	('03.o', 'hand-written eq / cmp / partial_cmp / hash impls in this property\'s files: same field on both sides, reviewed direction, no reviewed key lost, hash within eq (rules/ordimpls.py)', lambda F: ordimpls.for_property(F, 'C03', '03.o')),
]
RULES.append(('03.u', 'obligation-carrying values returned by workspace calls (to-fail HTLC lists, monitor updates, events, peer messages, claim packages) are never dropped on a path that does not examine them (rules/obligations.py)', lambda F: obligations.for_property(F, 'C03', '03.u')))
RULES.append(('03.t', 'identity comparisons: every reviewed (function, identity type) == / != comparison (HTLCSource, Txid, OutPoint, ChannelId, PaymentHash, PublicKey, ...) is still made - a function does not silently change what it matches by (rules/provenance.py)', lambda F: provenance.ids_for_property(F, 'C03', '03.t')))
RULES.append(('03.M', 'collection mutations: every reviewed (function, stored collection, mutator class: add / remove / filter / empty / swap / order) triple is still present - an entry that is no longer removed, inserted or drained on one path (rules/mutations.py)', lambda F: mutations.for_property(F, 'C03', '03.M')))
RULES.append(('03.E', 'event replay: the count of events drained from pending_events is advanced only on the Ok arm of the handler result - a PaymentSent / PaymentFailed / PaymentPathFailed event whose handler failed is replayed, not dropped (rules/eventloops.py)', lambda F: eventloops.rule(F, '03.E', r'ln/channelmanager\.rs$', 2)))
RULES.append(('03.A', 'enum accessors agree across sibling variants: an accessor that returns the payload field `x` for one variant returns it for every variant whose payload carries a field of that name and type (a variant moved to the `=> None` arm) - rules/accessors.py', lambda F: accessors.for_property(F, 'C03', '03.A')))
RULES.append(('03.G', 'guard census: no reviewed call of a workspace function and no reviewed mutation of a stored collection gained a controlling branch condition (an added `&& cond`, early return / continue, more specific match arm in front of an act); counts per call site, name free (rules/guards.py)', lambda F: guards.for_property(F, 'C03', '03.G')))
RULES.append(('03.W', 'field assignments: every reviewed (function, Type.field) direct assignment is still made - state that a path no longer updates, or updates only conditionally (get_or_insert for an overwrite); generalises NN.R (rules/writes.py)', lambda F: writes.for_property(F, 'C03', '03.W')))

def r03j9(F):
	"""an outbound payment whose failure / finalized fulfil is held while a monitor update is in flight keeps it when a second update pauses the channel again: overwritten, the payment never reaches a terminal event (09.j's accumulate clause, re-labelled)"""
	import C09
	out = []
	for r in C09.r09j(F):
		if 'accumulate:' in r.key and any(f in r.key for f in ('monitor_pending_failures', 'monitor_pending_finalized_fulfills')):
			r.rule = '03.J'
			out.append(r)
	if not out:
		out.append(Result('03.J', False, 'anchor:accumulate', 'monitor_updating_paused: accumulate clauses of 09.j not found'))
	return out
RULES.append(('03.J', 'an outbound payment whose failure / finalized fulfil is held while a monitor update is in flight keeps it when a second update pauses the channel again (09.j under C03)', r03j9))
RULES.append(('03.N', 'arithmetic census: per reviewed function the set of operation kinds (group: add/sub, mul, div, rem, shift, bit, min, max, div_ceil ...; flavour: plain / checked / saturating / wrapping) keeps its kinds: no reviewed function lost or gained a kind of arithmetic altogether - a rounding direction (`/` for div_ceil), saturating for checked, min for max (rules/arith.py; counts and value arithmetic itself are not judged)', lambda F: arith.for_property(F, 'C03', '03.N')))
RULES.append(('03.K', 'constant census of linear forms: every comparison (normalised to sum >= K over name-free atoms, a comparison and its negation being one form) and every maximal arithmetic expression of a reviewed function keeps its coefficients and its constant - a dropped or added `+ 1` / `- 1`, `<` for `<=` inside a computed bound, a scale factor applied twice or not at all, swapped operands of a comparison (rules/linforms.py; shapes that appear or disappear are not judged, the guard / arithmetic censuses judge those)', lambda F: linforms.for_property(F, 'C03', '03.K')))
