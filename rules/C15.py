"""C15 - the encrypted transport delivers the exact message sequence or disconnects (structural part)."""
from engine import *
import linforms
import provenance
import guards
import arith
import writes
import mutations
import re

PH = 'lightning::ln::peer_handler::'
PM = PH + 'PeerManager::'
PCE = 'lightning::ln::peer_channel_encryptor::'
ENC = PCE + 'PeerChannelEncryptor::'

EXPLANATION = ('Guard, funnel, sibling and state-table rules over ln::peer_handler and ln::peer_channel_encryptor: no message is handed on to a handler before the peer\'s Init was recorded '
	'(their_features written only at the end of the Init arm, a second Init and a non-Init first message end in Err), handler trait methods are invoked only downstream of that gate; in '
	'do_read_event the results of the three handshake acts, decrypt_length_header, decrypt_message and wire::read are all branched on and the decrypted body reaches handle_message only on '
	'their success; sender and receiver rotate keys at the same counter value (>= 1000), reset the nonce to 0 and advance the nonce by exactly one per AEAD operation, the receiver only after '
	'a successful authentication; a failed MAC yields Err; message encryption / decryption is only possible in NoiseState::Finished; oversized messages are refused on both sides. Also: inbound reassembly returns to the expect-a-header state after every decrypted body, including the ignore-and-continue arms, and to the expect-a-body state after every header. Decides '
	'these shapes on all paths; cryptographic correctness, stream reassembly arithmetic and panic freedom are not decided.')
ASSUMPTIONS = ['ChaCha20Poly1305 / HKDF / ECDH primitives are correct', 'the SocketDescriptor delivers bytes in order']

def r15a(F):
	out = []
	fn = PM + 'do_handle_message_holding_peer_lock'
	fu = F.func(fn)
	ex = Expr(fu)
	# their_features is written only here, in the Init arm, as the last step
	out += P3_field_census(F, '15.a', PH + 'Peer.their_features', [fn, PM + 'new_outbound_connection', PM + 'new_inbound_connection'], kinds=('w', 'wi'), floor=1)
	live = fu.reach([0])
	ws = {b for b, s in sites_field_write(fu, 'their_features') if b in live}   # unwind-path duplicates of the store are not reachable without a panic
	vs = enum_variants(F, 'lightning::ln::wire::Message')
	sw = [x for x in variant_switch_edges(fu, lambda pl: len(pl) == 1 and 1 <= pl[0] <= fu.argc and 'wire::Message' in (fu.locals[pl[0]].get('ty') or ''), vs) if 'Init' in x[1]]
	if not ws or not sw:
		return out + [Result('15.a', False, 'anchor:init-arm', 'do_handle_message_holding_peer_lock: Init arm / their_features store not found (%d/%d)' % (len(sw), len(ws)), where=F.where(fn))]
	sb, m, other = sw[0]
	init_t = m['Init']
	non_init = [t for v, t in m.items() if v != 'Init'] + [other]
	r_init = fu.reach([init_t], removed_blocks=set(non_init) - {init_t})
	ok = ws <= r_init
	out.append(Result('15.a', ok, ('ok:' if ok else 'writer:') + 'features-set-in-init-arm', 'their_features is stored only inside the Init arm', len(ws), where=F.where(fn)))
	# non-Init messages: everything after the gate is on the false edge of their_features.is_none()
	isn = fu.call_blocks(lambda p: p.endswith('Option::is_none'))
	isn = [b for b in isn if 'their_features' in expr_leaves(ex.of_operand(fu.blocks[b]['t'][2]['args'][0]))['fields']]
	iss = fu.call_blocks(lambda p: p.endswith('Option::is_some'))
	iss = [b for b in iss if 'their_features' in expr_leaves(ex.of_operand(fu.blocks[b]['t'][2]['args'][0]))['fields']]
	if len(isn) != 1 or len(iss) != 1:
		out.append(Result('15.a', False, 'anchor:init-gate', 'expected one `their_features.is_none()` (non-Init first) and one `their_features.is_some()` (second Init) test, found %d/%d' % (len(isn), len(iss)), where=F.where(fn)))
		return out
	# Ok(Some(..)) returns (message handed on) and the batch bookkeeping happen only past the gate
	handed = set()
	for bi, si, s in fu.stmts():
		if s[1] == [0] and s[2][0] == 'agg' and s[2][3] == 'Ok':
			e = ex.of_rvalue(s[2])
			if 'Option::Some' in expr_str(e):
				handed.add(bi)
	batch = {b for b, s in sites_field_write(fu, 'message_batch')}
	acts = handed | batch
	ds = call_decisions(fu, isn, 'bool')
	# exempt: the Init arm (which never hands a message on)
	init_edges = [(sb, init_t)]
	out += P4_guarded(F, '15.a', fu, acts, ds, False, 'Init already received (their_features is Some)', key='init-before-anything', exempt_edges=init_edges)
	hi = acts & r_init
	out.append(Result('15.a', not hi, ('ok:' if not hi else 'guard:') + 'init-arm-hands-nothing-on', 'the Init arm itself never hands a message on to the handlers', len(acts), where=F.where(fn)))
	errs = set(err_return_blocks(fu))
	for d in ds:
		r = fu.reach([e[1] for e in d.true_edges], removed_blocks={d.b})
		ok = bool(r & errs) and not (r & set(ok_return_blocks(fu)))
		out.append(Result('15.a', ok, ('ok:' if ok else 'guard:') + 'non-init-first-is-error', 'a non-Init message before Init ends in Err (disconnect)', 1, where=F.where(fn, fu.line_of(d.b))))
	for d in call_decisions(fu, iss, 'bool'):
		r = fu.reach([e[1] for e in d.true_edges], removed_blocks={d.b})
		ok = bool(r & errs) and not (r & ws)
		out.append(Result('15.a', ok, ('ok:' if ok else 'guard:') + 'second-init-is-error', 'a second Init ends in Err and does not overwrite their_features', 1, where=F.where(fn, fu.line_of(d.b))))
	# every handler peer_connected failure ends in Err before their_features is stored
	pcs = fu.call_blocks(lambda p: p.endswith('::peer_connected'))
	okp = len(pcs) >= 4
	for b in pcs:
		for d in call_decisions(fu, [b], 'result'):
			r = fu.reach([e[1] for e in d.false_edges], removed_blocks={d.b})
			if r & ws:
				okp = False
	out.append(Result('15.a', okp, ('ok:' if okp else 'guard:') + 'handler-refusal-disconnects', 'when a message handler refuses the peer (peer_connected Err) the Init is not recorded (%d handlers)' % len(pcs), len(pcs), where=F.where(fn)))
	return out

def r15b(F):
	out = []
	out += P1_who_may_call(F, '15.b', [PM + 'do_handle_message_without_peer_lock'], [PM + 'handle_message'], floor=1)
	out += P1_who_may_call(F, '15.b', [PM + 'do_handle_message_holding_peer_lock'], [PM + 'handle_message'], floor=1)
	out += P1_who_may_call(F, '15.b', [PM + 'handle_message'], [PM + 'do_read_event'], floor=1)
	hm = F.func(PM + 'handle_message')
	acts = set(sites_call(hm, [PM + 'do_handle_message_without_peer_lock'])) | set(hm.call_blocks(lambda p: p.endswith('ChannelMessageHandler::handle_commitment_signed_batch')))
	out += guarded_by_call(F, '15.b', hm.name, acts, [PM + 'do_handle_message_holding_peer_lock'], 'result', True, what='Init gate passed (holding_peer_lock Ok)')
	# protocol handler methods are invoked for peer messages only from do_handle_message_without_peer_lock / handle_message
	F.calls
	bad = []
	n = 0
	for callee, recs in F.callers_of.items():
		m = re.match(r'^lightning::ln::msgs::(ChannelMessageHandler|RoutingMessageHandler)::(handle_[a-z_0-9]+)$', callee)
		if not m:
			continue
		for r in recs:
			caller = root_fn(r[0])
			if not caller.startswith(PH):
				continue
			n += 1
			if caller not in (F.fn(PM + 'do_handle_message_without_peer_lock'), F.fn(PM + 'handle_message')):
				# our OWN announcements / updates are fed to the local routing handler when they are broadcast (no peer involved)
				own = m.group(1) == 'RoutingMessageHandler' and m.group(2) in ('handle_node_announcement', 'handle_channel_announcement', 'handle_channel_update') and caller in (F.fn(PM + 'process_events'), F.fn(PM + 'broadcast_node_announcement'))
				if not own:
					bad.append((caller.rsplit('::', 1)[-1], m.group(2), r[3]))
	out.append(Result('15.b', not bad and n >= 30, ('ok:' if not bad and n >= 30 else 'caller:') + 'handler-funnel', 'in peer_handler, ChannelMessageHandler / RoutingMessageHandler handle_* methods are called only downstream of the Init gate (%d call sites)%s' % (n, '' if not bad else '; elsewhere: %s' % bad[:5]), n))
	return out

def r15c(F):
	out = []
	fn = PM + 'do_read_event'
	fu = F.func(fn)
	hm = set(sites_call(fu, [PM + 'handle_message']))
	if not hm:
		return [Result('15.c', False, 'anchor:handle_message', 'do_read_event no longer calls handle_message', where=F.where(fn))]
	steps = [(ENC + 'process_act_one_with_keys', 'result'), (ENC + 'process_act_two', 'result'), (ENC + 'process_act_three', 'result'),
		(ENC + 'decrypt_length_header', 'result'), (ENC + 'decrypt_message', 'result'), ('lightning::ln::wire::read', 'result')]
	for callee, kind in steps:
		cb = sites_call(fu, [callee])
		nm = callee.rsplit('::', 1)[-1]
		if not cb:
			out.append(Result('15.c', False, 'anchor:' + nm, 'do_read_event no longer calls %s' % nm, where=F.where(fn)))
			continue
		for b in cb:
			st, how = result_consumed(fu, b, kind)
			ok = st == 'branched'
			out.append(Result('15.c', ok, ('ok:' if ok else 'dropped:') + 'result@' + nm, 'the result of %s is %s%s' % (nm, st, (' (' + how + ')') if how else ''), 1, where=F.where(fn, fu.line_of(b))))
	# the message body reaches handle_message only when decryption and decoding succeeded
	for callee in (ENC + 'decrypt_message', 'lightning::ln::wire::read', ENC + 'decrypt_length_header'):
		cb = sites_call(fu, [callee])
		if cb:
			ds = call_decisions(fu, cb, 'result')
			heads = loop_heads(fu) | back_edge_heads(fu)
			res = P4_fail_blocks(F, '15.c', fu, hm, ds, True, '%s Ok' % callee.rsplit('::', 1)[-1], key='body-needs-' + callee.rsplit('::', 1)[-1], stop_blocks=heads)
			out += res
	# a failed handshake act / header / body ends in Err (disconnect)
	errs = set(err_return_blocks(fu))
	for callee in (ENC + 'decrypt_length_header', ENC + 'decrypt_message'):
		cb = sites_call(fu, [callee])
		for d in call_decisions(fu, cb, 'result'):
			heads = loop_heads(fu) | back_edge_heads(fu)
			r = fu.reach([e[1] for e in d.false_edges], removed_blocks={d.b} | heads)
			ok = bool(r & errs)
			out.append(Result('15.c', ok, ('ok:' if ok else 'guard:') + 'auth-failure-disconnects@' + callee.rsplit('::', 1)[-1], 'a failed %s ends in Err(PeerHandleError) before the next read iteration' % callee.rsplit('::', 1)[-1], 1, where=F.where(fn, fu.line_of(d.b))))
	return out

def _finished_arm(F, fu):
	vs = enum_variants(F, PCE + 'NoiseState')
	sw = [x for x in variant_switch_edges(fu, lambda pl: 'noise_state' in place_fields(pl), vs)]
	if not sw:
		raise AnchorMissing('%s: match on noise_state not found' % fu.name)
	sb, m, other = sw[0]
	if 'Finished' not in m:
		raise AnchorMissing('%s: no Finished arm' % fu.name)
	fin = m['Finished']
	rest = {t for v, t in m.items() if v != 'Finished'} | ({other} if len(m) < len(vs) else set())
	return sb, fin, rest

def _nonce_analysis(F, fu, field):
	"""(threshold guards on the nonce, blocks that add 1 to it, blocks that reset it to 0)"""
	ex = Expr(fu)
	gs = []
	for c in comparisons(fu):
		g = Guard(fu, c)
		if len(g.nf[0]) == 1 and any(re.search(r'\b%s\b' % field, v) for v in g.nf[0]):
			gs.append(g)
	incs, resets = [], []
	for bi, si, s in fu.stmts():
		tgt = ex.of_place(s[1]) if len(s[1]) > 1 else None
		if tgt is None:
			continue
		k = leaf_key(tgt)
		if not re.search(r'\b%s\b' % field, k):
			continue
		e = ex.of_rvalue(s[2])
		if e[0] == 'const' and e[1] == 0:
			resets.append(bi)
		else:
			t, c = linear(e)
			if c == 1 and len(t) == 1 and list(t.values())[0] == 1:
				incs.append(bi)
			elif e[0] == 'field' and e[2] == '0' and e[1][0] == 'bin':
				t, c = linear(e[1])
				if c == 1:
					incs.append(bi)
	return gs, incs, resets

def r15d(F):
	out = []
	enc = F.func(ENC + 'encrypt_message_with_header_0s')
	dlh = F.func(ENC + 'decrypt_length_header')
	dm = F.func(ENC + 'decrypt_message')
	thr = {}
	for fu, fld, label in ((enc, 'sn', 'send'), (dlh, 'rn', 'receive')):
		gs, incs, resets = _nonce_analysis(F, fu, fld)
		rot = fu.call_blocks(lambda p: p.endswith('hkdf_extract_expand_twice'))
		ok = len(gs) == 1 and len(rot) == 1 and len(resets) == 1
		if ok:
			g = gs[0]
			thr[label] = (g.nf[1], g.nf[2]) if list(g.nf[0].values())[0] == 1 else ({'Le': 'Ge', 'Lt': 'Gt', 'Ge': 'Le', 'Gt': 'Lt'}[g.nf[1]], -g.nf[2])
			# rotation and reset happen on the true edge only
			for d in g.decisions:
				tr = fu.reach([e[1] for e in d.true_edges], removed_blocks={d.b})
				fr = fu.reach([e[1] for e in d.false_edges], removed_blocks={d.b} | set(rot))
				ok = ok and set(rot) <= tr and set(resets) <= tr
		out.append(Result('15.d', ok, ('ok:' if ok else 'shape:') + 'rotation@' + label, '%s side: one nonce threshold test (%s), one key rotation, nonce reset to 0 inside it' % (label, [g.text() for g in gs]), len(gs) + len(rot) + len(resets), where=F.where(fu.name)))
	oks = thr.get('send') == thr.get('receive') and thr.get('send') in (('Ge', 1000), ('Gt', 999))
	out.append(Result('15.d', oks, ('ok:' if oks else 'sibling:') + 'rotation-threshold-agrees', 'sender and receiver rotate keys at the same nonce value: send %s, receive %s (expected both >= 1000)' % (thr.get('send'), thr.get('receive')), 2, where=F.where(enc.name)))
	# nonce advances by exactly one per AEAD operation: 2 on the send side (header, body), 1 in each receive function
	gs, incs, resets = _nonce_analysis(F, enc, 'sn')
	aead = enc.call_blocks(lambda p: p.endswith('encrypt_with_ad') or p.endswith('encrypt_in_place_with_ad'))
	ok = len(incs) == 2 and len(aead) == 2
	if ok:
		# each AEAD call is followed by an increment before the next AEAD call / return
		a0, a1 = sorted(aead, key=lambda b: enc.line_of(b))
		ok = enc.path([s for s in enc.succ(a0)], [a1], removed_blocks=set(incs)) is None and enc.path([s for s in enc.succ(a1)], enc.return_blocks(), removed_blocks=set(incs)) is None
	out.append(Result('15.d', ok, ('ok:' if ok else 'nonce:') + 'send-nonce-per-aead', 'encrypt: the nonce is advanced by one after the length header and again after the body (%d increments, %d AEAD calls)' % (len(incs), len(aead)), len(incs) + len(aead), where=F.where(enc.name)))
	for fu, callee, label in ((dlh, 'decrypt_with_ad', 'header'), (dm, 'decrypt_in_place_with_ad', 'body')):
		gs, incs, resets = _nonce_analysis(F, fu, 'rn')
		cb = fu.call_blocks(lambda p: p.endswith('::' + callee))
		ok = len(incs) == 1 and len(cb) == 1
		if ok:
			ds = call_decisions(fu, cb, 'result')
			r1 = P4_guarded(F, '15.d', fu, set(incs), ds, True, 'authentication succeeded', key='recv-nonce-after-auth@' + label)
			r2 = P5_must_pass(F, '15.d', fu, [0], ok_return_blocks(fu), set(incs), 'rn += 1 before returning Ok', key='recv-nonce-advances@' + label)
			out += r1 + r2
		else:
			out.append(Result('15.d', False, 'nonce:recv@' + label, 'decrypt (%s): expected one AEAD call and one nonce increment, found %d/%d' % (label, len(cb), len(incs)), len(cb) + len(incs), where=F.where(fu.name)))
	# the nonce handed to the AEAD is the current counter (not a constant / other counter)
	for fu, fld in ((enc, 'sn'), (dlh, 'rn'), (dm, 'rn')):
		ex = Expr(fu)
		for b in fu.call_blocks(lambda p: p.endswith('_with_ad')):
			args = [leaf_key(ex.of_operand(a)) for a in fu.blocks[b]['t'][2]['args']]
			ok = any(re.search(r'\b%s\b' % fld, a) for a in args)
			other = 'rn' if fld == 'sn' else 'sn'
			ok = ok and not any(re.search(r'\b%s\b' % other, a) for a in args)
			out.append(Result('15.d', ok, ('ok:' if ok else 'nonce:') + 'nonce-arg@%s:%d' % (fu.name.rsplit('::', 1)[-1], fu.call_blocks(lambda p: p.endswith('_with_ad')).index(b)), '%s passes its own counter (%s) as the AEAD nonce' % (fu.name.rsplit('::', 1)[-1], fld), 1, where=F.where(fu.name, fu.line_of(b))))
	# a failed MAC is an error
	dip = F.func(ENC + 'decrypt_in_place_with_ad')
	cb = dip.call_blocks(lambda p: p.endswith('ChaCha20Poly1305::decrypt') or p.endswith('::decrypt'))
	if not cb:
		out.append(Result('15.d', False, 'anchor:aead-decrypt', 'decrypt_in_place_with_ad no longer calls the AEAD decrypt', where=F.where(dip.name)))
	else:
		if not ok_return_blocks(dip) and any(c[0] == 'call' and (c[1] or '').endswith('Result::map_err') for b, s, c in ret_assignments(dip)):
			# `chacha.decrypt(..).map_err(..)` as the function's value: the verdict is returned, there is no Ok that could bypass it (same form as decrypt_with_ad)
			out.append(Result('15.d', True, 'ok:mac@in-place', 'decrypt_in_place_with_ad returns the AEAD verdict (map_err of decrypt); it constructs no Ok of its own', 1, where=F.where(dip.name)))
		else:
			ds = call_decisions(dip, cb, 'result')
			out += P4_guarded(F, '15.d', dip, set(ok_return_blocks(dip)), ds, True, 'AEAD tag verified', key='mac@in-place')
	dwa = F.func(ENC + 'decrypt_with_ad')
	ra = ret_assignments(dwa)
	okm = any(c[0] == 'call' and (c[1] or '').endswith('Result::map_err') for b, s, c in ra) and bool(dwa.call_blocks(lambda p: p.endswith('::decrypt')))
	out.append(Result('15.d', okm, ('ok:' if okm else 'shape:') + 'mac@copying', 'decrypt_with_ad returns the AEAD verdict (map_err of decrypt)', len(ra), where=F.where(dwa.name)))
	# message length limits
	lim = F.const('lightning::ln::peer_handler::LN_MAX_MSG_LEN') if any(k.endswith('peer_handler::LN_MAX_MSG_LEN') for k in F.consts) else F.const('LN_MAX_MSG_LEN')
	for fu, K, label in ((enc, lim + 18, 'encrypt'), (dm, lim + 16, 'decrypt')):
		gs = [Guard(fu, c) for c in comparisons(fu)]
		hit = [g for g in gs if len(g.nf[0]) == 1 and any('len(' in v for v in g.nf[0]) and g.nf[1] in ('Gt', 'Ge')]
		ok = len(hit) == 1 and ((hit[0].nf[1], hit[0].nf[2]) in (('Gt', K), ('Ge', K + 1)))
		out.append(Result('15.d', ok, ('ok:' if ok else 'shape:') + 'max-len@' + label, '%s refuses messages above LN_MAX_MSG_LEN (%s; expected len > %d)' % (label, [g.text() for g in hit], K), len(hit), where=F.where(fu.name)))
		if ok:
			for d in hit[0].decisions:
				r = fu.reach([e[1] for e in d.true_edges], removed_blocks={d.b})
				okk = not (r & set(fu.call_blocks(lambda p: p.endswith('_with_ad'))))
				out.append(Result('15.d', okk, ('ok:' if okk else 'guard:') + 'max-len-guards@' + label, 'an oversized message never reaches the AEAD (%s)' % label, 1, where=F.where(fu.name)))
	return out

def r15e(F):
	out = []
	for fnn, crypto in ((ENC + 'encrypt_message_with_header_0s', '_with_ad'), (ENC + 'decrypt_length_header', '_with_ad'), (ENC + 'decrypt_message', '_with_ad')):
		fu = F.func(fnn)
		try:
			sb, fin, rest = _finished_arm(F, fu)
		except AnchorMissing as e:
			out.append(Result('15.e', False, 'anchor:' + fnn.rsplit('::', 1)[-1], 'anchor missing: %s' % e))
			continue
		cb = set(fu.call_blocks(lambda p: p.endswith(crypto)))
		r_rest = fu.reach(list(rest), removed_blocks={fin, sb})
		ok = bool(cb) and not (cb & r_rest) and not (set(ok_return_blocks(fu)) & r_rest)
		out.append(Result('15.e', ok, ('ok:' if ok else 'state:') + 'finished-only@' + fnn.rsplit('::', 1)[-1], '%s: AEAD operations and Ok results only in NoiseState::Finished (other states panic / Err)' % fnn.rsplit('::', 1)[-1], len(cb), where=F.where(fnn)))
	# NoiseState::Finished is entered only at the end of act three (both roles)
	cs = sorted({root_fn(fn) for (a, v), lst in F.constructs.items() if a == PCE + 'NoiseState' and v == 'Finished' for fn, line in lst})
	allowed = {F.fn(ENC + 'process_act_two'), F.fn(ENC + 'process_act_three')}
	bad = [c for c in cs if c not in allowed]
	out.append(Result('15.e', not bad and len(cs) == 2, ('ok:' if not bad and len(cs) == 2 else 'state:') + 'finished-entered', 'NoiseState::Finished is constructed only in process_act_two (initiator) and process_act_three (responder): %s' % [c.rsplit('::', 1)[-1] for c in cs], len(cs)))
	# the acts verify their MAC before moving on: each process_act_* returns Ok only past decrypt_with_ad / inbound_noise_act Ok
	for act, chk in (('process_act_one_with_keys', 'inbound_noise_act'), ('process_act_two', 'inbound_noise_act'), ('process_act_three', 'decrypt_with_ad')):
		fu = F.func(ENC + act)
		cb = sites_call(fu, [ENC + chk])
		if not cb:
			out.append(Result('15.e', False, 'anchor:%s->%s' % (act, chk), '%s no longer calls %s' % (act, chk), where=F.where(fu.name)))
			continue
		ds = call_decisions(fu, cb, 'result')
		out += P4_guarded(F, '15.e', fu, set(ok_return_blocks(fu)), ds, True, '%s Ok' % chk, key='act-authenticated@' + act)
	# acts refuse a wrong version byte / wrong state
	return out

def r15f(F):
	"""partial socket writes resume exactly where the previous one stopped"""
	out = []
	fn = PM + 'do_attempt_write_data'
	fu = F.func(fn)
	ex = Expr(fu)
	out += P3_field_census(F, '15.f', PH + 'Peer.pending_outbound_buffer_first_msg_offset', [fn], kinds=('w', 'wi'), floor=2)
	adv, rst, other = [], [], []
	for bi, si, s in fu.stmts():
		fl = place_fields(s[1])
		if not fl or fl[-1] != 'pending_outbound_buffer_first_msg_offset':
			continue
		e = ex.of_rvalue(s[2])
		if e[0] == 'const' and e[1] == 0:
			rst.append(bi)
			continue
		terms, k = linear(e)
		own = [v for v in terms if v.endswith('pending_outbound_buffer_first_msg_offset')]
		sent = [v for v in terms if 'send_data' in v or 'data_sent' in v]
		if k == 0 and len(terms) == 2 and len(own) == 1 and len(sent) == 1 and terms[own[0]] == 1 and terms[sent[0]] == 1:
			adv.append(bi)
		else:
			other.append((s[0], expr_str(e)[:80]))
	ok = len(adv) == 1 and len(rst) == 1 and not other
	out.append(Result('15.f', ok, ('ok:' if ok else 'offset:') + 'write-offset-arithmetic', 'the offset into the message being written is advanced by the number of bytes the socket accepted (old + data_sent) and reset to 0 only when the message is complete%s' % ('' if not other else '; other stores: %s' % other), len(adv) + len(rst) + len(other), where=F.where(fn)))
	# the reset happens only when the whole buffer went out, and then the buffer is popped
	gs = [Guard(fu, c) for c in comparisons(fu)]
	done = [g for g in gs if g.op == 'Eq' and any(v.endswith('pending_outbound_buffer_first_msg_offset') for v in g.nf[0]) and any('len(' in v for v in g.nf[0])]
	def _recv_field(b):
		r = ex.of_operand(fu.blocks[b]['t'][2]['args'][0])
		while r[0] in ('ref', 'deref'):
			r = r[1]
		return r[2] if r[0] == 'field' else None
	pop = {b for b in fu.call_blocks(lambda p: p.endswith('VecDeque::pop_front')) if _recv_field(b) == 'pending_outbound_buffer'}
	if len(done) != 1 or not pop or not rst:
		out.append(Result('15.f', False, 'guard:message-complete', 'do_attempt_write_data: the `offset == buffer.len()` test / pop_front / reset was not found', len(done), where=F.where(fn)))
	else:
		out += P4_guarded(F, '15.f', fu, set(rst) | pop, done[0].decisions, True, 'whole message written', key='pop-only-when-complete')
	# the slice handed to the socket starts at the offset
	sd = fu.call_blocks(lambda p: p.endswith('SocketDescriptor::send_data'))
	oks = False
	for b in sd:
		a = ex.of_operand(fu.blocks[b]['t'][2]['args'][1])
		oks = 'pending_outbound_buffer_first_msg_offset' in expr_leaves(a)['fields']
	out.append(Result('15.f', oks, ('ok:' if oks else 'shape:') + 'send-from-offset', 'send_data is given the buffer from the current offset on', len(sd), where=F.where(fn)))
	return out

def r15g(F):
	"""inbound stream reassembly: once a message body has been decrypted, the reader is back in the expect-a-length-header state (flag set, buffer
	sized for the 18-byte header) before it looks at the next bytes or returns Ok - on every path, including the arms that merely ignore an undecodable message"""
	out = []
	fn = PM + 'do_read_event'
	fu = F.func(fn)
	body = sites_call(fu, [PCE + 'PeerChannelEncryptor::decrypt_message'])
	hdr = sites_call(fu, [PCE + 'PeerChannelEncryptor::decrypt_length_header'])
	if len(body) != 1 or len(hdr) != 1:
		return [Result('15.g', False, 'anchor:frame-decrypt-sites', 'do_read_event: expected one decrypt_length_header and one decrypt_message call (found %d / %d)' % (len(hdr), len(body)), where=F.where(fn))]
	set_true, set_false = set(), set()
	for b, si in sites_field_write(fu, 'pending_read_is_header'):
		rv = fu.blocks[b]['s'][si][2]
		if rv[0] == 'use' and rv[1][0] == 'k':
			(set_true if rv[1][1].get('v') else set_false).add(b)
	heads = back_edge_heads(fu) | {b for b in range(len(fu.blocks)) if fu.blocks[b]['t'][1] == 'falseunwind'}
	oks = set(ok_return_blocks(fu, variants=('Ok',)))
	live = fu.reach([0])
	# the outermost loop over the input bytes: the head from which the body decrypt is reachable and which is reachable from it
	outer = {h for h in heads if h in live and body[0] in fu.reach([h]) and h in fu.reach(body)}
	if not outer or not set_true:
		return [Result('15.g', False, 'anchor:read-loop', 'do_read_event: read loop head / header-state stores not found', where=F.where(fn))]
	# start on the Ok arm of the decrypt result (the macro around it also has ignore-and-continue arms for error actions a decrypt never returns)
	def ok_arm(cb):
		ds = call_decisions(fu, cb, 'result')
		return sorted({e[1] for d in ds for e in d.true_edges})
	after_body = ok_arm(body)
	out += P5_must_pass(F, '15.g', fu, after_body, sorted(outer | oks), set_true, 'pending_read_is_header = true after a decrypted body, before the next loop iteration or Ok return', key='header-state-restored-after-body')
	# and symmetrically: after a decrypted length header the reader expects a body
	after_hdr = ok_arm(hdr)
	if not after_body or not after_hdr:
		return [Result('15.g', False, 'anchor:decrypt-result-branch', 'do_read_event: the decrypt results are no longer branched on', where=F.where(fn))]
	out += P5_must_pass(F, '15.g', fu, after_hdr, sorted(outer | oks), set_false, 'pending_read_is_header = false after a decrypted length header', key='body-state-after-header')
	# the buffer is re-sized for the header where the flag is set back
	ex = Expr(fu)
	rs = []
	for b, ci in fu.calls():
		if norm(ci.get('f') or '').endswith('Vec::resize') and len(ci['args']) >= 2:
			e = ex.of_operand(ci['args'][1])
			if e[0] == 'const' and e[1] == 18:
				rs.append(b)
	ok = any(b2 in fu.reach([r], removed_blocks=outer) for r in rs for b2 in set_true if b2 in fu.reach(after_body)) if rs else False
	out.append(Result('15.g', ok, ('ok:' if ok else 'shape:') + 'header-buffer-resized', 'do_read_event resizes the read buffer to the 18-byte encrypted length header when it returns to the header state (%d resize(18) site(s))' % len(rs), len(rs), where=F.where(fn)))
	return out

def r15h(F):
	"""the node-id -> descriptor map is kept in step with the peer map: wherever a peer is removed from `peers`, its node_id_to_descriptor entry is
	removed too, conditional on nothing but the peer having a node id (a stale entry makes every later connection of that node fail or panic
	right after its handshake)"""
	out = []
	n = 0
	REM = ('HashMap::remove', 'HashMap::retain', 'HashMap::drain', 'HashMap::clear', 'Entry::remove', 'HashMap::remove_entry')
	for name in sorted(F.fns):
		if not name.startswith(PM) or '{closure' in name:
			continue
		try:
			fu = F.func(name)
		except AnchorMissing:
			continue
		ex = None
		peers, n2d = [], []
		for b, ci in fu.calls():
			f = norm(ci.get('f') or ci.get('t') or '')
			if f.endswith(REM) and ci['args'] and b in fu.reach([0]):
				ex = ex or Expr(fu)
				k = leaf_key(ex.of_operand(ci['args'][0]))
				# the receiver may be a lock guard bound to a local first: resolve it to the field it is rooted in
				rf = mutations.root_field(ex.of_operand(ci['args'][0]), ex)
				if rf and rf.endswith(('.node_id_to_descriptor', '.peers')):
					k = rf
				if 'node_id_to_descriptor' in k:
					n2d.append(b)
				elif 'peers' in k and f.endswith(('HashMap::remove', 'HashMap::drain', 'HashMap::clear', 'HashMap::remove_entry', 'Entry::remove')) and 'peers_to_disconnect' not in k.split('(')[-1]:
					peers.append(b)
		if not peers:
			continue
		n += 1
		short = name.rsplit('::', 1)[-1]
		if not n2d:
			out.append(Result('15.h', False, 'stale:node-id-map@' + short, '%s removes a peer from the peer map (line %s) but never touches node_id_to_descriptor' % (short, fu.line_of(peers[0])), 1, where=F.where(name)))
			continue
		base = set()
		for b in peers:
			base |= {k for sb, k, ln in control_conds(fu, b)}
		extra = []
		for b in n2d:
			for sb, k, ln in control_conds(fu, b):
				if k in base or k.startswith('disc:') or 'node_id_to_descriptor' in k:
					continue
				extra.append((ln, k[-70:]))
		ok = not extra
		out.append(Result('15.h', ok, ('ok:' if ok else 'stale:') + 'node-id-map@' + short, '%s: the node_id_to_descriptor entry is removed together with the peer, depending only on the peer having a node id%s' % (short, '' if ok else ' - extra condition(s) %s: when they do not hold the entry survives its peer, and the next connection from that node is refused (panics in debug builds) once its handshake completes' % extra[:2]), len(peers) + len(n2d), where=F.where(name, fu.line_of(n2d[0]))))
	if n < 5:
		out.append(Result('15.h', False, 'floor:peer-removal-sites', 'only %d functions removing peers found (expected >= 5)' % n, n))
	return out

def r15i(F):
	"""the body buffer is sized as (announced length as usize) + 16: the MAC length is added AFTER widening the u16 length; added in u16
	it wraps for lengths 65520..=65535 (a legal near-maximum message is never delivered and any handshaken peer can panic the node)"""
	fn = 'lightning::ln::peer_handler::PeerManager::do_read_event'
	out = []
	n = 0
	for name in F.family(fn):
		fu = F.func(name)
		ex = Expr(fu)
		for b, ci in fu.calls():
			if not norm(ci.get('f') or '').endswith('Vec::resize') or len(ci['args']) < 2:
				continue
			e = ex.of_operand(ci['args'][1])
			if 'decrypt_length_header' not in expr_str(e):
				continue
			n += 1
			# any arithmetic below a widening cast is done in the narrow type
			narrow = []
			def walk(x, under_cast=False):
				if not isinstance(x, tuple):
					return
				if x[0] == 'cast':
					walk(x[1], True)
					return
				if x[0] == 'bin' and x[1].startswith(('Add', 'Mul', 'Sub')) and under_cast:
					narrow.append(expr_str(x)[-60:])
				if x[0] == 'call' and (x[1] or '').rsplit('::', 1)[-1] in ('wrapping_add', 'saturating_add', 'checked_add') and under_cast:
					narrow.append(expr_str(x)[-60:])
				for y in x[1:]:
					if isinstance(y, tuple):
						walk(y, under_cast)
					elif isinstance(y, list):
						for z in y:
							walk(z, under_cast)
			walk(e)
			terms, k = linear(e)
			ok = not narrow and k == 16 and len(terms) == 1
			out.append(Result('15.i', ok, ('ok:' if ok else 'width:') + 'body-buffer-size', 'do_read_event: the read buffer for a message body is resized to `%s` (expected (length as usize) + 16, the addition in usize)%s' % (expr_str(e)[-70:], '' if not narrow else ' - arithmetic in the narrow type: %s' % narrow), 1, where=None if ok else F.where(name, fu.line_of(b))))
	if n == 0:
		out.append(Result('15.i', False, 'anchor:body-buffer-size', 'do_read_event: no resize of the read buffer from the decrypted length header found', where=F.where(fn)))
	return out

RULES = [
	('15.a', 'nothing is handed to the handlers before Init; second Init / non-Init first message / handler refusal end in Err', r15a),
	('15.b', 'protocol handler methods are reached only downstream of the Init gate', r15b),
	('15.c', 'do_read_event: every handshake / decrypt / decode result is branched on; the body reaches handle_message only on success', r15c),
	('15.d', 'AEAD discipline: same rotation threshold both ways, nonce +1 per operation (receive: after authentication), MAC failure is an error, size limits', r15d),
	('15.f', 'outbound stream: partial writes resume at old offset + bytes accepted; a message is popped only when complete', r15f),
	('15.g', 'inbound reassembly: header state restored after every decrypted body (also on ignore-and-continue arms), body state after every header', r15g),
	('15.h', 'node_id_to_descriptor is cleaned wherever a peer is removed, unconditionally on the handshake state', r15h),
	('15.e', 'messages are encrypted / decrypted only in NoiseState::Finished, entered only by an authenticated act', r15e),
	('15.p', 'same-name field transfer: structs carrying this property\'s quantities are filled from the same-named field or a reviewed alias (rules/provenance.py)', lambda F: provenance.for_property(F, 'C15', '15.p')),
	('15.q', 'no call hands a value named like one parameter of the callee to a different parameter (swapped type-compatible arguments; rules/provenance.py)', lambda F: provenance.swaps_for_property(F, 'C15', '15.q')),
	('15.i', 'the message-body buffer size is computed in usize (length widened before the MAC length is added)', r15i),
	('15.w', 'no length / count is added to or multiplied in an 8/16-bit type and widened afterwards (wrap-around at the top of the range; rules/provenance.py)', lambda F: provenance.narrow_for_property(F, 'C15', '15.w')),
	('15.z', 'named protocol / policy constants in this property\'s files have their reviewed values (rules/provenance.py)', lambda F: provenance.consts_for_property(F, 'C15', '15.z')),
	('15.x', 'range indexing of fixed-size buffers stays in bounds wherever the end is statically bounded (a wire length byte can be 255; rules/provenance.py)', lambda F: provenance.arrays_for_property(F, 'C15', '15.x')),
	('15.v', 'field-versus-field comparisons (a received value against a limit, an id against an id) are the reviewed ones: same fields, same operator (rules/provenance.py)', lambda F: provenance.cmps_for_property(F, 'C15', '15.v')),
	('15.y', 'no reviewed function gained a swallowed error (the Result of a fallible in-crate call dropped; rules/provenance.py)', lambda F: provenance.dr_for_property(F, 'C15', '15.y')),
]
RULES.append(('15.R', 'state resets: every reviewed constant write to persistent state (flag = true / false, counter = 0, pending slot = None) of a function is still made (rules/provenance.py)', lambda F: provenance.flags_for_property(F, 'C15', '15.R')))
RULES.append(('15.P', 'panic sites: no reviewed function that parses / handles untrusted input gained an unwrap / expect / explicit panic / bounds-checked index / length-checked copy / division (rules/provenance.py; panic freedom itself is not decided)', lambda F: provenance.panics_for_property(F, 'C15', '15.P')))
RULES.append(('15.M', 'collection mutations: every reviewed (function, stored collection, mutator class: add / remove / filter / empty / swap / order) triple is still present - an entry that is no longer removed, inserted or drained on one path (rules/mutations.py)', lambda F: mutations.for_property(F, 'C15', '15.M')))
RULES.append(('15.G', 'guard census: no reviewed call of a workspace function and no reviewed mutation of a stored collection gained a controlling branch condition (an added `&& cond`, early return / continue, more specific match arm in front of an act); counts per call site, name free (rules/guards.py)', lambda F: guards.for_property(F, 'C15', '15.G')))

def r15n(F):
	"""a fresh ephemeral Noise key per connection: PeerManager::get_ephemeral_key hashes the very engine into which the per-connection counter was
	fed - the value handed to Sha256::from_engine is the local on which `input(counter bytes)` was called, and those bytes come from
	peer_counter.next().  With a key that does not depend on the counter every connection of the node uses the same ephemeral key, and a recorded
	session of an honest peer replays successfully on a new connection (act three authenticates, the recorded messages are processed)"""
	fn = PM + 'get_ephemeral_key'
	fu = F.func(fn)
	ex = Expr(fu)
	fe = [(b, ci) for b, ci in fu.calls() if norm(ci.get('f') or ci.get('t') or '').endswith('from_engine')]
	inp = [(b, ci) for b, ci in fu.calls() if norm(ci.get('f') or ci.get('t') or '').endswith('::input') and len(ci['args']) >= 2]
	if not fe or not inp:
		return [Result('15.n', False, 'anchor:ephemeral-key', 'get_ephemeral_key: from_engine / input calls not found (%d/%d)' % (len(fe), len(inp)), where=F.where(fn))]
	out = []
	for b, ci in fe:
		a = ci['args'][0]
		loc = a[1][0] if a[0] in ('c', 'm') and len(a[1]) == 1 else None
		for _ in range(4):   # `_t = move engine` temporaries
			ds = fu.defs.get(loc, []) if loc is not None else []
			if len(ds) == 1 and ds[0][3][0] == 'use' and ds[0][3][1][0] in ('c', 'm') and len(ds[0][3][1][1]) == 1:
				loc = ds[0][3][1][1][0]
			else:
				break
		fed = []
		for b2, c2 in inp:
			r = ex.of_operand(c2['args'][0])
			while r[0] in ('ref', 'deref'):
				r = r[1]
			tgt = r[1] if r[0] == 'local' else None
			# the raw operand: a temporary holding `&mut engine`
			o = c2['args'][0]
			if tgt is None and o[0] in ('c', 'm'):
				for d in fu.defs.get(o[1][0], []):
					if d[3][0] == 'ref' and len(d[3][2]) == 1:
						tgt = d[3][2][0]
			data = ex.of_operand(c2['args'][1])
			calls = expr_leaves(data)['calls'] if isinstance(expr_leaves(data), dict) else set()
			from_counter = any(str(c).endswith('next') for c in calls) and 'peer_counter' in leaf_key(data)
			if tgt is not None and tgt == loc and from_counter and b in fu.reach([b2]):
				fed.append(b2)
		ok = bool(fed)
		out.append(Result('15.n', ok, ('ok:' if ok else 'shape:') + 'ephemeral-key-from-counter', 'get_ephemeral_key: the engine hashed into the key is the one the per-connection counter (peer_counter.next()) was fed into' if ok else 'get_ephemeral_key: the engine handed to Sha256::from_engine (%s) is not the local into which the per-connection counter was fed: every connection gets the same ephemeral key and a recorded handshake + session replays on a new connection' % expr_str(ex.of_operand(a))[:80], 1 + len(inp), where=F.where(fn, fu.line_of(b))))
	return out

RULES.append(('15.n', 'a fresh ephemeral key per connection: get_ephemeral_key hashes the engine into which peer_counter.next() was fed (data-flow rule)', r15n))
RULES.append(('15.W', 'field assignments: every reviewed (function, Type.field) direct assignment is still made - state that a path no longer updates, or updates only conditionally (get_or_insert for an overwrite); generalises NN.R (rules/writes.py)', lambda F: writes.for_property(F, 'C15', '15.W')))
RULES.append(('15.N', 'arithmetic census: per reviewed function the set of operation kinds (group: add/sub, mul, div, rem, shift, bit, min, max, div_ceil ...; flavour: plain / checked / saturating / wrapping) keeps its kinds: no reviewed function lost or gained a kind of arithmetic altogether - a rounding direction (`/` for div_ceil), saturating for checked, min for max (rules/arith.py; counts and value arithmetic itself are not judged)', lambda F: arith.for_property(F, 'C15', '15.N')))
RULES.append(('15.K', 'constant census of linear forms: every comparison (normalised to sum >= K over name-free atoms, a comparison and its negation being one form) and every maximal arithmetic expression of a reviewed function keeps its coefficients and its constant - a dropped or added `+ 1` / `- 1`, `<` for `<=` inside a computed bound, a scale factor applied twice or not at all, swapped operands of a comparison (rules/linforms.py; shapes that appear or disappear are not judged, the guard / arithmetic censuses judge those)', lambda F: linforms.for_property(F, 'C15', '15.K')))
