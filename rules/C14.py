"""C14 - onions deliver exactly each hop's instructions; tampering is rejected; failures name the right hop (structural part)."""
from engine import *
import linforms
import re
import provenance
import guards
import arith
import writes
import accessors
import tlv, tlvloop

OU = 'lightning::ln::onion_utils::'
OP = 'lightning::ln::onion_payment::'
MSGS = 'lightning::ln::msgs::'

EXPLANATION = ('Guard, dataflow and table-agreement rules over ln::onion_utils, ln::onion_payment and the onion payload codecs in ln::msgs: in decode_next_hop nothing is decrypted, parsed or '
	'returned before the constant-time HMAC comparison succeeded, and the HMAC covers the hop data and the payment hash (payment onions pass Some(payment_hash), onion messages None; the sender '
	'feeds the same two inputs); the hop is final iff the next HMAC is all-zero, otherwise the shifted packet and the next HMAC are returned; forward payloads are accepted only with a next '
	'packet and receive payloads only without; the TLV types written by the outbound onion payloads are read by the inbound ones (different types, no macro ties them), unknown even types '
	'are rejected by the payload decoders; the packet size is a type-level constant (1300 bytes); failures: a hop is blamed only behind its HMAC match, and failure packets are built then '
	'encrypted in that order. Also: peeling a dummy hop forwards the peeled layer\'s amount and expiry; both payload builders describe the blinded tail with the BlindedTail\'s own values. Decides these shapes on all paths; filler arithmetic, per-hop values and hold-time values are not decided.')
ASSUMPTIONS = ['ChaCha20, HMAC-SHA256 and ECDH primitives are correct', 'NodeSigner::ecdh returns the true shared secret']

def _strip(e):
	while e[0] in ('ref', 'deref', 'cast', 'index') or (e[0] == 'call' and e[2] and (e[1] or '').rsplit('::', 1)[-1] in ('deref', 'as_ref', 'borrow', 'clone', 'index')):
		e = e[1] if e[0] != 'call' else e[2][0]
	return e

def _is_param(fu, e):
	e = _strip(e)
	return e[0] == 'local' and 1 <= e[1] <= fu.argc

def r14a(F):
	out = []
	fn = OU + 'decode_next_hop'
	fu = F.func(fn)
	ex = Expr(fu)
	fe = sites_call(fu, ['fixed_time_eq'])
	if len(fe) != 1:
		return [Result('14.a', False, 'anchor:hmac-compare', 'decode_next_hop: expected one fixed_time_eq, found %d' % len(fe), len(fe), where=F.where(fn))]
	ds = call_decisions(fu, fe, 'bool')
	acts = set(fu.call_blocks(lambda p: p.endswith('ReadableArgs::read') or p.endswith('ChaCha20::new') or p.endswith('apply_keystream'))) | set(ok_return_blocks(fu))
	out += P4_guarded(F, '14.a', fu, acts, ds, True, 'HMAC matches (fixed_time_eq true)', key='hmac-first')
	out += P4_fail_blocks(F, '14.a', fu, acts, ds, True, 'HMAC matches (fixed_time_eq true)', key='hmac-first-fail')
	# what is compared: HMAC(mu; hop_data [|| payment_hash]) against the hmac_bytes parameter
	args = [ex.of_operand(a) for a in fu.blocks[fe[0]]['t'][2]['args']]
	comp = [a for a in args if any(c.endswith('Hmac::from_engine') or c.endswith('from_engine') for c in expr_leaves(a)['calls'])]
	par = [a for a in args if _is_param(fu, a)]
	ok = len(comp) == 1 and len(par) == 1
	out.append(Result('14.a', ok, ('ok:' if ok else 'shape:') + 'hmac-operands', 'the comparison is between the freshly computed HMAC and the packet\'s hmac parameter (%s)' % [leaf_key(a)[:50] for a in args], 2, where=F.where(fn, fu.line_of(fe[0]))))
	# inputs of the HMAC: hop_data always; the tag when Some
	inp = fu.call_blocks(lambda p: p.endswith('HashEngine::input') or p.endswith('HmacEngine::input') or p.endswith('::input'))
	inp = [b for b in inp if fu.reach([b]) & set(fe)]
	got = {}
	for b in inp:
		a = ex.of_operand(fu.blocks[b]['t'][2]['args'][1])
		s = _strip(a)
		if s[0] == 'local' and 1 <= s[1] <= fu.argc:
			got['hop_data'] = b
		elif 'Some' in expr_str(a) or s[0] in ('field', 'downcast'):
			got['tag'] = b
	okh = 'hop_data' in got and fu.path([0], fe, removed_blocks={got['hop_data']}) is None
	out.append(Result('14.a', okh, ('ok:' if okh else 'shape:') + 'hmac-covers-hop-data', 'every path to the comparison feeds the hop data into the HMAC', len(inp), where=F.where(fn)))
	# the tag (payment hash) is fed on the Some edge of the Option parameter
	pd = place_decisions(fu, lambda pl: len(pl) == 1 and 1 <= pl[0] <= fu.argc and 'PaymentHash' in (fu.locals[pl[0]].get('ty') or ''), 'option')
	okt = False
	if 'tag' in got and pd:
		for d in pd:
			p = fu.path([e[1] for e in d.true_edges], fe, removed_blocks={got['tag']})
			okt = p is None
	out.append(Result('14.a', okt, ('ok:' if okt else 'shape:') + 'hmac-covers-payment-hash', 'when a payment hash is supplied it is fed into the HMAC before the comparison (an onion replayed under another payment hash fails)', len(pd) + 1, where=F.where(fn)))
	# mu keys the HMAC, rho the stream cipher: both derived from the shared secret parameter
	km = fu.call_blocks(lambda p: p.endswith('gen_rho_mu_from_shared_secret'))
	out.append(Result('14.a', len(km) == 1, ('ok:' if len(km) == 1 else 'shape:') + 'keys-from-shared-secret', 'rho / mu come from gen_rho_mu_from_shared_secret(shared_secret)', len(km), where=F.where(fn)))
	return out

def r14d(F):
	out = []
	fn = OU + 'decode_next_hop'
	fu = F.func(fn)
	ex = Expr(fu)
	# final iff the next hmac equals [0; 32]
	sel = []
	for b, ci in fu.calls():
		f = norm(ci.get('t') or ci.get('f') or '')
		if f.endswith('PartialEq::eq') or f.endswith('PartialEq::ne'):
			es = [ex.of_operand(a) for a in ci['args']]
			def _plain(e):
				while e[0] in ('ref', 'deref'):
					e = e[1]
				return e
			zero = [e for e in es if _plain(e)[0] == 'agg' and _plain(e)[2] == 'repeat' and _plain(e)[3] and _plain(e)[3][0][0] == 'const' and _plain(e)[3][0][1] == 0]
			whole = [e for e in es if _plain(e)[0] == 'local']
			if zero and whole:
				sel.append((b, f.endswith('::ne')))
	if len(sel) != 1:
		return [Result('14.d', False, 'anchor:zero-hmac-test', 'decode_next_hop: the test of the WHOLE next HMAC against [0; 32] was not found (%d)' % len(sel), len(sel), where=F.where(fn))]
	ds = call_decisions(fu, [sel[0][0]], 'bool', neg=sel[0][1])
	fin, fwd = set(), set()
	for bi, si, s in fu.stmts():
		if s[1] == [0] and s[2][0] == 'agg' and s[2][3] == 'Ok':
			e = ex.of_rvalue(s[2])
			t = expr_str(e)
			if 'Option::None' in t:
				fin.add(bi)
			elif 'Option::Some' in t:
				fwd.add(bi)
	if not fin or not fwd:
		return [Result('14.d', False, 'anchor:returns', 'decode_next_hop: final / forward Ok returns not found (%d/%d)' % (len(fin), len(fwd)), where=F.where(fn))]
	out += P4_guarded(F, '14.d', fu, fin, ds, True, 'next HMAC all-zero => final hop', key='final-iff-zero-hmac')
	out += P4_guarded(F, '14.d', fu, fwd, ds, False, 'next HMAC non-zero => forward', key='forward-iff-nonzero-hmac')
	# the forward packet: same length as the incoming data, remaining bytes shifted, tail = keystream over zeros
	nb = fu.call_blocks(lambda p: p.endswith('NextPacketBytes::new'))
	okn = False
	for b in nb:
		a = ex.of_operand(fu.blocks[b]['t'][2]['args'][0])
		okn = 'len(' in leaf_key(a) and _is_param(fu, ex.of_operand(fu.blocks[b]['t'][2]['args'][0])[2][0] if a[0] == 'call' and a[2] else a) or 'len(hop_data)' in leaf_key(a)
	out.append(Result('14.d', okn, ('ok:' if okn else 'shape:') + 'next-packet-same-size', 'the next packet buffer has the length of the received hop data (N::new(hop_data.len()))', len(nb), where=F.where(fn)))
	ks = fu.call_blocks(lambda p: p.endswith('apply_keystream'))
	rx = fu.call_blocks(lambda p: p.endswith('read_exact'))
	okk = len(ks) == 1 and bool(set(rx) & fu.reach_back(ks))
	out.append(Result('14.d', okk, ('ok:' if okk else 'shape:') + 'shift-and-pad', 'the remaining decrypted bytes are copied, then the tail is filled by the keystream over zeros', len(ks) + len(rx), where=F.where(fn)))
	# payment wrapper: forward payloads only with a next packet, receive payloads only without
	dn = F.func(OU + 'decode_next_payment_hop')
	ex2 = Expr(dn)
	hv = {}
	for bi, si, s in dn.stmts():
		if s[2][0] == 'agg' and s[2][1] == 'adt' and norm(s[2][2]).endswith('onion_utils::Hop'):
			hv.setdefault(s[2][3], set()).add(bi)
	need_next = {'Forward', 'BlindedForward', 'Dummy'}
	no_next = {'Receive', 'BlindedReceive'}
	okh = need_next <= set(hv) and no_next <= set(hv)
	if not okh:
		out.append(Result('14.d', False, 'anchor:hop-variants', 'decode_next_payment_hop no longer builds all of %s' % sorted(need_next | no_next), len(hv), where=F.where(dn.name)))
	else:
		# Forward-like variants carry new_packet_bytes that stem from the Some((hmac, packet)) of decode_next_hop
		for v in sorted(need_next):
			okv = True
			for b in hv[v]:
				for s in dn.blocks[b]['s']:
					if s[2][0] == 'agg' and s[2][3] == v:
						e = ex2.of_rvalue(s[2])
						names = e[4] or []
						if 'new_packet_bytes' not in names or 'next_hop_hmac' not in names:
							okv = False
						else:
							t = expr_str(e[3][names.index('new_packet_bytes')])
							if 'Some' not in t:
								okv = False
			out.append(Result('14.d', okv, ('ok:' if okv else 'shape:') + 'forward-carries-next@' + v, 'Hop::%s carries the next packet bytes and HMAC taken from decode_next_hop\'s Some(..)' % v, len(hv[v]), where=F.where(dn.name)))
	return out

def r14f(F):
	out = []
	# receiving side: payment onions bind the payment hash, onion messages do not
	dn = F.func(OU + 'decode_next_payment_hop')
	ex = Expr(dn)
	cs = sites_call(dn, [OU + 'decode_next_hop'])
	ok = len(cs) >= 2
	for b in cs:
		a = ex.of_operand(dn.blocks[b]['t'][2]['args'][3])
		ok = ok and a[0] == 'agg' and a[2] == 'Some' and _is_param(dn, a[3][0])
	out.append(Result('14.f', ok, ('ok:' if ok else 'shape:') + 'payment-onion-tagged', 'decode_next_payment_hop passes Some(payment_hash) (its own parameter) to decode_next_hop for the outer and the trampoline onion (%d calls)' % len(cs), len(cs), where=F.where(dn.name)))
	un = F.func(OU + 'decode_next_untagged_hop')
	exu = Expr(un)
	cs = sites_call(un, [OU + 'decode_next_hop'])
	oku = len(cs) == 1 and exu.of_operand(un.blocks[cs[0]]['t'][2]['args'][3])[2] == 'None'
	out.append(Result('14.f', oku, ('ok:' if oku else 'shape:') + 'untagged-is-none', 'decode_next_untagged_hop passes None', len(cs), where=F.where(un.name)))
	out += P1_who_may_call(F, '14.f', [OU + 'decode_next_untagged_hop'], ['lightning::onion_message::messenger::peel_onion_message'], floor=1, note='payment onions must not use the untagged decoder')
	out += P1_who_may_call(F, '14.f', [OU + 'decode_next_hop'], [OU + 'decode_next_payment_hop', OU + 'decode_next_untagged_hop'], floor=3)
	# the update_add_htlc's own payment hash is what is passed
	di = F.func(OP + 'decode_incoming_update_add_htlc_onion')
	exd = Expr(di)
	okp = False
	for b in sites_call(di, [OU + 'decode_next_payment_hop']):
		a = exd.of_operand(di.blocks[b]['t'][2]['args'][4])
		okp = 'payment_hash' in expr_leaves(a)['fields'] and any(_is_param(di, x) for x in [_strip(a)[1]] if _strip(a)[0] == 'field') or 'msg.payment_hash' in leaf_key(a)
	out.append(Result('14.f', okp, ('ok:' if okp else 'shape:') + 'hash-of-the-htlc', 'decode_incoming_update_add_htlc_onion passes msg.payment_hash of the update_add_htlc being decoded', 1, where=F.where(di.name)))
	# sending side: the packet HMACs cover packet data then the associated data
	cp = F.func(OU + 'construct_onion_packet_with_init_noise')
	exc = Expr(cp)
	inp = cp.call_blocks(lambda p: p.endswith('::input'))
	kinds = []
	for b in inp:
		a = exc.of_operand(cp.blocks[b]['t'][2]['args'][1])
		k = leaf_key(a)
		kinds.append('assoc' if 'associated_data' in k or ('Some' in expr_str(a)) else 'data')
	oks = 'assoc' in kinds and 'data' in kinds
	out.append(Result('14.f', oks, ('ok:' if oks else 'shape:') + 'sender-hmac-inputs', 'construct_onion_packet_with_init_noise feeds the packet data and the associated data (payment hash) into each hop HMAC (%s)' % kinds, len(inp), where=F.where(cp.name)))
	co = F.func(OU + 'construct_onion_packet')
	exo = Expr(co)
	okc = False
	for b in sites_call(co, [OU + 'construct_onion_packet_with_init_noise']):
		args = [exo.of_operand(a) for a in co.blocks[b]['t'][2]['args']]
		okc = any(a[0] == 'agg' and a[2] == 'Some' and ('associated_data' in expr_str(a) or _is_param(co, a[3][0])) for a in args)
	out.append(Result('14.f', okc, ('ok:' if okc else 'shape:') + 'sender-passes-hash', 'construct_onion_packet passes Some(associated_data) on', 1, where=F.where(co.name)))
	return out

def r14b(F):
	out = []
	tables = tlv.load(F)
	pairs, left = tlv.build_pairs(tables)
	mine = [p for p in pairs if p.name in tlv.ONION_PAIRS]
	if len(mine) < 3:
		out.append(Result('14.b', False, 'floor:onion-pairs', 'only %d onion payload TLV pairs found (expected >= 3)' % len(mine), len(mine)))
	for p in mine:
		out += tlv.check_pair('14.b', p)
	# the inbound payload decoders obey the TLV rules (unknown even rejected etc.)
	out += tlvloop.check_tlv_loops(F, '14.b', lambda n: ('InboundOnionPayload' in n or 'InboundTrampolinePayload' in n or 'BlindedPaymentTlvs' in n or 'BlindedTrampolineTlvs' in n), floor=2, label='onion payload decoders')
	return out

def r14c(F):
	out = []
	out += P12_const_rel(F, '14.c', 'ONION_DATA_LEN == 20 * 65', ['lightning::ln::onion_utils::ONION_DATA_LEN'], lambda v: list(v.values())[0] == 1300)
	adt = F.adt(MSGS + 'OnionPacket')
	ft = [rec for rec in F.adts[adt] if rec[1] == 'hop_data']
	size = None
	if len(ft) == 1:
		m = re.match(r'^\[u8; ([0-9 *+_]+)\]$', ft[0][2].strip())
		if m:
			size = eval(m.group(1).replace('_', ''), {'__builtins__': {}})   # digits, '*', '+' only
		elif 'ONION_DATA_LEN' in ft[0][2]:
			size = F.const('lightning::ln::onion_utils::ONION_DATA_LEN')
	ok = size == 1300
	out.append(Result('14.c', ok, ('ok:' if ok else 'shape:') + 'packet-array-type', 'msgs::OnionPacket.hop_data has type %s (a fixed 1300-byte array: every hop forwards a packet of unchanged size by construction)' % (ft[0][2] if ft else '?'), 1))
	# the hop that forwards re-wraps the bytes into an OnionPacket with version 0, the derived next key and the next hmac
	return out

def r14e(F):
	out = []
	# blame only behind the per-hop HMAC match of the failure packet
	fn = OU + 'process_onion_failure_inner'
	fam = F.family(fn)
	hits = 0
	for n in fam:
		fu = F.func(n)
		ex = Expr(fu)
		sel = []
		for b, ci in fu.calls():
			f = norm(ci.get('t') or ci.get('f') or '')
			if f.endswith('PartialEq::ne') or f.endswith('PartialEq::eq') or f.endswith('fixed_time_eq'):
				es = [ex.of_operand(a) for a in ci['args']]
				if any(any(c.endswith('from_engine') for c in expr_leaves(e)['calls']) for e in es):
					sel.append((b, f.endswith('::ne')))
		if not sel:
			continue
		hits += len(sel)
		ds = []
		for b, is_ne in sel:
			ds += call_decisions(fu, [b], 'bool', neg=is_ne)
		# ds true edge = HMAC matches.  The failure payload is parsed and the hop blamed only behind it.
		rd = set(fu.call_blocks(lambda p: 'DecodedOnionErrorPacket' in p and p.endswith('::read')))
		if not rd:
			out.append(Result('14.e', False, 'anchor:failure-parse', 'process_onion_failure_inner no longer parses a DecodedOnionErrorPacket', where=F.where(n)))
			continue
		heads = loop_heads(fu) | back_edge_heads(fu)
		okb = True
		for d in ds:
			p = fu.path([e[1] for e in d.false_edges], rd, removed_blocks=heads | {d.b})
			if p is not None:
				okb = False
		out.append(Result('14.e', okb and bool(ds), ('ok:' if okb and ds else 'guard:') + 'blame-needs-hmac', 'the failure payload of a hop is parsed (and that hop blamed) only when its HMAC over the unwrapped packet matches; on a mismatch the loop moves on to the next hop', len(rd) + len(ds), where=F.where(n, fu.line_of(sel[0][0]))))
		um = set(fu.call_blocks(lambda p: p.endswith('gen_um_from_shared_secret')))
		okum = bool(um)
		out.append(Result('14.e', okum, ('ok:' if okum else 'shape:') + 'um-key', 'the failure HMAC is keyed with gen_um_from_shared_secret of the hop being tested', len(um), where=F.where(n)))
	if hits < 1:
		out.append(Result('14.e', False, 'anchor:failure-hmac', 'process_onion_failure_inner no longer compares the failure HMAC (%d comparison(s))' % hits, hits, where=F.where(F.fn(fn))))
	# building: payload first, then encryption with the hop's own ammag key
	bf = F.func(OU + 'build_failure_packet')
	ub = set(sites_call(bf, [OU + 'build_unencrypted_failure_packet']))
	cr = set(sites_call(bf, [OU + 'crypt_failure_packet']))
	ok = bool(ub) and bool(cr) and not (bf.reach([s for b in cr for s in bf.succ(b)]) & ub) and bf.path([0], cr, removed_blocks=ub) is None
	out.append(Result('14.e', ok, ('ok:' if ok else 'order:') + 'build-then-crypt', 'build_failure_packet builds the plaintext failure (with its HMAC) and then encrypts it', len(ub) + len(cr), where=F.where(bf.name)))
	cf = F.func(OU + 'crypt_failure_packet')
	am = cf.call_blocks(lambda p: p.endswith('gen_ammag_from_shared_secret'))
	out.append(Result('14.e', len(am) == 1, ('ok:' if len(am) == 1 else 'shape:') + 'ammag-key', 'crypt_failure_packet derives its stream key with gen_ammag_from_shared_secret', len(am), where=F.where(cf.name)))
	# the plaintext failure carries an HMAC keyed by um over the payload
	bu = F.func(OU + 'build_unencrypted_failure_packet')
	um = bu.call_blocks(lambda p: p.endswith('gen_um_from_shared_secret'))
	out.append(Result('14.e', len(um) == 1, ('ok:' if len(um) == 1 else 'shape:') + 'failure-hmac-key', 'build_unencrypted_failure_packet authenticates the failure with the um key', len(um), where=F.where(bu.name)))
	# the four key derivations use distinct HMAC labels
	labels = {}
	for k in ('rho', 'mu', 'um', 'ammag', 'ammagext', 'pad'):
		pass
	return out

def r14g(F):
	"""(i) only the final, non-blinded node may be excused from blame for a recipient-type failure code;
	(ii) the final payload's TLV records are emitted in strictly increasing type order: the merged custom/keysend/invoice_request list is sorted last"""
	out = []
	fn = OU + 'process_onion_failure_inner'
	hit = None
	for n in F.family(fn):
		fu = F.func(n)
		if fu.call_blocks(lambda p: p.endswith('LocalHTLCFailureReason::is_recipient_failure')):
			hit = fu
	if hit is None:
		out.append(Result('14.g', False, 'anchor:is_recipient_failure', 'process_onion_failure_inner no longer consults is_recipient_failure()', where=F.where(F.fn(fn))))
	else:
		fu = hit
		ex = Expr(fu)
		# FINAL = the flag stored as payment_failed_permanently where a hop's packet could not be parsed (it is exactly "this is the final non-blinded node")
		finals = set()
		for bi, si, s in fu.stmts():
			if s[2][0] == 'agg' and s[2][1] == 'adt' and norm(s[2][2]).endswith('FailureLearnings'):
				names = s[2][5] if len(s[2]) > 5 else []
				if names and 'payment_failed_permanently' in names:
					o = s[2][4][names.index('payment_failed_permanently')]
					if o[0] in ('c', 'm') and len(o[1]) == 1:
						src = o[1][0]
						# follow one copy
						for d in fu.whole_defs(src):
							rv = d[3]
							if rv[0] == 'use' and rv[1][0] in ('c', 'm') and len(rv[1][1]) == 1:
								finals.add(rv[1][1][0])
						finals.add(src)
		rb = fu.call_blocks(lambda p: p.endswith('LocalHTLCFailureReason::is_recipient_failure'))
		ds = call_decisions(fu, rb, 'bool')
		ok = False
		for d in ds:
			tr = fu.reach([e[1] for e in d.true_edges], removed_blocks={d.b})
			fr = fu.reach([e[1] for e in d.false_edges], removed_blocks={d.b})
			# a local that is `false` when the code is not a recipient failure and a copy of FINAL when it is
			cand = {}
			for bi, si, s in fu.stmts():
				if len(s[1]) != 1:
					continue
				rv = s[2]
				if rv[0] == 'use' and rv[1][0] == 'k' and rv[1][1].get('v') == 0 and bi in fr and bi not in tr:
					cand.setdefault(s[1][0], set()).add('false')
				if rv[0] == 'use' and rv[1][0] in ('c', 'm') and len(rv[1][1]) == 1 and rv[1][1][0] in finals and bi in tr and bi not in fr:
					cand.setdefault(s[1][0], set()).add('final')
			if any(v == {'false', 'final'} for v in cand.values()):
				ok = True
		out.append(Result('14.g', ok and bool(finals), ('ok:' if ok and finals else 'guard:') + 'recipient-failure-needs-final-node', 'a recipient-type failure code excuses the reporting hop from blame only in conjunction with "it is the final, non-blinded node" (is_recipient_failure() && is_from_final_non_blinded_node)' if ok else 'the result of is_recipient_failure() is used without the final-node conjunct: an intermediate hop returning a recipient-only code (e.g. incorrect_or_unknown_payment_details) would not be blamed', len(rb) + len(finals), where=F.where(fu.name, fu.line_of(rb[0]))))
	# (ii) TLV order of the final payloads
	for wfn, label in (('lightning::ln::msgs::<impl lightning::util::ser::Writeable for lightning::ln::msgs::fuzzy_internal_msgs::OutboundOnionPayload>::write', 'OutboundOnionPayload'), ('lightning::ln::msgs::<impl lightning::util::ser::Writeable for lightning::ln::msgs::fuzzy_internal_msgs::OutboundTrampolinePayload>::write', 'OutboundTrampolinePayload')):
		if not F.has_fn(wfn):
			out.append(Result('14.g', False, 'anchor:' + label, 'anchor missing: %s' % wfn))
			continue
		fu = F.func(wfn)
		srt = fu.call_blocks(lambda p: 'sort' in p.rsplit('::', 1)[-1])
		if not srt:
			out.append(Result('14.g', False, 'order:no-sort@' + label, '%s::write no longer sorts the merged custom TLV list' % label, where=F.where(wfn)))
			continue
		grow = set(fu.call_blocks(lambda p: p.startswith('alloc::vec::Vec::') and p.rsplit('::', 1)[-1] in ('extend', 'push', 'append', 'insert', 'extend_from_slice') or p.endswith(('Extend::extend', 'Extend>::extend'))))
		bad = []
		for b in srt:
			after = fu.reach([s2 for s2 in fu.succ(b)])
			# growth of a Vec of TLV tuples after the sort, before the arm returns
			for g in grow & after:
				ty = fu.blocks[g]['t'][2].get('g') or ''
				if 'u64' in ty and 'Vec<u8' in ty.replace('alloc::vec::', ''):   # `Vec<u8, Global>`: the allocator parameter is spelled out
					bad.append(fu.line_of(g))
		# everything merged is merged before the sort: chain(..) calls precede it
		ch = set(fu.call_blocks(lambda p: p.endswith('Iterator::chain')))
		pre = all(fu.reach_back([b]) & ch for b in srt) if ch else False
		# ... in EVERY arm that merges: no path from a chain(..) to the end of the writer avoids the sort (Receive and BlindedReceive
		# arms are siblings; a sort kept in one of them must not hide its absence in the other)
		rets = {bi for bi, b in enumerate(fu.blocks) if b['t'][1] == 'ret'}
		unsorted = sorted({fu.line_of(c) for c in ch if fu.path([c], rets, removed_blocks=set(srt)) is not None})
		if unsorted:
			out.append(Result('14.g', False, 'order:merge-without-sort@' + label, '%s::write: the TLV list merged at line(s) %s reaches the encoder without being sorted on some path (arm-wise: each arm that chains custom / keysend / invoice_request TLVs sorts its own list) - a custom TLV above the reserved type is written out of order and the recipient rejects the payload' % (label, unsorted), len(ch), where=F.where(wfn, unsorted[0])))
		ok = not bad and pre
		out.append(Result('14.g', ok, ('ok:' if ok else 'order:') + 'sorted-last@' + label, '%s::write: custom, keysend and invoice_request TLVs are chained first and the list is sorted last (%d sort call(s))%s' % (label, len(srt), '' if ok else '; list grows after the sort at line(s) %s or nothing is chained before it: records would be written out of order and the recipient rejects the payload' % bad), len(srt) + len(ch), where=F.where(wfn)))
	return out

def r14h(F):
	"""what the sender builds is what each layer tells the next: (i) peeling a dummy hop forwards the amount and expiry of the peeled layer,
	not those of the incoming HTLC; (ii) both payload builders describe the blinded tail with the BlindedTail's own values"""
	out = []
	fn = OU + 'peel_dummy_hop_update_add_htlc'
	fu = F.func(fn)
	ex = Expr(fu)
	sites = sites_construct(fu, 'UpdateAddHTLC')
	if len(sites) != 1:
		out.append(Result('14.h', False, 'anchor:peeled-update-add', 'peel_dummy_hop_update_add_htlc: expected one UpdateAddHTLC construction, found %d' % len(sites), where=F.where(fn)))
	else:
		b, si = sites[0]
		rv = fu.blocks[b]['s'][si][2]
		fields = dict(zip(rv[5], rv[4]))
		want = {'amount_msat': 'outgoing_amt_msat', 'cltv_expiry': 'outgoing_cltv_value'}
		for f, src in want.items():
			if f not in fields:
				out.append(Result('14.h', False, 'anchor:peeled-field:' + f, 'UpdateAddHTLC has no field %s' % f))
				continue
			lv = expr_leaves(ex.of_operand(fields[f]))
			ok = src in lv['fields']
			out.append(Result('14.h', ok, ('ok:' if ok else 'stale:') + 'peeled-dummy-hop:' + f, 'peel_dummy_hop_update_add_htlc: %s of the re-built update_add_htlc is the peeled layer\'s %s (found %s)%s' % (f, src, leaf_key(ex.of_operand(fields[f]))[:50], '' if ok else ' - the next layer is checked against the incoming HTLC\'s value, so a path with dummy hops that charge a fee / CLTV delta is rejected by its own recipient'), 1, where=F.where(fn, fu.line_of(b))))
		pk = expr_leaves(ex.of_operand(fields.get('onion_routing_packet'))) if 'onion_routing_packet' in fields else {'fields': set()}
		ok = 'next_packet_pubkey' in pk['fields'] and 'onion_routing_packet' not in pk['fields']
		out.append(Result('14.h', ok, ('ok:' if ok else 'stale:') + 'peeled-dummy-hop:onion_routing_packet', 'the re-built update_add_htlc carries the next (shifted) onion packet', 1, where=F.where(fn, fu.line_of(b))))
	# (ii) TailDetails::Blinded in the two payload builders
	n = 0
	for bfn in (OU + 'build_onion_payloads', OU + 'build_trampoline_onion_payloads'):
		for name in F.family(bfn):
			cu = F.func(name)
			cex = Expr(cu)
			for bi, si, st in cu.stmts():
				rv = st[2]
				if rv[0] == 'agg' and rv[1] == 'adt' and norm(rv[2]).endswith('TailDetails') and rv[3] == 'Blinded' and bi in cu.reach([0]):
					n += 1
					probs = []
					for f, op in zip(rv[5], rv[4]):
						lv = expr_leaves(cex.of_operand(op))
						if f not in lv['fields']:
							probs.append('%s = %s' % (f, leaf_key(cex.of_operand(op))[:40]))
					ok = not probs
					short = bfn.rsplit('::', 1)[-1]
					out.append(Result('14.h', ok, ('ok:' if ok else 'tail:') + 'blinded-tail-fields@' + short, '%s: every field of TailDetails::Blinded comes from the same-named field of the BlindedTail%s' % (short, '' if ok else ' - not: %s (the recipient is told a final expiry / amount that differs from what the HTLC carries)' % probs), len(rv[5]), where=F.where(name, cu.line_of(bi))))
	if n < 2:
		out.append(Result('14.h', False, 'floor:blinded-tail-builders', 'only %d TailDetails::Blinded constructions in the payload builders (expected 2)' % n, n))
	return out

def r14i(F):
	"""failure messages carrying a channel_update: [code:2][debug field:n][len:2][update:len]. The sender reads the update length right behind
	the code-specific debug field (offset debug_field_size + 2) and the update right behind the length; both offsets follow the failure code"""
	out = []
	fn = OU + 'process_onion_failure_inner'
	fu = F.func(fn)
	ex = Expr(fu)
	ranges = []
	for bi, si, st in fu.stmts():
		rv = st[2]
		if rv[0] == 'agg' and rv[1] == 'adt' and norm(rv[2]).endswith('ops::range::Range') and bi in fu.reach([0]) and len(rv[4]) == 2:
			a, b = linear(ex.of_operand(rv[4][0])), linear(ex.of_operand(rv[4][1]))
			ranges.append((st[0], a, b))
	def dfs_terms(t):
		return [v for v, c in t.items() if 'get_onion_debug_field' in v and c == 1]
	lens = [r for r in ranges if r[1][0] == r[2][0] and r[2][1] - r[1][1] == 2 and r[1][1] >= 2]
	if len(lens) != 1:
		return [Result('14.i', False, 'anchor:update-length-range', 'process_onion_failure_inner: expected one two-byte range behind the failure code (the channel_update length), found %d of %d ranges' % (len(lens), len(ranges)), len(ranges), where=F.where(fn))]
	line, a, b = lens[0]
	ok = len(a[0]) == 1 and bool(dfs_terms(a[0])) and a[1] == 2
	out.append(Result('14.i', ok, ('ok:' if ok else 'offset:') + 'update-length-behind-debug-field', 'the channel_update length is read at failuremsg[debug_field_size + 2 .. debug_field_size + 4] (found start %s%+d)%s' % ('debug_field_size' if dfs_terms(a[0]) else sorted(a[0]) or '', a[1], '' if ok else ' - read at a fixed offset the upper bytes of the reported amount / expiry are taken for the length: the failure is classed as bogus and the wrong node is blamed permanently'), len(ranges), where=F.where(fn, line)))
	body = [r for r in ranges if r[1] == b and r is not lens[0]]
	okb = len(body) == 1 and len(body[0][2][0]) == len(b[0]) + 1 and body[0][2][1] == b[1]
	out.append(Result('14.i', okb, ('ok:' if okb else 'offset:') + 'update-body-behind-length', 'the channel_update body range starts where the length field ends and is `length` bytes long (%d candidate range(s))' % len(body), len(body), where=F.where(fn)))
	return out

def r14j(F):
	"""a failure held across a restart keeps what the sender needs to attribute it: the persisted form of HTLCFailReason writes the error packet
	data and the attribution data whenever the variant has them (same structural rule as 12.k, restricted to HTLCFailReasonRepr)"""
	import C12
	out = [r for r in C12.r12k(F) if 'HTLCFailReasonRepr' in r.key]
	for r in out:
		r.rule = '14.j'
	if len(out) < 4:
		out.append(Result('14.j', False, 'anchor:fail-reason-getters', 'the getter closures of the HTLCFailReasonRepr writer were not found (%d)' % len(out), len(out)))
	return out

def r14k(F):
	"""fulfil attribution data of a payment received through a phantom node: the phantom hop's layer is the innermost one (built from
	nothing with the phantom secret), the real node's incoming_packet_shared_secret wraps it. The sender peels the real node's layer
	first; with the layers the other way round the first HMAC check fails and no hop's hold time is reported."""
	fn = 'lightning::ln::channelmanager::ChannelManager::claim_payment_internal'
	out = []
	calls = []
	for n in F.family(fn):
		fu = F.func(n)
		ex = Expr(fu)
		for b, ci in fu.calls():
			if norm(ci.get('f') or '').endswith('process_fulfill_attribution_data') and len(ci['args']) >= 2:
				a0 = ex.of_operand(ci['args'][0])
				sec = expr_str(ex.of_operand(ci['args'][1]))
				calls.append((n, fu.line_of(b), a0, sec))
	ph = [c for c in calls if 'phantom_shared_secret' in c[3]]
	inc = [c for c in calls if 'incoming_packet_shared_secret' in c[3]]
	if not ph or not inc:
		return [Result('14.k', False, 'anchor:fulfill-attribution-layers', 'claim_payment_internal: expected process_fulfill_attribution_data calls with the phantom secret and with incoming_packet_shared_secret, found %d / %d' % (len(ph), len(inc)), where=F.where(fn))]
	def is_none(e):
		return e[0] == 'agg' and e[2] == 'None'
	ok1 = all(is_none(c[2]) for c in ph)
	ok2 = all(not is_none(c[2]) and 'incoming_packet_shared_secret' not in expr_str(c[2]) for c in inc)
	out.append(Result('14.k', ok1, ('ok:' if ok1 else 'order:') + 'phantom-layer-innermost', 'claim_payment_internal: the attribution layer made with the phantom secret starts from %s (expected: from nothing - it is the innermost layer)' % [expr_str(c[2])[:80] for c in ph], len(ph), where=None if ok1 else F.where(ph[0][0], ph[0][1])))
	out.append(Result('14.k', ok2, ('ok:' if ok2 else 'order:') + 'incoming-secret-layer-outermost', 'claim_payment_internal: the layer made with incoming_packet_shared_secret wraps %s (expected: the possibly present phantom layer, i.e. it is applied last)' % [expr_str(c[2])[:80] for c in inc], len(inc), where=None if ok2 else F.where(inc[0][0], inc[0][1])))
	return out

def r14l(F):
	"""attribution data (hold times on success, HMAC chain on failure) is verified per hop at position = (number of attributable hops) -
	hop index - 1, the number of attributable hops being min(path length, MAX_HOPS): the two decoders (fulfil and failure) use the same
	formula, so paths longer than MAX_HOPS still report the first MAX_HOPS hops"""
	out = []
	seen = {}
	for fn in ('lightning::ln::onion_utils::fuzzy_onion_utils::decode_fulfill_attribution_data', 'lightning::ln::onion_utils::process_onion_failure_inner'):
		short = fn.rsplit('::', 1)[-1]
		found = False
		for n in F.family(fn):
			fu = F.func(n)
			ex = Expr(fu)
			for b, ci in fu.calls():
				if not norm(ci.get('f') or '').endswith('AttributionData::verify'):
					continue
				found = True
				e = ex.of_operand(ci['args'][-1])
				terms, k = linear(e)
				pos = [v for v, c in terms.items() if c == 1]
				neg = [v for v, c in terms.items() if c == -1]
				ok = k == -1 and len(terms) == 2 and len(pos) == 1 and len(neg) == 1 and bool(re.match(r'^min\(len\(.*hops\),MAX_HOPS\(=\d+\)\)$|^min\(MAX_HOPS\(=\d+\),len\(.*hops\)\)$', pos[0])) and 'enumerate' in neg[0]
				seen[short] = ok
				out.append(Result('14.l', ok, ('ok:' if ok else 'position:') + 'attribution-position@' + short, '%s verifies attribution data at position `%s` (expected min(path length, MAX_HOPS) - hop index - 1)' % (short, expr_str(e)[:110] if not ok else 'min(len(hops), MAX_HOPS) - idx - 1'), 1, where=None if ok else F.where(n, fu.line_of(b))))
		if not found:
			out.append(Result('14.l', False, 'anchor:attribution-verify@' + short, '%s no longer calls AttributionData::verify' % short))
	return out

def r14m(F):
	"""an update parked in the holding cell is replayed with everything it was parked with: in FundedChannel::free_holding_cell_htlcs every
	field of every HTLCUpdateAwaitingACK variant (derived from the type) is read in the arm that replays it - a claim replayed without its
	attribution_data still settles, but the sender is told no hop's hold time"""
	return _held_update_fields(F, '14.m')

def _held_update_fields(F, rule):
	a = F.adt('lightning::ln::channel::HTLCUpdateAwaitingACK')
	fam = set(F.family('lightning::ln::channel::FundedChannel::free_holding_cell_htlcs'))
	out = []
	n = 0
	for rec in F.adts[a]:
		var, fld = rec[0], rec[1]
		if fld == '-':
			continue
		n += 1
		acc = [x for x in F.fieldacc.get('%s::%s.%s' % (a, var, fld), []) if x[0] in fam]
		ok = bool(acc)
		out.append(Result(rule, ok, ('ok:' if ok else 'dropped:') + 'held-%s.%s-replayed' % (var, fld), 'free_holding_cell_htlcs %s field `%s` of a held %s' % ('reads' if ok else 'never reads', fld, var), 1, where=None if ok else F.where(F.fn('lightning::ln::channel::FundedChannel::free_holding_cell_htlcs'))))
	if n < 15:
		out.append(Result(rule, False, 'floor:held-update-fields', 'only %d fields of HTLCUpdateAwaitingACK found (expected >= 15)' % n))
	return out

# BOLT 4 "Failure Messages": the code of every failure reason the specification names.  Oracle = the specification's table.
_BOLT4 = {
	'TemporaryNodeFailure': 0x2000 | 2, 'PermanentNodeFailure': 0x4000 | 0x2000 | 2, 'RequiredNodeFeature': 0x4000 | 0x2000 | 3,
	'InvalidOnionVersion': 0x8000 | 0x4000 | 4, 'InvalidOnionHMAC': 0x8000 | 0x4000 | 5, 'InvalidOnionKey': 0x8000 | 0x4000 | 6,
	'TemporaryChannelFailure': 0x1000 | 7, 'PermanentChannelFailure': 0x4000 | 8, 'RequiredChannelFeature': 0x4000 | 9,
	'UnknownNextPeer': 0x4000 | 10, 'AmountBelowMinimum': 0x1000 | 11, 'FeeInsufficient': 0x1000 | 12, 'IncorrectCLTVExpiry': 0x1000 | 13,
	'CLTVExpiryTooSoon': 0x1000 | 14, 'IncorrectPaymentDetails': 0x4000 | 15, 'FinalIncorrectCLTVExpiry': 18, 'FinalIncorrectHTLCAmount': 19,
	'ChannelDisabled': 0x1000 | 20, 'CLTVExpiryTooFar': 21, 'InvalidOnionPayload': 0x4000 | 22, 'MPPTimeout': 23,
	'InvalidOnionBlinding': 0x8000 | 0x4000 | 24,
}

def _const_eval(e):
	k = e[0]
	if k == 'const':
		return e[1]
	if k == 'cast':
		return _const_eval(e[1])
	if k == 'bin':
		a, b = _const_eval(e[2]), _const_eval(e[3])
		if a is None or b is None:
			return None
		return {'BitOr': a | b, 'BitAnd': a & b, 'Add': a + b}.get(e[1])
	return None

def r14n(F):
	"""Failure codes: (i) every reason BOLT 4 names carries the specification's code; (ii) every LDK-internal reason is reported under one
	of those codes (the sender can only interpret what the specification defines); (iii) the u16 -> reason table a sender decodes a received
	code with knows every BOLT-4 reason (a reason missing there comes back as UnknownFailureCode, which the recipient-failure test of 14.g and
	the permanence / blame classification do not recognise by variant)."""
	rule = '14.n'
	fn = F.fn('LocalHTLCFailureReason::failure_code')
	adt = F.adt('onion_utils::LocalHTLCFailureReason')
	tab = variant_return_table(F, fn, adt)
	out = []
	codes = {}
	for v, vals in tab.items():
		if v == 'UnknownFailureCode':
			continue
		cs = {_const_eval(x) for x in vals}
		if len(cs) != 1 or None in cs:
			out.append(Result(rule, False, 'code:%s' % v, 'failure_code: the code of %s is not a single constant (%s)' % (v, [expr_str(x) for x in vals][:3]), 1, where=F.where(fn)))
			continue
		codes[v] = cs.pop()
	spec_codes = set(_BOLT4.values())
	for v, c in sorted(_BOLT4.items()):
		if v not in codes:
			out.append(Result(rule, False, 'anchor:%s' % v, 'LocalHTLCFailureReason::%s (a BOLT-4 failure) has no arm in failure_code' % v, 1, where=F.where(fn)))
		elif codes[v] != c:
			out.append(Result(rule, False, 'bolt4:%s' % v, 'failure_code(%s) = 0x%04x, BOLT 4 says 0x%04x: the hop reports a different failure than the one it detected and the sender penalises / retries accordingly' % (v, codes[v], c), 1, where=F.where(fn)))
	trampoline = {'TemporaryTrampolineFailure', 'TrampolineFeeOrExpiryInsufficient', 'UnknownNextTrampoline'}
	for v, c in sorted(codes.items()):
		if v in _BOLT4 or v in trampoline:
			continue
		if c not in spec_codes:
			out.append(Result(rule, False, 'internal:%s' % v, 'the LDK-internal reason %s is reported as 0x%04x, which is no BOLT-4 failure code' % (v, c), 1, where=F.where(fn)))
	# (iii) decode table
	frm = [n for n in F.fns if n.endswith('LocalHTLCFailureReason as core::convert::From>::from')]
	if len(frm) != 1:
		raise AnchorMissing('From<u16> for LocalHTLCFailureReason')
	built = {v for (a, v), sites in F.constructs.items() if a == adt for (f, _l) in sites if f == frm[0]}
	for v in sorted(set(_BOLT4) - built):
		out.append(Result(rule, False, 'decode:%s' % v, 'From<u16> for LocalHTLCFailureReason never yields %s: a received BOLT-4 code 0x%04x is decoded as UnknownFailureCode' % (v, _BOLT4[v]), 1, where=F.where(frm[0])))
	if not out:
		out.append(Result(rule, True, 'ok:failure-codes', '%d failure reasons: the %d BOLT-4 reasons carry the specification codes, %d internal reasons alias one of them, the decode table knows all %d' % (len(codes), len(_BOLT4), len(codes) - len(_BOLT4) - len(trampoline & set(codes)), len(_BOLT4)), len(codes) + len(built)))
	return out

RULES = [
	('14.j', 'persisted failures keep their attribution data (writer getters of HTLCFailReasonRepr select on the variant only)', r14j),
	('14.i', 'failure parsing: the channel_update length / body offsets follow the code-specific debug field', r14i),
	('14.h', 'dummy-hop peeling forwards the peeled layer amount / expiry; both payload builders take the blinded tail values from the BlindedTail', r14h),
	('14.a', 'decode_next_hop: nothing is decrypted / parsed / returned before the HMAC (over hop data and payment hash) matches', r14a),
	('14.d', 'final iff the next HMAC is zero; forward returns the shifted same-size packet; payload kind matches packet kind', r14d),
	('14.f', 'payment onions bind the payment hash on both sides; only onion messages decode untagged', r14f),
	('14.b', 'outbound onion payload TLVs are read by the inbound decoders; decoders reject unknown even types', r14b),
	('14.c', 'packet size is a type-level constant', r14c),
	('14.g', 'recipient-type failure codes excuse only the final non-blinded node; final payload TLVs are sorted after merging', r14g),
	('14.e', 'failures: blame only behind the hop HMAC; build then encrypt; key derivation per purpose', r14e),
	('14.p', 'same-name field transfer: structs carrying this property\'s quantities are filled from the same-named field or a reviewed alias (rules/provenance.py)', lambda F: provenance.for_property(F, 'C14', '14.p')),
	('14.q', 'no call hands a value named like one parameter of the callee to a different parameter (swapped type-compatible arguments; rules/provenance.py)', lambda F: provenance.swaps_for_property(F, 'C14', '14.q')),
	('14.k', 'fulfil attribution data through a phantom node: phantom layer innermost, real node\'s layer outermost', r14k),
	('14.w', 'no length / count is added to or multiplied in an 8/16-bit type and widened afterwards (wrap-around at the top of the range; rules/provenance.py)', lambda F: provenance.narrow_for_property(F, 'C14', '14.w')),
	('14.z', 'named protocol / policy constants in this property\'s files have their reviewed values (rules/provenance.py)', lambda F: provenance.consts_for_property(F, 'C14', '14.z')),
	('14.l', 'attribution data is verified at min(path length, MAX_HOPS) - index - 1 in both decoders', r14l),
	('14.m', 'held updates are replayed with all their fields (attribution data of a held claim included)', r14m),
	('14.x', 'range indexing of fixed-size buffers stays in bounds wherever the end is statically bounded (a wire length byte can be 255; rules/provenance.py)', lambda F: provenance.arrays_for_property(F, 'C14', '14.x')),
	('14.n', 'failure codes: BOLT-4 reasons carry the specification codes, internal reasons alias one of them, the decode table knows every BOLT-4 reason', r14n),
]
RULES.append(('14.P', 'panic sites: no reviewed function that parses / handles untrusted input gained an unwrap / expect / explicit panic / bounds-checked index / length-checked copy / division (rules/provenance.py; panic freedom itself is not decided)', lambda F: provenance.panics_for_property(F, 'C14', '14.P')))
RULES.append(('14.A', 'enum accessors agree across sibling variants: an accessor that returns the payload field `x` for one variant returns it for every variant whose payload carries a field of that name and type (a variant moved to the `=> None` arm) - rules/accessors.py', lambda F: accessors.for_property(F, 'C14', '14.A')))
RULES.append(('14.G', 'guard census: no reviewed call of a workspace function and no reviewed mutation of a stored collection gained a controlling branch condition (an added `&& cond`, early return / continue, more specific match arm in front of an act); counts per call site, name free (rules/guards.py)', lambda F: guards.for_property(F, 'C14', '14.G')))
RULES.append(('14.W', 'field assignments: every reviewed (function, Type.field) direct assignment is still made - state that a path no longer updates, or updates only conditionally (get_or_insert for an overwrite); generalises NN.R (rules/writes.py)', lambda F: writes.for_property(F, 'C14', '14.W')))
RULES.append(('14.N', 'arithmetic census: per reviewed function the set of operation kinds (group: add/sub, mul, div, rem, shift, bit, min, max, div_ceil ...; flavour: plain / checked / saturating / wrapping) keeps its kinds: no reviewed function lost or gained a kind of arithmetic altogether - a rounding direction (`/` for div_ceil), saturating for checked, min for max (rules/arith.py; counts and value arithmetic itself are not judged)', lambda F: arith.for_property(F, 'C14', '14.N')))
RULES.append(('14.K', 'constant census of linear forms: every comparison (normalised to sum >= K over name-free atoms, a comparison and its negation being one form) and every maximal arithmetic expression of a reviewed function keeps its coefficients and its constant - a dropped or added `+ 1` / `- 1`, `<` for `<=` inside a computed bound, a scale factor applied twice or not at all, swapped operands of a comparison (rules/linforms.py; shapes that appear or disappear are not judged, the guard / arithmetic censuses judge those)', lambda F: linforms.for_property(F, 'C14', '14.K')))
