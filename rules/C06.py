"""C06 - any revoked commitment the counterparty confirms is fully punished (structural part)."""
from engine import *
import linforms
import obligations
import provenance
import guards
import arith
import writes
import mutations
import accessors
import tlv

MONP = 'lightning::chain::channelmonitor::'
MON = MONP + 'ChannelMonitorImpl::'
PKG = 'lightning::chain::package::'
OTX = 'lightning::chain::onchaintx::OnchainTxHandler::'

EXPLANATION = ('Censuses and control-dependence rules on chain::channelmonitor, chain::package and chain::onchaintx: the per-commitment HTLC data '
	'needed for justice is only ever inserted (never removed, retained or cleared; only the HTLC source is blanked on revocation), secrets are only '
	'added; in the revoked branch of check_spend_counterparty_transaction a justice package is built for the to_local output and for EVERY HTLC '
	'with an output index, with no direction or amount filter (the only guards are the frozen ones); second-stage HTLC transactions spending a '
	'revoked commitment get a justice package per matching input; every produced package reaches the claim handler; the revoked package variants '
	'are wired to the justice signer methods; the retention fields are persisted. Also: every claim-output builder in the monitor is given the height parameter of the block being processed as confirmation height; packages collected by the spend checks are returned at every exit that follows an insertion. Decides these shapes on all paths; fees, aggregation and timing are not decided.')
ASSUMPTIONS = ['transaction/script validity is out of scope', 'the broadcaster and fee estimator honour their contracts']

def _ops(F, field, exclude_reads=True):
	f = F.field(field)
	out = {}
	for fn, k, line in F.fieldacc[f]:
		kk, _, callee = k.partition(':')
		if kk in ('r', 'ri', 'bf', 'bfi'):
			continue
		tail = callee.rsplit('::', 1)[-1] if callee else ('assign' if kk.startswith('w') else 'borrow' if kk.startswith('bm') else 'shared-borrow')
		out.setdefault(root_fn(fn), set()).add((kk.rstrip('i'), tail))
	return out

REMOVERS = ('remove', 'retain', 'clear', 'drain', 'remove_entry', 'retain_mut', 'pop', 'take', 'truncate', 'swap_remove', 'extract_if')

def r06a(F):
	out = []
	ops = _ops(F, MONP + 'FundingScope.counterparty_claimable_outpoints')
	mut = {fn: {t for k, t in s if k in ('bm', 'w')} for fn, s in ops.items()}
	mut = {fn: s for fn, s in mut.items() if s}
	want = {MON + 'provide_latest_counterparty_commitment_tx': {'insert'}, MON + 'update_counterparty_commitment_data': {'insert'}, MON + 'provide_secret': {'get_mut'}}
	for fn, s in sorted(mut.items()):
		exp = None
		for w, e in want.items():
			if F.fn(w) == fn:
				exp = e
		ok = exp is not None and s <= exp
		out.append(Result('06.a', ok, ('ok:' if ok else 'writer:') + 'claimable_outpoints@' + fn.rsplit('::', 1)[-1], 'counterparty_claimable_outpoints is mutated in %s via %s (%s)' % (fn.rsplit('::', 1)[-1], sorted(s), 'allowed' if ok else 'NOT on the frozen insert-only list: the per-commitment HTLC data must never be pruned'), len(s), where=F.where(fn)))
	if len(mut) < 3:
		out.append(Result('06.a', False, 'floor:claimable_outpoints', 'only %d mutating functions found for counterparty_claimable_outpoints' % len(mut), len(mut)))
	# no remover reachable on the field through shared borrows either
	bad = [(fn, t) for fn, s in ops.items() for k, t in s if t in REMOVERS]
	out.append(Result('06.a', not bad, ('ok:' if not bad else 'prune:') + 'no-removal', 'no remove/retain/clear/drain on counterparty_claimable_outpoints%s' % ('' if not bad else ': %s' % bad), len(ops)))
	# provide_secret only blanks the HTLC source (tuple field 1) of the revoked commitment's entries
	n_src = 0
	bad_w = []
	for n in F.family(MON + 'provide_secret'):
		fu = F.func(n)
		ex = Expr(fu)
		for bi, si, s in fu.stmts():
			pl = s[1]
			if len(pl) > 1 and pl[1] == '*':
				tgt = expr_str(ex.of_place(pl))
				if 'counterparty_claimable_outpoints' in tgt:
					v = ex.of_rvalue(s[2])
					if tgt.rstrip(')').endswith('.1') and v[0] == 'agg' and v[2] == 'None':
						n_src += 1
					else:
						bad_w.append((tgt[:80], expr_str(v)[:40]))
	ok = n_src >= 1 and not bad_w
	out.append(Result('06.a', ok, ('ok:' if ok else 'prune:') + 'only-source-blanked', 'provide_secret writes into stored per-commitment entries only `source = None` (%d site(s))%s' % (n_src, '' if not bad_w else ', other writes: %s' % bad_w), n_src + len(bad_w), where=F.where(F.fn(MON + 'provide_secret'))))
	return out

def r06b(F):
	out = []
	ops = _ops(F, MON.rstrip(':') + '.commitment_secrets')
	mut = {fn: {t for k, t in s if k in ('bm', 'w')} for fn, s in ops.items()}
	mut = {fn: s for fn, s in mut.items() if s}
	ok = set(mut) == {F.fn(MON + 'provide_secret')} and mut[F.fn(MON + 'provide_secret')] == {'provide_secret'}
	out.append(Result('06.b', ok, ('ok:' if ok else 'writer:') + 'commitment_secrets', 'commitment_secrets is mutated only through CounterpartyCommitmentSecrets::provide_secret in provide_secret: %s' % {k.rsplit('::', 1)[-1]: sorted(v) for k, v in mut.items()}, len(mut)))
	ops = _ops(F, MON.rstrip(':') + '.counterparty_commitment_txn_on_chain')
	mut = {fn: {t for k, t in s if k in ('bm', 'w')} for fn, s in ops.items()}
	mut = {fn: s for fn, s in mut.items() if s}
	ok = bool(mut) and all(s <= {'insert'} for s in mut.values())
	out.append(Result('06.b', ok, ('ok:' if ok else 'writer:') + 'txn_on_chain', 'counterparty_commitment_txn_on_chain is only inserted into: %s' % {k.rsplit('::', 1)[-1]: sorted(v) for k, v in mut.items()}, len(mut)))
	return out

def _control_conds(fu, block):
	"""keys of the branch conditions that can steer control away from `block` (a cheap control
	dependence: switches from which `block` is reachable through one successor but not all)"""
	ex = Expr(fu)
	out = []
	back = fu.reach_back([block])
	heads = loop_heads(fu)
	for bi in sorted(back):
		t = fu.blocks[bi]['t']
		if t[1] != 'switch':
			continue
		succs = fu.succ(bi)
		# does some successor avoid the block entirely?
		# confine the question to one loop iteration: do not pass this switch again, nor the head of a loop
		# that contains it
		cut = {bi} | {h for h in heads if bi in fu.reach([h]) and h in fu.reach([bi])}
		avoid = [s for s in succs if block not in fu.reach([s], removed_blocks=cut)]
		reach = [s for s in succs if block in fu.reach([s], removed_blocks=cut)]
		if reach and avoid:
			e = ex.of_operand(t[2])
			out.append((bi, leaf_key(e) if e[0] != 'disc' else 'disc:' + leaf_key(e[1]), fu.line_of(bi)))
	return out

def r06c(F):
	out = []
	fn = MON + 'check_spend_counterparty_transaction'
	fu = F.func(fn)
	ro = sites_call(fu, [PKG + 'RevokedOutput::build'])
	rh = sites_call(fu, [PKG + 'RevokedHTLCOutput::build'])
	if len(ro) != 1 or len(rh) != 1:
		return [Result('06.c', False, 'anchor:justice-builds', 'check_spend_counterparty_transaction: expected one RevokedOutput::build and one RevokedHTLCOutput::build, found %d/%d' % (len(ro), len(rh)), where=F.where(fn))]
	# both are followed by a push of the package on every path that continues
	push = set(fu.call_blocks(lambda p: p == 'alloc::vec::Vec::push'))
	for b, label in ((ro[0], 'to_local'), (rh[0], 'HTLC')):
		nxt = fu.reach([b]) & push
		out.append(Result('06.c', bool(nxt), ('ok:' if nxt else 'missing:') + 'push:' + label, 'the revoked %s justice package is pushed to the claim list' % label, 1, where=F.where(fn, fu.line_of(b))))
	# control dependence of the HTLC justice build: only the frozen guards
	conds = _control_conds(fu, rh[0])
	keys = [k for b, k, l in conds]
	def cls(k):
		if 'get_min_seen_secret' in k or 'commitment_number' in k:
			return 'revoked-branch'
		if 'from_slice' in k or 'branch' in k:
			return 'secp-error'
		if k.startswith('disc:') and 'counterparty_claimable_outpoints' in k and 'transaction_output_index' not in k:
			return 'per-commitment-data-known'
		if 'transaction_output_index' in k and k.startswith('disc:'):
			return 'has-output-index'
		if 'transaction_output_index' in k or 'to_bitcoin_amount' in k or 'len(' in k or 'value' in k and 'output' in k:
			return 'corruption-check'
		if 'next(' in k and k.startswith('disc:'):
			return 'loop'
		if 'script_pubkey' in k or 'revokeable' in k or 'eq(' in k:
			return 'to-local-loop'
		return 'OTHER:' + k[:80]
	classes = {}
	for b, k, l in conds:
		classes.setdefault(cls(k), []).append(l)
	allowed = {'revoked-branch', 'secp-error', 'per-commitment-data-known', 'has-output-index', 'corruption-check', 'loop', 'to-local-loop'}
	extra = sorted(c for c in classes if c not in allowed)
	ok = not extra and 'has-output-index' in classes and 'revoked-branch' in classes
	out.append(Result('06.c', ok, ('ok:' if ok else 'filter:') + 'htlc-justice-conditions', 'the HTLC justice claim is control dependent on %s%s' % (sorted(classes), '' if not extra else ' - unexpected filter(s): %s (every HTLC output of a revoked commitment must be claimed, whatever its direction or amount)' % extra), len(conds), where=F.where(fn, fu.line_of(rh[0]))))
	# no use of htlc.offered / amount in a branch guarding the build
	bad = [k for k in keys if re.search(r'\.offered|amount_msat|cltv_expiry', k)]
	out.append(Result('06.c', not bad, ('ok:' if not bad else 'filter:') + 'no-direction-amount-filter', 'no branch on HTLC direction / amount / expiry guards the revoked-HTLC claim%s' % ('' if not bad else ': %s' % bad), len(keys), where=F.where(fn)))
	# to_local justice: guarded only by the script comparison (within the revoked branch)
	conds2 = _control_conds(fu, ro[0])
	cl2 = {cls(k) for b, k, l in conds2}
	extra2 = sorted(c for c in cl2 if c not in allowed)
	ok2 = not extra2
	out.append(Result('06.c', ok2, ('ok:' if ok2 else 'filter:') + 'to-local-justice-conditions', 'the to_local justice claim is control dependent on %s' % sorted(cl2), len(conds2), where=F.where(fn, fu.line_of(ro[0]))))
	# revoked branch test: commitment_number >= get_min_seen_secret()
	okr = False
	for g in guards_in(F, fn, False):
		terms, op, K, used = g.nf
		if len(terms) == 2 and all(c == 1 for c in terms.values()) and any('get_min_seen_secret' in v for v in terms) and any('obscure_factor' in v for v in terms):
			# 0xffffffffffff - obscured >= min_seen   <=>   obscured + min_seen <= 0xffffffffffff
			okr = (op, K) in (('Le', 0xffffffffffff), ('Lt', 0xffffffffffff + 1))
	out.append(Result('06.c', okr, ('ok:' if okr else 'shape:') + 'revoked-test', 'the revoked branch is taken iff commitment_number >= get_min_seen_secret()', 1, where=F.where(fn)))
	return out

def r06d(F):
	out = []
	fn = MON + 'check_spend_counterparty_htlc'
	fu = F.func(fn)
	rb = sites_call(fu, [PKG + 'RevokedOutput::build'])
	if not rb:
		return [Result('06.d', False, 'anchor:htlc-tx-justice', 'check_spend_counterparty_htlc no longer builds RevokedOutput packages', where=F.where(fn))]
	conds = _control_conds(fu, rb[0])
	keys = [k for b, k, l in conds]
	bad = [k for k in keys if re.search(r'len\(.*input|input.*len\(', k) and 'witness' not in k]
	out.append(Result('06.d', not bad, ('ok:' if not bad else 'filter:') + 'no-single-input-restriction', 'second-stage justice is not restricted by the number of inputs of the HTLC transaction%s' % ('' if not bad else ': %s' % bad), len(keys), where=F.where(fn)))
	# it sits in a loop over the inputs
	nx = loop_heads(fu)
	ok = bool(nx & fu.reach_back([rb[0]]))
	out.append(Result('06.d', ok, ('ok:' if ok else 'shape:') + 'per-input-loop', 'a justice package is built per matching input (loop over tx.input)', len(nx), where=F.where(fn)))
	return out

def r06e(F):
	out = []
	fn = MON + 'transactions_confirmed'
	out += P1_who_may_call(F, '06.e', [MON + 'check_spend_counterparty_transaction'], [MON + 'transactions_confirmed'], floor=1)
	out += P1_who_may_call(F, '06.e', [MON + 'check_spend_counterparty_htlc'], [MON + 'transactions_confirmed'], floor=1)
	fu = F.func(fn)
	bc = set(sites_call(fu, [MON + 'block_confirmed']))
	for callee in ('check_spend_counterparty_transaction', 'check_spend_counterparty_htlc'):
		cb = sites_call(fu, [MON + callee])
		out += P5_must_pass(F, '06.e', fu, cb, fu.return_blocks(), bc, 'block_confirmed after %s (the packages reach the claim handler)' % callee)
	bcf = F.func(MON + 'block_confirmed')
	upd = set(sites_call(bcf, [OTX + 'update_claims_view_from_requests']))
	out += P5_must_pass(F, '06.e', bcf, [0], bcf.return_blocks(), upd, 'OnchainTxHandler::update_claims_view_from_requests')
	# every package collected by the spend checks is returned at every exit that follows the first insertion
	for callee in ('check_spend_counterparty_transaction', 'check_spend_counterparty_htlc', 'get_counterparty_output_claim_info'):
		out += P_accum_returned(F, '06.e', MON + callee)
	# the claim requests handed over are the ones collected
	ex = Expr(bcf)
	for b in upd:
		a = expr_str(ex.of_operand(bcf.blocks[b]['t'][2]['args'][1]))
		ok = 'claimable_outpoints' in a
		out.append(Result('06.e', ok, ('ok:' if ok else 'shape:') + 'requests-arg', 'update_claims_view_from_requests receives %s' % a[:60], 1, where=F.where(bcf.name, bcf.line_of(b))))
	return out

def r06g(F):
	out = []
	fn = PKG + 'PackageSolvingData::finalize_input'
	fu = F.func(fn)
	vs = enum_variants(F, PKG + 'PackageSolvingData')
	want = {'RevokedOutput': 'sign_justice_revoked_output', 'RevokedHTLCOutput': 'sign_justice_revoked_htlc'}
	found = {}
	for sb, m, other in variant_switch_edges(fu, lambda pl: True, vs):
		if len(m) < 4:
			continue
		for v, meth in want.items():
			if v in m:
				others = [t for vv, t in m.items() if vv != v]
				reach = fu.reach([m[v]], removed_blocks=[t for t in others if t != m[v]])
				calls = set(sites_call(fu, ['EcdsaChannelSigner::' + meth]))
				found[v] = bool(reach & calls)
	for v, meth in want.items():
		ok = found.get(v, False)
		out.append(Result('06.g', ok, ('ok:' if ok else 'wiring:') + v, 'PackageSolvingData::%s is finalized with %s' % (v, meth), 1, where=F.where(fn)))
	out += P1_who_may_call(F, '06.g', ['lightning::sign::ecdsa::EcdsaChannelSigner::sign_justice_revoked_htlc'], [fn], floor=1)
	return out

def r06f(F):
	"""the retention data is persisted (writer reads the fields; table agreement is decided under C12)"""
	out = []
	out += P11_field_coverage(F, '06.f', MONP + 'FundingScope', [MONP + 'write_chanmon_internal'], {})
	for fld in ('commitment_secrets', 'counterparty_commitment_txn_on_chain', 'onchain_tx_handler'):
		key = F.field(MON.rstrip(':') + '.' + fld)
		fns = reachable_fns(F, [MONP + 'write_chanmon_internal'], 1)
		ok = any(r[0] in fns for r in F.fieldacc[key])
		out.append(Result('06.f', ok, ('ok:' if ok else 'unwritten:') + fld, 'ChannelMonitorImpl.%s is serialized by write_chanmon_internal' % fld, 1))
	for fld in ('pending_claim_requests', 'claimable_outpoints', 'locktimed_packages', 'onchain_events_awaiting_threshold_conf'):
		key = F.field('lightning::chain::onchaintx::OnchainTxHandler.' + fld)
		fns = reachable_fns(F, [OTX + 'write'], 1)
		ok = any(r[0] in fns for r in F.fieldacc[key])
		out.append(Result('06.f', ok, ('ok:' if ok else 'unwritten:') + fld, 'OnchainTxHandler.%s is serialized by OnchainTxHandler::write' % fld, 1))
	return out

def r06h(F):
	"""claims stay valid across partial spends and reorganisations"""
	import chainrules
	out = []
	# (i) after a counterparty transaction spends part of an aggregated claim, the remainder re-queued for broadcast is the LATEST
	#     state of the request: the per-block candidate map is written with an overwriting insert only
	for fn in (OTX + 'update_claims_view_from_matched_txn', OTX + 'blocks_disconnected'):
		fu = F.func(fn)
		ex = Expr(fu)
		# the per-block candidate map: a local HashMap whose values are PackageTemplates
		cand = {l for l in range(len(fu.locals)) if 'HashMap<' in (fu.locals[l].get('ty') or '') and 'PackageTemplate' in (fu.locals[l].get('ty') or '') and not (fu.locals[l].get('ty') or '').startswith('&')}
		# name-free fallback: the map local that receives (claim_id, request.clone()) inserts
		ins = []
		other = []
		for b, ci in fu.calls():
			f = norm(ci.get('f') or '')
			if not ci['args']:
				continue
			r = ex.of_operand(ci['args'][0])
			while r[0] in ('ref', 'deref'):
				r = r[1]
			if r[0] == 'local' and r[1] in cand:
				tail = f.rsplit('::', 1)[-1]
				(ins if tail == 'insert' else other).append((tail, fu.line_of(b)))
		muts = [(t, l) for t, l in other if t in ('entry', 'get_mut', 'remove', 'retain', 'extend', 'clear', 'or_insert', 'or_insert_with', 'try_insert', 'raw_entry_mut')]
		ok = len(ins) >= 1 and not muts
		out.append(Result('06.h', ok, ('ok:' if ok else 'stale:') + 'bump-candidates-overwritten@' + fn.rsplit('::', 1)[-1], '%s: the candidate claim re-queued for (re)broadcast is always overwritten with the current state of the request (HashMap::insert x%d%s)' % (fn.rsplit('::', 1)[-1], len(ins), '' if not muts else '; other mutators: %s - a kept earlier snapshot would still spend outpoints that a later transaction of the same block took' % muts), len(ins) + len(other), where=F.where(fn)))
	# (ii) reorganisation boundary (shared with C11.d): an event confirmed in the block that stays the tip is not resurrected
	out += chainrules.reorg_boundary(F, '06.h')
	# (iii) the height a claim records as "the block its outpoint confirmed in" is the height of the block being processed (a parameter
	#       handed down from the chain entry points), never a value read from the HTLC (its expiry): that recorded height is what decides,
	#       on a reorganisation, whether the claim is still backed by the chain
	F.calls
	builds = ['RevokedOutput::build', 'RevokedHTLCOutput::build', 'CounterpartyOfferedHTLCOutput::build', 'CounterpartyReceivedHTLCOutput::build', 'HolderHTLCOutput::build']
	n = 0
	for bname in builds:
		callers = sorted({rec[0] for rec in F.callers_of.get(PKG + bname, []) if rec[0].startswith(MONP)})
		if not callers:
			out.append(Result('06.h', False, 'anchor:claim-build:' + bname, 'no caller of package::%s in the monitor' % bname, where=F.where(PKG + bname)))
		for cn in callers:
			fu = F.func(cn)
			ex = Expr(fu)
			for b in sites_call(fu, [PKG + bname]):
				n += 1
				e = ex.of_operand(fu.blocks[b]['t'][2]['args'][-1])
				core = e
				while core[0] in ('ref', 'deref', 'cast') or (core[0] == 'agg' and len(core) > 3 and core[2] == 'Some' and len(core[3]) == 1):
					core = core[1] if core[0] != 'agg' else core[3][0]
				lv = expr_leaves(e)
				is_par = (core[0] == 'local' and (core[1] == -1 or 1 <= core[1] <= fu.argc)) or core[0] == 'upvar'
				bad = [f for f in lv['fields'] if 'expiry' in f or 'cltv' in f]
				ok = is_par and not bad and not lv['calls']
				short = cn.replace(MON, '')
				out.append(Result('06.h', ok, ('ok:' if ok else 'height:') + 'claim-confirmation-height:%s@%s' % (bname.split('::')[0], short), '%s: the confirmation height given to %s is the height parameter of the block being processed (found `%s`)%s' % (short, bname, leaf_key(e)[:60], '' if ok else ' - a claim recorded at any other height (an HTLC expiry) is dropped or kept wrongly when blocks are disconnected'), 1, where=F.where(cn, fu.line_of(b))))
	if n < 6:
		out.append(Result('06.h', False, 'floor:claim-builds', 'only %d claim-output builders found in the monitor (expected >= 6)' % n, n))
	return out

def r06j(F):
	"""with a splice / RBF pending every counterparty commitment exists once per funding scope; the HTLC list recorded for a scope
	(counterparty_claimable_outpoints[txid]) is paired from THAT scope's commitment transaction - output indices differ between scopes
	(BIP69 ordering depends on the balances) and the justice branch treats an entry with a wrong index as corrupt and claims no HTLC"""
	fn = MON + 'update_counterparty_commitment_data'
	fu = F.func(fn)
	ex = Expr(fu)
	out = []
	n = 0
	for b, ci in fu.calls():
		if not norm(ci.get('f') or '').endswith('HashMap::insert') or len(ci['args']) < 3:
			continue
		if 'counterparty_claimable_outpoints' not in expr_str(ex.of_operand(ci['args'][0])):
			continue
		n += 1
		key = ex.of_operand(ci['args'][1])
		val = ex.of_operand(ci['args'][2])
		# the commitment the key is the txid of: innermost argument of txid(trust(X))
		x = key
		while x[0] in ('ref', 'deref') or (x[0] == 'call' and (x[1] or '').rsplit('::', 1)[-1] in ('txid', 'trust') and x[2]):
			x = x[1] if x[0] in ('ref', 'deref') else x[2][0]
		src = expr_str(x, 2)
		vs = expr_str(val, 0)
		in_loop = b in fu.reach(fu.succ(b))
		ok = in_loop and (x[0] != 'local' or True) and _same_source(val, x)
		out.append(Result('06.j', ok, ('ok:' if ok else 'stale:') + 'scope-htlcs-from-own-commitment', 'update_counterparty_commitment_data: the HTLC list stored under txid(%s) is %s computed from that same commitment transaction (value: %s)' % (src[:60], '' if ok else 'NOT', vs[:110]), 1, where=None if ok else F.where(fn, fu.line_of(b))))
	if n == 0:
		out.append(Result('06.j', False, 'anchor:pending-scope-insert', 'update_counterparty_commitment_data no longer inserts into a pending scope\'s counterparty_claimable_outpoints', where=F.where(fn)))
	return out

def _same_source(val, x):
	"""does expression x occur (structurally) inside val?"""
	if val == x:
		return True
	if not isinstance(val, tuple):
		return False
	for y in val[1:]:
		if isinstance(y, tuple) and _same_source(y, x):
			return True
		if isinstance(y, list) and any(isinstance(z, tuple) and _same_source(z, x) for z in y):
			return True
	return False

def r06i(F):
	"""(i) splice: the per-commitment HTLC data copied into the new funding scope carries the output indices of the NEW commitment transaction
	(otherwise the justice branch takes every HTLC entry for corrupt and claims none); (ii) the re-issue timer of a claim is only ever pulled
	EARLIER by a deadline (cmp::min with the deadline timer in every arm of get_height_timer, never cmp::max)"""
	out = []
	fn = MON + 'renegotiated_funding'
	fu = F.func(fn)
	ex = Expr(fu)
	live = fu.reach([0])
	ws = [(b, si) for b, si in sites_field_write(fu, 'transaction_output_index') if b in live]
	ok = False
	seen = []
	heads = loop_heads(fu) | back_edge_heads(fu)
	for b, si in ws:
		e = ex.of_rvalue(fu.blocks[b]['s'][si][2])
		lv = expr_leaves(e)
		seen.append(leaf_key(e)[:60])
		in_loop = any(b in fu.reach([h]) and h in fu.reach([b]) for h in heads)
		if 'transaction_output_index' in lv['fields'] and in_loop:
			ok = True
	out.append(Result('06.i', ok, ('ok:' if ok else 'stale-index:') + 'splice-htlc-output-index-remapped', 'renegotiated_funding rewrites each non-dust HTLC\'s transaction_output_index to its index in the new funding\'s counterparty commitment, inside the loop over the zipped HTLC lists (found %s)%s' % (seen, '' if ok else ' - with the old indices a revoked post-splice commitment fails the output/amount consistency test and no HTLC output is punished'), len(ws), where=F.where(fn)))
	tfn = PKG + 'PackageTemplate::get_height_timer'
	tu = F.func(tfn)
	mins = tu.call_blocks(lambda p: p.endswith('cmp::min') or p.endswith('Ord::min'))
	maxs = tu.call_blocks(lambda p: p.endswith('cmp::max') or p.endswith('Ord::max'))
	vs = enum_variants(F, PKG + 'PackageSolvingData')
	arms_without = []
	for sb, m, other in variant_switch_edges(tu, lambda pl: True, vs):
		if sb not in tu.reach([0]) or len(m) < 4:
			continue
		for v, t in m.items():
			r = tu.reach([t], removed_blocks={sb} | (loop_heads(tu) | back_edge_heads(tu)))
			if not (set(mins) & r):
				arms_without.append(v)
	# RevokedHTLCOutput deliberately keeps the default interval (the counterparty must wait a further CSV after spending it); the revoked
	# to_local / second-stage output is the one whose deadline is the CSV expiry
	arms_without = [v for v in arms_without if v == 'RevokedOutput']
	okt = len(mins) >= 6 and not maxs and not arms_without
	out.append(Result('06.i', okt, ('ok:' if okt else 'late:') + 'claim-timer-only-earlier', 'get_height_timer combines the default re-issue height with each deadline through cmp::min only (%d min, %d max; arms without min: %s)%s' % (len(mins), len(maxs), arms_without, '' if okt else ' - a max() pushes the next fee bump past the height at which the counterparty can spend the output'), len(mins) + len(maxs), where=F.where(tfn)))
	return out

RULES = [
	('06.a', 'per-commitment HTLC data is insert-only; revocation only blanks the HTLC source', r06a),
	('06.b', 'revocation secrets and on-chain commitment records are add-only', r06b),
	('06.c', 'revoked commitment: a justice package for to_local and for every HTLC with an output index; no direction/amount filter', r06c),
	('06.d', 'second-stage HTLC transactions on a revoked commitment: one justice package per matching input', r06d),
	('06.e', 'every produced package reaches the on-chain claim handler', r06e),
	('06.f', 'retention fields are persisted', r06f),
	('06.g', 'revoked package variants are wired to the justice signer methods', r06g),
	('06.j', 'each funding scope records a counterparty commitment\'s HTLCs as paired from its own commitment transaction (pending splice)', r06j),
	('06.i', 'splice: HTLC output indices remapped to the new commitment; claim re-issue timers are only pulled earlier by deadlines', r06i),
	('06.h', 'justice claims stay valid: re-queued claims carry the latest request state; reorg boundary keeps confirmed spends', r06h),
	('06.p', 'same-name field transfer: structs carrying this property\'s quantities are filled from the same-named field or a reviewed alias (rules/provenance.py)', lambda F: provenance.for_property(F, 'C06', '06.p')),
	('06.q', 'no call hands a value named like one parameter of the callee to a different parameter (swapped type-compatible arguments; rules/provenance.py)', lambda F: provenance.swaps_for_property(F, 'C06', '06.q')),
	('06.v', 'field-versus-field comparisons (a received value against a limit, an id against an id) are the reviewed ones: same fields, same operator (rules/provenance.py)', lambda F: provenance.cmps_for_property(F, 'C06', '06.v')),
	('06.z', 'named protocol / policy constants in this property\'s files have their reviewed values (rules/provenance.py)', lambda F: provenance.consts_for_property(F, 'C06', '06.z')),
	('06.s', 'no reviewed function gained a short-circuiting iterator adaptor (find / find_map / take / position ...: an every-element walk that stops at the first match; rules/provenance.py)', lambda F: provenance.sc_for_property(F, 'C06', '06.s')),
]
RULES.append(('06.u', 'obligation-carrying values returned by workspace calls (to-fail HTLC lists, monitor updates, events, peer messages, claim packages) are never dropped on a path that does not examine them (rules/obligations.py)', lambda F: obligations.for_property(F, 'C06', '06.u')))
RULES.append(('06.t', 'identity comparisons: every reviewed (function, identity type) == / != comparison (HTLCSource, Txid, OutPoint, ChannelId, PaymentHash, PublicKey, ...) is still made - a function does not silently change what it matches by (rules/provenance.py)', lambda F: provenance.ids_for_property(F, 'C06', '06.t')))
RULES.append(('06.M', 'collection mutations: every reviewed (function, stored collection, mutator class: add / remove / filter / empty / swap / order) triple is still present - an entry that is no longer removed, inserted or drained on one path (rules/mutations.py)', lambda F: mutations.for_property(F, 'C06', '06.M')))
RULES.append(('06.A', 'enum accessors agree across sibling variants: an accessor that returns the payload field `x` for one variant returns it for every variant whose payload carries a field of that name and type (a variant moved to the `=> None` arm) - rules/accessors.py', lambda F: accessors.for_property(F, 'C06', '06.A')))

def r06F(F):
	import C11
	return C11.r11F(F, '06.F')
RULES.append(('06.F', 'filter_block remembers every transaction it reports, so that a justice transaction spending an in-block HTLC transaction of a revoked commitment is seen (11.F under C06)', r06F))
RULES.append(('06.G', 'guard census: no reviewed call of a workspace function and no reviewed mutation of a stored collection gained a controlling branch condition (an added `&& cond`, early return / continue, more specific match arm in front of an act); counts per call site, name free (rules/guards.py)', lambda F: guards.for_property(F, 'C06', '06.G')))
RULES.append(('06.W', 'field assignments: every reviewed (function, Type.field) direct assignment is still made - state that a path no longer updates, or updates only conditionally (get_or_insert for an overwrite); generalises NN.R (rules/writes.py)', lambda F: writes.for_property(F, 'C06', '06.W')))

def r06H(F):
	import C11
	return C11.r11H(F, '06.H')
RULES.append(('06.H', 'claims and contentious outpoints of a revoked commitment are stamped with the confirming block, not the tip (11.H under C06)', r06H))
RULES.append(('06.N', 'arithmetic census: per reviewed function the set of operation kinds (group: add/sub, mul, div, rem, shift, bit, min, max, div_ceil ...; flavour: plain / checked / saturating / wrapping) keeps its kinds: no reviewed function lost or gained a kind of arithmetic altogether - a rounding direction (`/` for div_ceil), saturating for checked, min for max (rules/arith.py; counts and value arithmetic itself are not judged)', lambda F: arith.for_property(F, 'C06', '06.N')))
RULES.append(('06.K', 'constant census of linear forms: every comparison (normalised to sum >= K over name-free atoms, a comparison and its negation being one form) and every maximal arithmetic expression of a reviewed function keeps its coefficients and its constant - a dropped or added `+ 1` / `- 1`, `<` for `<=` inside a computed bound, a scale factor applied twice or not at all, swapped operands of a comparison (rules/linforms.py; shapes that appear or disappear are not judged, the guard / arithmetic censuses judge those)', lambda F: linforms.for_property(F, 'C06', '06.K')))
