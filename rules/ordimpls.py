"""Hand-written equality / ordering / hash impls (rule ids NN.o).

A derived PartialEq / Ord / Hash cannot be wrong; a hand-written one is a small table of "which field of `self` meets which field of
`other`, in which direction".  Maps, sets, heaps, sorts and dedups of the library key on these impls (HTLCSource in the pending-HTLC maps,
MppPart / ClaimableHTLC in the sorted HTLC set of a claimable payment, RouteGraphNode in the router's heap, NodeId in the graph's
BTreeMap, RawTaggedField in the BOLT-11 field order, Features in message equality), and C12 states equality of reloaded monitors and
graphs "under the library's own equality".  Decided here, from the MIR of every impl that does not carry #[automatically_derived]:

 * pairing     - every comparison meets the SAME field path on both sides (`self.a` with `other.a`, never `other.b`);
 * direction   - per (type, trait, field path) the direction (`self ? other` forward, `other ? self` reversed) is the reviewed one
                 (rules/ordimpls_table.json): reversing one key of RouteGraphNode::cmp turns the router's min-heap into a max-heap on
                 that key;
 * no key lost - a field path the reviewed impl compares / hashes is still compared / hashed while the impl exists;
 * Hash/Eq     - a hand-written `eq` of a type that is also hashed compares at least every field the hash reads (k1 == k2 => hash(k1) ==
                 hash(k2); computed, not frozen: a derived Hash reads every field).

New impls and additional keys are not judged.  The table is printed by bin/gen_tables.py and reviewed by hand."""
import json, os, re, collections
from engine import *

_TRAITS = {
	'core::cmp::PartialEq::eq': 'eq', 'core::cmp::Ord::cmp': 'cmp', 'core::cmp::PartialOrd::partial_cmp': 'partial_cmp',
	'core::hash::Hash::hash': 'hash',
}
_CMP_TAILS = {'cmp', 'partial_cmp', 'eq', 'ne', 'lt', 'le', 'gt', 'ge', 'fixed_time_eq'}
_BIN = {'Eq', 'Ne', 'Lt', 'Le', 'Gt', 'Ge', 'Cmp'}
_THROUGH = {'clone', 'as_ref', 'deref', 'borrow', 'as_slice', 'as_bytes', 'iter', 'as_str', 'lock', 'unwrap', 'bytes', 'serialize',
	'to_bytes', 'index', 'map', 'as_u64', 'to_string', 'as_inner', 'encode', 'read', 'read_unlock', 'unordered_iter', 'into_iter',
	'borrow_parts', 'to_lowercase', 'as_mut', 'copied', 'cloned', 'len'}
_CACHE = {}
_TABLE = None

def table():
	global _TABLE
	if _TABLE is None:
		_TABLE = json.load(open(os.path.join(os.path.dirname(os.path.abspath(__file__)), 'ordimpls_table.json')))
	return _TABLE

def _leaves(e, out):
	"""ordered list of (root name, field path) of the parameter-rooted places an expression reads"""
	path = []
	cur = e
	while True:
		k = cur[0]
		if k == 'local':
			out.append((cur[2] or '_%d' % cur[1], '.'.join(reversed(path))))
			return
		if k == 'field':
			path.append(cur[2]); cur = cur[1]
		elif k == 'downcast':
			path.append('@' + cur[2]); cur = cur[1]
		elif k in ('deref', 'ref', 'index', 'cast', 'un', 'disc'):
			cur = cur[1] if k not in ('un',) else cur[2]
		elif k == 'call' and cur[2] and (cur[1] or '').rsplit('::', 1)[-1] in _THROUGH:
			cur = cur[2][0]
		elif k == 'agg':
			if path:
				return
			for a in cur[3]:
				_leaves(a, out)
			return
		elif k == 'bin':
			if path:
				return
			_leaves(cur[2], out); _leaves(cur[3], out)
			return
		elif k == 'call':
			if path:
				return
			for a in cur[2]:
				_leaves(a, out)
			return
		else:
			return

def _self_ty(path):
	m = re.match(r'^<(.+) as [^>]+(?:<.*>)?>::\w+$', path)
	if m:
		return m.group(1)
	m = re.search(r'<impl .+? for (.+)>::\w+$', path)
	return m.group(1) if m else path

def census(F):
	"""{(type, trait-method): {'fn':.., 'pairs': {path: dir}, 'cross': [(pa, pb)], 'hashed': set(paths), 'file':..}} for hand-written impls"""
	if F.dir in _CACHE:
		return _CACHE[F.dir]
	out = {}
	if not F.impl_kind:
		raise AnchorMissing('impls.tsv carries no derived / hand-written flag')
	for (tr, st, meth, tm) in F.impls:
		what = _TRAITS.get(tm)
		if not what or F.impl_kind.get(meth) != 'hand' or meth not in F.fns:
			continue
		rec = F.fns[meth]
		if not (rec['file'].startswith('lightning')):
			continue
		try:
			fam = F.family(meth)
		except AnchorMissing:
			continue
		fu0 = F.func(meth)
		a_self = fu0.local_name(1) or 'self'
		a_other = fu0.local_name(2) or 'other'
		ty = re.sub(r'<.*$', '', norm(st)) if not norm(st).startswith('(') else norm(st)
		ent = {'fn': meth, 'pairs': {}, 'cross': [], 'hashed': set(), 'file': rec['file'], 'delegates': None, 'line': rec['lo']}
		for fn in fam:
			try:
				fu = F.func(fn)
			except AnchorMissing:
				continue
			ex = Expr(fu)
			sites = []
			for b, ci in fu.calls():
				f = norm(ci.get('t') or ci.get('f') or '')
				tail = f.rsplit('::', 1)[-1]
				args = ci['args']
				if what == 'hash':
					if tail in ('hash', 'hash_slice', 'write', 'write_u8', 'write_u32', 'write_u64', 'write_usize') and args:
						lv = []
						_leaves(ex.of_operand(args[0]), lv)
						for r, p in lv:
							if r == a_self:
								ent['hashed'].add(p)
					continue
				if tail in _CMP_TAILS and len(args) >= 2:
					sites.append((ex.of_operand(args[0]), ex.of_operand(args[1]), fu.line_of(b)))
			if what != 'hash':
				for (bi, si, dl, op, ea, eb) in comparisons(fu):
					sites.append((ea, eb, fu.line_of(bi)))
			for ea, eb, line in sites:
				la, lb = [], []
				_leaves(ea, la); _leaves(eb, lb)
				ra = {r for r, _ in la}; rb = {r for r, _ in lb}
				if ra == {a_self} and rb == {a_other}:
					d = 'fwd'
				elif ra == {a_other} and rb == {a_self}:
					d = 'rev'
				else:
					continue
				if [p for _, p in la] != [p for _, p in lb]:
					ent['cross'].append(('+'.join(p for _, p in la), '+'.join(p for _, p in lb), line))
					continue
				for _, p in la:
					if ent['pairs'].get(p, d) != d:
						ent['pairs'][p] = 'both'
					else:
						ent['pairs'][p] = d
		out[(ty, what)] = ent
	_CACHE[F.dir] = out
	return out

def _fields_of(F, ty):
	try:
		a = F.adt(ty)
	except AnchorMissing:
		return None
	return {(v, f) for (v, f, *_r) in F.adts[a] if f != '-'}

def rule(F, rule_id, file_res, floor=1):
	cz = census(F)
	tab = table()
	tpairs = {}
	for row in tab['pairs']:
		tpairs.setdefault((row[0], row[1]), {})[row[2]] = row[3]
	thashed = {}
	for row in tab['hashed']:
		thashed.setdefault(row[0], set()).add(row[1])
	out = []
	n = 0
	for (ty, what), ent in sorted(cz.items()):
		if not any(re.search(p, ent['file']) for p in file_res):
			continue
		n += 1
		short = ty.rsplit('::', 1)[-1]
		where = F.where(ent['fn'], ent['line'])
		for pa, pb, line in ent['cross']:
			if [ty, what, pa, pb] in tab.get('cross_ok', []):
				continue
			out.append(Result(rule_id, False, 'cross:%s:%s:%s' % (short, what, pa), '%s::%s compares `%s` of one side with `%s` of the other: every key of a hand-written equality / ordering meets the same field on both sides' % (short, what, pa, pb), 1, where=F.where(ent['fn'], line)))
		want = tpairs.get((ty, what))
		if want is not None:
			for p, d in sorted(want.items()):
				got = ent['pairs'].get(p)
				if got is None:
					out.append(Result(rule_id, False, 'lost:%s:%s:%s' % (short, what, p or 'self'), '%s::%s no longer compares `%s` (reviewed: compared %s): two values differing only there are now equal / unordered for every map, sort and dedup keyed on it' % (short, what, p or 'self', d), 1, where=where))
				elif got != d and what != 'eq':   # equality is symmetric: `o.a == self.a` is the same test
					out.append(Result(rule_id, False, 'direction:%s:%s:%s' % (short, what, p or 'self'), '%s::%s compares `%s` %s (reviewed: %s): the order every heap / sorted container built on it relies on is reversed for this key' % (short, what, p or 'self', got, d), 1, where=where))
		if what == 'hash' and ty in thashed:
			for p in sorted(thashed[ty] - ent['hashed']):
				out.append(Result(rule_id, False, 'lost:%s:hash:%s' % (short, p or 'self'), '%s::hash no longer feeds `%s` to the hasher (reviewed: hashed)' % (short, p or 'self'), 1, where=where))
		# Hash / Eq agreement (computed)
		if what == 'eq':
			h = cz.get((ty, 'hash'))
			hashed = None
			if h is not None:
				hashed = h['hashed']
			else:
				# derived Hash reads every field
				dh = [m for (tr, st, m, tm) in F.impls if tm == 'core::hash::Hash::hash' and F.impl_kind.get(m) == 'derived' and re.sub(r'<.*$', '', norm(st)) == ty]
				if dh:
					fs = _fields_of(F, ty)
					if fs is not None and len({v for v, _ in fs}) == 1:
						hashed = {f for _, f in fs}
			if hashed is not None and ent['pairs'] and '' not in ent['pairs']:
				top = {p.split('.')[0] for p in ent['pairs']}
				for p in sorted(hashed):
					if p and p.split('.')[0] not in top and [ty, p] not in tab.get('hash_eq_ok', []):
						out.append(Result(rule_id, False, 'hash-eq:%s:%s' % (short, p), '%s is hashed over `%s` but its hand-written eq does not compare it: two equal keys can hash differently (lookups in HashMap / HashSet miss)' % (short, p), 1, where=where))
	if n < floor:
		return [Result(rule_id, False, 'anchor:ordimpls', 'only %d hand-written eq / cmp / hash impls found in %s (expected >= %d)' % (n, file_res, floor))]
	if not out:
		out.append(Result(rule_id, True, 'ok:ordimpls', '%d hand-written eq / cmp / partial_cmp / hash impls in %s: same field on both sides, reviewed direction, no reviewed key lost, hash within eq' % (n, '|'.join(file_res)), n))
	return out

SCOPE = {
	'C02': ([r'ln/channelmanager\.rs$'], 3),
	'C03': ([r'ln/channelmanager\.rs$', r'lightning-types/src/payment\.rs$'], 3),
	'C04': ([r'ln/channelmanager\.rs$', r'lightning-types/src/payment\.rs$'], 3),
	'C12': ([r'chain/onchaintx\.rs$', r'chain/package\.rs$', r'ln/chan_utils\.rs$', r'routing/gossip\.rs$', r'sign/mod\.rs$', r'util/indexed_map\.rs$'], 8),
	'C13': ([r'lightning-types/src/features\.rs$', r'ln/types\.rs$'], 3),
	'C16': ([r'routing/router\.rs$', r'routing/gossip\.rs$'], 4),
	'C17': ([r'routing/gossip\.rs$', r'util/indexed_map\.rs$'], 4),
	'C18': ([r'offers/', r'lightning-invoice/src/lib\.rs$'], 8),
}

def for_property(F, pid, rule_id):
	res, floor = SCOPE[pid]
	return rule(F, rule_id, res, floor)

def current_table(F):
	"""what ordimpls_table.json would contain for this tree"""
	cz = census(F)
	pairs, hashed = [], []
	for (ty, what), ent in sorted(cz.items()):
		for p, d in sorted(ent['pairs'].items()):
			pairs.append([ty, what, p, d])
		for p in sorted(ent['hashed']):
			hashed.append([ty, p])
	return {'pairs': pairs, 'hashed': hashed}
