"""C19 - stored channel state is never lost or torn by the storage layer (structural part)."""
from engine import *
import linforms
import provenance
import guards
import arith
import errprop
import mutations

FS = 'lightning_persister::fs_store::common::FilesystemStoreInner::'
FSO = 'lightning_persister::fs_store::common::FilesystemStore'
PI = 'lightning::util::persist::MonitorUpdatingPersisterAsyncInner::'
UP = 'lightning::util::persist::'
UPK = 'lightning::util::persist::<impl lightning::chain::chainmonitor::Persist for K>::'

EXPLANATION = ('Path rules over the MIR of lightning-persister::fs_store and lightning::util::persist: the atomic-replace recipe '
	'(write -> fsync(tmp) -> rename -> fsync(dir)) holds on every path to a successful return; the destination is only ever '
	'replaced by rename inside the versioned write lock; a stale version never runs its callback and the version is recorded only '
	'on success; non-lazy removal syncs the directory; listing skips temp files; MonitorUpdatingPersister deletes update files '
	'only behind a successful full-monitor write and its read/cleanup predicates are complementary; storage errors are propagated. '
	'async fns are analysed before the coroutine transform, awaits are followed. Decides these orderings for all paths; OS-level '
	'atomicity of rename/fsync is trusted.')
ASSUMPTIONS = ['POSIX rename/fsync semantics', 'windows-only code paths are not in the analysed (linux) build', 'KVStore implementations outside the workspace honour the trait contract']

def closure_with(F, fn, callee_suffix):
	"""the closure of fn that calls callee_suffix"""
	for n in F.family(fn):
		fu = F.func(n)
		if n != F.fn(fn) and sites_call(fu, [callee_suffix]):
			return fu
	raise AnchorMissing('no closure of %s calls %s' % (fn, callee_suffix))

def r19a(F):
	out = []
	wv = F.func(FS + 'write_version')
	# the tmp-file closure: write_all, then sync_all, on every path to Ok
	c1 = closure_with(F, FS + 'write_version', 'write_all')
	oks = ok_return_blocks(c1)
	wr = set(sites_call(c1, ['write_all']))
	sy = set(sites_call(c1, ['File::sync_all']))
	out += P5_must_pass(F, '19.a', c1, [0], oks, wr, 'write_all(buf) before returning Ok')
	out += P5_must_pass(F, '19.a', c1, list(wr) or [0], oks, sy, 'sync_all() of the temp file after write_all')
	out += guarded_by_call(F, '19.a', c1.name, set(oks), ['write_all'], 'result', True)
	out += guarded_by_call(F, '19.a', c1.name, set(oks), ['File::sync_all'], 'result', True)
	# no write to the temp file after it was synced
	late = c1.reach([c1.succ(b)[0] for b in sy if c1.succ(b)]) & wr
	out.append(Result('19.a', not late, ('ok:' if not late else 'order:') + 'no-write-after-sync', 'temp file is not written after its sync_all' if not late else 'write_all reachable after sync_all', len(wr) + len(sy), where=F.where(c1.name)))
	# write_version: the rename (execute_locked_write) only after the temp file was written successfully
	lw = set(sites_call(wv, ['FilesystemStoreInner::execute_locked_write']))
	pd = place_decisions(wv, lambda pl: len(pl) == 1 and wv.local_name(pl[0]) == 'tmp_file_res', 'result')
	# generic: the result of the temp-file closure call
	cds = call_decisions(wv, wv.call_blocks(lambda p: p.endswith('FnOnce::call_once') or p == c1.name), 'result')
	out += P4_guarded(F, '19.a', wv, lw, pd + cds, True, 'temp file written and synced (Ok)')
	out += P4_fail_blocks(F, '19.a', wv, lw, pd + cds, True, 'temp file written and synced (Ok)')
	cr = set(sites_call(wv, ['File::create']))
	out += guarded_by_call(F, '19.a', wv.name, lw, ['File::create'], 'result', True)
	# the rename closure: rename, then open + sync_all of the parent directory on every path to Ok
	c2 = closure_with(F, FS + 'write_version', 'fs::rename')
	oks2 = ok_return_blocks(c2)
	rn = set(sites_call(c2, ['fs::rename']))
	sy2 = set(sites_call(c2, ['File::sync_all']))
	out += P5_must_pass(F, '19.a', c2, [0], oks2, rn, 'fs::rename(tmp, dest)')
	out += P5_must_pass(F, '19.a', c2, list(rn) or [0], oks2, sy2, 'sync_all() of the parent directory after rename')
	out += guarded_by_call(F, '19.a', c2.name, set(oks2), ['fs::rename'], 'result', True)
	out += guarded_by_call(F, '19.a', c2.name, set(oks2), ['File::sync_all'], 'result', True)
	# rename argument order: (tmp, dest)
	ex = Expr(c2)
	for b in rn:
		ci = c2.blocks[b]['t'][2]
		a0, a1 = leaf_key(ex.of_operand(ci['args'][0])), leaf_key(ex.of_operand(ci['args'][1]))
		ok = 'tmp_file_path' in a0 and 'dest_file_path' in a1
		out.append(Result('19.a', ok, ('ok:' if ok else 'shape:') + 'rename-args', 'fs::rename(%s, %s) (expected tmp -> dest)' % (a0, a1), 1, where=F.where(c2.name, c2.line_of(b))))
	# the rename closure is what is handed to execute_locked_write
	out += P1_who_may_call(F, '19.a', ['std::fs::rename'], [FS + 'write_version'], floor=1, note='the destination may only be replaced by the versioned atomic rename')
	out += P1_who_may_call(F, '19.a', ['std::fs::File::create'], [FS + 'write_version'], floor=1)
	# no other way of opening a file for writing in the persister crate
	F.calls
	bad = []
	for callee, recs in F.callers_of.items():
		if callee in ('std::fs::write', 'std::fs::OpenOptions::write', 'std::fs::OpenOptions::append', 'std::fs::OpenOptions::truncate', 'std::fs::OpenOptions::create', 'std::fs::copy', 'std::fs::File::create_new', 'std::fs::File::options', 'std::fs::File::set_len'):
			for r in recs:
				if r[0].startswith('lightning_persister::') or r[0].startswith('lightning::util::persist'):
					bad.append((callee, root_fn(r[0]), r[3]))
	for callee, fn, line in bad:
		out.append(Result('19.a', False, 'writer:%s@%s' % (callee, fn), '%s opens/writes a file through %s outside the atomic write path' % (fn, callee), 1, where=F.where(fn, line)))
	if not bad:
		out.append(Result('19.a', True, 'ok:no-other-writers', 'no fs::write / OpenOptions::write|append|truncate|create / fs::copy in the storage crates', 1))
	return out

def r19b(F):
	out = []
	fu = F.func(FS + 'execute_locked_write')
	# the callback runs only on the false edge of  version <= *last_written_version
	cb = set(fu.call_blocks(lambda p: p.endswith('FnOnce::call_once')))
	gs = [g for g in guards_in(F, FS + 'execute_locked_write', with_closures=False)]
	ms = match_guards(gs, r'^version$', r'last_written_version|write\(|unwrap', 0)
	if not ms:
		out.append(Result('19.b', False, 'guard:stale-version', 'execute_locked_write no longer compares version with the last written version; comparisons: %s' % [g.text() for g in gs], len(gs), where=F.where(fu.name)))
	else:
		for g, o in ms:
			ok = (o[1], o[2]) in (('Le', 0), ('Lt', 1))
			out.append(Result('19.b', ok, ('ok:' if ok else 'shape:') + 'stale-version-cmp', 'stale test is `%s` (expected version - last_written <= 0)' % cmp_str(o), 1, where=F.where(fu.name, g.line)))
			out += P4_guarded(F, '19.b', fu, cb, g.decisions, False, 'version is not stale')
	# the version is recorded only in the closure mapped over the callback's Ok
	wr = []
	for n in F.family(FS + 'execute_locked_write'):
		f2 = F.func(n)
		ex2 = Expr(f2)
		for bi, si, s in f2.stmts():
			if len(s[1]) > 1 and s[2][0] != 'ref':
				tgt = leaf_key(ex2.of_place(s[1]))
				if 'last_written_version' in tgt:
					wr.append((n, f2, bi, s))
	okw = bool(wr) and all(n != fu.name for n, _, _, _ in wr)
	out.append(Result('19.b', okw, ('ok:' if okw else 'writer:') + 'last_written_version', 'last_written_version assigned in %s (expected only inside the closure mapped over the callback result)' % sorted({n.rsplit('::', 1)[-1] for n, _, _, _ in wr}), len(wr), where=F.where(fu.name)))
	# that closure is passed to Result::map whose receiver is the callback's result
	mp = fu.call_blocks(lambda p: p == 'core::result::Result::map')
	ex = Expr(fu)
	okm = False
	for b in mp:
		ci = fu.blocks[b]['t'][2]
		recv = ex.of_operand(ci['args'][0])
		if recv[0] == 'call' and (recv[1] or '').endswith('call_once'):
			okm = True
	out.append(Result('19.b', okm, ('ok:' if okm else 'shape:') + 'map-over-callback', 'the version-recording closure is mapped over the callback result (Result::map(callback(), ..))', len(mp), where=F.where(fu.name)))
	# versions come from one fetch_add counter
	cands = [k for k in F.fns if k.endswith('::get_new_version_and_lock_ref') and k.startswith('lightning_persister::')]
	if len(cands) != 1:
		out.append(Result('19.b', False, 'anchor:get_new_version_and_lock_ref', 'anchor missing: get_new_version_and_lock_ref (%s)' % cands))
	else:
		g = F.func(cands[0])
		fa = g.call_blocks(lambda p: p.endswith('::fetch_add'))
		ok = len(fa) == 1
		out.append(Result('19.b', ok, ('ok:' if ok else 'shape:') + 'version-counter', 'write versions are taken from a single atomic fetch_add (%d site)' % len(fa), len(fa), where=F.where(g.name)))
		# and every write/remove entry point takes its version there, before queueing
		cs = {root_fn(r[0]) for r in F.callers(g.name, ('call',))}
		ok = len(cs) >= 2
		out.append(Result('19.b', ok, ('ok:' if ok else 'floor:') + 'version-users', 'get_new_version_and_lock_ref is used by %s' % sorted(x.rsplit('::', 1)[-1] for x in cs), len(cs), where=F.where(g.name)))
	return out

def r19c(F):
	out = []
	# remove_version runs its body under execute_locked_write
	rv = F.func(FS + 'remove_version')
	lw = sites_call(rv, ['FilesystemStoreInner::execute_locked_write'])
	out.append(Result('19.c', len(lw) == 1, ('ok:' if len(lw) == 1 else 'shape:') + 'remove-under-lock', 'remove_version delegates to execute_locked_write (%d call)' % len(lw), len(lw), where=F.where(rv.name)))
	out += P1_who_may_call(F, '19.c', ['std::fs::remove_file'], [FS + 'remove_version', FS + 'write_version'], floor=3)
	c = closure_with(F, FS + 'remove_version', 'fs::remove_file')
	# remove_file in remove_version happens only inside the locked closure
	direct = sites_call(rv, ['fs::remove_file'])
	out.append(Result('19.c', not direct, ('ok:' if not direct else 'order:') + 'remove-inside-closure', 'fs::remove_file is only called inside the closure run under the write lock', 1, where=F.where(rv.name)))
	# non-lazy: directory sync after the unlink on every path to Ok
	lazy_dec = []
	for bi, b in enumerate(c.blocks):
		t = b['t']
		if t[1] == 'switch' and t[2][0] in ('c', 'm'):
			e = Expr(c).of_operand(t[2])
			if leaf_key(e) == 'lazy':
				vals, other = t[3], t[4]
				f_t = [tb for v, tb in vals if v == 0]
				lazy_dec.append((bi, f_t[0] if f_t else None, other))
	if len(lazy_dec) != 1 or lazy_dec[0][1] is None:
		out.append(Result('19.c', False, 'anchor:lazy-branch', 'remove_version closure: expected one branch on `lazy`, found %d' % len(lazy_dec), where=F.where(c.name)))
	else:
		sb, not_lazy, is_lazy = lazy_dec[0]
		region = c.reach([not_lazy], removed_edges={(sb, is_lazy)})
		rm = [b for b in sites_call(c, ['fs::remove_file']) if b in region and b not in c.reach([is_lazy], removed_edges={(sb, not_lazy)})]
		sy = set(sites_call(c, ['File::sync_all']))
		oks = ok_return_blocks(c)
		if not rm:
			out.append(Result('19.c', False, 'anchor:nonlazy-remove', 'no fs::remove_file on the non-lazy branch', where=F.where(c.name)))
		else:
			out += P5_must_pass(F, '19.c', c, rm, oks, sy, 'sync_all() of the parent directory after a non-lazy remove')
			out += guarded_by_call(F, '19.c', c.name, set(oks) & c.reach(rm), ['File::sync_all'], 'result', True, mode='fail-blocks')
	# no return of remove_version / Ok return of write_version bypasses the versioned write lock
	out += P5_must_pass(F, '19.c', rv, [0], rv.return_blocks(), set(lw), 'execute_locked_write (a remove must always record its version)')
	wv = F.func(FS + 'write_version')
	out += P5_must_pass(F, '19.c', wv, [0], [b for b in wv.return_blocks() if b in wv.reach(sites_call(wv, ['File::create']))] or wv.return_blocks(),
		set(sites_call(wv, ['FilesystemStoreInner::execute_locked_write'])) | set(err_return_blocks(wv)), 'execute_locked_write or an error return')
	# read runs under the read lock
	rd = F.func(FS + 'read')
	lr = sites_call(rd, ['FilesystemStoreInner::execute_locked_read'])
	op = sites_call(rd, ['File::open'])
	ok = len(lr) == 1 and not op
	out.append(Result('19.c', ok, ('ok:' if ok else 'shape:') + 'read-under-lock', 'read opens the file only inside execute_locked_read', len(lr) + len(op), where=F.where(rd.name)))
	# listing skips store artifacts (*.tmp)
	ik = F.func('lightning_persister::fs_store::common::dir_entry_is_key')
	art = sites_call(ik, ['dir_entry_is_store_artifact'])
	if not art:
		out.append(Result('19.c', False, 'guard:tmp-skip', 'dir_entry_is_key no longer consults dir_entry_is_store_artifact', where=F.where(ik.name)))
	else:
		true_ret = {bi for bi, si, c_ in ret_assignments(ik) if c_[0] == 'variant' and c_[2] == 'Ok'}
		# Ok(true) returns: the aggregate Ok whose payload is const true
		ex = Expr(ik)
		ok_true = set()
		for bi, si, c_ in ret_assignments(ik):
			if c_[0] == 'variant' and c_[2] == 'Ok':
				rvv = ik.blocks[bi]['s'][si][2]
				e = ex.of_operand(rvv[4][0])
				if e[0] == 'const' and e[1] == 1:
					ok_true.add(bi)
		ds = call_decisions(ik, art, 'bool')
		out += P4_guarded(F, '19.c', ik, ok_true, ds, False, 'entry is not a store artifact (.tmp/.trash)')
	sa = F.func('lightning_persister::fs_store::common::dir_entry_is_store_artifact')
	strs = set()
	for bi, b in enumerate(sa.blocks):
		for s in b['s']:
			js = json.dumps(s[2])
			for m in re.finditer(r'"s": "([a-z]+)"', js):
				strs.add(m.group(1))
		js = json.dumps(b['t'])
		for m in re.finditer(r'"s": "([a-z]+)"', js):
			strs.add(m.group(1))
	ok = 'tmp' in strs
	out.append(Result('19.c', ok, ('ok:' if ok else 'shape:') + 'tmp-extension', 'dir_entry_is_store_artifact matches the extensions %s (needs "tmp", the extension write_version gives its temp files)' % sorted(strs), 1, where=F.where(sa.name)))
	return out

def _async_body(F, fn):
	n = F.fn(fn)
	for k in F.family(n):
		if k != n and k.startswith(n + '::{closure#0}') and k.count('{closure') == n.count('{closure') + 1:
			return F.func(k)
	return F.func(n)

def r19d(F):
	out = []
	up = F.func(PI + 'update_persisted_channel')
	# the clean-up runs inside the async block that awaits the full-monitor write, behind its Ok
	blk = closure_with(F, PI + 'update_persisted_channel', 'cleanup_in_range')
	acts = set(sites_call(blk, ['cleanup_in_range', 'cleanup_stale_updates_for_monitor_to']))
	seeds = [(lambda pl: any(isinstance(e, str) and e.startswith('.') for e in pl[1:]) and blk.upvars.get(json.dumps(pl)) == 'write_fut', 'result', False)]
	ds, _ = decisions_on(blk, seeds)
	# also accept: the awaited value is bound to a variable that is matched
	out += P4_guarded(F, '19.d', blk, acts, ds, True, 'awaited full-monitor write returned Ok')
	out += P4_fail_blocks(F, '19.d', blk, acts, ds, True, 'awaited full-monitor write returned Ok')
	# write_fut is the future returned by persist_new_channel (the full monitor write)
	ex = Expr(up)
	wf = None
	for l, nm in up.vars.items():
		if nm == 'write_fut':
			wf = ex.of_local(l)
	ok = wf is not None and wf[0] == 'call' and (wf[1] or '').endswith('persist_new_channel')
	out.append(Result('19.d', ok, ('ok:' if ok else 'shape:') + 'write_fut', 'write_fut = %s (expected self.persist_new_channel(..))' % (expr_str(wf) if wf else None), 1, where=F.where(up.name)))
	# the update-vs-full decision
	gs = guards_in(F, PI + 'update_persisted_channel', with_closures=False)
	txt = [g.text() for g in gs]
	have_max = any('update_id' in t and '18446744073709551615' in t and '!=' in t for t in txt)
	have_zero = any('maximum_pending_updates' in t and '!= 0' in t and 'Rem' not in t for t in txt)
	have_mod = any('Rem' in t and 'update_id' in t and 'maximum_pending_updates' in t and '!= 0' in t for t in txt)
	ok = have_max and have_zero and have_mod
	out.append(Result('19.d', ok, ('ok:' if ok else 'shape:') + 'persist_update-predicate', 'update-vs-full predicate comparisons: %s (expected update_id != u64::MAX, max_pending != 0, update_id %% max_pending != 0)' % txt, len(gs), where=F.where(up.name)))
	# the sync KVStore::write calls are issued in the non-async part (before any await): persist_new_channel
	# is called from the synchronous body, never from inside an async block
	pn = [r for r in F.callers(F.fn(PI + 'persist_new_channel'), ('call',))]
	inside = [r for r in pn if '{closure' in r[0]]
	ok = bool(pn) and not inside
	out.append(Result('19.d', ok, ('ok:' if ok else 'order:') + 'write-before-await', 'persist_new_channel (which issues the sync KVStore::write) is called from the synchronous part of %s' % sorted({root_fn(r[0]).rsplit('::', 1)[-1] for r in pn}) if ok else 'persist_new_channel is called from inside an async block: %s' % [r[0] for r in inside], len(pn), where=F.where(up.name)))
	pnf = F.func(PI + 'persist_new_channel')
	ok = bool(sites_call(pnf, ['KVStore::write'])) and not pnf.call_blocks(lambda p: p.endswith('Future::poll'))
	out.append(Result('19.d', ok, ('ok:' if ok else 'order:') + 'persist_new_channel-sync', 'persist_new_channel calls KVStore::write directly and contains no await', 1, where=F.where(pnf.name)))
	# the update write: KVStore::write for the update is called in the async block a; its future is created before
	# (not decided: ordering inside the async block a is sequential by construction)
	return out

def r19e(F):
	out = []
	rd = PI + 'maybe_read_channel_monitor_with_updates'
	gs = guards_in(F, rd)
	ms = match_guards(gs, r'update\.0$|\.0$', r'current_update_id$', 0)
	want = None
	for g, o in ms:
		if (o[1], o[2]) in (('Gt', 0), ('Ge', 1)):
			want = g
	out.append(Result('19.e', want is not None, ('ok:' if want else 'shape:') + 'load-filter', 'updates loaded on restart: %s (expected update id > monitor.get_latest_update_id())' % [cmp_str(o) for g, o in ms], max(1, len(ms)), where=F.where(F.fn(rd))))
	# current_update_id is the monitor's latest update id
	for n in F.family(rd):
		fu = F.func(n)
		for l, nm in fu.vars.items():
			if nm == 'current_update_id':
				e = Expr(fu).of_local(l)
				ok = e[0] == 'call' and (e[1] or '').endswith('get_latest_update_id')
				out.append(Result('19.e', ok, ('ok:' if ok else 'shape:') + 'current_update_id', 'current_update_id = %s' % expr_str(e), 1, where=F.where(fu.name)))
	cl = PI + 'cleanup_stale_updates_for_monitor_to'
	gs2 = guards_in(F, cl)
	ms2 = match_guards(gs2, r'update_name\.0$|\.0$', r'latest_update_id$', 0)
	want2 = None
	for g, o in ms2:
		if (o[1], o[2]) in (('Le', 0), ('Lt', 1)):
			want2 = g
	out.append(Result('19.e', want2 is not None, ('ok:' if want2 else 'shape:') + 'cleanup-filter', 'updates deleted by cleanup: %s (expected update id <= latest_update_id: the complement of the load filter)' % [cmp_str(o) for g, o in ms2], max(1, len(ms2)), where=F.where(F.fn(cl))))
	if want2 is not None:
		rm = set(sites_call(want2.fu, ['KVStore::remove']))
		out += P4_guarded(F, '19.e', want2.fu, rm, want2.decisions, True, 'update id <= latest_update_id')
	# the deletion bound is the id of the *stored full monitor* (never a monitor with pending updates replayed on top)
	cs = _async_body(F, PI + 'cleanup_stale_updates')
	ex = Expr(cs)
	n = 0
	for b in sites_call(cs, ['cleanup_stale_updates_for_monitor_to']):
		n += 1
		e = ex.of_operand(cs.blocks[b]['t'][2]['args'][2])
		txt = expr_str(e)
		ok = 'get_latest_update_id' in txt and 'maybe_read_monitor(' in txt and 'with_updates' not in txt
		out.append(Result('19.e', ok, ('ok:' if ok else 'shape:') + 'cleanup-bound-source', 'cleanup_stale_updates deletes up to %s (expected get_latest_update_id of the monitor returned by maybe_read_monitor)' % txt[:160], 1, where=F.where(cs.name, cs.line_of(b))))
	if not n:
		out.append(Result('19.e', False, 'anchor:cleanup-call', 'cleanup_stale_updates does not call cleanup_stale_updates_for_monitor_to'))
	out += P1_who_may_call(F, '19.e', [PI + 'maybe_read_channel_monitor_with_updates'],
		[PI + 'read_channel_monitor_with_updates', 'lightning::util::persist::MonitorUpdatingPersisterAsync::read_all_channel_monitors_with_updates',
		 'lightning::util::persist::MonitorUpdatingPersisterAsync::read_channel_monitor_with_updates', PI + 'read_all_channel_monitors_with_updates', 'lightning::util::persist::MonitorUpdatingPersisterAsync::read_all_channel_monitors_with_updates_parallel'], floor=1,
		note='the update-replaying reader must not feed clean-up decisions')
	up = F.func(PI + 'update_persisted_channel')
	exu = Expr(up)
	for l, nm in up.vars.items():
		if nm == 'latest_update_id':
			e = exu.of_local(l)
			ok = e[0] == 'call' and (e[1] or '').endswith('get_latest_update_id') and leaf_key(e[2][0]) == 'monitor'
			out.append(Result('19.e', ok, ('ok:' if ok else 'shape:') + 'consolidation-bound-source', 'update_persisted_channel cleans up to %s (expected monitor.get_latest_update_id() of the monitor just written)' % expr_str(e), 1, where=F.where(up.name)))
	# the updates are applied in sorted order
	for n in F.family(rd):
		fu = F.func(n)
		so = fu.call_blocks(lambda p: p.endswith('sort_unstable') or p.endswith('::sort'))
		if so:
			out.append(Result('19.e', True, 'ok:sorted', 'update names are sorted before being applied', len(so), where=F.where(fu.name)))
			break
	else:
		out.append(Result('19.e', False, 'order:sorted', 'maybe_read_channel_monitor_with_updates no longer sorts the update names', where=F.where(F.fn(rd))))
	# a failing update_monitor aborts the read
	body = _async_body(F, rd)
	oks = ok_return_blocks(body)
	some_ok = set()
	ex = Expr(body)
	for bi, si, c_ in ret_assignments(body):
		if c_[0] == 'variant' and c_[2] == 'Ok':
			e = ex.of_operand(body.blocks[bi]['s'][si][2][4][0])
			if e[0] == 'agg' and e[2] == 'Some':
				some_ok.add(bi)
	out += guarded_by_call(F, '19.e', body.name, some_ok, ['ChannelMonitor::update_monitor'], 'result', True, mode='fail-blocks')
	# every update that was listed is read (inside the per-update async block) and a read error aborts
	rmu = [n for n in F.family(rd) if sites_call(F.func(n), ['read_monitor_update'])]
	out.append(Result('19.e', bool(rmu), ('ok:' if rmu else 'anchor:') + 'read_monitor_update', 'read_monitor_update is called for the listed updates in %s' % [x.rsplit('::', 2)[-1] for x in rmu], len(rmu), where=F.where(F.fn(rd))))
	return out

def r19f(F):
	"""errors of the KVStore are propagated (branched on) except on the reviewed best-effort list"""
	out = []
	REVIEWED = {
		(PI + 'cleanup_in_range', 'remove'): 'best-effort lazy deletion of already-consolidated updates; failure is logged',
		(PI + 'archive_persisted_channel', 'remove'): 'lazy removal after the archive copy was written; a left-over monitor is harmless',
		(UPK + 'archive_persisted_channel', 'remove'): 'same, sync variant',
	}
	fns = [k for k in F.fns if k.startswith('lightning::util::persist::') and 'Wrapper' not in k]
	n = 0
	for k in sorted(fns):
		try:
			fu = F.func(k)
		except AnchorMissing:
			continue
		for b, ci in fu.calls():
			f = norm(ci.get('t') or ci.get('f') or '')
			m = re.match(r'lightning::util::persist::(KVStore|KVStoreSync)::(write|read|remove|list)$', f)
			if not m:
				continue
			op = m.group(2)
			n += 1
			status, how = result_consumed(fu, b, 'result')
			root = root_fn(k)
			if status != 'dropped':
				continue
			key = (root, op)
			if key in REVIEWED:
				continue
			out.append(Result('19.f', False, 'dropped:%s@%s' % (op, root), '%s: the result of KVStore::%s is neither branched on nor returned' % (root, op), 1, where=F.where(k, fu.line_of(b))))
	if n < 12:
		out.append(Result('19.f', False, 'floor', 'only %d KVStore calls found in util::persist (expected >= 12)' % n, n))
	if not [r for r in out if not r.ok]:
		out.append(Result('19.f', True, 'ok', '%d KVStore write/read/remove/list call sites in util::persist propagate their result (reviewed exceptions: %d)' % (n, len(REVIEWED)), n))
	return out

def r19g(F):
	out = []
	for fn, store in ((PI + 'archive_persisted_channel', 'KVStore'), (UPK + 'archive_persisted_channel', 'KVStoreSync')):
		body = _async_body(F, fn)
		rm = set(sites_call(body, [store + '::remove']))
		out += guarded_by_call(F, '19.g', body.name, rm, [store + '::write'], 'result', True)
	# sync persister: Completed only when the write returned Ok
	for k in sorted(F.fns):
		if k.startswith('<K as lightning::chain::chainmonitor::Persist>::') and k.rsplit('::', 1)[-1] in ('persist_new_channel', 'update_persisted_channel'):
			fu = F.func(k)
			comp = {b for b, s in sites_construct(fu, 'ChannelMonitorUpdateStatus', 'Completed')}
			out += guarded_by_call(F, '19.g', k, comp, ['KVStoreSync::write'], 'result', True)
	return out

def r19h(F):
	"""lazy clean-up after a consolidating full-monitor write never reaches past the update that was just consolidated: the exclusive upper bound
	handed to cleanup_in_range is the id of the monitor written (an update with a higher id may already be on disk when the clean-up runs -
	asynchronous writes complete in any order - and is all that recovery has for it)"""
	out = []
	F.calls
	tgt = [k for k in F.callers_of if k.endswith('MonitorUpdatingPersisterAsyncInner::cleanup_in_range')]
	n = 0
	for t in tgt:
		for cn in sorted({r[0] for r in F.callers_of[t]}):
			fu = F.func(cn)
			ex = Expr(fu)
			for b in sites_call(fu, [t]):
				a = fu.blocks[b]['t'][2]['args']
				if len(a) < 4:
					continue
				n += 1
				st, sk = linear(ex.of_operand(a[2]))
				et, ek = linear(ex.of_operand(a[3]))
				ids = [v for v, c in et.items() if c == 1 and ('update_id' in v)]
				ok = len(et) == 1 and len(ids) == 1 and ek <= 0
				# the lower bound is the upper bound minus the window
				okl = all(st.get(v) == c for v, c in et.items()) and sk <= ek
				short = cn.split('::{closure')[0].rsplit('::', 1)[-1]
				out.append(Result('19.h', ok and okl, ('ok:' if ok and okl else 'range:') + 'cleanup-upper-bound@' + short, '%s cleans update files in [%s%+d, %s%+d) (upper bound must be the id of the monitor just written, lower bound that minus the window)%s' % (short, '+'.join('%s*%d' % (v[-30:], c) for v, c in sorted(st.items())), sk, '+'.join(v[-30:] for v in et), ek, '' if ok and okl else ' - an update newer than the stored monitor can be deleted although it was reported persisted'), 2, where=F.where(cn, fu.line_of(b))))
	if n < 1:
		out.append(Result('19.h', False, 'floor:cleanup-ranges', 'no call of cleanup_in_range found', 0))
	return out

RULES = [
	('19.a', 'atomic replace: write_all -> sync_all(tmp) -> rename(tmp,dest) -> sync_all(dir) on every path to Ok; only write_version renames/creates', r19a),
	('19.b', 'versioned write lock: stale versions skip the callback; version recorded only on success; single version counter', r19b),
	('19.c', 'remove under the write lock with directory sync; read under the read lock; list skips *.tmp', r19c),
	('19.d', 'MonitorUpdatingPersister: update files are cleaned only behind an Ok full-monitor write; update-vs-full predicate; write issued before any await', r19d),
	('19.e', 'restart applies exactly the updates newer than the monitor, in order; cleanup deletes exactly the complement', r19e),
	('19.h', 'lazy clean-up after consolidation is bounded above by the id of the monitor just written', r19h),
	('19.f', 'KVStore errors are propagated in the persistence paths', r19f),
	('19.g', 'archive removes the live monitor only after the archive copy was written; Completed only on Ok', r19g),
	('19.q', 'no call hands a value named like one parameter of the callee to a different parameter (swapped type-compatible arguments; rules/provenance.py)', lambda F: provenance.swaps_for_property(F, 'C19', '19.q')),
	('19.z', 'named protocol / policy constants in this property\'s files have their reviewed values (rules/provenance.py)', lambda F: provenance.consts_for_property(F, 'C19', '19.z')),
	('19.y', 'no reviewed function gained a swallowed error (the Result of a fallible in-crate call dropped; rules/provenance.py)', lambda F: provenance.dr_for_property(F, 'C19', '19.y')),
]
RULES.append(('19.M', 'collection mutations: every reviewed (function, stored collection, mutator class: add / remove / filter / empty / swap / order) triple is still present - an entry that is no longer removed, inserted or drained on one path (rules/mutations.py)', lambda F: mutations.for_property(F, 'C19', '19.M')))
RULES.append(('19.G', 'guard census: no reviewed call of a workspace function and no reviewed mutation of a stored collection gained a controlling branch condition (an added `&& cond`, early return / continue, more specific match arm in front of an act); counts per call site, name free (rules/guards.py)', lambda F: guards.for_property(F, 'C19', '19.G')))

def r19k(F, rid='19.k'):
	"""the storage key of a monitor is stable for the monitor's whole life: ChannelMonitor::persistence_key (the key under which ChainMonitor hands the
	monitor and its updates to the persister) is computed only from fields that are never written after construction - a key derived from state that
	a splice, a commitment update or a reorg changes splits one channel's records over two namespaces (the full monitor under the old key, later
	updates under the new one), and a restart recovers a stale monitor"""
	fn = 'lightning::chain::channelmonitor::ChannelMonitor::persistence_key'
	try:
		fns = reachable_fns(F, [fn], depth=2)
	except AnchorMissing as e:
		return [Result(rid, False, 'anchor:persistence_key', str(e))]
	CTOR = ('new', 'read', 'from_impl', 'default', 'clone')
	out = []
	read = {}
	for fld, recs in F.fieldacc.items():
		owner = fld.rsplit('.', 1)[0]
		if not owner.startswith('lightning::chain::channelmonitor::') and not owner.startswith('lightning::ln::chan_utils::'):
			continue
		for f, k, line in recs:
			if root_fn(f) in fns and k.partition(':')[0] in ('r', 'ri', 'br', 'bri', 'bf', 'bfi'):
				read.setdefault(fld, (f, line))
	n = 0
	for fld, (f, line) in sorted(read.items()):
		muts = []
		for g, k, ln in F.fieldacc[fld]:
			kk, _, callee = k.partition(':')
			if kk not in ('w', 'wi', 'bm', 'bmi'):
				continue
			tail = root_fn(g).rsplit('::', 1)[-1]
			if tail in CTOR or tail.startswith(('new_', 'read_', 'from_')) or F.impl_kind.get(root_fn(g)) == 'derived' or 'Readable' in g or 'ReadableArgs' in g:
				continue
			if callee.rsplit('::', 1)[-1] in ('lock', 'clone', 'as_ref', 'hash', 'write', 'eq', 'serialized_length'):
				continue
			muts.append((tail, ln))
		n += 1
		ok = not muts
		short = fld.split('::')[-1]
		out.append(Result(rid, ok, ('ok:' if ok else 'unstable:') + 'key-field@' + short, 'persistence_key reads %s, which is never written after construction' % short if ok else 'persistence_key (through %s) reads %s, which is written after construction by %s: the storage key of a live monitor can change, and its records are then split over two keys' % (root_fn(f).rsplit('::', 1)[-1], short, sorted({m[0] for m in muts})[:4]), 1 + len(muts), where=F.where(f, line)))
	if n < 2:
		out.append(Result(rid, False, 'floor:key-fields', 'persistence_key reads only %d monitor field(s) (expected the first negotiated funding outpoint and the channel id)' % n, n))
	return out

RULES.append(('19.k', 'the storage key of a monitor (ChannelMonitor::persistence_key) is computed only from fields that are never written after construction', r19k))
RULES.append(('19.X', 'error propagation: once a branch has found a Result of the function\'s own error type to be Err, no path returns Ok(..) or an unrelated value - a failed KVStore write / remove / read is not reported as success by the storage layer (value-refined walk, rules/errprop.py)', lambda F: errprop.rule(F, '19.X', r'util/persist\.rs$|lightning-persister/', 5, exceptions={'list_paginated_with_values': 'a key removed between listing and reading is not part of the page (NotFound only; every other error is returned)', 'list': 'a directory entry that vanished between read_dir and the check is skipped / included by design', 'list_paginated_impl': 'same tolerance as list for entries deleted during the scan'})))
RULES.append(('19.N', 'arithmetic census: per reviewed function the set of operation kinds (group: add/sub, mul, div, rem, shift, bit, min, max, div_ceil ...; flavour: plain / checked / saturating / wrapping) keeps its kinds: no reviewed function lost or gained a kind of arithmetic altogether - a rounding direction (`/` for div_ceil), saturating for checked, min for max (rules/arith.py; counts and value arithmetic itself are not judged)', lambda F: arith.for_property(F, 'C19', '19.N')))
RULES.append(('19.K', 'constant census of linear forms: every comparison (normalised to sum >= K over name-free atoms, a comparison and its negation being one form) and every maximal arithmetic expression of a reviewed function keeps its coefficients and its constant - a dropped or added `+ 1` / `- 1`, `<` for `<=` inside a computed bound, a scale factor applied twice or not at all, swapped operands of a comparison (rules/linforms.py; shapes that appear or disappear are not judged, the guard / arithmetic censuses judge those)', lambda F: linforms.for_property(F, 'C19', '19.K')))
