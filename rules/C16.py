"""C16 - router: the structural admission conditions of the path search and the provenance of what it hands out.

Only the part of C16 that is visible in the shape of `get_route` and its helpers is decided here (see EXPLANATION)."""
from engine import *
import linforms
import ordimpls
import provenance
import guards
import arith
import writes
import mutations
import accessors
import re as _re

R = 'lightning::routing::router::'
GR = R + 'get_route'

EXPLANATION = ('The path search of get_route relaxes an edge (pushes a RouteGraphNode on the heap) in one macro expanded at every candidate '
	'source (graph channels, first hops, route hints, blinded paths). For EVERY expansion found in the MIR the push must be dominated by the '
	'admission tests the property names: path length, total CLTV delta, minimal value contribution, htlc_minimum of the hop and of the '
	'path so far, previously failed channels / blinded paths, the total-fee limit, remaining capacity (capacity minus the fees of later '
	'hops, minus liquidity used by earlier paths), and not a channel to self; each test is matched by its linear normal form and the '
	'polarity of the dominating edge (bool short-circuit temporaries are followed by constant propagation). Graph channels become candidates '
	'only behind the enabled flag and the unknown-required-feature tests; the Ok exit is behind the collected-value and total-fee tests; '
	'the candidate accessors (fees, htlc_minimum, cltv delta, capacity) read the field of the right source per variant; fee arithmetic has '
	'the BOLT-7 shape; liquidity used by a selected path is added to every hop it crosses; the pruning of superfluous paths keeps the last one '
	'and drops only paths that fit in the overpaid value. Decides these necessary conditions for all graphs at once; does NOT decide route '
	'optimality, the arithmetic of fee recomputation (update_value_and_recompute_fees), or liveness (that a route is found when one exists).')
ASSUMPTIONS = ['amounts do not overflow u64 except where the code uses checked/saturating operations (looked through)',
	'the scorer returns penalties only (it cannot veto a hop)']

def _gr(F):
	return F.func(GR)

def _pushes(fu):
	return sorted(set(sites_call(fu, ['alloc::collections::binary_heap::BinaryHeap::push'])))

def _main_guards(F):
	return guards_in(F, GR, with_closures=False)

def _pass_edges(g, want_true):
	es = set()
	for d in g.decisions:
		for e in (d.true_edges if want_true else d.false_edges):
			es.add(e)
	return es

def _shape(g, pos_re, neg_re, K=0):
	"""the comparison has exactly one leaf matching neg_re; oriented so that its coefficient is -1, every other leaf has
	coefficient +1 and at least one of them matches pos_re. Returns ('ok'|'K', oriented operator, constant) or None."""
	terms, op, k, used = g.nf
	neg = [v for v in terms if _re.search(neg_re, v)]
	if len(neg) != 1 or abs(terms[neg[0]]) != 1:
		return None
	if terms[neg[0]] == 1:
		terms = {v: -c for v, c in terms.items()}
		op = {'Lt': 'Gt', 'Le': 'Ge', 'Gt': 'Lt', 'Ge': 'Le', 'Eq': 'Eq', 'Ne': 'Ne'}[op]
		k = -k
	rest = {v: c for v, c in terms.items() if v != neg[0]}
	if not rest or any(c != 1 for c in rest.values()) or not any(_re.search(pos_re, v) for v in rest):
		return None
	return ('ok' if k == K else 'K', op, k)

def _local_rx(fu, def_rx, min_defs=1):
	"""regex alternation of the display names of the locals one of whose definitions (as an expression string) matches def_rx -
	locals are identified by what they are computed from, never by their source name"""
	ex = Expr(fu, max_depth=8)
	names = set()
	for l, ds in fu.defs.items():
		if len(ds) < min_defs:
			continue
		for d in ds:
			bi, si = d[0], d[1]
			if si == 'T':
				ci = fu.blocks[bi]['t'][2]
				txt = '%s(%s)' % (norm(ci.get('f') or '').rsplit('::', 1)[-1], ', '.join(expr_str(ex.of_operand(a)) for a in ci['args']))
			else:
				st = fu.blocks[bi]['s'][si]
				if len(st[1]) != 1:
					continue
				txt = expr_str(ex.of_rvalue(st[2]))
			if _re.search(def_rx, txt):
				names.add(fu.local_name(l) or '_%d' % l)
				break
	if not names:
		raise AnchorMissing('%s: no local defined as /%s/' % (fu.name, def_rx))
	return r'^(%s)$' % '|'.join(sorted(_re.escape(n) for n in names))

# each admission test: (label, pos_re, neg_re, {accepted oriented operator: polarity of the edge that must dominate the push})
# `a > b` false  ==  `a <= b` true: both listed so that an equivalent rewrite passes.
def _admit(fu):
	min_contrib = _local_rx(fu, r'^div_ceil\(.*final_value_msat, .*max_path_count')
	return [
	('path-length', r'.', r'max_path_length', {'Gt': False, 'Le': True}, 0,
		'hops so far (+1 unless a blinded hint) must not exceed min(max_path_length, MAX_PATH_LENGTH_ESTIMATE)'),
	('cltv-limit', r'cltv_expiry_delta\(', r'max_total_cltv_expiry_delta', {'Gt': False, 'Le': True}, 0,
		'accumulated CLTV delta + this hop must not exceed the (shadow-route adjusted) max_total_cltv_expiry_delta'),
	('min-contribution', r'^min\(', min_contrib, {'Ge': True, 'Lt': False}, 0,
		'value carried over the hop is at least the minimal contribution (amount / max_path_count)'),
	('htlc-minimum', r'^min\(', r'htlc_minimum_msat\(', {'Ge': True, 'Lt': False}, 0,
		"amount transferred over the hop (value + later fees) is at least the hop's htlc_minimum_msat"),
	('fee-limit', r'.', r'max_total_routing_fee_msat', {'Gt': False, 'Le': True}, 0,
		'fees accumulated to this hop do not exceed max_total_routing_fee_msat'),
	]

def r16a(F):
	fu = _gr(F)
	pushes = _pushes(fu)
	out = []
	if len(pushes) < 8:
		return [Result('16.a', False, 'anchor:heap-push', 'get_route: expected >= 8 expansions of the relaxation step (BinaryHeap::push), found %d' % len(pushes), len(pushes))]
	gs = _main_guards(F)
	base = fu.reach([0])
	for label, pos_re, neg_re, ops, K, why in _admit(fu):
		cands = []
		wrong = []
		for g in gs:
			sh = _shape(g, pos_re, neg_re, K)
			if sh is None:
				continue
			if sh[0] == 'ok' and sh[1] in ops:
				cands.append((g, ops[sh[1]]))
			else:
				wrong.append((g, sh))
		for p in pushes:
			if p not in base:
				continue
			ok = False
			for g, pol in cands:
				pe = _pass_edges(g, pol)
				if pe and p not in fu.reach_bool([0], removed_edges=pe, track=fu.flags_near([d.b for d in g.decisions])):
					ok = True
					break
			line = fu.line_of(p)
			if ok:
				out.append(Result('16.a', True, 'ok:%s' % label, 'relaxation at line %d is dominated by the %s test (%s)' % (line, label, g.text()), 1))
			else:
				near = [('%s [line %d]' % (g.text(), g.line)) for g, sh in wrong][:4]
				out.append(Result('16.a', False, 'guard:%s' % label,
					'get_route: a relaxation step (heap push, expansion at line %d) is not dominated by the %s test: %s. %d well-formed test(s) of this kind exist%s' % (
						line, label, why, len(cands), ('; mis-shaped look-alikes: %s' % near) if near else ''),
					1, where=F.where(fu.name, line)))
	return out

def _calls_with_arg(fu, callee_re, arg_re, argi=0):
	"""blocks calling a function whose path matches callee_re with argument argi's expression matching arg_re"""
	ex = Expr(fu)
	out = []
	for b, ci in fu.calls():
		f = norm(ci.get('f') or '')
		t = norm(ci.get('t') or '')
		if not (_re.search(callee_re, f) or (t and _re.search(callee_re, t))):
			continue
		if len(ci['args']) <= argi:
			continue
		if arg_re is None or _re.search(arg_re, expr_str(ex.of_operand(ci['args'][argi]))):
			out.append(b)
	return out

def _dominated(fu, p, decisions, want_true):
	"""is block p unreachable from entry once the pass edges of some single decision group are removed?"""
	pe = set()
	for d in decisions:
		for e in (d.true_edges if want_true else d.false_edges):
			pe.add(e)
	if not pe:
		return False
	return p not in fu.reach_bool([0], removed_edges=pe, track=fu.flags_near([d.b for d in decisions]))

def _per_push(F, rule, label, why, groups, want_true, floor=None):
	"""groups: list of decision lists (one per candidate test site). Every push must be dominated by one group;
	with floor, at least `floor` pushes must be."""
	fu = _gr(F)
	pushes = _pushes(fu)
	out = []
	n_ok = 0
	bad = []
	for p in pushes:
		ok = any(_dominated(fu, p, ds, want_true) for ds in groups if ds)
		if ok:
			n_ok += 1
		else:
			bad.append(p)
	need = len(pushes) if floor is None else floor
	if len(pushes) < 8:
		return [Result(rule, False, 'anchor:heap-push', 'get_route: expected >= 8 expansions of the relaxation step, found %d' % len(pushes))]
	if n_ok >= need:
		out.append(Result(rule, True, 'ok:%s' % label, 'get_route: %d of %d relaxation steps are dominated by the %s test (%d test site(s))' % (n_ok, len(pushes), label, len(groups)), len(pushes) + len(groups)))
	else:
		for p in bad[:max(1, need - n_ok)]:
			out.append(Result(rule, False, 'guard:%s' % label, 'get_route: relaxation step (heap push, expansion at line %d) is not dominated by the %s test: %s (%d of %d are, %d required)' % (
				fu.line_of(p), label, why, n_ok, len(pushes), need), 1, where=F.where(fu.name, fu.line_of(p))))
	return out

def r16b(F):
	fu = _gr(F)
	out = []
	# previously failed channels / blinded paths: the `contains` results feed one flag; its false edge dominates the push
	cb = _calls_with_arg(fu, r'::contains$', r'previously_failed_channels')
	bb = _calls_with_arg(fu, r'::contains$', r'previously_failed_blinded_path_idxs')
	if len(cb) < 8 or len(bb) < 8:
		out.append(Result('16.b', False, 'anchor:previously-failed', 'get_route: expected a previously_failed_channels and a previously_failed_blinded_path_idxs lookup per expansion, found %d / %d' % (len(cb), len(bb))))
	else:
		groups = [call_decisions(fu, [b], 'bool') for b in cb]
		out += _per_push(F, '16.b', 'previously-failed-channel', 'a channel on which this payment already failed must not be used again', groups, False)
		groups = [call_decisions(fu, [b], 'bool') for b in bb]
		out += _per_push(F, '16.b', 'previously-failed-blinded-path', 'a blinded path on which this payment already failed must not be used again', groups, False)
	# remaining capacity: htlc_maximum (from max_htlc_from_capacity) minus the fees of later hops must exist (checked_sub is Some)
	cs = _calls_with_arg(fu, r'::checked_sub$', r'max_htlc_from_capacity\(effective_capacity\(')
	if len(cs) < 8:
		out.append(Result('16.b', False, 'anchor:capacity-checked-sub', 'get_route: expected 8 `max_htlc_from_capacity(candidate.effective_capacity(), ..).checked_sub(next_hops_fee)` sites, found %d' % len(cs)))
	else:
		groups = [call_decisions(fu, [b], 'option') for b in cs]
		out += _per_push(F, '16.b', 'capacity-covers-later-fees', 'the hop capacity limit must cover the fees of the hops after it', groups, True)
	# not a channel to self: Some(source) != target
	ns = [b for b, ci in fu.calls() if norm(ci.get('t') or ci.get('f') or '').endswith('PartialEq::ne') and 'Option<lightning::routing::gossip::NodeId>' in (ci.get('g') or '')]
	if len(ns) < 8:
		out.append(Result('16.b', False, 'anchor:self-channel', 'get_route: expected 8 `Some(source) != target` tests, found %d' % len(ns)))
	else:
		groups = [call_decisions(fu, [b], 'bool') for b in ns]
		out += _per_push(F, '16.b', 'not-a-self-channel', 'a channel whose source is its target is never used', groups, True)
	# htlc_minimum accumulated over the later hops (absent where the macro is expanded with a literal 0)
	gs = _main_guards(F)
	groups = []
	# the htlc_minimum accumulated over the later hops: the local copied from PathBuildingHop.path_htlc_minimum_msat (or 0 at the payee)
	path_min_rx = _local_rx(fu, r'\.path_htlc_minimum_msat$', min_defs=2)
	for g in gs:
		sh = _shape(g, r'^min\(', path_min_rx, 0)
		if sh and sh[0] == 'ok' and sh[1] in ('Ge', 'Lt'):
			groups.append((g.decisions, sh[1] == 'Ge'))
	gt = [ds for ds, pol in groups if pol]
	out += _per_push(F, '16.b', 'path-htlc-minimum', 'the amount carried must reach the htlc_minimum accumulated over the later hops', gt, True, floor=6)
	return out

def _cmp_groups(F, pos_re, neg_re, K, ops):
	"""[(decisions, want_true)] for the main-body comparisons of that shape whose oriented operator is in ops (op -> polarity)"""
	out = []
	for g in _main_guards(F):
		sh = _shape(g, pos_re, neg_re, K)
		if sh and sh[0] == 'ok' and sh[1] in ops:
			out.append((g, ops[sh[1]]))
	return out

def _acts_dominated(F, rule, label, acts, groups, why):
	"""every act block is dominated by the pass edges of one of the groups [(decisions, want_true)]"""
	fu = _gr(F)
	out = []
	for a in sorted(acts):
		ok = any(_dominated(fu, a, ds, pol) for ds, pol in groups if ds)
		line = fu.line_of(a)
		if ok:
			out.append(Result(rule, True, 'ok:%s' % label, 'get_route: line %d is behind the %s test' % (line, label), 1 + len(groups)))
		else:
			out.append(Result(rule, False, 'guard:%s' % label, 'get_route: line %d is reachable without passing the %s test: %s (%d candidate test site(s))' % (line, label, why, len(groups)),
				1, where=F.where(fu.name, line)))
	return out

def r16c(F):
	"""graph channels become candidates only when usable"""
	fu = _gr(F)
	acts = {b for b, s in sites_construct(fu, 'CandidateRouteHop', 'PublicHop')}
	if len(acts) < 2:
		return [Result('16.c', False, 'anchor:public-hop', 'get_route: expected >= 2 constructions of CandidateRouteHop::PublicHop in the graph walk, found %d' % len(acts))]
	out = []
	en, _ = decisions_on(fu, [(lambda pl: isinstance(pl[-1], str) and pl[-1].startswith('.enabled#') and pl[-1].endswith('ChannelUpdateInfo'), 'bool', False)])
	out += _acts_dominated(F, '16.c', 'direction-enabled', acts, [([d], True) for d in en], 'a disabled channel direction must not be routed over')
	for ctx, lab in (('NodeContext', 'node-features-known'), ('ChannelContext', 'channel-features-known')):
		cb = [b for b, ci in fu.calls() if norm(ci.get('f') or '').endswith('Features::requires_unknown_bits') and ctx in (ci.get('g') or '')]
		out += _acts_dominated(F, '16.c', lab, acts, [(call_decisions(fu, [b], 'bool'), False) for b in cb], 'a node / channel requiring unknown feature bits must not be routed over')
	# with first hops supplied by the caller, our own announced channels are not taken from the graph
	isn = _calls_with_arg(fu, r'Option::is_none$', r'first_hops')
	ne = [b for b, ci in fu.calls() if norm(ci.get('t') or ci.get('f') or '').endswith('PartialEq::ne') and (ci.get('g') or '').startswith('[lightning::routing::gossip::NodeId')]
	ex = Expr(fu)
	ne = [b for b in ne if 'our_node' in expr_str(ex.of_operand(fu.blocks[b]['t'][2]['args'][1])) or 'our_node' in expr_str(ex.of_operand(fu.blocks[b]['t'][2]['args'][0]))]
	groups = []
	for a in isn:
		for b in ne:
			groups.append((call_decisions(fu, [a], 'bool') + call_decisions(fu, [b], 'bool'), True))
	out += _acts_dominated(F, '16.c', 'own-channels-from-first-hops-only', acts, groups, 'when first_hops is given, graph channels whose source is the payer are skipped (their live limits come from first_hops)')
	return out

def r16d(F):
	"""input validation and the tests in front of the Ok exit"""
	fu = _gr(F)
	oks = set(ok_return_blocks(fu))
	if not oks:
		return [Result('16.d', False, 'anchor:ok-exit', 'get_route has no Ok exit')]
	out = []
	# the running total of collected path values: a u64 local that starts at 0 and is added to
	collected_rx = _local_rx(fu, r'^0$', min_defs=2)
	groups = _cmp_groups(F, r'final_value_msat$', collected_rx, 0, {'Gt': False, 'Le': True})
	out += _acts_dominated(F, '16.d', 'collected-value-covers-amount', oks, [(g.decisions, pol) for g, pol in groups], 'the paths together must deliver at least the requested amount')
	# single-leaf input tests: final_value_msat > MAX_VALUE_MSAT, == 0 ; max_path_count == 0
	def single(leaf_re, op, K):
		res = []
		for g in _main_guards(F):
			terms, o, k, used = g.nf
			if len(terms) == 1 and _re.search(leaf_re, list(terms)[0]) and list(terms.values())[0] == 1 and o == op and k == K:
				res.append(g)
		return res
	maxv = F.const('lightning::ln::msgs::MAX_VALUE_MSAT')
	if True:
		gs = single(r'final_value_msat$', 'Gt', maxv)
		out += _acts_dominated(F, '16.d', 'amount-not-above-21M-BTC', oks, [(g.decisions, False) for g in gs], 'an amount above MAX_VALUE_MSAT is refused')
	gs = single(r'final_value_msat$', 'Eq', 0)
	out += _acts_dominated(F, '16.d', 'amount-not-zero', oks, [(g.decisions, False) for g in gs], 'a zero amount is refused')
	gs = single(r'max_path_count$', 'Eq', 0)
	out += _acts_dominated(F, '16.d', 'path-count-not-zero', oks, [(g.decisions, False) for g in gs], 'max_path_count == 0 is refused')
	# total fees of the assembled route against the limit, when a limit is given
	fee = []
	for g in _main_guards(F):
		sh = _shape(g, r'get_total_fees\(', r'max_total_routing_fee_msat', 0)
		if sh and sh[0] == 'ok' and sh[1] in ('Gt', 'Le'):
			fee.append((g, sh[1] == 'Le'))
	none = place_decisions(fu, lambda pl: isinstance(pl[-1], str) and pl[-1].startswith('.max_total_routing_fee_msat#'), 'option')
	groups = []
	for g, pol in fee:
		pe_dec = list(g.decisions)
		# the None arm of `if let Some(max) = route_params.max_total_routing_fee_msat` is the only way around the comparison
		groups.append((pe_dec, pol, none))
	ok_any = False
	res = []
	for a in sorted(oks):
		good = False
		for ds, pol, nd in groups:
			pe = set()
			for d in ds:
				pe |= set(d.true_edges if pol else d.false_edges)
			for d in nd:
				pe |= set(d.false_edges)
			if pe and a not in fu.reach_bool([0], removed_edges=pe, track=fu.flags_near([d.b for d in ds])):
				good = True
		res.append(Result('16.d', good, ('ok:' if good else 'guard:') + 'route-total-fee-limit',
			'get_route: the Ok exit (line %d) is %sbehind `route.get_total_fees() > max_total_routing_fee_msat => Err` (or the no-limit arm); %d comparison(s) of that shape' % (fu.line_of(a), '' if good else 'NOT ', len(fee)),
			1 + len(fee), where=None if good else F.where(fu.name, fu.line_of(a))))
	out += res
	# final CLTV below the total limit
	gs = _cmp_groups(F, r'final_cltv_expiry_delta\(', r'max_total_cltv_expiry_delta$', 0, {'Ge': False, 'Lt': True})
	out += _acts_dominated(F, '16.d', 'final-cltv-below-total-limit', oks, [(g.decisions, pol) for g, pol in gs], 'a total CLTV limit not above the final CLTV delta is refused')
	return out

CRH = R + 'CandidateRouteHop'
# accessor -> variant -> (regex every returned value must match, why)
_ACC = {
	'htlc_minimum_msat': {
		'FirstHop': (r'details\.next_outbound_htlc_minimum_msat$', 'our own channel: the live next_outbound_htlc_minimum_msat'),
		'PublicHop': (r'direction\(.*\)\.htlc_minimum_msat$', 'the directed channel_update of the graph channel'),
		'PrivateHop': (r'^unwrap_or\(.*hint\.htlc_minimum_msat, 0\)$', 'the route hint (absent = 0)'),
		'Blinded': (r'hint\.payinfo\.htlc_minimum_msat$', 'the blinded path payinfo'),
		'OneHopBlinded': (r'^0$', 'a one-hop blinded path is the recipient itself'),
	},
	'cltv_expiry_delta': {
		'FirstHop': (r'^0$', 'we do not add a delta for our own channel'),
		'PublicHop': (r'direction\(.*\)\.cltv_expiry_delta as u32$', 'the directed channel_update'),
		'PrivateHop': (r'hint\.cltv_expiry_delta as u32$', 'the route hint'),
		'Blinded': (r'hint\.payinfo\.cltv_expiry_delta as u32$', 'the blinded path payinfo'),
		'OneHopBlinded': (r'^0$', 'no intermediate node'),
	},
	'fees': {
		'FirstHop': (r'^RoutingFees::RoutingFees\{0, 0\}$', 'we do not charge ourselves'),
		'PublicHop': (r'direction\(.*\)\.fees$', 'the directed channel_update'),
		'PrivateHop': (r'hint\.fees$', 'the route hint'),
		'Blinded': (r'^RoutingFees::RoutingFees\{.*payinfo\.fee_base_msat, .*payinfo\.fee_proportional_millionths\}$', 'the blinded path payinfo, base and proportional part not swapped'),
		'OneHopBlinded': (r'^RoutingFees::RoutingFees\{0, 0\}$', 'no intermediate node'),
	},
	'effective_capacity': {
		'FirstHop': (r'^EffectiveCapacity::ExactLiquidity\{.*details\.next_outbound_htlc_limit_msat\}$', 'our own channel: the live next_outbound_htlc_limit_msat, exactly'),
		'PublicHop': (r'^effective_capacity\(.*info\)$', 'the directed graph channel'),
		'PrivateHop': (r'^EffectiveCapacity::Infinite\{\}$|^EffectiveCapacity::HintMaxHTLC\{.*hint\.htlc_maximum_msat as Some\)\.0\}$', 'the hint maximum when given'),
		'Blinded': (r'^EffectiveCapacity::HintMaxHTLC\{.*payinfo\.htlc_maximum_msat\}$', 'the blinded path payinfo'),
		'OneHopBlinded': (r'^EffectiveCapacity::Infinite\{\}$', 'the recipient itself'),
	},
	'short_channel_id': {
		'FirstHop': (r'^get_outbound_payment_scid\(.*details\)$', 'the SCID (or alias) our peer expects'),
		'PublicHop': (r'^Option::Some\{.*\.short_channel_id\}$', 'the graph SCID'),
		'PrivateHop': (r'^Option::Some\{.*hint\.short_channel_id\}$', 'the hint SCID'),
		'Blinded': (r'^Option::None\{\}$', 'no SCID'),
		'OneHopBlinded': (r'^Option::None\{\}$', 'no SCID'),
	},
	'source': {
		'FirstHop': (r'payer_node_id$', 'us'),
		'PublicHop': (r'^\*source\(.*info\)$', 'source of the directed channel'),
		'PrivateHop': (r'hint\.src_node_id', 'the hint source node'),
		'Blinded': (r'source_node_id$', 'the introduction node'),
		'OneHopBlinded': (r'source_node_id$', 'the introduction node'),
	},
	'target': {
		'FirstHop': (r'^Option::Some\{.*details\.counterparty\.node_id', 'our channel peer'),
		'PublicHop': (r'^Option::Some\{\*target\(.*info\)\}$', 'target of the directed channel'),
		'PrivateHop': (r'^Option::Some\{.*target_node_id\}$', 'the next hint hop / payee'),
		'Blinded': (r'^Option::None\{\}$', 'unknown'),
		'OneHopBlinded': (r'^Option::None\{\}$', 'unknown'),
	},
}

def r16e(F):
	out = []
	for acc, tab in _ACC.items():
		fn = CRH + '::' + acc
		try:
			t = variant_return_table(F, fn, CRH)
		except AnchorMissing as e:
			out.append(Result('16.e', False, 'anchor:%s' % acc, 'anchor missing: %s' % e))
			continue
		for v, (rx, why) in tab.items():
			vals = [expr_str(x) for x in t.get(v, [])]
			ok = bool(vals) and all(_re.search(rx, x) for x in vals)
			out.append(Result('16.e', ok, ('ok:' if ok else 'source:') + '%s/%s' % (acc, v),
				'CandidateRouteHop::%s for %s returns %s (expected: %s)' % (acc, v, vals or 'nothing', why), max(1, len(vals)), where=None if ok else F.where(F.fn(fn))))
	return out

G = 'lightning::routing::gossip::'

def _bool_arm_values(F, fn, field):
	"""for `if self.<field> { A } else { B }`: (values assigned to the result on the true arm, on the false arm) as strings"""
	fu = F.func(fn)
	ds, _ = decisions_on(fu, [(lambda pl: isinstance(pl[-1], str) and pl[-1].startswith('.%s#' % field), 'bool', False)])
	if len(ds) != 1:
		raise AnchorMissing('%s: expected one branch on self.%s, found %d' % (fn, field, len(ds)))
	d = ds[0]
	ex = Expr(fu)
	res = []
	for edges, other in ((d.true_edges, d.false_edges), (d.false_edges, d.true_edges)):
		blocks = fu.reach([e[1] for e in edges], removed_blocks=[d.b]) - fu.reach([e[1] for e in other], removed_blocks=[d.b])
		vals = []
		for b in sorted(blocks):
			for s in fu.blocks[b]['s']:
				if s[2][0] in ('agg', 'ref', 'use') and len(s[1]) == 1:
					vals.append(expr_str(ex.of_rvalue(s[2])))
		res.append(vals)
	return res

def r16f(F):
	"""a directed view of a channel pairs the right update, source and target"""
	out = []
	CI = G + 'ChannelInfo::'
	want = {
		'as_directed_to': {'node_one': ('two_to_one', 'node_two', 0), 'node_two': ('one_to_two', 'node_one', 1)},
		'as_directed_from': {'node_one': ('one_to_two', 'node_two', 1), 'node_two': ('two_to_one', 'node_one', 0)},
	}
	for fnm, tab in want.items():
		fu = F.func(CI + fnm)
		ex = Expr(fu)
		eqs = []
		for b, ci in fu.calls():
			if norm(ci.get('t') or ci.get('f') or '').endswith('PartialEq::eq') and 'NodeId' in (ci.get('g') or ''):
				txt = ' '.join(expr_str(ex.of_operand(a)) for a in ci['args'])
				which = 'node_one' if 'node_one' in txt else ('node_two' if 'node_two' in txt else None)
				if which:
					eqs.append((which, call_decisions(fu, [b], 'bool')))
		tuples = []
		for bi, si, st in fu.stmts():
			rv = st[2]
			if rv[0] == 'agg' and rv[1] == 'tuple' and len(rv[4]) == 3:
				tuples.append((bi, [ex.of_operand(o) for o in rv[4]]))
		seen = {}
		for bi, els in tuples:
			for which, ds in eqs:
				pe = set()
				for d in ds:
					pe |= set(d.true_edges)
				if pe and bi not in fu.reach([0], removed_edges=pe):
					seen[which] = els
		for which, (dirf, other, flag) in tab.items():
			els = seen.get(which)
			if els is None:
				out.append(Result('16.f', False, 'anchor:%s/%s' % (fnm, which), 'ChannelInfo::%s: no (direction, node, flag) tuple found on the arm where the given node equals %s' % (fnm, which), where=F.where(fu.name)))
				continue
			s0, s1 = expr_str(els[0]), expr_str(els[1])
			fl = els[2][1] if els[2][0] == 'const' else None
			ok = dirf in s0 and ('one_to_two' if dirf == 'two_to_one' else 'two_to_one') not in s0 and s1.endswith(other) and fl == flag
			out.append(Result('16.f', ok, ('ok:' if ok else 'direction:') + '%s/%s' % (fnm, which),
				'ChannelInfo::%s, node == %s: uses (%s, %s, from_node_one=%s); expected (%s, %s, %s)' % (fnm, which, s0, s1, fl, dirf, other, flag), 3, where=None if ok else F.where(fu.name)))
	# DirectedChannelInfo: source/target/counters follow from_node_one
	D = G + 'DirectedChannelInfo::'
	for fnm, (t_rx, f_rx) in {'source': (r'channel\.node_one$', r'channel\.node_two$'), 'target': (r'channel\.node_two$', r'channel\.node_one$')}.items():
		try:
			tv, fv = _bool_arm_values(F, D + fnm, 'from_node_one')
		except AnchorMissing as e:
			out.append(Result('16.f', False, 'anchor:' + fnm, str(e)))
			continue
		ok = any(_re.search(t_rx, x) for x in tv) and any(_re.search(f_rx, x) for x in fv) and not any(_re.search(f_rx, x) for x in tv) and not any(_re.search(t_rx, x) for x in fv)
		out.append(Result('16.f', ok, ('ok:' if ok else 'direction:') + 'DirectedChannelInfo::' + fnm, 'DirectedChannelInfo::%s: from_node_one => %s, otherwise %s' % (fnm, tv, fv), 2, where=None if ok else F.where(F.fn(D + fnm))))
	# new(): counters in the same order
	fu = F.func(D + 'new')
	ex = Expr(fu)
	ds, _ = decisions_on(fu, [(3, 'bool', False)])
	okn = False
	desc = 'no branch on from_node_one'
	if len(ds) == 1:
		d = ds[0]
		tb = fu.reach([e[1] for e in d.true_edges], removed_blocks=[d.b]) - fu.reach([e[1] for e in d.false_edges], removed_blocks=[d.b])
		fb = fu.reach([e[1] for e in d.false_edges], removed_blocks=[d.b]) - fu.reach([e[1] for e in d.true_edges], removed_blocks=[d.b])
		def tup(blocks):
			for b in sorted(blocks):
				for st in fu.blocks[b]['s']:
					if st[2][0] == 'agg' and st[2][1] == 'tuple' and len(st[2][4]) == 2:
						return [expr_str(ex.of_operand(o)) for o in st[2][4]]
			return None
		tt, ft = tup(tb), tup(fb)
		desc = 'from_node_one => %s, otherwise %s' % (tt, ft)
		okn = bool(tt and ft) and tt[0].endswith('node_one_counter') and tt[1].endswith('node_two_counter') and ft[0].endswith('node_two_counter') and ft[1].endswith('node_one_counter')
	out.append(Result('16.f', okn, ('ok:' if okn else 'direction:') + 'DirectedChannelInfo::new', 'DirectedChannelInfo::new (source_counter, target_counter): %s' % desc, 2, where=None if okn else F.where(fu.name)))
	# effective_capacity of a directed graph channel: capacity in msat (sats * 1000) capped htlc_maximum of THIS direction
	fam = F.family(D + 'effective_capacity')
	txt = []
	for n in fam:
		fu = F.func(n)
		ex = Expr(fu)
		for bi, si, st in fu.stmts():
			txt.append(expr_str(ex.of_rvalue(st[2])))
		for b, ci in fu.calls():
			txt.append('%s(%s)' % (norm(ci.get('f') or '').rsplit('::', 1)[-1], ', '.join(expr_str(ex.of_operand(a)) for a in ci['args'])))
	blob = ' ; '.join(txt)
	ok1 = bool(_re.search(r'Mul 1000\)', blob))
	ok2 = bool(_re.search(r'min\([^;]*htlc_maximum_msat[^;]*capacity_sats|min\([^;]*capacity_sats[^;]*htlc_maximum_msat', blob))
	ok3 = bool(_re.search(r'direction\([^)]*\)\.htlc_maximum_msat', blob))
	out.append(Result('16.f', ok1 and ok2 and ok3, ('ok:' if (ok1 and ok2 and ok3) else 'capacity:') + 'DirectedChannelInfo::effective_capacity',
		'DirectedChannelInfo::effective_capacity: capacity_sats * 1000 %s; htlc_maximum_msat of the direction %s; capped by min(htlc_maximum, capacity) %s' % tuple('present' if x else 'MISSING' for x in (ok1, ok3, ok2)), 3,
		where=None if (ok1 and ok2 and ok3) else F.where(F.fn(D + 'effective_capacity'))))
	return out

def r16g(F):
	"""fee arithmetic and the capacity limit have the BOLT-7 shape"""
	out = []
	for fn in ('compute_fees', 'compute_fees_saturating'):
		txt = []
		for n in F.family(R + fn):
			fu = F.func(n)
			ex = Expr(fu)
			for bi, si, st in fu.stmts():
				txt.append(expr_str(ex.of_rvalue(st[2])))
			for b, ci in fu.calls():
				txt.append('%s(%s)' % (norm(ci.get('f') or '').rsplit('::', 1)[-1], ' , '.join(expr_str(ex.of_operand(a)) for a in ci['args'])))
		mul = any(_re.search(r'(checked_mul|saturating_mul)\((?=.*amount_msat)(?=.*proportional_millionths)', x) or _re.search(r'\((?=.*amount_msat)(?=.*proportional_millionths).* Mul ', x) for x in txt)
		div = any(_re.search(r' Div 1000000\)', x) for x in txt)
		add = any(_re.search(r'(checked_add|saturating_add)\(.*base_msat', x) or _re.search(r'base_msat.* Add | Add .*base_msat', x) for x in txt)
		wrongdiv = [x for x in txt if _re.search(r' Div (?!1000000\))', x)]
		ok = mul and div and add and not wrongdiv
		out.append(Result('16.g', ok, ('ok:' if ok else 'shape:') + fn, '%s: amount_msat * proportional_millionths %s; / 1_000_000 %s; + base_msat %s%s' % (
			fn, 'present' if mul else 'MISSING', 'present' if div else 'MISSING', 'present' if add else 'MISSING', ('; other divisor: %s' % wrongdiv[:2]) if wrongdiv else ''), 3, where=None if ok else F.where(F.fn(R + fn))))
	# max_htlc_from_capacity per EffectiveCapacity variant
	want = {
		'ExactLiquidity': (r'^\(capacity as ExactLiquidity\)\.liquidity_msat$', 'exact liquidity is used as is'),
		'HintMaxHTLC': (r'^\(capacity as HintMaxHTLC\)\.amount_msat$', 'a hint maximum is used as is'),
		'AdvertisedMaxHTLC': (r'^unwrap_or\(checked_shr\(\(capacity as AdvertisedMaxHTLC\)\.amount_msat, .*saturation.*\), 0\)$', 'advertised maximum, saturation-limited'),
		'Total': (r'^min\(unwrap_or\(checked_shr\(\(capacity as Total\)\.capacity_msat, .*saturation.*\), 0\), \(capacity as Total\)\.htlc_maximum_msat\)$|^min\(\(capacity as Total\)\.htlc_maximum_msat, unwrap_or\(checked_shr\(\(capacity as Total\)\.capacity_msat', 'min(saturation-limited capacity, htlc_maximum_msat)'),
		'Infinite': (r'^MAX\(=18446744073709551615\)$', 'no limit'),
	}
	try:
		t = variant_return_table(F, R + 'max_htlc_from_capacity', G + 'EffectiveCapacity', self_place=(1,))
		for v, (rx, why) in want.items():
			vals = [expr_str(x) for x in t.get(v, [])]
			ok = bool(vals) and all(_re.search(rx, x) for x in vals)
			out.append(Result('16.g', ok, ('ok:' if ok else 'shape:') + 'max_htlc_from_capacity/' + v, 'max_htlc_from_capacity(%s) = %s (expected: %s)' % (v, vals, why), 1, where=None if ok else F.where(F.fn(R + 'max_htlc_from_capacity'))))
	except AnchorMissing as e:
		out.append(Result('16.g', False, 'anchor:max_htlc_from_capacity', str(e)))
	return out

def _closure_of_arg(fu, ex, op):
	m = _re.search(r'\{closure#\d+\}', expr_str(ex.of_operand(op)))
	return (GR + '::' + m.group(0)) if m else None

def r16h(F):
	"""capacity is counted jointly over the paths that share a channel"""
	fu = _gr(F)
	ex = Expr(fu)
	out = []
	# (1) liquidity already used by earlier paths is subtracted from what a candidate can still carry
	n_ok, n = 0, 0
	for b, ci in fu.calls():
		f = norm(ci.get('f') or '')
		if not f.endswith('Option::map_or') or len(ci['args']) < 3:
			continue
		if 'used_liquidities' not in expr_str(ex.of_operand(ci['args'][0])):
			continue
		n += 1
		cn = _closure_of_arg(fu, ex, ci['args'][2])
		good = False
		if cn:
			cu = F.func(cn)
			cex = Expr(cu)
			for bi, si, st in cu.stmts():
				pl = st[1]
				if len(pl) >= 2 and pl[0] == 1 and isinstance(pl[1], str) and pl[1].startswith('.0') and '*' in pl[2:]:
					v = expr_str(cex.of_rvalue(st[2]))
					if _re.search(r'^saturating_sub\(%s, \*' % _re.escape(expr_str(cex.of_place(pl))), v):
						good = True
		if good:
			n_ok += 1
	ok = n >= 8 and n_ok == n
	out.append(Result('16.h', ok, ('ok:' if ok else 'shared:') + 'used-liquidity-subtracted', 'get_route: %d of %d relaxation steps subtract the liquidity earlier paths already use on the channel (available -= used_liquidities[id], saturating) before computing the contribution (expected 8 of 8)' % (n_ok, n), n, where=None if ok else F.where(fu.name)))
	# (2) every hop of a selected path records value + later fees as used
	am = [(b, ci) for b, ci in fu.calls() if norm(ci.get('f') or '').endswith('Entry::and_modify') and 'used_liquidities' in expr_str(ex.of_operand(ci['args'][0]))]
	oi = [(b, ci) for b, ci in fu.calls() if norm(ci.get('f') or '').endswith('Entry::or_insert') and 'used_liquidities' in expr_str(ex.of_operand(ci['args'][0]))]
	spent_rx = r'\(\w+ Add .*\.next_hops_fee_msat\)$|\(.*\.next_hops_fee_msat Add \w+\)$'
	ok2 = False
	desc = 'no and_modify / or_insert on used_liquidities'
	if am and oi:
		b, ci = am[0]
		cn = _closure_of_arg(fu, ex, ci['args'][1])
		clo_arg = expr_str(ex.of_operand(ci['args'][1]))
		ins = expr_str(ex.of_operand(oi[0][1]['args'][1]))
		add_ok = False
		if cn:
			cu = F.func(cn)
			cex2 = Expr(cu)
			for bi, si, st in cu.stmts():
				# `*used += amount` (release: one Add; dev: checked add, assert, then the store of its .0)
				if st[1][:2] == [2, '*'] and _re.search(r' Add(WithOverflow)? ', expr_str(cex2.of_rvalue(st[2]))):
					add_ok = True
		ok2 = add_ok and bool(_re.search(spent_rx, ins)) and bool(_re.search(r'\w+ Add .*\.next_hops_fee_msat', clo_arg))
		desc = 'existing entry += captured amount: %s; new entry = %s' % (add_ok, ins[-90:])
	out.append(Result('16.h', ok2, ('ok:' if ok2 else 'shared:') + 'used-liquidity-recorded', 'get_route: each hop of a selected path records value_contribution + next_hops_fee as used liquidity (%s)' % desc, 2, where=None if ok2 else F.where(fu.name)))
	# (3) superfluous paths: a path is dropped only if its whole value fits in the overpaid amount and it is not the last one
	# the overpaid amount: the local computed as (collected total - final_value_msat)
	over_rx = _local_rx(fu, r'^\(\w+ Sub .*final_value_msat\)$')
	rt = [(b, ci) for b, ci in fu.calls() if norm(ci.get('f') or '').endswith('Vec::retain') and 'selected_route' in expr_str(ex.of_operand(ci['args'][0]))]
	ok3 = False
	desc = 'retain on selected_route not found'
	if rt:
		cn = _closure_of_arg(fu, ex, rt[0][1]['args'][1])
		cu = F.func(cn)
		drops = set()
		for bi, si, st in cu.stmts():
			if st[1] == [0] and st[2][0] == 'use' and st[2][1][0] == 'k' and st[2][1][1].get('ty') == 'bool' and not st[2][1][1].get('v'):
				drops.add(bi)
		gs = [Guard(cu, c) for c in comparisons(cu)]
		le = [g for g in gs if _shape(g, r'get_value_msat\(', over_rx, 0) and _shape(g, r'get_value_msat\(', over_rx, 0)[:2] in (('ok', 'Le'), ('ok', 'Gt'))]
		one = [g for g in gs if len(g.nf[0]) == 1 and list(g.nf[0].values()) == [1] and g.nf[1] in ('Eq', 'Ne') and g.nf[2] == 1]
		def dom(g, pol):
			pe = _pass_edges(g, pol)
			return bool(pe) and all(d not in cu.reach([0], removed_edges=pe) for d in drops)
		a = any(dom(g, _shape(g, r'get_value_msat\(', over_rx, 0)[1] == 'Le') for g in le)
		b2 = any(dom(g, g.nf[1] == 'Ne') for g in one)
		ok3 = bool(drops) and a and b2
		desc = '%d drop exit(s); behind `path value <= overpaid value`: %s; behind `paths_left != 1`: %s' % (len(drops), a, b2)
	out.append(Result('16.h', ok3, ('ok:' if ok3 else 'prune:') + 'superfluous-path-pruning', 'get_route: pruning of superfluous paths: %s' % desc, 3, where=None if ok3 else F.where(fu.name)))
	# (4) the remaining overpayment is taken off one path; identical paths are merged by adding their values
	uv = [expr_str(ex.of_operand(ci['args'][1])) for b, ci in fu.calls() if norm(ci.get('f') or '').endswith('PaymentPath::update_value_and_recompute_fees')]
	ok4 = any(_re.search(r'^\(get_value_msat\(.*\) Sub %s\)$' % over_rx[1:-1], x) for x in uv)
	ok5 = any(_re.search(r'^\(get_value_msat\(.*\) Add get_value_msat\(.*\)\)$', x) for x in uv)
	ok6 = any(_re.search(r'^min\(.*max_final_value_msat\(.*final_value_msat\)$|^min\(.*final_value_msat.*max_final_value_msat\(', x) for x in uv)
	out.append(Result('16.h', ok4, ('ok:' if ok4 else 'value:') + 'overpayment-removed', 'get_route: the overpaid remainder is removed from one path (new value = its value - overpaid_value_msat): %s' % ok4, 1, where=None if ok4 else F.where(fu.name)))
	out.append(Result('16.h', ok5, ('ok:' if ok5 else 'value:') + 'identical-paths-merged', 'get_route: identical paths are merged with the sum of their values: %s' % ok5, 1, where=None if ok5 else F.where(fu.name)))
	out.append(Result('16.h', ok6, ('ok:' if ok6 else 'value:') + 'path-value-capped', 'get_route: a new path carries min(what its bottleneck allows, the requested amount): %s' % ok6, 1, where=None if ok6 else F.where(fu.name)))
	return out

def r16i(F):
	"""what is handed out: RouteHop fields come from the chosen candidates; CLTV deltas are shifted one hop back"""
	fu = _gr(F)
	ex = Expr(fu)
	out = []
	sites = sites_construct(fu, 'RouteHop')
	if len(sites) != 1:
		return [Result('16.i', False, 'anchor:RouteHop', 'get_route: expected one construction of RouteHop, found %d' % len(sites))]
	bi, si = sites[0]
	rv = fu.blocks[bi]['s'][si][2]
	vals = {n: expr_str(ex.of_operand(o)) for n, o in zip(rv[5], rv[4])}
	want = {
		'short_channel_id': r'^unwrap\(short_channel_id\(.*candidate\)\)$',
		'fee_msat': r'\.fee_msat$',
		'cltv_expiry_delta': r'^cltv_expiry_delta\(.*candidate\)$',
		'channel_features': r'^features\(.*candidate\)$',
		'pubkey': r'target',
	}
	for f, rx in want.items():
		ok = f in vals and bool(_re.search(rx, vals[f]))
		out.append(Result('16.i', ok, ('ok:' if ok else 'source:') + 'RouteHop.' + f, 'RouteHop.%s = %s' % (f, vals.get(f, 'missing')[:160]), 1, where=None if ok else F.where(fu.name, fu.line_of(bi))))
	# the fold that shifts cltv deltas towards the payer starts from the final delta and replaces each hop's delta by the previous one
	folds = [(b, ci) for b, ci in fu.calls() if norm(ci.get('t') or ci.get('f') or '').endswith('Iterator::fold')]
	okf = False
	desc = 'no fold over the hops'
	for b, ci in folds:
		recv = expr_str(ex.of_operand(ci['args'][0]))
		init = expr_str(ex.of_operand(ci['args'][1]))
		cn = _closure_of_arg(fu, ex, ci['args'][2])
		if 'rev(' in recv and 'iter_mut' in recv and cn:
			cu = F.func(cn)
			cex = Expr(cu)
			rep = [expr_str(cex.of_operand(a)) for bb, cc in cu.calls() if norm(cc.get('f') or '').endswith('mem::replace') for a in cc['args']]
			acc_is_param = any(norm(cc.get('f') or '').endswith('mem::replace') and len(cc['args']) == 2 and cex.of_operand(cc['args'][1])[:2] == ('local', 2) for bb, cc in cu.calls())
			init_op = ci['args'][1]
			init_defs = []
			if init_op[0] in ('c', 'm') and len(init_op[1]) == 1:
				for l0 in [init_op[1][0]] + [d[3][1][1][0] for d in fu.defs.get(init_op[1][0], []) if d[1] != 'T' and d[3][0] == 'use' and d[3][1][0] in ('c', 'm') and len(d[3][1][1]) == 1]:
					for d in fu.defs.get(l0, []):
						if d[1] != 'T':
							init_defs.append(expr_str(ex.of_rvalue(d[3])))
			okf = any('final_cltv_expiry_delta' in x for x in init_defs) and len(rep) == 2 and rep[0].endswith('.cltv_expiry_delta') and acc_is_param
			desc = 'rev(iter_mut) fold from %s, replace(%s)' % (init, ', '.join(rep))
	out.append(Result('16.i', okf, ('ok:' if okf else 'source:') + 'cltv-shift', 'get_route: per-hop CLTV deltas are propagated one hop backwards starting from the final delta: %s' % desc, 1, where=None if okf else F.where(fu.name)))
	return out

def r16j(F):
	"""fee re-computation once a path's value is known: the fee a hop earns is computed on what that hop actually transfers - the value
	plus the later fees PLUS any top-up made to reach the hop's htlc_minimum_msat - and by the hop's own fee policy"""
	fn = R + 'PaymentPath::update_value_and_recompute_fees'
	fu = F.func(fn)
	ex = Expr(fu)
	out = []
	cf = [(b, ci) for b, ci in fu.calls() if norm(ci.get('f') or '').endswith('router::compute_fees')]
	if not cf:
		return [Result('16.j', False, 'anchor:compute_fees', 'update_value_and_recompute_fees no longer calls compute_fees', where=F.where(fn))]
	for b, ci in cf:
		a0 = ex.of_operand(ci['args'][0])
		a1 = expr_str(ex.of_operand(ci['args'][1]))
		raised = False
		desc = expr_str(a0)
		if a0[0] == 'local':
			for d in fu.defs.get(a0[1], []):
				if d[1] == 'T':
					continue
				txt = expr_str(ex.of_rvalue(d[3]))
				if 'htlc_minimum_msat(' in txt and 'checked_sub' in txt:
					raised = True
		ok = raised and bool(_re.search(r'^fees\(.*candidate\)$', a1))
		out.append(Result('16.j', ok, ('ok:' if ok else 'amount:') + 'hop-fee-on-transferred-amount', 'update_value_and_recompute_fees: compute_fees(%s, %s): the amount %s the running amount that was raised to the hop\'s htlc_minimum_msat; fee policy of the hop itself: %s' % (desc[:60], a1[:50], 'is' if raised else 'is NOT', bool(_re.search(r'^fees\(.*candidate\)$', a1))), 1, where=None if ok else F.where(fn, fu.line_of(b))))
	return out

def r16k(F):
	"""the router sizes its per-node table from ReadOnlyNetworkGraph::max_node_counter and hands counters above it to nodes outside the
	graph: it must bound every counter ever handed out and still live (next_node_counter - 1), not the number of nodes (a freed counter
	sits unused until re-assigned, so live nodes can hold counters >= nodes.len())"""
	out = []
	n = 0
	for fname in [x for x in F.fns if x.startswith(G + 'NetworkGraph::')]:
		try:
			fu = F.func(fname)
		except AnchorMissing:
			continue
		for bi, si in sites_construct(fu, 'ReadOnlyNetworkGraph'):
			rv = fu.blocks[bi]['s'][si][2]
			ex = Expr(fu)
			vals = {nm: expr_str(ex.of_operand(o)) for nm, o in zip(rv[5], rv[4])}
			v = vals.get('max_node_counter', '')
			n += 1
			ok = 'next_node_counter' in v and bool(_re.search(r'saturating_sub\(.*, 1\)$| Sub 1\)$', v))
			out.append(Result('16.k', ok, ('ok:' if ok else 'bound:') + 'max-node-counter', '%s: ReadOnlyNetworkGraph.max_node_counter = %s (expected next_node_counter - 1)' % (fname.rsplit('::', 1)[-1], v[:120]), 1, where=None if ok else F.where(fname, fu.line_of(bi))))
	if n == 0:
		out.append(Result('16.k', False, 'anchor:ReadOnlyNetworkGraph', 'no construction of ReadOnlyNetworkGraph found in NetworkGraph'))
	return out

def r16l(F):
	"""(i) the smallest amount an MPP part may carry is the requested amount divided by max_path_count ROUNDED UP (rounded down, max_path_count
	parts of exactly that size fall short and one more path than allowed is needed); (ii) a blinded path whose introduction node is given as
	(direction, scid) over one of our own unannounced channels starts at the end of that channel the direction names - us or the
	counterparty - not always at the counterparty (the tail would be attached to a node that is not its introduction node)"""
	out = []
	fu = _gr(F)
	ex = Expr(fu)
	dc = [expr_str(ex.of_operand(a)) for b, ci in fu.calls() if norm(ci.get('f') or '').endswith('::div_ceil') for a in ci['args'][:2]]
	ok = any('final_value_msat' in dc[i] and 'max_path_count' in dc[i + 1] for i in range(0, len(dc) - 1, 2))
	out.append(Result('16.l', ok, ('ok:' if ok else 'rounding:') + 'minimal-contribution-rounded-up', 'get_route: the minimal per-path contribution is final_value_msat.div_ceil(max_path_count): %s' % (ok or dc[:4]), 1, where=None if ok else F.where(fu.name)))
	out += P1_who_may_call(F, '16.l', ['lightning::blinded_path::Direction::select_node_id'], [R + 'calculate_blinded_path_intro_points'], floor=1)
	return out

RULES = [
	('16.a', 'every relaxation step of the path search is dominated by the admission tests (length, CLTV, contribution, htlc_minimum, fee limit)', r16a),
	('16.c', 'graph channels become candidates only when enabled, without unknown required features, and not our own when first hops are given', r16c),
	('16.d', 'the Ok exit of get_route is behind input validation, the collected-value test and the total-fee limit', r16d),
	('16.e', 'candidate accessors (fees, htlc_minimum, CLTV delta, capacity, SCID, endpoints) read the right source per candidate kind', r16e),
	('16.f', 'directed channel views pair the right channel_update with source / target', r16f),
	('16.g', 'fee arithmetic (base + amount * ppm / 1e6) and the per-kind capacity limit have the expected shape', r16g),
	('16.h', 'capacity shared between paths is counted jointly; superfluous paths and overpayment are removed', r16h),
	('16.i', 'the RouteHops handed out take SCID, fee, CLTV delta and features from the chosen candidates', r16i),
	('16.j', 'recomputed hop fees are taken on the amount the hop transfers, htlc_minimum top-up included', r16j),
	('16.k', 'the node-counter bound handed to the router covers every live counter (next_node_counter - 1)', r16k),
	('16.l', 'minimal MPP contribution rounded up; compact blinded introduction nodes resolved with their direction', r16l),
	('16.b', 'every relaxation step is behind the previously-failed, remaining-capacity, self-channel and path-htlc-minimum tests', r16b),
	('16.p', 'same-name field transfer: structs carrying this property\'s quantities are filled from the same-named field or a reviewed alias (rules/provenance.py)', lambda F: provenance.for_property(F, 'C16', '16.p')),
	('16.q', 'no call hands a value named like one parameter of the callee to a different parameter (swapped type-compatible arguments; rules/provenance.py)', lambda F: provenance.swaps_for_property(F, 'C16', '16.q')),
	('16.z', 'named protocol / policy constants in this property\'s files have their reviewed values (rules/provenance.py)', lambda F: provenance.consts_for_property(F, 'C16', '16.z')),
	('16.v', 'field-versus-field comparisons (a received value against a limit, an id against an id) are the reviewed ones: same fields, same operator (rules/provenance.py)', lambda F: provenance.cmps_for_property(F, 'C16', '16.v')),
	('16.s', 'no reviewed function gained a short-circuiting iterator adaptor (find / find_map / take / position ...: an every-element walk that stops at the first match; rules/provenance.py)', lambda F: provenance.sc_for_property(F, 'C16', '16.s')),
	('16.o', 'hand-written eq / cmp / partial_cmp / hash impls in this property\'s files: same field on both sides, reviewed direction, no reviewed key lost, hash within eq (rules/ordimpls.py)', lambda F: ordimpls.for_property(F, 'C16', '16.o')),
]
RULES.append(('16.t', 'identity comparisons: every reviewed (function, identity type) == / != comparison (HTLCSource, Txid, OutPoint, ChannelId, PaymentHash, PublicKey, ...) is still made - a function does not silently change what it matches by (rules/provenance.py)', lambda F: provenance.ids_for_property(F, 'C16', '16.t')))
RULES.append(('16.R', 'state resets: every reviewed constant write to persistent state (flag = true / false, counter = 0, pending slot = None) of a function is still made (rules/provenance.py)', lambda F: provenance.flags_for_property(F, 'C16', '16.R')))
RULES.append(('16.M', 'collection mutations: every reviewed (function, stored collection, mutator class: add / remove / filter / empty / swap / order) triple is still present - an entry that is no longer removed, inserted or drained on one path (rules/mutations.py)', lambda F: mutations.for_property(F, 'C16', '16.M')))
RULES.append(('16.A', 'enum accessors agree across sibling variants: an accessor that returns the payload field `x` for one variant returns it for every variant whose payload carries a field of that name and type (a variant moved to the `=> None` arm) - rules/accessors.py', lambda F: accessors.for_property(F, 'C16', '16.A')))
RULES.append(('16.G', 'guard census: no reviewed call of a workspace function and no reviewed mutation of a stored collection gained a controlling branch condition (an added `&& cond`, early return / continue, more specific match arm in front of an act); counts per call site, name free (rules/guards.py)', lambda F: guards.for_property(F, 'C16', '16.G')))
RULES.append(('16.W', 'field assignments: every reviewed (function, Type.field) direct assignment is still made - state that a path no longer updates, or updates only conditionally (get_or_insert for an overwrite); generalises NN.R (rules/writes.py)', lambda F: writes.for_property(F, 'C16', '16.W')))

def r16m(F):
	"""PaymentPath::max_final_value_msat: when the aggregated fees of the hops AFTER hop idx overflow, the hop reported for discarding is the first of
	those hops - the index returned by the map_err closure is the same linear expression (idx + 1) as the number of hops skipped before
	aggregating.  Reporting idx itself marks the payer's own first-hop channel (overflow is always detected at idx = 0) as exhausted: no later
	iteration can leave the payer over it, and get_route fails although a valid path exists"""
	fn = R + 'PaymentPath::max_final_value_msat'
	try:
		fu = F.func(fn)
	except AnchorMissing as e:
		return [Result('16.m', False, 'anchor:max_final_value_msat', str(e))]
	ex = Expr(fu)
	skips = []
	for b, ci in fu.calls():
		f = norm(ci.get('t') or ci.get('f') or '')
		if f.endswith('Iterator::skip') and len(ci['args']) == 2:
			skips.append(linear(ex.of_operand(ci['args'][1])))
	rets = []
	for cn in F.closures_of(F.fn(fn)):
		cu = F.func(cn)
		if (cu.locals[0].get('ty') or '') != 'usize':
			continue
		exc = Expr(cu)
		for d in cu.defs.get(0, []):
			if d[1] != 'T':
				rets.append((cn, linear(exc.of_rvalue(d[3]))))
	if len(skips) != 1 or len(rets) != 1:
		return [Result('16.m', False, 'anchor:skip-or-error-index', 'max_final_value_msat: expected one skip(..) and one usize-returning error closure, found %d / %d' % (len(skips), len(rets)), where=F.where(fn))]
	(ts, ks), (cn, (tr, kr)) = skips[0], rets[0]
	# one variable with coefficient 1 on both sides (the loop index: a captured upvar in the closure, the expanded enumerate() element outside) and
	# the same constant offset
	ok = ks == kr and sorted(ts.values()) == sorted(tr.values()) == [1]
	return [Result('16.m', ok, ('ok:' if ok else 'shape:') + 'overflow-blames-first-aggregated-hop', 'max_final_value_msat: the hop reported when the downstream fees overflow (%s%+d) is the first hop whose fees were aggregated (skip %s%+d)' % (list(tr)[0] if tr else '', kr, list(ts)[0] if ts else '', ks) if ok else 'max_final_value_msat: fees are aggregated over the hops after skipping %s%+d, but on overflow hop %s%+d is reported for discarding: the hop that is marked exhausted is not one of the hops whose fees overflowed (at idx = 0 it is the payer\'s own first hop)' % (list(ts)[0] if ts else '?', ks, list(tr)[0] if tr else '?', kr), 2, where=F.where(cn))]

RULES.append(('16.m', 'max_final_value_msat: the hop reported on fee-aggregation overflow is the first hop whose fees were aggregated (error index == skip count, linear normal forms)', r16m))
RULES.append(('16.N', 'arithmetic census: per reviewed function the set of operation kinds (group: add/sub, mul, div, rem, shift, bit, min, max, div_ceil ...; flavour: plain / checked / saturating / wrapping) keeps its kinds: no reviewed function lost or gained a kind of arithmetic altogether - a rounding direction (`/` for div_ceil), saturating for checked, min for max (rules/arith.py; counts and value arithmetic itself are not judged)', lambda F: arith.for_property(F, 'C16', '16.N')))

def r16n(F):
	"""BOLT 7 direction convention in one place for all callers: Direction::select_node_id answers the lesser node id for NodeOne and the greater
	one for NodeTwo (as select_pubkey and the compact-path producers do) - swapped, a compact blinded-path introduction node given by a directed
	SCID over one of the payer's own unannounced channels resolves to the wrong end of that channel (oracle: the specification)"""
	fn = 'lightning::blinded_path::Direction::select_node_id'
	try:
		tab = variant_return_table(F, fn, 'lightning::blinded_path::Direction')
	except AnchorMissing as e:
		return [Result('16.n', False, 'anchor:select_node_id', str(e))]
	out = []
	for v, want in (('NodeOne', 'min'), ('NodeTwo', 'max')):
		vals = tab.get(v, [])
		got = sorted({(x[1] or '').rsplit('::', 1)[-1] for x in vals if x[0] == 'call'})
		ok = got == [want]
		out.append(Result('16.n', ok, ('ok:' if ok else 'swapped:') + 'direction:' + v, 'Direction::%s selects %s of the two node ids (expected %s)' % (v, got or [expr_str(x)[:40] for x in vals], want), 1, where=F.where(fn)))
	return out

RULES.append(('16.n', 'Direction::select_node_id: NodeOne is the lesser, NodeTwo the greater node id (BOLT 7 convention; variant-return table)', r16n))
RULES.append(('16.K', 'constant census of linear forms: every comparison (normalised to sum >= K over name-free atoms, a comparison and its negation being one form) and every maximal arithmetic expression of a reviewed function keeps its coefficients and its constant - a dropped or added `+ 1` / `- 1`, `<` for `<=` inside a computed bound, a scale factor applied twice or not at all, swapped operands of a comparison (rules/linforms.py; shapes that appear or disappear are not judged, the guard / arithmetic censuses judge those)', lambda F: linforms.for_property(F, 'C16', '16.K')))
