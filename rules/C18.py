"""C18 - payment requests cannot be forged or altered (structural part: "parse => signature verified", metadata verification, TLV ranges)."""
from engine import *
import linforms
import ordimpls
import re
import provenance
import guards
import arith
import writes
import accessors
import tlv, os

OF = 'lightning::offers::'
INV = 'lightning_invoice::'

EXPLANATION = ('Census and guard rules over lightning::offers and lightning-invoice: the signed BOLT-12 objects (Bolt12Invoice, InvoiceRequest, StaticInvoice, PayerProof) are constructed '
	'only in their parsers behind merkle::verify_signature Ok - with the signature taken from the stream, the tagged hash computed over the received bytes and the key taken from the '
	'parsed contents - or in Unsigned*::sign behind merkle::sign_message Ok (which verifies what the signer returned); verify_signature returns the verify_schnorr verdict itself; '
	'signature TLVs (240..=1000) are excluded from the signed merkle tree by the range test; Bolt11Invoice is constructed only in from_signed / the builder, from_signed returns Ok only '
	'behind check_field_counts, check_feature_bits, check_signature and check_amount, check_signature verifies against the included payee key when present (recovery otherwise), and a parsed '
	'SignedRawBolt11Invoice carries the hash computed from the parsed HRP + data; stateless metadata verification returns Ok only on the constant-time comparison\'s true edge, and '
	'the verify_using_* entry points reach it; TLV type numbers lie in their stream\'s declared range and the ranges are disjoint. Also: BOLT-11 expiry and timestamp can only hold whole seconds (single constructor, Duration::from_secs). Decides "parse implies verified" on all paths; '
	'round-trip equality and panic freedom of the parsers are not decided.')
ASSUMPTIONS = ['secp256k1 verify_schnorr / verify_ecdsa / recover_ecdsa and bech32 checksum validation are correct', 'fixed_time_eq compares its two arguments']

def _ctor_guard(F, out, rule, fn, adt, check_callee, key):
	fu = F.func(fn)
	acts = {b for b, s in sites_construct(fu, adt, adt)}
	if not acts:
		out.append(Result(rule, False, 'anchor:construct:' + key, '%s no longer constructs %s' % (fn, adt), where=F.where(fn)))
		return None, set()
	out.extend(guarded_by_call(F, rule, fn, acts, [check_callee], 'result', True, what='%s Ok @%s' % (check_callee.rsplit('::', 1)[-1], key)))
	return fu, acts

def r18a(F):
	out = []
	parsers = {
		'Bolt12Invoice': ('<lightning::offers::invoice::Bolt12Invoice as core::convert::TryFrom>::try_from', OF + 'invoice::UnsignedBolt12Invoice::sign', OF + 'invoice::Bolt12Invoice'),
		'InvoiceRequest': ('<lightning::offers::invoice_request::InvoiceRequest as core::convert::TryFrom>::try_from', OF + 'invoice_request::UnsignedInvoiceRequest::sign', OF + 'invoice_request::InvoiceRequest'),
		'StaticInvoice': ('<lightning::offers::static_invoice::StaticInvoice as core::convert::TryFrom>::try_from', OF + 'static_invoice::UnsignedStaticInvoice::sign', OF + 'static_invoice::StaticInvoice'),
	}
	for name, (parser, signer, adt) in parsers.items():
		# there may be two TryFrom impls (Vec<u8> and ParsedMessage): resolve every one that constructs the type
		cands = [k for k in F.fns if norm(k) == parser or (k.startswith('<' + adt + ' as core::convert::TryFrom') and k.endswith('::try_from'))]
		ctor_fns = sorted({root_fn(fn) for (a, v), lst in F.constructs.items() if a == adt for fn, line in lst})
		allowed = set(cands) | {F.fn(signer), '<%s as core::clone::Clone>::clone' % adt}
		bad = [c for c in ctor_fns if c not in allowed]
		out.append(Result('18.a', not bad and len(ctor_fns) >= 2, ('ok:' if not bad and len(ctor_fns) >= 2 else 'constructor:') + name, '%s is constructed only in %s%s' % (name, [c.rsplit('::', 2)[-2] + '::' + c.rsplit('::', 1)[-1] for c in ctor_fns], '' if not bad else ' - NOT allowed: %s (a signed object may only come out of its verifying parser or the signing path)' % bad), len(ctor_fns), where=F.where(bad[0]) if bad else None))
		for c in ctor_fns:
			if c.endswith('::clone'):
				continue
			# several impls may normalise to the same name (TryFrom<Vec<u8>> / TryFrom<ParsedMessage<..>>): take those that construct the type
			bodies = [f for f in F.funcs(c) if sites_construct(f, name, name)]
			if not bodies:
				out.append(Result('18.a', False, 'anchor:ctor-body:' + name, 'no body of %s constructs %s' % (c, name), where=F.where(c)))
				continue
			fu = bodies[0]
			acts = {b for b, s in sites_construct(fu, name, name)}
			if c == F.fn(signer):
				out += guarded_by_call(F, '18.a', c, acts, [OF + 'merkle::sign_message'], 'result', True, what='sign_message Ok @' + name)
				continue
			vb0 = sites_call(fu, [OF + 'merkle::verify_signature'])
			if not vb0:
				out.append(Result('18.a', False, 'guard:verify_signature@' + name, 'the %s parser constructs the object without calling merkle::verify_signature' % name, len(acts), where=F.where(c)))
				continue
			ds0 = call_decisions(fu, vb0, 'result')
			out += P4_guarded(F, '18.a', fu, acts, ds0, True, 'verify_signature Ok @' + name)
			out += P4_fail_blocks(F, '18.a', fu, acts, ds0, True, 'verify_signature Ok @' + name, key='fail:verify_signature@' + name)
			# what is verified: (signature from the stream, tagged hash over the received bytes, key from the parsed contents)
			ex = Expr(fu)
			for b in sites_call(fu, [OF + 'merkle::verify_signature']):
				ci = fu.blocks[b]['t'][2]
				e_sig, e_msg, e_key = [ex.of_operand(a) for a in ci['args'][:3]]
				lm = expr_leaves(e_msg)
				ok_msg = any(c2.endswith('TaggedHash::from_valid_tlv_stream_bytes') for c2 in lm['calls']) and 'bytes' in lm['fields'] | lm['locals'] | {f for f in lm['fields']}
				ok_msg = any(c2.endswith('TaggedHash::from_valid_tlv_stream_bytes') for c2 in lm['calls'])
				lk = expr_leaves(e_key)
				ok_key = bool({'signing_pubkey', 'payer_signing_pubkey'} & lk['fields']) or any(c2.endswith('::fields') or c2.endswith('signing_pubkey') for c2 in lk['calls'])
				ls = expr_leaves(e_sig)
				ok_sig = 'signature' in ls['fields'] or any('signature' in (x or '') for x in ls['locals']) or any(c2.endswith('Option::ok_or') for c2 in ls['calls'])
				# the bytes hashed are exactly the bytes the object keeps (and later re-serializes / hands to the metadata check)
				def _find_call(e, suffix):
					if e[0] == 'call':
						if (e[1] or '').endswith(suffix):
							return e
						for a in e[2]:
							r = _find_call(a, suffix)
							if r:
								return r
					elif e[0] in ('ref', 'deref', 'field', 'downcast', 'cast', 'index'):
						return _find_call(e[1], suffix)
					return None
				th = _find_call(e_msg, 'TaggedHash::from_valid_tlv_stream_bytes')
				hashed = None
				if th is not None and len(th[2]) >= 2:
					h = th[2][1]
					while h[0] in ('ref', 'deref') or (h[0] == 'call' and h[2] and (h[1] or '').rsplit('::', 1)[-1] in ('deref', 'as_ref', 'as_slice', 'borrow')):
						h = h[1] if h[0] != 'call' else h[2][0]
					hashed = leaf_key(h) if h[0] not in ('index',) else 'SLICE:' + leaf_key(h)
				stored = None
				for cb, csi in sites_construct(fu, name, name):
					agg = ex.of_rvalue(fu.blocks[cb]['s'][csi][2])
					if agg[4] and 'bytes' in agg[4]:
						stored = leaf_key(agg[3][agg[4].index('bytes')])
				ok_same = hashed is not None and stored is not None and hashed == stored
				out.append(Result('18.a', ok_same, ('ok:' if ok_same else 'shape:') + 'hash-over-stored-bytes@' + name, '%s: the tagged hash is computed over `%s`, the object stores `%s` (must be the same, whole byte string)' % (name, hashed, stored), 1, where=F.where(c, fu.line_of(b))))
				ok = ok_msg and ok_key and ok_sig
				out.append(Result('18.a', ok, ('ok:' if ok else 'shape:') + 'verify-args@' + name, '%s parser verifies (signature from the stream: %s, tagged hash over the received bytes: %s, key from the parsed contents: %s)' % (name, ok_sig, ok_msg, ok_key), 1, where=F.where(c, fu.line_of(b))))
				# the signature stored in the object is the one verified
			# the bytes hashed are the bytes stored
	# PayerProof
	pp = [k for k in F.fns if k.startswith('<lightning::offers::payer_proof::PayerProof as core::convert::TryFrom') and k.endswith('::try_from')]
	for c in pp:
		fu = F.func(c)
		acts = {b for b, s in sites_construct(fu, 'PayerProof', 'PayerProof')}
		if acts:
			vb = sites_call(fu, [OF + 'merkle::verify_signature'])
			ok = len(vb) >= 2
			out.append(Result('18.a', ok, ('ok:' if ok else 'guard:') + 'payer-proof-two-signatures', 'PayerProof parser verifies both the issuer and the payer signature (%d verify_signature calls)' % len(vb), len(vb), where=F.where(c)))
			for b in vb:
				ds = call_decisions(fu, [b], 'result')
				out += P4_guarded(F, '18.a', fu, acts, ds, True, 'verify_signature Ok', key='payer-proof-sig@%d' % vb.index(b))
	# merkle::verify_signature returns the schnorr verdict itself; sign_message verifies what the signer produced
	vs = F.func(OF + 'merkle::verify_signature')
	ra = ret_assignments(vs)
	ok = len(ra) == 1 and ra[0][2][0] == 'call' and (ra[0][2][1] or '').endswith('verify_schnorr')
	out.append(Result('18.a', ok, ('ok:' if ok else 'shape:') + 'verify_signature-returns-verdict', 'merkle::verify_signature returns the result of Secp256k1::verify_schnorr unchanged (%s)' % [r[2] for r in ra], len(ra), where=F.where(vs.name)))
	ex = Expr(vs)
	for b in sites_call(vs, ['verify_schnorr']):
		args = [ex.of_operand(a) for a in vs.blocks[b]['t'][2]['args']]
		ks = [leaf_key(a) for a in args]
		okp = any('as_digest' in k for k in ks) and sum(1 for a in args if _root_param(vs, a)) >= 1
		out.append(Result('18.a', okp, ('ok:' if okp else 'shape:') + 'verify_schnorr-args', 'verify_schnorr(signature, message.as_digest(), pubkey): %s' % ks[:4], 1, where=F.where(vs.name, vs.line_of(b))))
	sm = F.func(OF + 'merkle::sign_message')
	out += guarded_by_call(F, '18.a', sm.name, set(ok_return_blocks(sm)), ['verify_schnorr'], 'result', True, what='verify_schnorr Ok @sign_message')
	out += P1_who_may_call(F, '18.a', [OF + 'merkle::verify_signature'], [p for p in F.fns if p.endswith('::try_from') and ('offers::' in p)], floor=4)
	return out

def _root_param(fu, e):
	while e[0] in ('ref', 'deref', 'cast') or (e[0] == 'call' and e[2] and (e[1] or '').rsplit('::', 1)[-1] in ('into', 'clone', 'from')):
		e = e[1] if e[0] != 'call' else e[2][0]
	return e[0] == 'local' and 1 <= e[1] <= fu.argc

def r18b(F):
	out = []
	fs = INV + 'Bolt11Invoice::from_signed'
	fu = F.func(fs)
	oks = set(ok_return_blocks(fu))
	for chk in ('check_field_counts', 'check_feature_bits', 'check_signature', 'check_amount'):
		out += guarded_by_call(F, '18.b', fs, oks, [INV + 'Bolt11Invoice::' + chk], 'result', True)
	out += P2_construct_census(F, '18.b', INV + 'Bolt11Invoice', 'Bolt11Invoice', [fs, INV + 'InvoiceBuilder::try_build_signed'], floor=2, note='a Bolt11Invoice may only come out of from_signed (all checks) or the builder (which signs itself)')
	# the builder signs through RawBolt11Invoice::sign and re-runs the semantic checks
	tb = F.func(INV + 'InvoiceBuilder::try_build_signed')
	acts = {b for b, s in sites_construct(tb, 'Bolt11Invoice', 'Bolt11Invoice')}
	out += P5_must_pass(F, '18.b', tb, [0], acts, set(sites_call(tb, [INV + 'RawBolt11Invoice::sign'])), 'RawBolt11Invoice::sign before the Bolt11Invoice is built')
	# Bolt11Invoice::check_signature obeys SignedRawBolt11Invoice::check_signature
	cs = INV + 'Bolt11Invoice::check_signature'
	cfu = F.func(cs)
	out += guarded_by_call(F, '18.b', cs, set(ok_return_blocks(cfu)), [INV + 'SignedRawBolt11Invoice::check_signature'], 'bool', True)
	# SignedRawBolt11Invoice::check_signature: with an included payee key -> verify_ecdsa against it; otherwise recovery must succeed
	sc = F.func(INV + 'SignedRawBolt11Invoice::check_signature')
	ex = Expr(sc)
	ve = sites_call(sc, ['verify_ecdsa'])
	rc = sites_call(sc, [INV + 'SignedRawBolt11Invoice::recover_payee_pub_key'])
	pk = sites_call(sc, [INV + 'RawBolt11Invoice::payee_pub_key'])
	if not (ve and rc and pk):
		out.append(Result('18.b', False, 'anchor:check_signature', 'SignedRawBolt11Invoice::check_signature: verify_ecdsa / recover_payee_pub_key / payee_pub_key not all present (%d/%d/%d)' % (len(ve), len(rc), len(pk)), where=F.where(sc.name)))
	else:
		ds = call_decisions(sc, pk, 'option')
		okb = False
		for d in ds:
			some = sc.reach([e[1] for e in d.true_edges], removed_blocks={d.b})
			none = sc.reach([e[1] for e in d.false_edges], removed_blocks={d.b})
			okb = (set(ve) <= some) and not (set(ve) & none) and (set(rc) <= none) and not (set(rc) & some)
		out.append(Result('18.b', okb, ('ok:' if okb else 'shape:') + 'payee-key-arm', 'with an included payee key (n field) the signature is verified against that key; key recovery is used only when none is included', len(ve) + len(rc), where=F.where(sc.name)))
		for b in ve:
			args = [ex.of_operand(a) for a in sc.blocks[b]['t'][2]['args']]
			ks = ' '.join(leaf_key(a) for a in args)
			okk = 'payee_pub_key' in ks and 'hash' in ks and 'signature' in ks
			out.append(Result('18.b', okk, ('ok:' if okk else 'shape:') + 'verify_ecdsa-args', 'verify_ecdsa(Message(self.hash), self.signature, included payee key): %s' % ks[:160], 1, where=F.where(sc.name, sc.line_of(b))))
		# the returned bool is the verdict: is_ok of verify / recover
		rows = ret_assignments(sc)
		vals = []
		for bi, si, c in rows:
			if c[0] == 'call':
				vals.append(c[1] or '')
			elif c[0] == 'copy':
				vals.append(leaf_key(ex.of_operand(c[1])))
			else:
				vals.append(str(c))
		okv = len(vals) >= 2 and all(v.endswith('Result::is_ok') or 'is_ok(' in v for v in vals)
		out.append(Result('18.b', okv, ('ok:' if okv else 'shape:') + 'verdict-returned', 'check_signature returns is_ok() of the verification / recovery in both arms (%s)' % [v[-40:] for v in vals], len(vals), where=F.where(sc.name)))
	# the parser: checksum first, and the stored hash is computed from the parsed parts
	ps = [k for k in F.fns if 'FromStr for lightning_invoice::SignedRawBolt11Invoice>' in k and k.endswith('::from_str')]
	if len(ps) != 1:
		out.append(Result('18.b', False, 'anchor:from_str', 'FromStr for SignedRawBolt11Invoice not found (%s)' % ps))
	else:
		pf = F.func(ps[0])
		acts = {b for b, s in sites_construct(pf, 'SignedRawBolt11Invoice', 'SignedRawBolt11Invoice')}
		out += guarded_by_call(F, '18.b', ps[0], acts, ['CheckedHrpstring::new'], 'result', True, what='bech32 checksum valid')
		exp = Expr(pf)
		okh = False
		for b, si in sites_construct(pf, 'SignedRawBolt11Invoice', 'SignedRawBolt11Invoice'):
			e = exp.of_rvalue(pf.blocks[b]['s'][si][2])
			names = e[4] or []
			if 'hash' in names:
				h = e[3][names.index('hash')]
				okh = any(c.endswith('RawBolt11Invoice::signable_hash') or c.endswith('hash_from_parts') for c in expr_leaves(h)['calls'])
		out.append(Result('18.b', okh, ('ok:' if okh else 'shape:') + 'hash-from-parsed-parts', 'the parsed SignedRawBolt11Invoice stores the hash computed from the parsed HRP and data part (what the signature is later checked against)', 1, where=F.where(ps[0])))
	out += P2_construct_census(F, '18.b', INV + 'SignedRawBolt11Invoice', 'SignedRawBolt11Invoice', ps + [INV + 'RawBolt11Invoice::sign'], floor=2)
	# sign(): hash stored = hash signed
	sg = F.func(INV + 'RawBolt11Invoice::sign')
	exs = Expr(sg)
	okh = False
	for b, si in sites_construct(sg, 'SignedRawBolt11Invoice', 'SignedRawBolt11Invoice'):
		e = exs.of_rvalue(sg.blocks[b]['s'][si][2])
		names = e[4] or []
		if 'hash' in names:
			okh = any(c.endswith('signable_hash') for c in expr_leaves(e[3][names.index('hash')])['calls'])
	out.append(Result('18.b', okh, ('ok:' if okh else 'shape:') + 'sign-stores-signed-hash', 'RawBolt11Invoice::sign stores the signable_hash() it handed to the signer', 1, where=F.where(sg.name)))
	# semantic checks themselves: exactly one payment hash / description / secret; amount precision; features
	fc = F.func(INV + 'Bolt11Invoice::check_field_counts')
	gs = [Guard(fc, c) for c in comparisons(fc)]
	lt = [g for g in gs if g.nf[1] in ('Lt', 'Le', 'Gt', 'Ge') and not g.nf[0] is None]
	n_lo = len([g for g in gs if (g.op, linear(g.b)[1]) == ('Lt', 1)])
	n_hi = len([g for g in gs if (g.op, linear(g.b)[1]) == ('Gt', 1)])
	ok = n_lo >= 2 and n_hi >= 2
	out.append(Result('18.b', ok, ('ok:' if ok else 'shape:') + 'exactly-one-counts', 'check_field_counts rejects count < 1 (%d) and count > 1 (%d) for payment hash and description' % (n_lo, n_hi), len(gs), where=F.where(fc.name)))
	out += guarded_by_call(F, '18.b', fc.name, set(ok_return_blocks(fc)), [INV + 'Bolt11Invoice::check_payment_secret'], 'result', True)
	return out

def r18c(F):
	out = []
	vm = F.func(OF + 'signer::verify_metadata')
	oks = set(ok_return_blocks(vm))
	fe = sites_call(vm, ['fixed_time_eq'])
	if len(fe) != 2:
		out.append(Result('18.c', False, 'anchor:fixed_time_eq', 'verify_metadata: expected two constant-time comparisons (derived key, hmac), found %d' % len(fe), len(fe), where=F.where(vm.name)))
	else:
		ds = call_decisions(vm, fe, 'bool')
		out += P4_guarded(F, '18.c', vm, oks, ds, True, 'constant-time comparison true', key='metadata-eq')
		for b in fe:
			d1 = call_decisions(vm, [b], 'bool')
			out += P4_fail_blocks(F, '18.c', vm, oks, d1, True, 'constant-time comparison true', key='metadata-eq-fail@%d' % fe.index(b))
		ex = Expr(vm)
		kinds = set()
		for b in fe:
			ks = ' '.join(leaf_key(ex.of_operand(a)) for a in vm.blocks[b]['t'][2]['args'])
			if 'signing_pubkey' in ks and ('from_secret_key' in ks or 'public_key' in ks):
				kinds.add('derived-key')
			if 'metadata' in ks and ('to_byte_array' in ks or 'hmac' in ks):
				kinds.add('hmac')
		ok = kinds == {'derived-key', 'hmac'}
		# the key comparison is over the full (33-byte, parity included) encodings of both keys
		for b in fe:
			es = [ex.of_operand(a) for a in vm.blocks[b]['t'][2]['args']]
			ks = ' '.join(leaf_key(e) for e in es)
			if 'signing_pubkey' in ks and ('from_secret_key' in ks or 'public_key' in ks):
				def outer_call(e):
					while e[0] in ('ref', 'deref', 'cast', 'index'):
						e = e[1]
					return e[1] if e[0] == 'call' else None
				oc = [outer_call(e) for e in es]
				full = all(c is not None and c.endswith('secp256k1::key::PublicKey::serialize') for c in oc) and not any('x_only' in leaf_key(e) for e in es)
				out.append(Result('18.c', full, ('ok:' if full else 'shape:') + 'full-key-compared', 'the signing key and the derived key are compared by their full PublicKey::serialize() encodings (%s)%s' % ([str(c).rsplit('::', 2)[-2:] for c in oc], '' if full else ' - an x-only / truncated comparison accepts the negated key, which the excluded issuer_id TLV does not otherwise bind'), 1, where=F.where(vm.name, vm.line_of(b))))
		out.append(Result('18.c', ok, ('ok:' if ok else 'shape:') + 'compared-values', 'verify_metadata compares the signing key with the key derived from the HMAC, resp. the metadata tail with the HMAC (%s)' % sorted(kinds), 2, where=F.where(vm.name)))
	# the hmac branch also requires the exact length
	gs = [Guard(vm, c) for c in comparisons(vm)]
	nl = F.const(OF + 'nonce::Nonce::LENGTH') if any(k.endswith('nonce::Nonce::LENGTH') for k in F.consts) else 16
	lens = [g for g in gs if g.op == 'Eq' and any('len(' in v for v in g.nf[0])]
	short = [g for g in lens if len(g.nf[0]) == 1 and abs(g.nf[2]) == nl]
	full = [g for g in lens if len(g.nf[0]) == 2 and abs(g.nf[2]) == nl and any('LEN' in v for v in g.nf[0])]
	ok = len(short) == 1 and len(full) == 1
	out.append(Result('18.c', ok, ('ok:' if ok else 'shape:') + 'metadata-lengths', 'verify_metadata distinguishes metadata of exactly Nonce::LENGTH (=%d) bytes (key derivation) and exactly Nonce::LENGTH + Sha256::LEN bytes (nonce + HMAC): found %s' % (nl, [g.text() for g in lens]), len(lens), where=F.where(vm.name)))
	for g in full:
		# `ok = len == N && fixed_time_eq(..)`: on the failing edge of the length test the flag that is branched on before Ok(None)
		# is set to the constant false (short-circuit), and to nothing else
		okf = False
		for d in g.decisions:
			region = vm.reach([e[1] for e in d.false_edges], removed_blocks={b for b in range(len(vm.blocks)) if vm.blocks[b]['t'][1] == 'switch'})
			consts = []
			for b in region:
				for st in vm.blocks[b]['s']:
					if len(st[1]) == 1 and st[2][0] == 'use' and st[2][1][0] == 'k':
						consts.append((st[1][0], st[2][1][1].get('v')))
			sw = [b for b in vm.reach([e[1] for e in d.false_edges]) if vm.blocks[b]['t'][1] == 'switch']
			for l, v in consts:
				exv = Expr(vm)
				def _sw_local(b):
					e = exv.of_operand(vm.blocks[b]['t'][2])
					return e[1] if e[0] == 'local' else None
				if v == 0 and any(_sw_local(b) == l for b in sw):
					okf = True
		out.append(Result('18.c', okf, ('ok:' if okf else 'guard:') + 'hmac-length', 'a metadata of the wrong length makes the verification flag false before it is branched on (the HMAC arm cannot succeed on a truncated / extended metadata)', 1, where=F.where(vm.name, g.line)))
	# wrappers propagate
	for w, inner in ((OF + 'signer::verify_payer_metadata', OF + 'signer::verify_payer_metadata_inner'), (OF + 'signer::verify_payer_metadata_inner', OF + 'signer::verify_metadata'), (OF + 'signer::verify_recipient_metadata', OF + 'signer::verify_metadata')):
		wf = F.func(w)
		ib = sites_call(wf, [inner])
		if not ib:
			out.append(Result('18.c', False, 'anchor:%s' % w.rsplit('::', 1)[-1], '%s no longer calls %s' % (w, inner), where=F.where(w)))
			continue
		okr = set(ok_return_blocks(wf))
		tail = [b for b, s, c in ret_assignments(wf) if c[0] == 'call' and (c[1] or '') == F.fn(inner)]
		if okr:
			out += guarded_by_call(F, '18.c', w, okr, [inner], 'result', True)
		else:
			out.append(Result('18.c', bool(tail), ('ok:' if tail else 'shape:') + 'tail@' + w.rsplit('::', 1)[-1], '%s returns the verdict of %s' % (w.rsplit('::', 1)[-1], inner.rsplit('::', 1)[-1]), 1, where=F.where(w)))
		# the hmac is computed over the supplied TLV stream and metadata
		hb = sites_call(wf, [OF + 'signer::hmac_for_message'])
		if w.endswith('_inner') or w.endswith('recipient_metadata'):
			okh = bool(hb)
			if hb:
				exw = Expr(wf)
				args = [exw.of_operand(a) for a in wf.blocks[hb[0]]['t'][2]['args']]
				okh = sum(1 for a in args if _root_param(wf, a) or expr_leaves(a)['locals']) >= 3
			out.append(Result('18.c', okh, ('ok:' if okh else 'shape:') + 'hmac-input@' + w.rsplit('::', 1)[-1], '%s computes the HMAC from the supplied metadata, key material and TLV stream' % w.rsplit('::', 1)[-1], len(hb), where=F.where(w)))
	# hmac_for_message feeds every TLV record of the stream into the hmac
	hm = F.func(OF + 'signer::hmac_for_message')
	inp = set(hm.call_blocks(lambda p: p.endswith('HashEngine::input') or p.endswith('::input')))
	heads = loop_heads(hm)
	in_loop = [b for b in inp if any(b in hm.reach([h]) and h in hm.reach([b]) for h in heads)]
	out.append(Result('18.c', bool(in_loop), ('ok:' if in_loop else 'shape:') + 'hmac-covers-records', 'hmac_for_message inputs every record of the TLV stream (%d input call(s) inside the record loop)' % len(in_loop), len(inp), where=F.where(hm.name)))
	# entry points: the verify_using_* methods reach the signer verification and obey it
	for holder, callee in ((OF + 'invoice::InvoiceContents::verify', OF + 'signer::verify_payer_metadata'), (OF + 'offer::OfferContents::verify', OF + 'signer::verify_recipient_metadata')):
		hf = F.func(holder)
		cb = sites_call(hf, [callee])
		okr = set(ok_return_blocks(hf))
		tail = [b for b, s, c in ret_assignments(hf) if c[0] == 'call' and (c[1] or '') == F.fn(callee)]
		if okr:
			out += guarded_by_call(F, '18.c', holder, okr, [callee], 'result', True)
		else:
			out.append(Result('18.c', bool(tail) and bool(cb), ('ok:' if tail and cb else 'shape:') + 'tail@' + holder.rsplit('::', 2)[-2], '%s returns the verdict of %s' % (holder, callee.rsplit('::', 1)[-1]), 1, where=F.where(holder)))
	F.calls
	for pub, inner in (
			(OF + 'invoice::Bolt12Invoice::verify_using_metadata', OF + 'invoice::InvoiceContents::verify'),
			(OF + 'invoice_request::InvoiceRequest::verify_using_metadata', OF + 'offer::OfferContents::verify'),
			(OF + 'invoice_request::InvoiceRequest::verify_using_recipient_data', OF + 'offer::OfferContents::verify')):
		if not F.has_fn(pub):
			out.append(Result('18.c', False, 'anchor:' + pub.rsplit('::', 1)[-1], 'anchor missing: %s' % pub))
			continue
		# reachability within depth 3 through resolved calls
		reach = reachable_fns(F, [pub], depth=4)
		ok = F.fn(inner) in reach
		out.append(Result('18.c', ok, ('ok:' if ok else 'bypass:') + 'entry@' + pub.rsplit('::', 2)[-2] + '::' + pub.rsplit('::', 1)[-1], '%s reaches %s' % (pub.rsplit('::', 1)[-1], inner.rsplit('::', 2)[-2] + '::verify'), 1, where=F.where(pub)))
	return out

RANGES = {
	# stream table -> (range const, file)
	'OfferTlvStream': 'OFFER_TYPES', 'InvoiceRequestTlvStream': 'INVOICE_REQUEST_TYPES', 'InvoiceTlvStream': 'INVOICE_TYPES', 'SignatureTlvStream': 'SIGNATURE_TYPES',
	'ExperimentalOfferTlvStream': 'EXPERIMENTAL_OFFER_TYPES', 'ExperimentalInvoiceRequestTlvStream': 'EXPERIMENTAL_INVOICE_REQUEST_TYPES', 'ExperimentalInvoiceTlvStream': 'EXPERIMENTAL_INVOICE_TYPES',
}

def _ranges(F, tables):
	"""parse `const X_TYPES: core::ops::Range[Inclusive]<u64> = a..[=]b;` from the offers sources (syntax level, like the TLV tables)"""
	import re as _r
	out = {}
	files = sorted({t['file'] for t in tables if '/offers/' in t['file']})
	for f in files:
		try:
			src = open(f, encoding='utf-8').read()
		except OSError:
			continue
		for m in _r.finditer(r'const\s+([A-Z_]+_TYPES)\s*:\s*core::ops::Range(Inclusive)?<u64>\s*=\s*([0-9_]+)\s*\.\.(=?)\s*([0-9_]+)\s*;', src):
			lo = int(m.group(3).replace('_', ''))
			hi = int(m.group(5).replace('_', '')) + (1 if m.group(4) else 0)
			out[m.group(1)] = (lo, hi)
	return out

def r18d(F):
	out = []
	tables = tlv.load(F)
	ts = [t for t in tables if t['macro'] == 'tlv_stream']
	rg = _ranges(F, tables)
	need = set(RANGES.values())
	missing = need - set(rg)
	if missing:
		return [Result('18.d', False, 'anchor:ranges', 'TLV type range constants not found: %s' % sorted(missing))]
	# disjoint and ordered
	order = ['OFFER_TYPES', 'INVOICE_REQUEST_TYPES', 'INVOICE_TYPES', 'SIGNATURE_TYPES', 'EXPERIMENTAL_OFFER_TYPES', 'EXPERIMENTAL_INVOICE_REQUEST_TYPES', 'EXPERIMENTAL_INVOICE_TYPES']
	ok = rg['OFFER_TYPES'][0] >= 1 and all(rg[a][1] <= rg[b][0] for a, b in zip(order, order[1:]))
	out.append(Result('18.d', ok, ('ok:' if ok else 'overlap:') + 'ranges-disjoint', 'offer / invoice_request / invoice / signature / experimental TLV ranges are disjoint and ordered: %s' % {k: rg[k] for k in order}, len(order)))
	n = 0
	seen = set()
	for t in ts:
		name = t['first_arg'].split(',')[0].strip()
		if name not in RANGES:
			continue
		lo, hi = rg[RANGES[name]]
		for e in t['entries']:
			v = tlv.parse_int(e['type'])
			if v is None:
				# a named constant: resolve through the driver's evaluated consts
				try:
					v = F.const(e['type'].strip())
				except AnchorMissing:
					cands = [c for c in F.consts if c.endswith('::' + e['type'].strip())]
					v = F.consts[cands[0]] if cands else None
			if v is None:
				out.append(Result('18.d', False, 'anchor:type:%s:%s' % (name, e['type']), 'cannot evaluate TLV type %s of %s' % (e['type'], name)))
				continue
			if 'experimental_foo' in e['field'] or 'experimental_bar' in e['field'] or 'experimental_baz' in e['field']:
				continue   # cfg(test) variants of the experimental streams
			n += 1
			seen.add(name)
			if not (lo <= v < hi):
				out.append(Result('18.d', False, 'range:%s:%s' % (name, v), '%s declares TLV type %d (%s) outside its range %s = %d..%d: the parser (which splits the byte stream by range) would hand the record to another stream, and the signed merkle tree / metadata HMAC would cover it under the wrong role' % (name, v, e['field'][:30], RANGES[name], lo, hi), 1, where='%s:%s' % (t['rel'], e.get('line', t['line']))))
	want = {'OfferTlvStream', 'InvoiceRequestTlvStream', 'InvoiceTlvStream', 'SignatureTlvStream'}
	if not want <= seen or n < 25:
		out.append(Result('18.d', False, 'floor:tlv_stream', 'only %d typed entries in %s found (expected the four main streams, >= 25 entries)' % (n, sorted(seen)), n))
	if not [r for r in out if not r.ok]:
		out.append(Result('18.d', True, 'ok:types-in-range', '%d TLV record types of %d streams lie inside their declared ranges' % (n, len(seen)), n))
	return out

def r18f(F):
	out = []
	fam = F.family(OF + 'merkle::merkle_tlv_data')
	hit = []
	for n in fam:
		fu = F.func(n)
		cb = fu.call_blocks(lambda p: p.endswith('RangeInclusive::contains') or p.endswith('Range::contains'))
		ex = Expr(fu)
		for b in cb:
			a0 = ex.of_operand(fu.blocks[b]['t'][2]['args'][0])
			if any(c.endswith('SIGNATURE_TYPES') for c in expr_leaves(a0)['consts']) or 'SIGNATURE_TYPES' in expr_str(a0):
				hit.append((fu, b))
	if len(hit) != 1:
		return [Result('18.f', False, 'guard:signature-range-filter', 'merkle_tlv_data: the `!SIGNATURE_TYPES.contains(type)` filter was not found (%d)' % len(hit), len(hit), where=F.where(F.fn(OF + 'merkle::merkle_tlv_data')))]
	fu, b = hit[0]
	# the closure returns the negation of contains
	rows = ret_assignments(fu)
	ex = Expr(fu)
	neg = False
	for bi, si, c in rows:
		if c[0] == 'other' or c[0] == 'copy':
			e = ex.of_rvalue(fu.blocks[bi]['s'][si][2]) if si != 'T' else None
			if e and e[0] == 'un' and e[1] == 'Not' and 'contains' in expr_str(e):
				neg = True
	out.append(Result('18.f', neg, ('ok:' if neg else 'shape:') + 'signature-records-excluded', 'records with a type in SIGNATURE_TYPES are filtered OUT of the merkle leaves (filter predicate = !contains)', 1, where=F.where(fu.name)))
	ex2 = Expr(fu)
	a1 = ex2.of_operand(fu.blocks[b]['t'][2]['args'][1])
	okt = 'type' in expr_leaves(a1)['fields'] or 'r#type' in expr_str(a1)
	out.append(Result('18.f', okt, ('ok:' if okt else 'shape:') + 'filter-on-record-type', 'the range test is applied to the record type (%s)' % expr_str(a1)[:60], 1, where=F.where(fu.name)))
	# root_hash uses merkle_tlv_data; TaggedHash::from_tlv_stream uses root_hash
	out += P1_who_may_call(F, '18.f', [OF + 'merkle::root_hash'], [OF + 'merkle::TaggedHash::from_tlv_stream'], floor=1)
	rh = F.func(OF + 'merkle::root_hash')
	ok = bool(sites_call(rh, [OF + 'merkle::merkle_tlv_data']))
	out.append(Result('18.f', ok, ('ok:' if ok else 'shape:') + 'root-uses-filtered-leaves', 'root_hash builds its leaves through merkle_tlv_data', 1, where=F.where(rh.name)))
	return out

def r18g(F):
	"""BOLT-11 time fields round-trip because they can only hold what the encoding can carry: whole seconds. ExpiryTime and PositiveTimestamp are
	constructed in exactly one place each, from Duration::from_secs (the expiry) / a bounds-checked second count (the timestamp)"""
	out = []
	for adt, ctor in (('ExpiryTime', INV + 'ExpiryTime::from_seconds'), ('PositiveTimestamp', INV + 'PositiveTimestamp::from_unix_timestamp')):
		out += P2_construct_census(F, '18.g', INV + adt, adt, [ctor], floor=1, note='%s values exist only with whole seconds' % adt)
		fu = F.func(ctor)
		ex = Expr(fu)
		okv, seen = False, []
		for b, si in sites_construct(fu, adt):
			rv = fu.blocks[b]['s'][si][2]
			e = ex.of_operand(rv[4][0])
			seen.append(leaf_key(e)[:50])
			calls = expr_leaves(e)['calls']
			def whole(x):
				while x[0] in ('ref', 'deref', 'cast'):
					x = x[1]
				if x[0] == 'call' and (x[1] or '').endswith('Duration::from_secs'):
					return True
				if x[0] == 'call' and (x[1] or '').endswith('Duration::new') and len(x[2]) == 2:
					n = x[2][1]
					while n[0] in ('ref', 'deref', 'cast'):
						n = n[1]
					return n[0] == 'const' and n[1] == 0
				return False
			okv = whole(e)
		out.append(Result('18.g', okv, ('ok:' if okv else 'precision:') + 'whole-seconds@' + adt, '%s is built from Duration::from_secs(..) (found %s)%s' % (adt, seen, '' if okv else ' - a sub-second part cannot be encoded: the emitted string parses back to a different invoice'), len(seen), where=F.where(ctor)))
	return out

def r18h(F):
	"""BOLT-11 integers are written without leading zeros, zero being the empty string: encode_int_be_base32 emits a symbol only behind the
	`remainder != 0` test - from the first symbol on - so that it always emits exactly encoded_int_be_base32_size(int) symbols, the length the
	tagged field declares (a stray symbol for 0 shifts every later field of the signed data)"""
	out = []
	fn = INV + 'ser::encode_int_be_base32'
	fu = F.func(fn)
	live = fu.reach([0])
	stores = {bi for bi, si, st in fu.stmts() if bi in live and len(st[1]) == 2 and isinstance(st[1][1], str) and st[1][1].startswith('[')}
	gs = [Guard(fu, c) for c in comparisons(fu)]
	nz = [g for g in gs if g.nf[1] in ('Ne', 'Eq') and g.nf[2] == 0 and len(g.nf[0]) == 1 and g.decisions]
	if not stores or not nz:
		return [Result('18.h', False, 'anchor:int-encoder', 'encode_int_be_base32: symbol stores / the remainder test were not found (%d / %d)' % (len(stores), len(nz)), where=F.where(fn))]
	ds = []
	for g in nz:
		for d in g.decisions:
			# normalise to "remainder != 0" being the true edge
			if g.nf[1] == 'Eq':
				d = Decision(d.b, d.false_edges, d.true_edges, d.what)
			ds.append(d)
	out += P4_guarded(F, '18.h', fu, stores, ds, True, 'remainder != 0', key='symbol-only-for-nonzero-remainder')
	sz = F.func(INV + 'ser::encoded_int_be_base32_size')
	lz = sz.call_blocks(lambda p: p.endswith('leading_zeros'))
	dc = sz.call_blocks(lambda p: p.endswith('div_ceil'))
	ok = bool(lz) and bool(dc)
	# ... and nothing else: the value returned IS the div_ceil (no lower clamp - zero must declare length 0, the encoder emits no symbol for it)
	sex = Expr(sz)
	rets = []
	for d in sz.defs.get(0, []):
		if d[1] == 'T':
			ci = sz.blocks[d[0]]['t'][2]
			rets.append('%s(%s)' % (norm(ci.get('f') or '').rsplit('::', 1)[-1], ', '.join(expr_str(sex.of_operand(a)) for a in ci['args'])))
		else:
			rets.append(expr_str(sex.of_rvalue(d[3])))
	ok = ok and len(rets) == 1 and bool(re.match(r'^div_ceil\(\(64 Sub leading_zeros\(\w+\) as usize\), 5\)$', rets[0]))
	out.append(Result('18.h', ok, ('ok:' if ok else 'shape:') + 'declared-length-from-bit-length', 'encoded_int_be_base32_size returns %s (expected exactly ceil((64 - leading_zeros) / 5): 0 for 0)' % rets, len(lz) + len(dc), where=F.where(sz.name)))
	return out

def r18i(F):
	"""the HMAC that ties a BOLT-12 object to its originator covers every record except the metadata itself and - only when the signing
	key is derived from that metadata - the key: builder and verifier of offers exclude the issuer id under the same predicate
	(otherwise a request built against a copy of the offer with another issuer id verifies)"""
	O = 'lightning::offers::'
	out = []
	out += P1_who_may_call(F, '18.i', [O + 'signer::Metadata::derives_recipient_keys'], [O + 'offer::OfferBuilder::build_without_checks', O + 'offer::OfferContents::verify'], floor=2)
	out += P1_who_may_call(F, '18.i', [O + 'signer::Metadata::derives_payer_keys'], [O + 'invoice::InvoiceContents::verify', O + 'invoice_request::InvoiceRequestBuilder::build_without_checks', O + 'refund::RefundBuilder::build'], floor=3)
	# builder: the issuer id is cleared from the authenticated stream only when the key will be re-derived
	bfn = O + 'offer::OfferBuilder::build_without_checks'
	try:
		fu = F.func(bfn)
		ex = Expr(fu)
		clears = set()
		for bi, si in sites_field_write(fu, 'issuer_id'):
			e = ex.of_rvalue(fu.blocks[bi]['s'][si][2])
			if e[0] == 'agg' and e[2] == 'None':
				clears.add(bi)
		cb = sites_call(fu, [O + 'signer::Metadata::derives_recipient_keys'])
		if not clears or not cb:
			out.append(Result('18.i', False, 'anchor:builder-issuer-id', 'OfferBuilder::build_without_checks: clearing of issuer_id (%d) / derives_recipient_keys call (%d) not found' % (len(clears), len(cb)), where=F.where(bfn)))
		else:
			out += P4_guarded(F, '18.i', fu, clears, call_decisions(fu, cb, 'bool'), True, 'derives_recipient_keys() (issuer id left out of the HMAC only when it is re-derived)', key='builder-issuer-id-excluded-iff-derived')
	except AnchorMissing as e:
		out.append(Result('18.i', False, 'anchor:' + str(e)[:80], 'anchor missing: %s' % e))
	# verifier: the record filter keeps the issuer id record unless the key is derived: one return value of the filter is !derives_recipient_keys()
	vfn = O + 'offer::OfferContents::verify'
	okv = False
	rets = []
	for n in F.family(vfn):
		cu = F.func(n)
		cex = Expr(cu)
		for d in cu.defs.get(0, []):
			if d[1] != 'T':
				rets.append(expr_str(cex.of_rvalue(d[3])))
	okv = any(re.search(r'^Not\(derives_recipient_keys\(', x) for x in rets)
	out.append(Result('18.i', okv, ('ok:' if okv else 'filter:') + 'verifier-issuer-id-kept-unless-derived', 'OfferContents::verify: the TLV record filter returns `!metadata.derives_recipient_keys()` for the issuer id record: %s' % okv, len(rets), where=None if okv else F.where(F.fn(vfn))))
	return out

def r18j(F):
	"""parsing an unsigned BOLT-12 invoice / invoice request back from bytes (the remote-signer flow): the tagged hash that gets signed is
	taken over ALL bytes, i.e. before the experimental records are split off into their own buffer"""
	out = []
	for fn in ('<lightning::offers::invoice::UnsignedBolt12Invoice as core::convert::TryFrom>::try_from', '<lightning::offers::invoice_request::UnsignedInvoiceRequest as core::convert::TryFrom>::try_from'):
		short = fn.split(' as ')[0].rsplit('::', 1)[-1]
		try:
			fu = F.func(fn)
		except AnchorMissing as e:
			out.append(Result('18.j', False, 'anchor:' + short, 'anchor missing: %s' % e))
			continue
		hb = sites_call(fu, ['lightning::offers::merkle::TaggedHash::from_valid_tlv_stream_bytes'])
		sb = sites_call(fu, ['alloc::vec::Vec::split_off'])
		if not hb or not sb:
			out.append(Result('18.j', False, 'anchor:hash-or-split@' + short, '%s::try_from: expected a TaggedHash::from_valid_tlv_stream_bytes call and a split_off of the experimental bytes, found %d / %d' % (short, len(hb), len(sb)), where=F.where(fn)))
			continue
		p = fu.path([x for b in sb for x in fu.succ(b)], hb)
		ok = p is None
		out.append(Result('18.j', ok, ('ok:' if ok else 'order:') + 'hash-before-split@' + short, '%s::try_from: the tagged hash is computed %s the experimental records are split off the byte buffer' % (short, 'before' if ok else 'AFTER (it no longer covers them: the signature made over it is rejected by every verifier)'), len(hb) + len(sb), where=None if ok else F.where(fn, fu.line_of(hb[0]))))
	return out

RULES = [
	('18.h', 'BOLT-11 integers: a symbol is emitted only for a non-zero remainder (zero is empty), matching the declared field length', r18h),
	('18.g', 'BOLT-11 expiry and timestamp hold whole seconds only: single constructor, built with Duration::from_secs', r18g),
	('18.a', 'signed BOLT-12 objects are built only behind signature verification (parser) or sign_message (signer)', r18a),
	('18.b', 'Bolt11Invoice only through from_signed (all four checks) or the builder; signature checked against the included payee key; hash from parsed parts', r18b),
	('18.c', 'stateless metadata verifies only on the constant-time comparison; verify_using_* reach it', r18c),
	('18.d', 'BOLT-12 TLV types lie in their stream ranges; ranges disjoint', r18d),
	('18.f', 'signature TLVs are excluded from the signed merkle tree', r18f),
	('18.q', 'no call hands a value named like one parameter of the callee to a different parameter (swapped type-compatible arguments; rules/provenance.py)', lambda F: provenance.swaps_for_property(F, 'C18', '18.q')),
	('18.i', 'BOLT-12 metadata HMAC: builder and verifier leave the signing key out under the same predicate only', r18i),
	('18.j', 'unsigned BOLT-12 objects parsed from bytes: the tagged hash covers the experimental records (hash before split)', r18j),
	('18.w', 'no length / count is added to or multiplied in an 8/16-bit type and widened afterwards (wrap-around at the top of the range; rules/provenance.py)', lambda F: provenance.narrow_for_property(F, 'C18', '18.w')),
	('18.z', 'named protocol / policy constants in this property\'s files have their reviewed values (rules/provenance.py)', lambda F: provenance.consts_for_property(F, 'C18', '18.z')),
	('18.x', 'range indexing of fixed-size buffers stays in bounds wherever the end is statically bounded (a wire length byte can be 255; rules/provenance.py)', lambda F: provenance.arrays_for_property(F, 'C18', '18.x')),
	('18.s', 'no reviewed function gained a short-circuiting iterator adaptor (find / find_map / take / position ...: an every-element walk that stops at the first match; rules/provenance.py)', lambda F: provenance.sc_for_property(F, 'C18', '18.s')),
	('18.y', 'no reviewed function gained a swallowed error (the Result of a fallible in-crate call dropped; rules/provenance.py)', lambda F: provenance.dr_for_property(F, 'C18', '18.y')),
	('18.o', 'hand-written eq / cmp / partial_cmp / hash impls in this property\'s files: same field on both sides, reviewed direction, no reviewed key lost, hash within eq (rules/ordimpls.py)', lambda F: ordimpls.for_property(F, 'C18', '18.o')),
]
RULES.append(('18.P', 'panic sites: no reviewed function that parses / handles untrusted input gained an unwrap / expect / explicit panic / bounds-checked index / length-checked copy / division (rules/provenance.py; panic freedom itself is not decided)', lambda F: provenance.panics_for_property(F, 'C18', '18.P')))
RULES.append(('18.A', 'enum accessors agree across sibling variants: an accessor that returns the payload field `x` for one variant returns it for every variant whose payload carries a field of that name and type (a variant moved to the `=> None` arm) - rules/accessors.py', lambda F: accessors.for_property(F, 'C18', '18.A')))
RULES.append(('18.G', 'guard census: no reviewed call of a workspace function and no reviewed mutation of a stored collection gained a controlling branch condition (an added `&& cond`, early return / continue, more specific match arm in front of an act); counts per call site, name free (rules/guards.py)', lambda F: guards.for_property(F, 'C18', '18.G')))
RULES.append(('18.W', 'field assignments: every reviewed (function, Type.field) direct assignment is still made - state that a path no longer updates, or updates only conditionally (get_or_insert for an overwrite); generalises NN.R (rules/writes.py)', lambda F: writes.for_property(F, 'C18', '18.W')))
RULES.append(('18.N', 'arithmetic census: per reviewed function the set of operation kinds (group: add/sub, mul, div, rem, shift, bit, min, max, div_ceil ...; flavour: plain / checked / saturating / wrapping) keeps its kinds: no reviewed function lost or gained a kind of arithmetic altogether - a rounding direction (`/` for div_ceil), saturating for checked, min for max (rules/arith.py; counts and value arithmetic itself are not judged)', lambda F: arith.for_property(F, 'C18', '18.N')))
RULES.append(('18.K', 'constant census of linear forms: every comparison (normalised to sum >= K over name-free atoms, a comparison and its negation being one form) and every maximal arithmetic expression of a reviewed function keeps its coefficients and its constant - a dropped or added `+ 1` / `- 1`, `<` for `<=` inside a computed bound, a scale factor applied twice or not at all, swapped operands of a comparison (rules/linforms.py; shapes that appear or disappear are not judged, the guard / arithmetic censuses judge those)', lambda F: linforms.for_property(F, 'C18', '18.K')))
