"""C20 - the chain-sync client keeps listeners on one consistent chain at the best tip (structural part)."""
import collections
import re
from engine import *
import linforms
import provenance
import guards
import arith
import mutations

BS = 'lightning_block_sync::'
POLL = BS + 'poll::'
CP = '<lightning_block_sync::poll::ChainPoller as lightning_block_sync::poll::Poll>::'
CN = BS + 'ChainNotifier::'
SPV = BS + 'SpvClient::'

EXPLANATION = ('Path, census and comparison-shape rules over the MIR of lightning-block-sync (async fns analysed before the coroutine transform): '
	'ValidatedBlockHeader/ValidatedBlock are only constructed by the two Validate impls behind the proof-of-work and block-hash checks (full blocks: merkle root and '
	'witness commitment too); ChainPoller::look_up_previous_header returns Ok only behind validate and check_builds_on, whose Ok is behind the prev-hash, height+1 and '
	'chainwork equalities; ChainTip::Better only on `chainwork >`; chain::Listen methods are called only from ChainNotifier / synchronize_listeners / forwarding impls; '
	'synchronize_listener finishes all fallible header fetching before the first notification, disconnects before connecting, connects in ascending order, advances the '
	'reported tip only after the notification and returns the partially advanced tip on error; SpvClient.chain_tip is written only from those results; the fork walk steps '
	'the higher side and stops on hash equality; start-up sync disconnects to the common ancestor and connects only blocks above each listener\'s height. '
	'Decides these shapes on all paths; does not decide that the notification sequence is a valid chain for every block tree (loop invariant) nor header-cache eviction.')
ASSUMPTIONS = ['bitcoin::block::Header::validate_pow / check_merkle_root / check_witness_commitment are correct', 'BlockSource implementations may fail or lie; only the client side is analysed']

def _clos(F, fn):
	"""the async body of an `async fn` / `async move` block (closure#0)"""
	n = F.fn(fn)
	c = n + '::{closure#0}'
	if c in F.fns:
		return F.func(c)
	raise AnchorMissing('no async body for %s' % fn)

def _strip(e):
	while e[0] in ('ref', 'deref', 'cast') or (e[0] == 'call' and (e[1] or '').rsplit('::', 1)[-1] in ('clone', 'deref', 'borrow') and e[2]):
		e = e[1] if e[0] != 'call' else e[2][0]
	return e

def _is_param(fu, e):
	e = _strip(e)
	return e[0] == 'local' and (e[1] == -1 or 1 <= e[1] <= fu.argc)

def _has_call(e, suffix):
	return any(c.endswith(suffix) for c in expr_leaves(e)['calls'])

def _CMP_FLIP_OP(op):
	return {'Lt': 'Gt', 'Le': 'Ge', 'Gt': 'Lt', 'Ge': 'Le', 'Eq': 'Eq', 'Ne': 'Ne'}[op]

def r20a(F):
	out = []
	vh = '<lightning_block_sync::BlockHeaderData as lightning_block_sync::poll::Validate>::validate'
	vb = '<lightning_block_sync::BlockData as lightning_block_sync::poll::Validate>::validate'
	out += P2_construct_census(F, '20.a', POLL + 'ValidatedBlockHeader', 'ValidatedBlockHeader', [vh], floor=1, note='a validated header may only come out of Validate::validate')
	out += P2_construct_census(F, '20.a', POLL + 'ValidatedBlock', 'ValidatedBlock', [vb], floor=1, allow_derives=False)
	for fn, adt in ((vh, 'ValidatedBlockHeader'), (vb, 'ValidatedBlock')):
		fu = F.func(fn)
		acts = {b for b, s in sites_construct(fu, adt)} | set(ok_return_blocks(fu))
		out += guarded_by_call(F, '20.a', fn, acts, ['Header::validate_pow'], 'result', True, what='validate_pow Ok @' + adt)
		# the hash the source claimed equals the hash the proof of work was checked for
		ne = fu.call_blocks(lambda p: p.endswith('PartialEq::ne') or p.endswith('PartialEq::eq'))
		ex = Expr(fu)
		sel = []
		for b in ne:
			ci = fu.blocks[b]['t'][2]
			es = [ex.of_operand(a) for a in ci['args']]
			pow_side = [e for e in es if any(c.endswith('validate_pow') for c in expr_leaves(e)['calls'])]
			par_side = [e for e in es if _is_param(fu, e)]
			if len(pow_side) == 1 and len(par_side) == 1:
				sel.append((b, norm(ci.get('t') or ci['f']).endswith('::ne')))
		if not sel:
			out.append(Result('20.a', False, 'guard:hash-eq@' + adt, '%s no longer compares the proof-of-work hash with the expected block hash' % fn, 0, where=F.where(fn)))
		else:
			ds = []
			for b, is_ne in sel:
				ds += call_decisions(fu, [b], 'bool', neg=is_ne)
			out += P4_guarded(F, '20.a', fu, acts, ds, True, 'pow hash == expected hash @' + adt)
			out += P4_fail_blocks(F, '20.a', fu, acts, ds, True, 'pow hash == expected hash @' + adt)
	fu = F.func(vb)
	acts = {b for b, s in sites_construct(fu, 'ValidatedBlock')}
	for chk in ('Block::check_merkle_root', 'Block::check_witness_commitment'):
		cb = sites_call(fu, [chk])
		if not cb:
			out.append(Result('20.a', False, 'anchor:' + chk, 'BlockData::validate no longer calls %s' % chk, 0, where=F.where(vb)))
			continue
		ds = call_decisions(fu, cb, 'bool')
		out += P4_fail_blocks(F, '20.a', fu, acts, ds, True, chk + ' true')
		# it is applied to every full block: the only way around it is the HeaderOnly variant
		vs = enum_variants(F, BS + 'BlockData')
		sw = variant_switch_edges(fu, lambda pl: True, vs)
		hdr_edges = set()
		for sb, m, other in sw:
			if 'FullBlock' in m:
				for v, t in m.items():
					if v != 'FullBlock':
						hdr_edges.add((sb, t))
				if 'HeaderOnly' not in m:
					hdr_edges.add((sb, other))
		p = fu.path([0], acts, removed_blocks=set(cb), removed_edges=hdr_edges)
		out.append(Result('20.a', p is None, ('ok:' if p is None else 'bypass:') + chk, 'every FullBlock passes %s before it is wrapped as validated' % chk.rsplit('::', 1)[-1] if p is None else 'a FullBlock can be validated without %s (lines %s)' % (chk, fu.path_lines(p)), len(cb) + len(acts), where=F.where(vb)))
	return out

def r20b(F):
	out = []
	fu = _clos(F, CP + 'look_up_previous_header')
	oks = set(ok_return_blocks(fu))
	out += guarded_by_call(F, '20.b', fu.name, oks, ['Validate::validate'], 'result', True)
	out += guarded_by_call(F, '20.b', fu.name, oks, ['ValidatedBlockHeader::check_builds_on'], 'result', True)
	# the header checked is the one returned, against the one asked about
	ex = Expr(fu)
	for b in sites_call(fu, ['ValidatedBlockHeader::check_builds_on']):
		ci = fu.blocks[b]['t'][2]
		e0, e1 = ex.of_operand(ci['args'][0]), ex.of_operand(ci['args'][1])
		ok = _has_call(e1, 'Validate::validate') and _has_call(e1, 'BlockSource::get_header') and _is_param(fu, e0)
		out.append(Result('20.b', ok, ('ok:' if ok else 'shape:') + 'check_builds_on-args', 'check_builds_on(%s, %s): the requested header must build on the freshly fetched and validated previous header' % (leaf_key(e0)[:40], leaf_key(e1)[:60]), 1, where=F.where(fu.name, fu.line_of(b))))
	# validate is given the prev_blockhash of the header asked about
	for b in sites_call(fu, ['Validate::validate']):
		ci = fu.blocks[b]['t'][2]
		a1 = leaf_key(ex.of_operand(ci['args'][1]))
		ok = 'prev_blockhash' in a1 or 'previous_hash' in a1
		out.append(Result('20.b', ok, ('ok:' if ok else 'shape:') + 'validate-hash-arg', 'the fetched previous header is validated against %s (expected header.prev_blockhash)' % a1, 1, where=F.where(fu.name, fu.line_of(b))))
	# every other ChainPoller fetch validates against the hash it asked for
	for m, want in (('fetch_block', 'block_hash'), ('get_header', 'block_hash'), ('poll_chain_tip', 'block_hash')):
		f2 = _clos(F, CP + m)
		vb = sites_call(f2, ['Validate::validate'])
		okr = set(ok_return_blocks(f2)) | {b for b, s, c in ret_assignments(f2) if c[0] == 'call' and (c[1] or '').endswith('Validate::validate')}
		if not vb:
			out.append(Result('20.b', False, 'guard:validate@' + m, 'ChainPoller::%s no longer validates what the source returned' % m, 0, where=F.where(f2.name)))
			continue
		ex2 = Expr(f2)
		for b in vb:
			e1 = ex2.of_operand(f2.blocks[b]['t'][2]['args'][1])
			a1 = leaf_key(e1)
			# the hash validated against is the hash that was requested from the source
			req = [ex2.of_operand(f2.blocks[x]['t'][2]['args'][1]) for x in sites_call(f2, ['BlockSource::get_header', 'BlockSource::get_block'])]
			ok = any(leaf_key(_strip(r)) == leaf_key(_strip(e1)) for r in req)
			out.append(Result('20.b', ok, ('ok:' if ok else 'shape:') + 'validate-hash-arg@' + m, 'ChainPoller::%s validates the returned data against %s' % (m, a1), 1, where=F.where(f2.name, f2.line_of(b))))
	# poll_chain_tip: Better only when chainwork is strictly greater; Common only on hash equality
	pt = _clos(F, CP + 'poll_chain_tip')
	ex3 = Expr(pt)
	better = {b for b, s in sites_construct(pt, 'ChainTip', 'Better')}
	worse = {b for b, s in sites_construct(pt, 'ChainTip', 'Worse')}
	common = {b for b, s in sites_construct(pt, 'ChainTip', 'Common')}
	gts = []
	for b, ci in pt.calls():
		f = norm(ci.get('t') or ci.get('f') or '')
		if f.rsplit('::', 1)[-1] in ('gt', 'ge', 'lt', 'le') and 'PartialOrd' in f:
			ks = [leaf_key(ex3.of_operand(a)) for a in ci['args']]
			if all('chainwork' in k for k in ks):
				gts.append((b, f.rsplit('::', 1)[-1], ks))
	if len(gts) != 1:
		out.append(Result('20.b', False, 'guard:chainwork-cmp', 'poll_chain_tip: expected exactly one chainwork comparison, found %s' % gts, len(gts), where=F.where(pt.name)))
	else:
		b, op, ks = gts[0]
		# normalise to  new <op> known
		new_first = 'best_known' not in ks[0]
		if not new_first:
			op = {'gt': 'lt', 'lt': 'gt', 'ge': 'le', 'le': 'ge'}[op]
		ds = call_decisions(pt, [b], 'bool')
		if op == 'gt':
			out += P4_guarded(F, '20.b', pt, better, ds, True, 'new chainwork > known chainwork')
			out += P4_fail_blocks(F, '20.b', pt, better, ds, True, 'new chainwork > known chainwork')
		elif op == 'le':
			out += P4_guarded(F, '20.b', pt, better, ds, False, 'not(new chainwork <= known chainwork)')
		else:
			out.append(Result('20.b', False, 'shape:chainwork-cmp', 'poll_chain_tip decides Better with `new.chainwork %s known.chainwork` (must be strictly greater: an equal-work tip must not move the listeners)' % op, 1, where=F.where(pt.name, pt.line_of(b))))
	eqs = []
	for b, ci in pt.calls():
		f = norm(ci.get('t') or ci.get('f') or '')
		if f.endswith('PartialEq::eq') or f.endswith('PartialEq::ne'):
			ks = [leaf_key(ex3.of_operand(a)) for a in ci['args']]
			if any('block_hash' in k for k in ks):
				eqs.append((b, f.endswith('::ne')))
	ds = []
	for b, is_ne in eqs:
		ds += call_decisions(pt, [b], 'bool', neg=is_ne)
	out += P4_guarded(F, '20.b', pt, common, ds, True, 'best block hash == known tip hash')
	out += P4_fail_blocks(F, '20.b', pt, common, ds, True, 'best block hash == known tip hash')
	return out

def r20c(F):
	out = []
	allowed = [CN + 'connect_blocks', CN + 'disconnect_blocks', BS + 'init::synchronize_listeners',
		'<lightning_block_sync::init::DynamicChainListener as lightning::chain::Listen>::blocks_disconnected']
	F.calls
	sites = 0
	for m in ('block_connected', 'filtered_block_connected', 'blocks_disconnected'):
		tm = 'lightning::chain::Listen::' + m
		for rec in F.callers_of.get(tm, []):
			caller = root_fn(rec[0])
			if not caller.startswith('lightning_block_sync') and not caller.startswith('<lightning_block_sync'):
				continue
			sites += 1
			ok = any(caller == (F.fn(a) if F.has_fn(a) else a) for a in allowed)
			if not ok:
				out.append(Result('20.c', False, 'caller:%s->%s' % (caller, m), 'chain::Listen::%s is called from %s, outside the notifier that orders notifications' % (m, caller), 1, where=F.where(caller, rec[3])))
	if sites < 5:
		out.append(Result('20.c', False, 'floor', 'only %d Listen call sites found in lightning-block-sync (expected >= 5)' % sites, sites))
	if not out:
		out.append(Result('20.c', True, 'ok', 'chain::Listen methods are called in lightning-block-sync only from connect_blocks / disconnect_blocks / synchronize_listeners / the DynamicChainListener forwarder (%d sites)' % sites, sites))
	# connect_blocks / disconnect_blocks themselves have a frozen caller set
	out += P1_who_may_call(F, '20.c', [CN + 'connect_blocks'], [CN + 'synchronize_listener'], floor=1)
	out += P1_who_may_call(F, '20.c', [CN + 'disconnect_blocks'], [CN + 'synchronize_listener', BS + 'init::synchronize_listeners'], floor=2)
	out += P1_who_may_call(F, '20.c', [CN + 'synchronize_listener'], [SPV + 'update_chain_tip'], floor=1)
	return out

def r20d(F):
	out = []
	fu = _clos(F, CN + 'synchronize_listener')
	fd = set(sites_call(fu, [CN + 'find_difference_from_header']))
	dc = set(sites_call(fu, [CN + 'disconnect_blocks']))
	cb = set(sites_call(fu, [CN + 'connect_blocks']))
	if not (fd and dc and cb):
		return [Result('20.d', False, 'anchor:synchronize_listener', 'synchronize_listener no longer calls find_difference_from_header/disconnect_blocks/connect_blocks (%d/%d/%d)' % (len(fd), len(dc), len(cb)), where=F.where(fu.name))]
	# all fallible header fetching is finished (Ok) before any notification
	out += guarded_by_call(F, '20.d', fu.name, dc | cb, [CN + 'find_difference_from_header'], 'result', True, what='find_difference_from_header Ok')
	# disconnect precedes connect: connect is never followed by disconnect, and the disconnect is skipped only when the common ancestor is the old tip
	late = fu.reach([s for b in cb for s in fu.succ(b)]) & dc
	out.append(Result('20.d', not late, ('ok:' if not late else 'order:') + 'disconnect-before-connect', 'blocks are disconnected before new ones are connected' if not late else 'disconnect_blocks reachable after connect_blocks', len(dc) + len(cb), where=F.where(fu.name)))
	ex = Expr(fu)
	neq = []
	for b, ci in fu.calls():
		f = norm(ci.get('t') or ci.get('f') or '')
		if f.endswith('PartialEq::ne') or f.endswith('PartialEq::eq'):
			ks = [leaf_key(ex.of_operand(a)) for a in ci['args']]
			if any('common_ancestor' in k for k in ks) and any('old_header' in k for k in ks):
				neq.append((b, f.endswith('::ne')))
	ds = []
	for b, is_ne in neq:
		ds += call_decisions(fu, [b], 'bool', neg=not is_ne)
	# ds true edge = "common ancestor differs from the old tip"
	if not ds:
		out.append(Result('20.d', False, 'guard:skip-disconnect', 'synchronize_listener no longer decides the disconnect on common_ancestor != old_header', 0, where=F.where(fu.name)))
	else:
		# on the "differs" edge the disconnect must happen before connect
		for d in ds:
			starts = [e[1] for e in d.true_edges]
			p = fu.path(starts, cb, removed_blocks=dc)
			out.append(Result('20.d', p is None, ('ok:' if p is None else 'bypass:') + 'disconnect-when-forked', 'when the common ancestor is not the old tip, disconnect_blocks runs before connect_blocks' if p is None else 'connect_blocks reachable without disconnect_blocks although the chain forked (lines %s)' % fu.path_lines(p), 1, where=F.where(fu.name, fu.line_of(d.b))))
	# both get the common ancestor
	for b in dc | cb:
		a1 = leaf_key(ex.of_operand(fu.blocks[b]['t'][2]['args'][1]))
		ok = 'common_ancestor' in a1
		out.append(Result('20.d', ok, ('ok:' if ok else 'shape:') + 'fork-point-arg@%s' % ('disconnect' if b in dc else 'connect'), '%s receives %s as the fork point' % ('disconnect_blocks' if b in dc else 'connect_blocks', a1), 1, where=F.where(fu.name, fu.line_of(b))))
	# connect_blocks: ascending order, tip advanced after notification, error carries the advanced tip
	cf = _clos(F, CN + 'connect_blocks')
	exc = Expr(cf)
	rev = cf.call_blocks(lambda p: p.endswith('Iterator::rev'))
	drain = cf.call_blocks(lambda p: p.endswith('::drain'))
	ok = len(rev) == 1 and len(drain) == 1
	if ok:
		r = exc.of_operand(cf.blocks[rev[0]]['t'][2]['args'][0])
		ok = 'drain' in expr_str(r) and 'connected_blocks' in expr_str(r)
	out.append(Result('20.d', ok, ('ok:' if ok else 'order:') + 'ascending', 'connect_blocks iterates connected_blocks.drain(..).rev() (the list is height-descending, so notifications ascend)', len(rev) + len(drain), where=F.where(cf.name)))
	# and find_difference_from_header builds the list by pushing while walking back (descending)
	ff = _clos(F, CN + 'find_difference_from_header')
	psh = ff.call_blocks(lambda p: p == 'alloc::vec::Vec::push')
	ins = ff.call_blocks(lambda p: p in ('alloc::vec::Vec::insert',) or p.endswith('::reverse') or p.endswith('::sort') or p.endswith('sort_by_key'))
	out.append(Result('20.d', len(psh) == 1 and not ins, ('ok:' if len(psh) == 1 and not ins else 'order:') + 'descending-list', 'find_difference_from_header appends each walked-back header with Vec::push (height-descending list), no reordering', len(psh) + len(ins), where=F.where(ff.name)))
	listen = set(cf.call_blocks(lambda p: p.endswith('Listen::block_connected') or p.endswith('Listen::filtered_block_connected')))
	heads = loop_heads(cf)
	# new_tip = header after the notification, in every iteration
	tipw = set()
	# the tip variable is the one the error closure reports (`Some(new_tip)`); find stores to it
	tip_names = set()
	for n in F.family(CN + 'connect_blocks'):
		if n != cf.name and n.startswith(cf.name):
			f3 = F.func(n)
			e3 = Expr(f3)
			for bi, si, s in f3.stmts():
				if s[2][0] == 'agg' and s[2][3] == 'Some':
					tip_names |= expr_leaves(e3.of_rvalue(s[2]))['locals']
	for bi, si, s in cf.stmts():
		if s[2][0] != 'use':
			continue
		tgt = exc.of_place(s[1])
		if tgt[0] == 'local' and tgt[2] in tip_names:
			v = exc.of_operand(s[2][1])
			# the value stored is the loop item (the header just notified)
			if _has_call(v, 'Iterator::next') or _has_call(v, '::next'):
				tipw.add(bi)
	if not tipw or not listen:
		out.append(Result('20.d', False, 'anchor:new_tip', 'connect_blocks: no `new_tip = header` store / no listener call found (%d/%d)' % (len(tipw), len(listen)), where=F.where(cf.name)))
	else:
		# from a listener call back to the loop head, the tip store is passed
		out += P5_must_pass(F, '20.d', cf, listen, heads, tipw, 'new_tip = header after notifying the listener')
		early = [b for b in tipw if not (cf.reach_back([b], removed_blocks=heads) & listen)]
		out.append(Result('20.d', not early, ('ok:' if not early else 'order:') + 'tip-after-notify', 'the reported tip advances only after the listener was notified of that block', len(tipw), where=F.where(cf.name)))
	# the fetch precedes the notification and its error carries Some(new_tip)
	fb = set(sites_call(cf, ['Poll::fetch_block']))
	out += guarded_by_call(F, '20.d', cf.name, listen, ['Poll::fetch_block'], 'result', True, what='fetch_block Ok', mode='all-paths')
	errc = [n for n in F.family(CN + 'connect_blocks') if n != cf.name and n.startswith(cf.name)]
	okc = False
	for n in errc:
		f3 = F.func(n)
		e3 = Expr(f3)
		for bi, si, s in f3.stmts():
			if s[1] == [0]:
				v = expr_str(e3.of_rvalue(s[2]))
				if 'Some' in v and 'new_tip' in v:
					okc = True
	out.append(Result('20.d', okc, ('ok:' if okc else 'shape:') + 'error-carries-tip', 'a failed block fetch returns (error, Some(new_tip)): the caller learns where the listener really is', len(errc), where=F.where(cf.name)))
	# the header cache learns the block after the listener did, before the tip moves on
	hc = set(sites_call(cf, [BS + 'HeaderCache::block_connected']))
	out += P5_must_pass(F, '20.d', cf, listen, heads, hc, 'HeaderCache::block_connected after notifying the listener')
	return out

def r20e(F):
	out = []
	out += P3_field_census(F, '20.e', BS + 'SpvClient.chain_tip', [SPV + 'update_chain_tip', SPV + 'new'], kinds=('w', 'wi', 'bm', 'bmi'), floor=2)
	fu = _clos(F, SPV + 'update_chain_tip')
	ex = Expr(fu)
	ws = []
	for bi, si, s in fu.stmts():
		fl = place_fields(s[1])
		if fl and fl[-1] == 'chain_tip':
			ws.append((bi, si, leaf_key(ex.of_rvalue(s[2]))))
	sl = set(sites_call(fu, [CN + 'synchronize_listener']))
	if len(ws) != 2 or not sl:
		return out + [Result('20.e', False, 'anchor:chain_tip-writes', 'update_chain_tip: expected two stores to chain_tip after synchronize_listener, found %s' % ws, len(ws), where=F.where(fu.name))]
	okds = call_decisions(fu, sl, 'result')
	for bi, si, v in ws:
		if 'synchronize_listener' not in v:
			out += P4_guarded(F, '20.e', fu, {bi}, okds, True, 'synchronize_listener Ok', key='tip=best@update_chain_tip')
			out += P4_fail_blocks(F, '20.e', fu, {bi}, okds, True, 'synchronize_listener Ok', key='tip=best-fail@update_chain_tip')
		else:
			# the partially advanced tip reported by the error
			out += P4_guarded(F, '20.e', fu, {bi}, okds, False, 'synchronize_listener Err', key='tip=partial@update_chain_tip')
			# ... and whenever that tip differs from the recorded one: the listeners HAVE been moved there (possibly backwards, to a fork
			# point with less work than the old tip), so no other condition may keep the recorded tip where it was
			conds = []
			for cb, cci in fu.calls():
				nm = norm(cci.get('t') or cci.get('f') or '').rsplit('::', 1)[-1]
				if nm in ('eq', 'ne', 'gt', 'ge', 'lt', 'le', 'cmp', 'partial_cmp'):
					ds_ = call_decisions(fu, [cb], 'bool')
					for pol in (True, False):
						pe_ = set()
						for d_ in ds_:
							pe_ |= set(d_.true_edges if pol else d_.false_edges)
						if pe_ and bi not in fu.reach([0], removed_edges=pe_):
							conds.append((nm, ' '.join(expr_str(ex.of_operand(a)) for a in cci['args']), pol))
			okc = bool(conds) and all(nm in ('ne', 'eq') and 'block_hash' in txt and pol == (nm == 'ne') for nm, txt, pol in conds)
			out.append(Result('20.e', okc, ('ok:' if okc else 'guard:') + 'partial-tip-adopted-iff-different', 'on error the tip the listeners were left at is adopted under the condition(s) %s (expected only: its block hash differs from the recorded tip\'s)' % [(nm, txt[-70:]) for nm, txt, pol in conds], 1 + len(conds), where=None if okc else F.where(fu.name, fu.line_of(bi))))
			okv = 'Err' in v or 'chain_tip' in v
			out.append(Result('20.e', okv, ('ok:' if okv else 'shape:') + 'partial-tip-source', 'on error chain_tip is set from the tip carried by the error (%s)' % v[:80], 1, where=F.where(fu.name, fu.line_of(bi))))
	# a `true` result (blocks connected) only with a chain_tip store
	wb = {bi for bi, si, v in ws}
	for bi, si, s in fu.stmts():
		if s[1] == [0] and s[2][0] == 'use' and s[2][1][0] == 'k' and s[2][1][1].get('v') == 1:
			ok = bool(fu.reach_back([bi]) & wb) and fu.path([0], [bi], removed_blocks=wb) is None
			out.append(Result('20.e', ok, ('ok:' if ok else 'bypass:') + 'true-implies-tip-update', 'update_chain_tip returns true only after storing the new chain_tip', 1, where=F.where(fu.name, fu.line_of(bi))))
	# poll_best_tip: only the Better arm updates
	pb = _clos(F, SPV + 'poll_best_tip')
	up = set(sites_call(pb, [SPV + 'update_chain_tip']))
	vs = enum_variants(F, POLL + 'ChainTip')
	sw = [x for x in variant_switch_edges(pb, lambda pl: True, vs) if 'Better' in x[1] or len(x[1]) >= 2]
	ok = False
	for sb, m, other in sw:
		tb = m.get('Better')
		if tb is None:
			continue
		others = {t for v, t in m.items() if v != 'Better'} | ({other} if len(m) < len(vs) else set())
		r_b = pb.reach([tb], removed_blocks=others - {tb})
		r_o = pb.reach(list(others - {tb}), removed_blocks={tb})
		if (r_b & up) and not (r_o & up):
			ok = True
	out.append(Result('20.e', ok, ('ok:' if ok else 'shape:') + 'only-better-updates', 'poll_best_tip calls update_chain_tip only in the ChainTip::Better arm', len(up), where=F.where(pb.name)))
	out += P1_who_may_call(F, '20.e', [SPV + 'update_chain_tip'], [SPV + 'poll_best_tip'], floor=1)
	return out

def r20g(F):
	out = []
	fn = POLL + 'ValidatedBlockHeader::check_builds_on'
	top = F.func(fn)
	# the hash / height / chainwork part may live in a helper that check_builds_on obeys (check_connects_to)
	helper = POLL + 'ValidatedBlockHeader::check_connects_to'
	if F.has_fn(helper) and sites_call(top, [helper]):
		out += guarded_by_call(F, '20.g', fn, set(ok_return_blocks(top)), [helper], 'result', True)
		fn = helper
	fu = F.func(fn)
	oks = set(ok_return_blocks(fu))
	ex = Expr(fu)
	# (i) prev_blockhash == previous.block_hash
	sel = {'prev-hash': [], 'chainwork': []}
	for b, ci in fu.calls():
		f = norm(ci.get('t') or ci.get('f') or '')
		if f.endswith('PartialEq::ne') or f.endswith('PartialEq::eq'):
			ks = [leaf_key(ex.of_operand(a)) for a in ci['args']]
			if any('prev_blockhash' in k for k in ks) and any('previous_header' in k and 'block_hash' in k for k in ks):
				sel['prev-hash'].append((b, f.endswith('::ne')))
			if any(k.endswith('chainwork') and 'previous' not in k for k in ks) and any('previous_header' in k and 'chainwork' in k and 'work' in k for k in ks):
				sel['chainwork'].append((b, f.endswith('::ne'), ks))
	for label in ('prev-hash', 'chainwork'):
		if not sel[label]:
			out.append(Result('20.g', False, 'guard:' + label, 'check_builds_on no longer compares %s' % label, 0, where=F.where(fn)))
			continue
		ds = []
		for rec in sel[label]:
			ds += call_decisions(fu, [rec[0]], 'bool', neg=rec[1])
		out += P4_guarded(F, '20.g', fu, oks, ds, True, label + ' equality', key=label)
		out += P4_fail_blocks(F, '20.g', fu, oks, ds, True, label + ' equality', key=label + '-fail')
	for rec in sel['chainwork']:
		ks = rec[2]
		other = [k for k in ks if 'previous_header' in k][0]
		ok = 'add(' in other and 'work' in other
		out.append(Result('20.g', ok, ('ok:' if ok else 'shape:') + 'chainwork-sum', 'chainwork is compared with %s (expected previous.chainwork + header.work())' % other[:80], 1, where=F.where(fn)))
	# (ii) height == previous.height + 1
	gs = guards_in(F, fn, False)
	ms = match_guards(gs, r'^self.*\.height$', r'previous_header.*\.height$', 0)
	if not ms:
		out.append(Result('20.g', False, 'guard:height', 'check_builds_on no longer compares height with previous.height + 1; comparisons: %s' % [g.text() for g in gs], len(gs), where=F.where(fn)))
	for g, o in ms:
		okh = (o[1], o[2]) in (('Ne', 1), ('Eq', 1))
		out.append(Result('20.g', okh, ('ok:' if okh else 'shape:') + 'height-step', 'height test is `%s` (expected self.height - previous.height == 1)' % cmp_str(o), 1, where=F.where(fn, g.line)))
		if okh:
			out += P4_guarded(F, '20.g', fu, oks, g.decisions, o[1] == 'Eq', 'height == previous.height + 1', key='height')
	# (iii) mainnet difficulty rules: both arms return Err on mismatch
	n_err = len(set(err_return_blocks(fu))) + (len([b for b in err_return_blocks(top) if not (set(sites_call(top, [helper])) & top.reach_back([b]) and top.blocks[b]['t'][1] == 'call')]) if fu is not top else 0)
	# count distinct refusals (explicit Err constructions) over the predicate and its wrapper
	n_err = len({(f.name, bi) for f in ({fu.name: fu, top.name: top}.values()) for bi, si, c in ret_assignments(f) if c[0] == 'variant' and c[2] == 'Err'})
	out.append(Result('20.g', n_err >= 5, ('ok:' if n_err >= 5 else 'floor:') + 'refusals', 'check_builds_on has %d refusing exits (prev hash, height, chainwork, difficulty transition, difficulty)' % n_err, n_err, where=F.where(fn)))
	bits = []
	ex = Expr(top)
	for b, ci in top.calls():
		f = norm(ci.get('t') or ci.get('f') or '')
		if f.endswith('PartialEq::ne') or f.endswith('PartialEq::eq'):
			ks = [leaf_key(ex.of_operand(a)) for a in ci['args']]
			if all('bits' in k for k in ks):
				bits.append((b, f.endswith('::ne')))
	if not bits:
		out.append(Result('20.g', False, 'guard:bits', 'check_builds_on no longer compares header.bits with the previous header off retarget boundaries', 0, where=F.where(fn)))
	# the caller uses its result (20.b) - and nobody else constructs the walk
	out += P1_who_may_call(F, '20.g', [POLL + 'ValidatedBlockHeader::check_builds_on'], [CP + 'look_up_previous_header'], floor=1)
	return out

def r20f(F):
	out = []
	fu = _clos(F, CN + 'find_difference_from_header')
	gs = [Guard(fu, c) for c in comparisons(fu)]
	ms = match_guards(gs, r'current.*height|current_height', r'previous.*height|previous_height', 0)
	ex = Expr(fu)
	lk = sites_call(fu, [CN + 'look_up_previous_header'])
	if len(lk) != 2:
		return [Result('20.f', False, 'anchor:walk', 'find_difference_from_header: expected two look_up_previous_header calls, found %d' % len(lk), len(lk), where=F.where(fu.name))]
	which = {}
	for b in lk:
		a = leaf_key(ex.of_operand(fu.blocks[b]['t'][2]['args'][2]))
		which['previous' if 'previous' in a else 'current'] = b
	if set(which) != {'previous', 'current'}:
		return [Result('20.f', False, 'shape:walk-args', 'find_difference_from_header: the two walk-back calls must step `previous` and `current` (%s)' % which, 2, where=F.where(fu.name))]
	if len(ms) != 2:
		return [Result('20.f', False, 'guard:walk', 'find_difference_from_header: expected two height comparisons, found %s' % [g.text() for g in gs], len(gs), where=F.where(fu.name))]
	seen = set()
	for g, o in ms:
		# o: current - previous <op> 0
		op, K = o[1], o[2]
		for d in g.decisions:
			t_reach = fu.reach([e[1] for e in d.true_edges], removed_blocks=loop_heads(fu) | {d.b})
			steps_prev = which['previous'] in t_reach and which['previous'] not in fu.reach([e[1] for e in d.false_edges], removed_blocks={which['current']} | {d.b})
			if (op, K) in (('Le', 0), ('Lt', 1)):
				ok = which['previous'] in t_reach
				seen.add('prev')
				out.append(Result('20.f', ok, ('ok:' if ok else 'shape:') + 'step-previous', '`previous` is walked back iff current.height <= previous.height (`%s`)' % cmp_str(o), 1, where=F.where(fu.name, g.line)))
			elif (op, K) in (('Ge', 0), ('Gt', -1)):
				ok = which['current'] in t_reach
				seen.add('cur')
				out.append(Result('20.f', ok, ('ok:' if ok else 'shape:') + 'step-current', '`current` is walked back (and recorded as connected) iff current.height >= previous.height (`%s`)' % cmp_str(o), 1, where=F.where(fu.name, g.line)))
			else:
				out.append(Result('20.f', False, 'shape:walk-cmp', 'unexpected height comparison `%s` in the fork walk (equal heights must step both sides, otherwise only the higher one)' % cmp_str(o), 1, where=F.where(fu.name, g.line)))
	if seen != {'prev', 'cur'}:
		out.append(Result('20.f', False, 'shape:walk-pair', 'the fork walk must test current.height <= previous.height and current.height >= previous.height (found %s)' % sorted(seen), 2, where=F.where(fu.name)))
	# the push of `current` to connected_blocks precedes its walk-back in the same arm
	psh = set(fu.call_blocks(lambda p: p == 'alloc::vec::Vec::push'))
	out += P5_must_pass(F, '20.f', fu, list(loop_heads(fu)) or [0], [which['current']], psh, 'connected_blocks.push(current) before current is walked back') if loop_heads(fu) else P5_must_pass(F, '20.f', fu, [0], [which['current']], psh, 'connected_blocks.push(current) before current is walked back')
	# termination only on hash equality
	oks = set(ok_return_blocks(fu))
	eqs = []
	for b, ci in fu.calls():
		f = norm(ci.get('t') or ci.get('f') or '')
		if f.endswith('PartialEq::ne') or f.endswith('PartialEq::eq'):
			ks = [leaf_key(ex.of_operand(a)) for a in ci['args']]
			if any('current' in k and 'block_hash' in k for k in ks) and any('previous' in k and 'block_hash' in k for k in ks):
				eqs.append((b, f.endswith('::ne')))
	ds = []
	for b, is_ne in eqs:
		ds += call_decisions(fu, [b], 'bool', neg=is_ne)
	out += P4_guarded(F, '20.f', fu, oks, ds, True, 'current.block_hash == previous.block_hash', key='terminate-on-common')
	# both walk-back results are propagated (an error aborts the walk: no partial difference is returned)
	for nm, b in which.items():
		st, how = result_consumed(fu, b)
		out.append(Result('20.f', st in ('branched', 'returned'), ('ok:' if st in ('branched', 'returned') else 'dropped:') + 'walk-error@' + nm, 'the result of walking back `%s` is %s' % (nm, st), 1, where=F.where(fu.name, fu.line_of(b))))
	return out

def r20h(F):
	"""start-up synchronisation of several listeners"""
	out = []
	fu = _clos(F, BS + 'init::synchronize_listeners')
	ex = Expr(fu)
	dc = set(sites_call(fu, [CN + 'disconnect_blocks']))
	fd = set(sites_call(fu, [CN + 'find_difference_from_best_block']))
	listen = set(fu.call_blocks(lambda p: p.endswith('Listen::block_connected') or p.endswith('Listen::filtered_block_connected')))
	if not (dc and fd and listen):
		return [Result('20.h', False, 'anchor:synchronize_listeners', 'synchronize_listeners: anchors missing (%d/%d/%d)' % (len(dc), len(fd), len(listen)), where=F.where(fu.name))]
	out += guarded_by_call(F, '20.h', fu.name, dc, [CN + 'find_difference_from_best_block'], 'result', True, what='find_difference_from_best_block Ok', mode='all-paths')
	for b in dc:
		a1 = leaf_key(ex.of_operand(fu.blocks[b]['t'][2]['args'][1]))
		ok = 'common_ancestor' in a1
		out.append(Result('20.h', ok, ('ok:' if ok else 'shape:') + 'fork-point-arg', 'each stale listener is disconnected to %s' % a1, 1, where=F.where(fu.name, fu.line_of(b))))
	# skipped only when the common ancestor is the listener's old best block
	neq = []
	for b, ci in fu.calls():
		f = norm(ci.get('t') or ci.get('f') or '')
		if f.endswith('PartialEq::ne') or f.endswith('PartialEq::eq'):
			es = [ex.of_operand(a) for a in ci['args']]
			anc = [e for e in es if _has_call(e, 'find_difference_from_best_block') and 'common_ancestor' in expr_leaves(e)['fields']]
			old = [e for e in es if not _has_call(e, 'find_difference_from_best_block') and 'block_hash' in expr_leaves(e)['fields']]
			if len(anc) == 1 and len(old) == 1:
				neq.append((b, f.endswith('::ne')))
	ds = []
	for b, is_ne in neq:
		ds += call_decisions(fu, [b], 'bool', neg=not is_ne)
	if not ds:
		out.append(Result('20.h', False, 'guard:skip-disconnect', 'synchronize_listeners no longer decides the disconnect on common_ancestor.block_hash != old_best_block.block_hash', 0, where=F.where(fu.name)))
	else:
		heads = loop_heads(fu)
		for d in ds:
			p = fu.path([e[1] for e in d.true_edges], heads, removed_blocks=dc)
			out.append(Result('20.h', p is None, ('ok:' if p is None else 'bypass:') + 'disconnect-when-forked', 'a listener whose best block is not on the best chain is always disconnected to the fork point' if p is None else 'forked listener not disconnected (lines %s)' % fu.path_lines(p), 1, where=F.where(fu.name, fu.line_of(d.b))))
	# connect only blocks above the listener's fork height: *height > *listener_height
	# the integer comparison guarding the listener calls: the side that comes from the same iteration item as the
	# listener receiver is the listener's fork height, the other side the height of the block about to be connected
	gs = [Guard(fu, c) for c in comparisons(fu)]
	def nexts(e, acc=None):
		acc = set() if acc is None else acc
		if e[0] == 'call':
			if (e[1] or '').endswith('::next') or (len(e) > 3 and (e[3] or '').endswith('::next')):
				acc.add(leaf_key(e))
			for a in e[2]:
				nexts(a, acc)
		elif e[0] in ('field', 'deref', 'ref', 'downcast', 'index', 'cast', 'disc'):
			nexts(e[1], acc)
		elif e[0] == 'bin':
			nexts(e[2], acc); nexts(e[3], acc)
		return acc
	recv = set()
	for b in listen:
		recv |= nexts(ex.of_operand(fu.blocks[b]['t'][2]['args'][0]))
	ms = []
	for g in gs:
		na, nb = nexts(g.a), nexts(g.b)
		if (na & recv) and not (nb & recv) and nb:
			ms.append((g, _CMP_FLIP_OP(g.op)))
		elif (nb & recv) and not (na & recv) and na:
			ms.append((g, g.op))
	if len(ms) != 1:
		out.append(Result('20.h', False, 'guard:above-listener-height', 'synchronize_listeners: expected one comparison of the block height with the listener height, found %s' % [g.text()[:100] for g, _ in ms], len(gs), where=F.where(fu.name)))
	else:
		g, op = ms[0]
		k = linear(g.a)[1] - linear(g.b)[1]
		ok = op == 'Gt' and k == 0
		out.append(Result('20.h', ok, ('ok:' if ok else 'shape:') + 'above-listener-height', 'a block is connected to a listener iff block height %s listener fork height%s (expected strictly greater: never repeat the fork-point block, never skip the next one)' % (op, '' if k == 0 else ' (offset %d)' % k), 1, where=F.where(fu.name, g.line)))
		out += P4_guarded(F, '20.h', fu, listen, g.decisions, True, 'height > listener_height')
	# the listener height recorded is the common ancestor's
	okh = False
	for b in fu.call_blocks(lambda p: p == 'alloc::vec::Vec::push'):
		a = expr_str(ex.of_operand(fu.blocks[b]['t'][2]['args'][1]))
		if 'common_ancestor' in a and 'height' in a:
			okh = True
	out.append(Result('20.h', okh, ('ok:' if okh else 'shape:') + 'listener-height-source', 'each listener is remembered with its common ancestor height', 1, where=F.where(fu.name)))
	# a failed block fetch aborts before any listener sees that batch
	qs = []
	for b, ci in fu.calls():
		f = norm(ci.get('t') or ci.get('f') or '')
		if f.endswith('Try::branch'):
			if _has_call(ex.of_operand(ci['args'][0]), 'Iterator::zip') or _has_call(ex.of_operand(ci['args'][0]), 'MultiResultFuturePoller::new'):
				qs.append(b)
	if not qs:
		out.append(Result('20.h', False, 'guard:block_res', 'synchronize_listeners no longer propagates a failed block fetch (`block_res?`)', 0, where=F.where(fu.name)))
	else:
		ds2 = call_decisions(fu, qs, 'cf')
		out += P4_fail_blocks(F, '20.h', fu, listen, ds2, True, 'block fetch Ok', stop_blocks=())
	# blocks are fetched oldest-first: iter().rev().take(..)
	rev = fu.call_blocks(lambda p: p.endswith('Iterator::rev'))
	okr = any('most_connected_blocks' in expr_str(ex.of_operand(fu.blocks[b]['t'][2]['args'][0])) for b in rev)
	out.append(Result('20.h', okr, ('ok:' if okr else 'order:') + 'ascending-batches', 'most_connected_blocks (height-descending) is consumed through .iter().rev(): batches ascend', len(rev), where=F.where(fu.name)))
	# the returned tip is the validated best header, obtained before anything else
	vb = sites_call(fu, [BS + 'init::validate_best_block_header'])
	out += guarded_by_call(F, '20.h', fu.name, dc | listen | fd, [BS + 'init::validate_best_block_header'], 'result', True, what='validate_best_block_header Ok', mode='all-paths')
	return out

def r20i(F):
	"""every header handed back by the notifier's walk was checked to connect to the header it was reached from - cache hits included"""
	out = []
	fu = _clos(F, CN + 'look_up_previous_header')
	oks = set(ok_return_blocks(fu)) | {bi for bi, si, c in ret_assignments(fu) if c[0] in ('call', 'copy')}
	chk = set(fu.call_blocks(lambda p: p.endswith('ValidatedBlockHeader::check_connects_to') or p.endswith('ValidatedBlockHeader::check_builds_on')))
	pol = set(fu.call_blocks(lambda p: p.endswith('Poll::look_up_previous_header')))
	if not pol:
		return [Result('20.i', False, 'anchor:poller-walk', 'ChainNotifier::look_up_previous_header no longer falls back to Poll::look_up_previous_header', where=F.where(fu.name))]
	rets = fu.return_blocks()
	p = fu.path([0], rets, removed_blocks=chk | pol)
	out.append(Result('20.i', p is None, ('ok:' if p is None else 'unchecked:') + 'cache-hit-connects', 'ChainNotifier::look_up_previous_header: a cached previous header is returned only after the requesting header was checked to connect to it (hash, height + 1, chainwork); otherwise the poller (which checks, 20.b) is asked' if p is None else 'ChainNotifier::look_up_previous_header returns a cached previous header without checking that the requesting header connects to it (lines %s): a source misreporting the height / chainwork of a header whose parent is cached gets it connected at that height' % fu.path_lines(p), len(chk) + len(pol), where=F.where(fu.name, fu.line_of(p[-1]) if p else None)))
	if chk:
		ds = call_decisions(fu, chk, 'result')
		okr = set(ok_return_blocks(fu))
		cache_ok = {b for b in okr if not (fu.reach_back([b]) & pol)} or okr
		out += P4_fail_blocks(F, '20.i', fu, cache_ok, ds, True, 'connects-to check Ok', key='cache-hit-check-obeyed')
		# the check is the same predicate the poller path uses
		cb = F.func(POLL + 'ValidatedBlockHeader::check_builds_on')
		shared = bool(sites_call(cb, [POLL + 'ValidatedBlockHeader::check_connects_to'])) or any(norm(fu.blocks[b]['t'][2].get('f') or '').endswith('check_builds_on') for b in chk)
		out.append(Result('20.i', shared, ('ok:' if shared else 'sibling:') + 'one-connect-predicate', 'the cache-hit check and ChainPoller::look_up_previous_header use the same connectivity predicate (check_builds_on delegates to check_connects_to)', 1, where=F.where(cb.name)))
	return out

def r20j(F):
	"""(i) mainnet difficulty: the header that may retarget is the one whose OWN height is a multiple of the retarget interval (height % 2016 == 0,
	not (height + 1) or the parent's height); every other header must repeat its parent's bits; (ii) blocks fetched concurrently are returned
	in the order they were requested (the start-up sync zips them with the ascending list of headers)"""
	out = []
	fn = POLL + 'ValidatedBlockHeader::check_builds_on'
	fu = F.func(fn)
	rem = []
	for c in comparisons(fu):
		a, b = c[4], c[5]
		for x, y in ((a, b), (b, a)):
			if x[0] == 'bin' and x[1] == 'Rem' and y[0] == 'const' and y[1] == 0 and x[3][0] == 'const':
				rem.append((c, x))
	if len(rem) != 1:
		out.append(Result('20.j', False, 'anchor:retarget-test', 'check_builds_on: expected one `<height> % <interval> == 0` test, found %d' % len(rem), len(rem), where=F.where(fn)))
	else:
		c, x = rem[0]
		terms, k = linear(x[2])
		interval = x[3][1]
		ok = k == 0 and len(terms) == 1 and list(terms.values()) == [1] and list(terms)[0].endswith('height') and 'previous' not in list(terms)[0] and interval == 2016 and c[3] in ('Eq', 'Ne')
		out.append(Result('20.j', ok, ('ok:' if ok else 'boundary:') + 'retarget-at-own-height-multiple', 'the difficulty may change exactly for headers with `%s %% %s == 0` (expected the header\'s own height, interval 2016)%s' % (expr_str(x[2])[-40:], interval, '' if ok else ' - shifted by one the last header of every period may change its target fourfold and the true retarget header is refused'), 1, where=F.where(fn, fu.blocks[c[0]]['s'][c[1]][0])))
	polls = [n for n in F.fns if n.endswith('::MultiResultFuturePoller as core::future::future::Future>::poll') and ('lightning_block_sync' in n or n.startswith('<lightning::'))]
	if not polls:
		out.append(Result('20.j', False, 'anchor:multi-poller', 'MultiResultFuturePoller::poll not found'))
	for n in polls:
		pu = F.func(n)
		ex = Expr(pu)
		found = []
		for bi, si, st in pu.stmts():
			rv = st[2]
			if rv[0] == 'agg' and rv[1] == 'adt' and rv[3] == 'Ready' and st[1] == [0] and bi in pu.reach([0]):
				e = ex.of_operand(rv[4][0])
				names, base = iterator_chain(e)
				found.append((names, expr_leaves(e)['fields']))
		ok = bool(found) and all('collect' in names and any(x in names for x in ('drain', 'into_iter', 'iter', 'iter_mut')) and 'futures_state' in flds and not any(x in names for x in ('rev', 'sort', 'sorted')) for names, flds in found)
		crate = 'lightning-block-sync' if 'lightning_block_sync' in n else 'lightning'
		out.append(Result('20.j', ok, ('ok:' if ok else 'order:') + 'concurrent-results-in-request-order@' + crate, 'MultiResultFuturePoller::poll (%s) builds its result by walking the stored futures in their original order (%s)%s' % (crate, [' <- '.join(nm) for nm, fl in found], '' if ok else ' - results gathered in completion order are zipped with the ascending header list: a listener is handed a higher block before a lower one'), len(found), where=F.where(n)))
	return out

RULES = [
	('20.j', 'retarget boundary at the header\'s own height; concurrently fetched blocks come back in request order', r20j),
	('20.a', 'validated wrappers are built only behind the PoW / hash / merkle / witness checks', r20a),
	('20.b', 'ChainPoller: previous header only behind validate + check_builds_on; Better only on strictly more chainwork; Common only on equal hash', r20b),
	('20.c', 'Listen notifications come only from the ordering notifier', r20c),
	('20.d', 'synchronize_listener: fetch headers first, disconnect before connect, ascending, tip advances after notification, error carries the tip', r20d),
	('20.e', 'SpvClient.chain_tip is written only from the notifier result', r20e),
	('20.f', 'fork walk steps the higher side and ends on the common block', r20f),
	('20.g', 'check_builds_on refuses non-connecting headers', r20g),
	('20.i', 'a cached previous header is used only after the header leading to it was checked to connect', r20i),
	('20.h', 'start-up sync: disconnect to the fork point, connect only above each listener, abort on fetch failure', r20h),
	('20.v', 'field-versus-field comparisons (a received value against a limit, an id against an id) are the reviewed ones: same fields, same operator (rules/provenance.py)', lambda F: provenance.cmps_for_property(F, 'C20', '20.v')),
	('20.z', 'named protocol / policy constants in this property\'s files have their reviewed values (rules/provenance.py)', lambda F: provenance.consts_for_property(F, 'C20', '20.z')),
	('20.y', 'no reviewed function gained a swallowed error (the Result of a fallible in-crate call dropped; rules/provenance.py)', lambda F: provenance.dr_for_property(F, 'C20', '20.y')),
]
RULES.append(('20.t', 'identity comparisons: every reviewed (function, identity type) == / != comparison (HTLCSource, Txid, OutPoint, ChannelId, PaymentHash, PublicKey, ...) is still made - a function does not silently change what it matches by (rules/provenance.py)', lambda F: provenance.ids_for_property(F, 'C20', '20.t')))
RULES.append(('20.M', 'collection mutations: every reviewed (function, stored collection, mutator class: add / remove / filter / empty / swap / order) triple is still present - an entry that is no longer removed, inserted or drained on one path (rules/mutations.py)', lambda F: mutations.for_property(F, 'C20', '20.M')))
RULES.append(('20.G', 'guard census: no reviewed call of a workspace function and no reviewed mutation of a stored collection gained a controlling branch condition (an added `&& cond`, early return / continue, more specific match arm in front of an act); counts per call site, name free (rules/guards.py)', lambda F: guards.for_property(F, 'C20', '20.G')))

def r20n(F):
	"""listener adapters forward connections and disconnections to the same members: for every type whose Listen impl forwards
	filtered_block_connected to inner listeners (the (T, U) pair that drives a ChainMonitor and a ChannelManager from one SpvClient, the
	ChainListenerSet / DynamicChainListener of the start-up sync, the sweeper wrapper), blocks_disconnected forwards to the same set of
	receivers - a member that hears about new blocks but not about a reorg is handed the new branch on top of its old tip"""
	out = []
	by_type = collections.defaultdict(dict)
	for n in F.fns:
		m = re.match(r'^<(.+) as lightning::chain::Listen>::(filtered_block_connected|blocks_disconnected|block_connected)$', n)
		if m:
			by_type[m.group(1)][m.group(2)] = n
	k = 0
	for ty, ms in sorted(by_type.items()):
		if 'filtered_block_connected' not in ms or 'blocks_disconnected' not in ms:
			continue
		recv = {}
		for meth in ('filtered_block_connected', 'blocks_disconnected'):
			rs = set()
			for fn in [ms[meth]] + list(F.closures_of(ms[meth])):
				fu = F.func(fn)
				ex = Expr(fu)
				for b, ci in fu.calls():
					t = norm(ci.get('t') or ci.get('f') or '')
					if t.endswith('Listen::' + meth) and ci['args']:
						rs.add(re.sub(r'^(deref\()+|\)+$', '', leaf_key(ex.of_operand(ci['args'][0]))))
			recv[meth] = rs
		if not recv['filtered_block_connected']:
			# handles connections itself, or never sees one (DynamicChainListener is used for the disconnection phase of the start-up sync only:
			# its filtered_block_connected is unreachable!()) - not a forwarding adapter
			continue
		k += 1
		ok = recv['filtered_block_connected'] == recv['blocks_disconnected']
		out.append(Result('20.n', ok, ('ok:' if ok else 'siblings:') + 'adapter-forwards-both@' + ty[:50], 'Listen for %s: connections are forwarded to %s, disconnections to %s' % (ty[:60], sorted(recv['filtered_block_connected']), sorted(recv['blocks_disconnected'])) + ('' if ok else ' - a member is told about new blocks but not about the reorg that precedes them (or the other way round)'), len(recv['filtered_block_connected']) + len(recv['blocks_disconnected']), where=F.where(ms['blocks_disconnected'])))
	if k < 3:
		out.append(Result('20.n', False, 'floor:listen-adapters', 'only %d forwarding Listen impls found (expected the pair, the dyn Deref, the sync sweeper and the block-sync wrappers)' % k, k))
	return out

RULES.append(('20.n', 'listener adapters (the (T, U) pair, Deref, the block-sync wrappers) forward connections and disconnections to the same set of members (sibling methods cross-checked)', r20n))
RULES.append(('20.N', 'arithmetic census: per reviewed function the set of operation kinds (group: add/sub, mul, div, rem, shift, bit, min, max, div_ceil ...; flavour: plain / checked / saturating / wrapping) keeps its kinds: no reviewed function lost or gained a kind of arithmetic altogether - a rounding direction (`/` for div_ceil), saturating for checked, min for max (rules/arith.py; counts and value arithmetic itself are not judged)', lambda F: arith.for_property(F, 'C20', '20.N')))
RULES.append(('20.K', 'constant census of linear forms: every comparison (normalised to sum >= K over name-free atoms, a comparison and its negation being one form) and every maximal arithmetic expression of a reviewed function keeps its coefficients and its constant - a dropped or added `+ 1` / `- 1`, `<` for `<=` inside a computed bound, a scale factor applied twice or not at all, swapped operands of a comparison (rules/linforms.py; shapes that appear or disappear are not judged, the guard / arithmetic censuses judge those)', lambda F: linforms.for_property(F, 'C20', '20.K')))
