"""C04 - inbound payments are claimable only if complete and authentic; all-or-nothing (structural part)."""
import collections
from engine import *
import linforms
import obligations
import ordimpls
import provenance
import guards
import arith
import writes
import mutations
import re

CM = 'lightning::ln::channelmanager::ChannelManager::'
CMP = 'lightning::ln::channelmanager::'
IP = 'lightning::ln::inbound_payment::'
OPN = 'lightning::ln::onion_payment::'

EXPLANATION = ('Guarded-act rules on ln::inbound_payment, ln::channelmanager and ln::onion_payment: inbound_payment::verify returns Ok only past an '
	'authentication pass edge (constant-time HMAC comparison true, or the LDK preimage derivation Ok) and past the minimum-amount and expiry '
	'comparisons; the receive pipeline reaches handle_claimable_htlc only through verify Ok (when a recipient-created secret is expected) and '
	'the custom final-CLTV guard; PaymentClaimable is built only in handle_claimable_htlc on the Ok(true) edge of the MPP completion check; '
	'the completion predicate equals its timer-side sibling; a payment being claimed cannot gain parts; claim_payment_internal claims parts only '
	'behind the amount re-check and fails every part otherwise. Also: the custom-CLTV delta bytes are cleared before (never after) the expiry is decoded; what PaymentClaimable reports (amount, deadline, channels) is aggregated over the complete HTLC set after the completing part was added. Decides these conditions on all paths; HMAC/ChaCha correctness and credited amounts '
	'are not decided.')
ASSUMPTIONS = ['fixed_time_eq and the HMAC implementation are correct', 'amount arithmetic is not verified beyond comparison shapes']

def r04a(F):
	fn = IP + 'verify'
	fu = F.func(fn)
	oks = set(ok_return_blocks(fu))
	out = []
	fte = sites_call(fu, ['fixed_time_eq'])
	der = sites_call(fu, [IP + 'derive_ldk_payment_preimage'])
	if len(fte) < 2 or len(der) < 1:
		out.append(Result('04.a', False, 'anchor:auth-sites', 'verify: expected >= 2 fixed_time_eq comparisons and the LDK preimage derivation, found %d / %d' % (len(fte), len(der)), where=F.where(fn)))
		return out
	ds = call_decisions(fu, fte, 'bool') + call_decisions(fu, der, 'result')
	out += P4_guarded(F, '04.a', fu, oks, ds, True, 'payment secret authenticated (HMAC equal / derived preimage matches)')
	out += P4_fail_blocks(F, '04.a', fu, oks, ds, True, 'payment secret authenticated (HMAC equal / derived preimage matches)', min_decisions=3)
	# the HMAC covers info bytes and (user-hash method) the payment hash
	ex = Expr(fu)
	inputs = [expr_str(ex.of_operand(fu.blocks[b]['t'][2]['args'][1])) for b in fu.call_blocks(lambda p: p.endswith('HashEngine::input') or p.endswith('::input'))]
	ok = any('payment_hash' in t for t in inputs) and sum('decrypt_info' in t or 'info_bytes' in t for t in inputs) >= 2
	out.append(Result('04.a', ok, ('ok:' if ok else 'shape:') + 'hmac-inputs', 'HMAC inputs in verify: %s (expected info bytes in both arms and the payment hash in the user-hash arm)' % [t[:40] for t in inputs], len(inputs), where=F.where(fn)))
	# amount and expiry
	out += P7_guard(F, '04.a', fn, 'minimum amount', r'total_msat$', r'min_amt_msat|from_be_bytes', 'Lt', 0, true_reaches=lambda f, b: b in set(err_return_blocks(f)), exclusive=False)
	out += P7_guard(F, '04.a', fn, 'invoice expiry', r'^expiry$|from_be_bytes', r'highest_seen_timestamp$', 'Lt', 0, true_reaches=lambda f, b: b in set(err_return_blocks(f)), exclusive=False)
	for lab, pos, neg in (('minimum amount', r'total_msat$', r'min_amt_msat|from_be_bytes'), ('invoice expiry', r'^expiry$|from_be_bytes', r'highest_seen_timestamp$')):
		ms = match_guards(guards_in(F, fn, False), pos, neg, 0)
		for g, o in ms:
			out += P4_guarded(F, '04.a', fu, oks, g.decisions, False, '%s check passed' % lab, key='verify-ok:' + lab)
	return out

def r04b(F):
	out = []
	out += P1_who_may_call(F, '04.b', [IP + 'verify'], [CM + 'process_receive_htlcs'], floor=1)
	fn = CM + 'process_receive_htlcs'
	fu = F.func(fn)
	acts = set(sites_call(fu, [CM + 'handle_claimable_htlc']))
	vb = sites_call(fu, [IP + 'verify'])
	ds = call_decisions(fu, vb, 'result')
	# exemption: no recipient-created secret is expected (keysend without secret / blinded receive)
	# a switch on a plain bool flag (field of the routing info, not a comparison / call result) whose false edge reaches the act without verify
	exempt = []
	exb = Expr(fu)
	for bi, b in enumerate(fu.blocks):
		t = b['t']
		if t[1] == 'switch' and t[2][0] in ('c', 'm'):
			e = exb.of_operand(t[2])
			while e[0] in ('ref', 'deref'):
				e = e[1]
			is_flag = (e[0] == 'local' and (fu.locals[e[1]].get('ty') or '') == 'bool' and e[1] > fu.argc and not any(d[3][0] in ('bin', 'call', 'un') for d in fu.whole_defs(e[1]))) or (e[0] == 'field' and e[1][0] in ('local', 'field', 'downcast', 'deref'))
			if not is_flag:
				continue
			f_t = [tb for v, tb in t[3] if v == 0]
			if f_t and fu.path([f_t[0]], acts, removed_blocks=set(vb) | {bi} | loop_heads(fu)) is not None and fu.path([t[4]], vb, removed_blocks={bi} | loop_heads(fu)) is not None:
				exempt.append((bi, f_t[0]))
	out += P4_guarded(F, '04.b', fu, acts, ds, True, 'inbound_payment::verify Ok', exempt_edges=exempt)
	out += P4_fail_blocks(F, '04.b', fu, acts, ds, True, 'inbound_payment::verify Ok', stop_blocks=loop_heads(fu))
	n_ex = len(exempt)
	out.append(Result('04.b', n_ex == 1, ('ok:' if n_ex == 1 else 'shape:') + 'exemption-count', 'exactly one branch on has_recipient_created_payment_secret exempts from verification (%d found)' % n_ex, n_ex, where=F.where(fn)))
	# custom min_final_cltv_expiry_delta guard
	ms = [g for g in guards_in(F, fn, False) if 'current_best_block' in g.text() and 'verify(' in g.text() and len(g.nf[0]) == 3]
	ok = any(g.nf[1] in ('Lt', 'Gt') for g in ms)
	out.append(Result('04.b', ok, ('ok:' if ok else 'guard:') + 'custom-final-cltv', 'the invoice-specific min_final_cltv_expiry_delta is enforced: %s' % [g.text()[:100] for g in ms], max(1, len(ms)), where=F.where(fn)))
	for g in ms:
		out += P4_fail_blocks(F, '04.b', fu, acts, g.decisions, False, 'cltv_expiry >= height + custom delta', key='custom-cltv', stop_blocks=loop_heads(fu))
	return out

def r04c(F):
	out = []
	out += P2_construct_census(F, '04.c', 'lightning::events::Event', 'PaymentClaimable', [CM + 'handle_claimable_htlc'], floor=1)
	fn = CM + 'handle_claimable_htlc'
	fu = F.func(fn)
	acts = {b for b, s in sites_construct(fu, 'Event', 'PaymentClaimable')}
	cb = sites_call(fu, [CM + 'check_incoming_mpp_part'])
	ds = call_decisions(fu, cb, 'result')
	out += P4_guarded(F, '04.c', fu, acts, ds, True, 'check_incoming_mpp_part Ok')
	seeds = []
	for b in cb:
		d = fu.blocks[b]['t'][2]['dest']
		if len(d) == 1:
			seeds.append(((lambda dl: (lambda pl: pl[0] == dl and len(pl) == 3 and pl[1] == '@Ok'))(d[0]), 'bool', False))
	ds2, _ = decisions_on(fu, seeds)
	out += P4_guarded(F, '04.c', fu, acts, ds2, True, 'check_incoming_mpp_part returned Ok(true) (payment complete)')
	# 04.e: no new parts while the payment is being claimed; purposes must match
	oks = set(ok_return_blocks(fu)) | acts | set(cb)
	ck = sites_call(fu, ['HashMap::contains_key'])
	out += guarded_by_call(F, '04.e', fn, set(cb), ['HashMap::contains_key'], 'bool', False)
	pe = [b for b, ci in fu.calls() if norm(ci.get('t') or ci.get('f') or '').endswith(('PartialEq::ne', 'PartialEq::eq')) and 'purpose' in expr_str(Expr(fu).of_operand(ci['args'][0])) + expr_str(Expr(fu).of_operand(ci['args'][1]))]
	if not pe:
		out.append(Result('04.e', False, 'guard:purpose', 'handle_claimable_htlc no longer compares the new part\'s purpose with the stored one', where=F.where(fn)))
	else:
		seeds = [call_result_seed(fu, b, 'bool', norm(fu.blocks[b]['t'][2].get('t') or fu.blocks[b]['t'][2].get('f') or '').endswith('::ne')) for b in pe]
		ds3, _ = decisions_on(fu, [s for s in seeds if s])
		out += P4_guarded(F, '04.e', fu, set(cb), ds3, True, 'purpose equals the stored purpose')
	return out

def r04d(F):
	out = []
	fn = CM + 'check_incoming_mpp_part'
	gs = guards_in(F, fn, False)
	comp = [g for g in gs if 'total_mpp' in g.text() or 'total_mpp_amount_msat' in g.text()]
	# complete iff total_intended_recvd_value >= total_mpp_value
	full = [g for g in comp if len(g.nf[0]) == 2 and (g.nf[1], g.nf[2]) in (('Ge', 0), ('Gt', -1), ('Le', 0), ('Lt', 1))]
	prev = [g for g in comp if len(g.nf[0]) == 3]
	ok = len(full) >= 1 and len(prev) >= 1
	out.append(Result('04.d', ok, ('ok:' if ok else 'shape:') + 'completion-cmp', 'MPP completion: %s; already-complete test: %s' % ([g.text() for g in full], [g.text() for g in prev]), len(comp), where=F.where(F.fn(fn))))
	mx = [g for g in gs if g.nf[3] and any(c.endswith('MAX_VALUE_MSAT') for c in g.nf[3])]
	okm = bool(mx) and all(g.nf[1] in ('Ge', 'Gt', 'Le', 'Lt') for g in mx)
	out.append(Result('04.d', okm, ('ok:' if okm else 'shape:') + 'max-value', 'sum of parts is bounded by MAX_VALUE_MSAT: %s' % [g.text() for g in mx], max(1, len(mx)), where=F.where(F.fn(fn))))
	# Ok(true) only on the completion comparison's true edge
	fu = F.func(fn)
	ex = Expr(fu)
	ok_true = set()
	for bi, si, c in ret_assignments(fu):
		if c[0] == 'variant' and c[2] == 'Ok' and si != 'T':
			e = ex.of_operand(fu.blocks[bi]['s'][si][2][4][0])
			if e[0] == 'const' and e[1] == 1:
				ok_true.add(bi)
	for g in full:
		pos = [v for v, c in g.nf[0].items() if c > 0][0]
		ge = (g.nf[1] in ('Ge', 'Gt')) == ('recvd' in pos or 'intended' in pos)
		out += P4_guarded(F, '04.d', fu, ok_true, g.decisions, ge, 'received total >= expected total', key='complete->Ok(true)')
	# timer-side sibling uses the same comparison
	sib = [g for g in guards_in(F, CMP + 'check_mpp_timeout') if 'total_mpp' in g.text()]
	def shape(g):
		terms = g.nf[0]
		pos = [v for v, c in terms.items() if c > 0]
		sign = 1 if pos and ('recvd' in pos[0] or 'intended' in pos[0]) else -1
		op = g.nf[1] if sign == 1 else {'Lt': 'Gt', 'Le': 'Ge', 'Gt': 'Lt', 'Ge': 'Le'}.get(g.nf[1], g.nf[1])
		k = g.nf[2] * sign
		return (op, k) if op in ('Ge', 'Le', 'Eq', 'Ne') else (('Ge', k + 1) if op == 'Gt' else ('Le', k - 1))
	s1 = {shape(g) for g in full}
	s2 = {shape(g) for g in sib}
	oks = bool(s1) and s1 == s2
	# ... and both running totals are made of the same quantity: the amount the sender intended per part (the skimmed-fee case
	# makes `value` smaller than `sender_intended_value`)
	def acc_fields(fnname, guards):
		fu_ = F.func(fnname)
		res = set()
		n = 0
		for g in guards:
			for e in (g.a, g.b):
				stack = [e]
				while stack:
					x = stack.pop()
					if not isinstance(x, tuple):
						continue
					if x[0] == 'local' and len(fu_.defs.get(x[1], [])) >= 2 and (fu_.locals[x[1]].get('ty') or '') == 'u64':
						res |= accumulator_inputs(fu_, x[1])
						n += 1
					stack += [y for y in x[1:] if isinstance(y, tuple)]
		return res, n
	f1, n1 = acc_fields(fn, full)
	f2, n2 = acc_fields(CMP + 'check_mpp_timeout', sib)
	want = {'MppPart.sender_intended_value'}
	okf = n1 >= 1 and n2 >= 1 and f1 == want and f2 == want
	out.append(Result('04.d', okf, ('ok:' if okf else 'sibling:') + 'completion-total-quantity', 'the running totals compared with total_mpp_amount_msat are sums of %s in check_incoming_mpp_part and of %s in check_mpp_timeout (expected MppPart.sender_intended_value in both: a skimmed part has value < sender_intended_value)' % (sorted(f1), sorted(f2)), n1 + n2, where=F.where(F.fn(CMP + 'check_mpp_timeout'))))
	out.append(Result('04.d', oks, ('ok:' if oks else 'sibling:') + 'timer-sibling', 'completion predicate in check_incoming_mpp_part %s equals the one in check_mpp_timeout %s (code comment: "must match exactly")' % (sorted(s1), sorted(s2)), len(full) + len(sib), where=F.where(F.fn(CMP + 'check_mpp_timeout'))))
	return out

def r04f(F):
	out = []
	fn = CM + 'claim_payment_internal'
	fu = F.func(fn)
	claims = set(sites_call(fu, [CM + 'claim_funds_from_hop']))
	gs = [g for g in guards_in(F, fn, False) if 'claimable_amt_msat' in g.text() and 'expected_amt_msat' in g.text()]
	if not gs:
		out.append(Result('04.f', False, 'guard:amount-recheck', 'claim_payment_internal no longer re-checks the claimable amount against the amount reported to the user', where=F.where(fn)))
	for g in gs:
		eq = g.nf[1] == 'Eq'
		out += P4_guarded(F, '04.f', fu, claims, g.decisions, eq, 'claimable amount == amount reported in PaymentClaimable', key='amount-recheck')
	out += guarded_by_call(F, '04.f', fn, claims, ['ClaimablePayments::begin_claiming_payment'], 'result', True)
	# all-or-nothing: when begin_claiming_payment refuses, every returned HTLC is failed back
	fb = set(sites_call(fu, [CM + 'fail_htlc_backwards_internal']))
	ds = call_decisions(fu, sites_call(fu, ['ClaimablePayments::begin_claiming_payment']), 'result')
	ok = False
	for d in ds:
		for e in d.false_edges:
			if fu.reach([e[1]]) & fb:
				ok = True
	out.append(Result('04.f', ok, ('ok:' if ok else 'bypass:') + 'refused-claim-fails-all', 'when the claim is refused the returned HTLCs are failed backwards', len(fb), where=F.where(fn)))
	out += P1_who_may_call(F, '04.f', [CM + 'claim_funds_from_hop'], [CM + 'claim_payment_internal', CM + 'claim_funds_from_htlc_forward_hop'], floor=2)
	# begin_claiming_payment: unknown even custom TLVs refuse the whole payment
	b = F.func(CMP + 'ClaimablePayments::begin_claiming_payment')
	gs2 = [g for g in guards_in(F, b.name) if 'rem(' in g.text() or 'Rem' in g.text()]
	ok2 = any(g.nf[2] in (0, 1) for g in gs2)
	out.append(Result('04.f', ok2, ('ok:' if ok2 else 'guard:') + 'even-custom-tlv', 'begin_claiming_payment tests custom TLV type parity: %s' % [g.text()[:60] for g in gs2], max(1, len(gs2)), where=F.where(b.name)))
	return out

def r04g(F):
	out = []
	fn = OPN + 'create_recv_pending_htlc_info'
	out += P7_guard(F, '04.g', fn, 'onion cltv <= htlc cltv', r'cltv_expiry$', r'^cltv_expiry$', 'Gt', 0, true_reaches=constructs_pred('LocalHTLCFailureReason', 'FinalIncorrectCLTVExpiry')) if False else []
	gs = guards_in(F, fn, False)
	c1 = [g for g in gs if g.text().count('cltv_expiry') >= 1 and len(g.nf[0]) == 2 and all('cltv' in v or '_22.4' in v or 'onion' in v for v in g.nf[0])]
	okc = any(g.nf[1] in ('Gt', 'Lt') and g.nf[2] == 0 for g in c1)
	out.append(Result('04.g', okc, ('ok:' if okc else 'guard:') + 'final-cltv', 'final hop rejects onion cltv greater than the HTLC cltv: %s' % [g.text() for g in c1], max(1, len(c1)), where=F.where(F.fn(fn))))
	am = [g for g in gs if 'amt_msat' in g.text()]
	oka = len(am) >= 2 and all(g.nf[1] in ('Gt', 'Lt') for g in am)
	out.append(Result('04.g', oka, ('ok:' if oka else 'guard:') + 'final-amount', 'final hop rejects underpayment (with and without skimmed fee): %s' % [g.text() for g in am], max(1, len(am)), where=F.where(F.fn(fn))))
	fu = F.func(fn)
	oks = set(ok_return_blocks(fu))
	for g in am + [g for g in c1 if g.nf[2] == 0]:
		out += P4_fail_blocks(F, '04.g', fu, oks, g.decisions, False, 'final-hop amount/cltv check', key='final-hop:%d' % g.line) if False else []
	return out

def r04h(F):
	"""the payment-secret expiry shares its field with the custom min-final-CLTV delta: writer, delta reader and expiry reader agree on the bytes"""
	out = []
	ex_names = {}
	def accesses(fn, kind, pred):
		fu = F.func(fn)
		ex = Expr(fu)
		got = set()
		for bi, k, base, idx, rv, line in const_index_accesses(fu):
			if k != kind:
				continue
			if pred(fu, ex, base, rv):
				got.add(idx)
		return fu, got
	# writer: construct_info_bytes ORs the big-endian delta into these bytes of the expiry field
	def is_or(fu, ex, base, rv):
		return rv is not None and rv[0] == 'bin' and rv[1] == 'BitOr'
	try:
		wf, w_idx = accesses(IP + 'construct_info_bytes', 'w', is_or)
	except AnchorMissing as e:
		return [Result('04.h', False, 'anchor:construct_info_bytes', 'anchor missing: %s' % e)]
	# keep only the ORs whose right operand comes from the delta's to_be_bytes
	wfu = F.func(IP + 'construct_info_bytes')
	wex = Expr(wfu)
	w_idx = set()
	for bi, k, base, idx, rv, line in const_index_accesses(wfu):
		if k == 'w' and rv is not None and rv[0] == 'bin' and rv[1] == 'BitOr':
			e = wex.of_rvalue(rv)
			if any(c.endswith('to_be_bytes') for c in expr_leaves(e)['calls']) and 'payment_type' not in expr_str(e):
				src = [a for a in (e[2], e[3])]
				if any('min_final_cltv_expiry_delta' in expr_str(a) or 'to_be_bytes' in expr_str(a) and 'expiry_timestamp' not in expr_str(a) for a in src):
					w_idx.add(idx)
	# delta reader
	rfu = F.func(IP + 'min_final_cltv_expiry_delta_from_info')
	r_idx = {idx for bi, k, base, idx, rv, line in const_index_accesses(rfu) if k == 'r'}
	# expiry reader: verify clears (x & 0) these bytes before from_be_bytes
	vfu = F.func(IP + 'verify')
	vex = Expr(vfu)
	c_idx = set()
	clear_blocks = set()
	for bi, k, base, idx, rv, line in const_index_accesses(vfu):
		if k == 'w' and rv is not None and rv[0] == 'bin' and rv[1] == 'BitAnd':
			e = vex.of_rvalue(rv)
			if (e[3][0] == 'const' and e[3][1] == 0) or (e[2][0] == 'const' and e[2][1] == 0):
				c_idx.add(idx)
				clear_blocks.add(bi)
		elif k == 'w' and rv is not None and rv[0] == 'use' and rv[1][0] == 'k' and rv[1][1].get('v') == 0 and vfu.local_name(base[0]) and 'expiry' in (vfu.local_name(base[0]) or ''):
			c_idx.add(idx)
			clear_blocks.add(bi)
	ok = w_idx == r_idx == c_idx and len(w_idx) == 2
	out.append(Result('04.h', ok, ('ok:' if ok else 'bytes:') + 'delta-bytes-agree', 'bytes of the expiry field that carry the custom CLTV delta: written %s, read as delta %s, cleared before the expiry is decoded %s (must be the same two bytes: an uncleared delta byte inflates the decoded expiry so the secret never expires)' % (sorted(w_idx), sorted(r_idx), sorted(c_idx)), len(w_idx) + len(r_idx) + len(c_idx), where=F.where(vfu.name)))
	# the clearing precedes the decoding of the expiry on every path through the custom-CLTV arms, and happens only there
	dec = [b for b, ci in vfu.calls() if norm(ci.get('f') or '').endswith('from_be_bytes') and 'expiry' in expr_str(vex.of_operand(ci['args'][0]))]
	vs = enum_variants(F, IP + 'Method')
	custom = [v for v in vs if 'CustomFinalCltv' in v]
	oka = bool(dec) and bool(clear_blocks) and len(custom) == 2
	out.append(Result('04.h', oka, ('ok:' if oka else 'anchor:') + 'expiry-decode-site', 'verify decodes the expiry with from_be_bytes after the method switch (%d decode site(s), %d custom-CLTV methods)' % (len(dec), len(custom)), len(dec), where=F.where(vfu.name)))
	if oka:
		late = vfu.path(dec, sorted(clear_blocks))
		fed = all(vfu.reach([c]) & set(dec) for c in clear_blocks)
		oko = late is None and fed
		out.append(Result('04.h', oko, ('ok:' if oko else 'order:') + 'cleared-before-decoded', 'the delta bytes are cleared before the expiry is decoded, never after%s' % ('' if oko else ' - the expiry is decoded at line %s and the bytes are cleared only afterwards (lines %s): for a custom-delta secret the decoded expiry still contains the delta << 48 and the secret never expires' % (vfu.line_of(dec[0]), sorted({vfu.line_of(c) for c in clear_blocks}))), len(dec) + len(clear_blocks), where=F.where(vfu.name, vfu.line_of(dec[0]))))
	# the delta returned to the caller (min_final_cltv_expiry_delta) is read by the delta reader in the same arms
	rd = set(sites_call(vfu, [IP + 'min_final_cltv_expiry_delta_from_info']))
	okr = bool(rd) and all(vfu.reach([b]) & clear_blocks for b in rd)
	out.append(Result('04.h', okr, ('ok:' if okr else 'shape:') + 'delta-read-then-cleared', 'where verify reads the custom delta it also clears those bytes', len(rd), where=F.where(vfu.name)))
	# the 48-bit bound at creation keeps the timestamp out of the delta bytes
	gs = [Guard(wfu, c) for c in comparisons(wfu)]
	b48 = [g for g in gs if g.nf[2] in ((1 << 48) - 1, (1 << 48)) and any('expiry' in v or 'calculate_absolute_expiry' in v for v in g.nf[0])]
	okb = len(b48) == 1 and ((b48[0].op, b48[0].nf[2]) in (('Gt', (1 << 48) - 1), ('Ge', 1 << 48)))
	out.append(Result('04.h', okb, ('ok:' if okb else 'guard:') + 'timestamp-fits-48-bits', 'construct_info_bytes refuses an expiry timestamp above 2^48-1 when a custom delta is stored (%s)' % [g.text()[:80] for g in b48], len(gs), where=F.where(wfu.name)))
	return out

def r04i(F):
	"""what PaymentClaimable tells the user (amount, skimmed fee, claim deadline, channels) is computed from the complete HTLC set, i.e. after
	the part that completed the payment was added by check_incoming_mpp_part"""
	out = []
	fn = CM + 'handle_claimable_htlc'
	fu = F.func(fn)
	cb = set(sites_call(fu, [CM + 'check_incoming_mpp_part']))
	if len(cb) != 1:
		return [Result('04.i', False, 'anchor:check_incoming_mpp_part', 'handle_claimable_htlc: expected one call of check_incoming_mpp_part, found %d' % len(cb), where=F.where(fn))]
	agg = [b for b, ci in fu.calls() if norm(ci.get('f') or ci.get('t') or '').rsplit('::', 1)[-1] in ('min', 'max', 'sum', 'fold', 'min_by_key', 'total_counterparty_skimmed_msat', 'receiving_channel_ids', 'inbound_payment_id')]
	early = [b for b in agg if fu.path([0], [b], removed_blocks=cb) is not None]
	ok = len(agg) >= 4 and not early
	out.append(Result('04.i', ok, ('ok:' if ok else 'stale:') + 'event-fields-from-complete-set', 'handle_claimable_htlc: the %d aggregations over the payment\'s HTLC set (sum / min / skimmed fee / channel ids) all happen after check_incoming_mpp_part added the new part%s' % (len(agg), '' if not early else ' - computed before the part is added at lines %s: the reported amount / claim deadline ignores the part that completed the payment' % sorted({fu.line_of(b) for b in early})), len(agg), where=F.where(fn, fu.line_of(sorted(early)[0]) if early else None)))
	# and the deadline field is fed by a minimum taken there
	acts = sites_construct(fu, 'Event', 'PaymentClaimable')
	ex = Expr(fu)
	okd = False
	for b, si in acts:
		rv = fu.blocks[b]['s'][si][2]
		if 'claim_deadline' in rv[5]:
			e = ex.of_operand(rv[4][rv[5].index('claim_deadline')])
			okd = any(c.endswith('Iterator::min') for c in expr_leaves(e)['calls'])
			# `match iter.min() { Some(d) => d, None => fallback }`: the value is a local assigned in both arms
			for m in re.finditer(r'\b_(\d+)\b', expr_str(e)):
				for bi, si2, pl, rv2 in fu.defs.get(int(m.group(1)), []):
					if len(pl) == 1 and any(c.endswith('Iterator::min') for c in expr_leaves(ex.of_rvalue(rv2))['calls']):
						okd = True
	out.append(Result('04.i', okd, ('ok:' if okd else 'shape:') + 'deadline-is-minimum', 'PaymentClaimable.claim_deadline derives from Iterator::min over the parts', len(acts), where=F.where(fn)))
	return out

def r04j(F):
	"""what the receive checks rely on survives a restart: (i) the block-time clock used for the payment-secret expiry test is restored from the
	slot it was written to (12.j: ChannelManager positional slots pair by type, no restored field is written as a constant); (ii) a held
	payment part comes back with its own amounts - the ClaimableHTLC TLV table is restored field by field (12.a crossed / 12.i wrong-source)"""
	import C12
	out = []
	for r in C12.r12j(F):
		r.rule = '04.j'
		out.append(r)
	n_claimable = 0
	for fn_ in (C12.r12a, C12.r12i):
		for r in fn_(F):
			if 'ClaimableHTLC' in r.key or (not r.ok and ('ClaimableHTLC' in r.msg or 'write_claimable_htlc' in r.msg)):
				r.rule = '04.j'
				out.append(r)
				n_claimable += 1
	if n_claimable < 1:
		out.append(Result('04.j', False, 'anchor:claimable-htlc-table', 'the ClaimableHTLC TLV writer/reader pair was not found'))
	return out

def _closure_tests_even(F, cname):
	"""does the closure body compute `x % 2` and compare it with 0 / 1?"""
	try:
		cu = F.func(cname)
	except AnchorMissing:
		return False
	for g in [Guard(cu, c) for c in comparisons(cu)]:
		txt = g.text()
		if 'Rem' in txt and g.nf[1] in ('Eq', 'Ne') and g.nf[2] in (0, 1):
			return True
	return False

def r04k(F):
	"""onion fields agree across parts: the even (must-understand) custom TLVs of BOTH parts take part in the comparison"""
	fn = 'lightning::ln::outbound_payment::RecipientOnionFields::check_merge'
	fu = F.func(fn)
	ex = Expr(fu)
	srcs = {}
	for b, ci in fu.calls():
		callee = norm(ci.get('t') or ci.get('f') or '')
		if not callee.endswith('Iterator::filter') or len(ci['args']) < 2:
			continue
		recv = expr_str(ex.of_operand(ci['args'][0]))
		clo = ex.of_operand(ci['args'][1])
		cname = clo[1] if clo[0] == 'agg' else None
		m = re.search(r'\{closure#\d+\}', expr_str(clo))
		if not m:
			continue
		cn = fn + '::' + m.group(0)
		if not _closure_tests_even(F, cn):
			continue
		if 'custom_tlvs' in recv:
			side = 'further' if 'further' in recv else 'self'
			srcs.setdefault(side, []).append(fu.line_of(b))
	ok = 'self' in srcs and 'further' in srcs
	return [Result('04.k', ok, ('ok:' if ok else 'onesided:') + 'even-tlvs-both-sides',
		'check_merge: the even custom TLVs are selected (filter on typ %% 2) from %s (expected from both self.custom_tlvs and further_htlc_fields.custom_tlvs: a part carrying an even TLV the other part lacks must be refused whichever arrives first)' % (sorted(srcs) or 'neither list'),
		sum(len(v) for v in srcs.values()) + 1, where=F.where(fn))]

def r04l(F):
	"""a payment received through a phantom SCID is credited the amount the outer onion says is forwarded; only the admission test of the
	unknown-SCID arm ties that amount to the HTLC actually committed (outgoing amount <= incoming amount). Same structural rule as 02.j,
	re-labelled here: without it PaymentClaimable / PaymentClaimed report more than the node is credited."""
	import C02
	out = []
	for r in C02.r02j(F):
		r.rule = '04.l'
		out.append(r)
	return out

RULES = [
	('04.h', 'custom min-final-CLTV delta bytes: creation, delta reader and expiry decoder agree; expiry test uses the cleared value', r04h),
	('04.a', 'inbound_payment::verify: Ok only past authentication, minimum amount and expiry', r04a),
	('04.b', 'receive pipeline: handle_claimable_htlc only through verify Ok (one reviewed exemption) and the custom CLTV guard', r04b),
	('04.c', 'PaymentClaimable only in handle_claimable_htlc on Ok(true) of the completion check; no parts added while claiming; purposes match', r04c),
	('04.i', 'PaymentClaimable amount / deadline / channels are aggregated over the complete HTLC set, after the completing part was added', r04i),
	('04.j', 'restart: the expiry clock and the amounts of held payment parts are restored from what was written', r04j),
	('04.d', 'MPP completion predicate, bounded sum, agreement with the timer-side sibling', r04d),
	('04.f', 'claim only behind the amount re-check; a refused claim fails every part', r04f),
	('04.g', 'final-hop amount and cltv guards', r04g),
	('04.l', 'phantom / intercept receives: the amount taken from the onion is bounded by the HTLC amount (02.j under C04)', r04l),
	('04.k', 'MPP parts agree on their must-understand custom TLVs in both directions', r04k),
	('04.p', 'same-name field transfer: structs carrying this property\'s quantities are filled from the same-named field or a reviewed alias (rules/provenance.py)', lambda F: provenance.for_property(F, 'C04', '04.p')),
	('04.q', 'no call hands a value named like one parameter of the callee to a different parameter (swapped type-compatible arguments; rules/provenance.py)', lambda F: provenance.swaps_for_property(F, 'C04', '04.q')),
	('04.z', 'named protocol / policy constants in this property\'s files have their reviewed values (rules/provenance.py)', lambda F: provenance.consts_for_property(F, 'C04', '04.z')),
	('04.v', 'field-versus-field comparisons (a received value against a limit, an id against an id) are the reviewed ones: same fields, same operator (rules/provenance.py)', lambda F: provenance.cmps_for_property(F, 'C04', '04.v')),
	('04.o', 'hand-written eq / cmp / partial_cmp / hash impls in this property\'s files: same field on both sides, reviewed direction, no reviewed key lost, hash within eq (rules/ordimpls.py)', lambda F: ordimpls.for_property(F, 'C04', '04.o')),
]
RULES.append(('04.u', 'obligation-carrying values returned by workspace calls (to-fail HTLC lists, monitor updates, events, peer messages, claim packages) are never dropped on a path that does not examine them (rules/obligations.py)', lambda F: obligations.for_property(F, 'C04', '04.u')))
RULES.append(('04.M', 'collection mutations: every reviewed (function, stored collection, mutator class: add / remove / filter / empty / swap / order) triple is still present - an entry that is no longer removed, inserted or drained on one path (rules/mutations.py)', lambda F: mutations.for_property(F, 'C04', '04.M')))
RULES.append(('04.G', 'guard census: no reviewed call of a workspace function and no reviewed mutation of a stored collection gained a controlling branch condition (an added `&& cond`, early return / continue, more specific match arm in front of an act); counts per call site, name free (rules/guards.py)', lambda F: guards.for_property(F, 'C04', '04.G')))
RULES.append(('04.W', 'field assignments: every reviewed (function, Type.field) direct assignment is still made - state that a path no longer updates, or updates only conditionally (get_or_insert for an overwrite); generalises NN.R (rules/writes.py)', lambda F: writes.for_property(F, 'C04', '04.W')))

def r04n(F):
	"""payment-secret expiry: the value compared with the clock (`expiry < highest_seen_timestamp`) is decoded from the byte array whose two leading
	bytes - which hold the custom min_final_cltv_expiry_delta for the *CustomFinalCltv methods - are masked to zero in that arm; the array the
	minimum amount is decoded from is masked with nothing but its own method bits (& 31 on byte 0).  Masking the other array leaves the delta in the
	top 16 bits of the expiry: a payment secret registered with a custom delta never expires"""
	fn = 'lightning::ln::inbound_payment::verify'
	fu = F.func(fn)
	ex = Expr(fu)
	# byte arrays and the constants and-ed into their elements
	masks = collections.defaultdict(set)
	for bi, si, s in fu.stmts():
		pl, rv = s[1], s[2]
		if len(pl) == 2 and isinstance(pl[1], str) and pl[1].startswith('[') and rv[0] == 'bin' and rv[1] == 'BitAnd' and rv[3][0] == 'k':
			masks[pl[0]].add(rv[3][1].get('v'))
	def root_array(e):
		for _ in range(12):
			if e[0] in ('ref', 'deref', 'cast'):
				e = e[1]
			elif e[0] == 'call' and e[2]:
				e = e[2][0]
			elif e[0] in ('field', 'downcast'):
				e = e[1]
			else:
				break
		return e[1] if e[0] == 'local' else None
	exp_arr = amt_arr = None
	for c in comparisons(fu):
		a, b = c[4], c[5]
		ks = leaf_key(a) + '|' + leaf_key(b)
		if 'highest_seen_timestamp' in ks and 'from_be_bytes' in ks:
			exp_arr = root_array(a if 'from_be_bytes' in leaf_key(a) else b)
		if 'total_msat' in ks and 'from_be_bytes' in ks:
			amt_arr = root_array(a if 'from_be_bytes' in leaf_key(a) else b)
	if exp_arr is None or amt_arr is None:
		return [Result('04.n', False, 'anchor:expiry-or-amount-comparison', 'verify: the comparison of the decoded expiry with highest_seen_timestamp / of total_msat with the decoded minimum was not found', where=F.where(fn))]
	ok1 = 0 in masks.get(exp_arr, set())
	ok2 = 0 not in masks.get(amt_arr, set())
	return [
		Result('04.n', ok1, ('ok:' if ok1 else 'shape:') + 'expiry-delta-bytes-masked', 'verify: the byte array the expiry is decoded from has its leading delta bytes masked to zero (masks %s)' % sorted(masks.get(exp_arr, [])) if ok1 else 'verify: the byte array the expiry is decoded from is never masked (masks %s): for the *CustomFinalCltv methods the min_final_cltv_expiry_delta stays in the top 16 bits of the expiry, which is then never below the clock - the payment secret never expires' % sorted(masks.get(exp_arr, [])), 2, where=F.where(fn)),
		Result('04.n', ok2, ('ok:' if ok2 else 'shape:') + 'amount-bytes-not-zeroed', 'verify: the byte array the minimum amount is decoded from keeps all bits but the method bits (masks %s)' % sorted(masks.get(amt_arr, [])) if ok2 else 'verify: bytes of the minimum-amount array are masked to zero (masks %s): minimum amounts of 2^48 msat and more are truncated' % sorted(masks.get(amt_arr, [])), 2, where=F.where(fn)),
	]

RULES.append(('04.n', 'payment-secret expiry: the array the expiry is decoded from has its custom-CLTV-delta bytes masked to zero, the amount array does not (data-flow rule on inbound_payment::verify)', r04n))
RULES.append(('04.N', 'arithmetic census: per reviewed function the set of operation kinds (group: add/sub, mul, div, rem, shift, bit, min, max, div_ceil ...; flavour: plain / checked / saturating / wrapping) keeps its kinds: no reviewed function lost or gained a kind of arithmetic altogether - a rounding direction (`/` for div_ceil), saturating for checked, min for max (rules/arith.py; counts and value arithmetic itself are not judged)', lambda F: arith.for_property(F, 'C04', '04.N')))
RULES.append(('04.K', 'constant census of linear forms: every comparison (normalised to sum >= K over name-free atoms, a comparison and its negation being one form) and every maximal arithmetic expression of a reviewed function keeps its coefficients and its constant - a dropped or added `+ 1` / `- 1`, `<` for `<=` inside a computed bound, a scale factor applied twice or not at all, swapped operands of a comparison (rules/linforms.py; shapes that appear or disappear are not judged, the guard / arithmetic censuses judge those)', lambda F: linforms.for_property(F, 'C04', '04.K')))
