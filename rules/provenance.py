"""Same-name field transfer census (shared by several rule tables).

When a struct / enum-variant construction fills field `f` directly from a field read `x.g` (through deref / clone / Some / casts), then
either g == f or the triple (ADT::variant, f, g) is in the reviewed alias table (rules/provenance_aliases.json: one line per triple,
each read against the code: e.g. UpdateFulfillHTLC.payment_preimage <- Fulfill.preimage, CommonOpenChannelFields.dust_limit_satoshis <-
holder_dust_limit_satoshis).  A value taken from a wrong-but-type-compatible field (amount <- skimmed amount, base fee <- proportional fee,
previous <- current) produces a triple outside the table.  Locals and call results are not judged (no names of locals are used)."""
import json, os
from engine import *

_ALIASES = None

def aliases():
	global _ALIASES
	if _ALIASES is None:
		p = os.path.join(os.path.dirname(os.path.abspath(__file__)), 'provenance_aliases.json')
		_ALIASES = {tuple(x) for x in json.load(open(p))}
	return _ALIASES

_STRIP_CALLS = ('clone', 'into', 'to_owned', 'copied', 'cloned', 'as_ref')

def strip(e):
	while True:
		k = e[0]
		if k in ('deref', 'ref', 'cast'):
			e = e[1]
			continue
		if k == 'call' and (e[1] or '').rsplit('::', 1)[-1] in _STRIP_CALLS and len(e[2]) == 1:
			e = e[2][0]
			continue
		if k == 'agg' and e[2] == 'Some' and len(e[3]) == 1:
			e = e[3][0]
			continue
		return e

_CENSUS = {}

def census(F, prefix='lightning::'):
	"""[(adt_tail::variant, field, source field, function, line)] for every field-read transfer in non-derived code"""
	key = (F.dir, prefix)
	if key in _CENSUS:
		return _CENSUS[key]
	out = []
	for n, r in F.fns.items():
		if not n.startswith(prefix):
			continue
		if 'ser_macros' in r['file'] or 'Clone>::clone' in n or n.endswith('::fmt') or 'Readable' in n or n.endswith('::read'):
			continue
		try:
			fu = F.func(n)
		except AnchorMissing:
			continue
		ex = None
		for bi, si, st in fu.stmts():
			rv = st[2]
			if rv[0] == 'agg' and rv[1] == 'adt' and rv[5] and len(rv[5]) >= 1:
				if ex is None:
					ex = Expr(fu, max_depth=10)
				tail = norm(rv[2]).rsplit('::', 1)[-1] + '::' + str(rv[3])
				for nm, o in zip(rv[5], rv[4]):
					if str(nm).isdigit():
						continue
					e = strip(ex.of_operand(o))
					if e[0] == 'field' and not str(e[2]).isdigit():
						out.append((tail, nm, e[2], n, fu.line_of(bi)))
	_CENSUS[key] = out
	return out

def rule(F, rule_id, adts, floor=1):
	"""adts: iterable of ADT tails ('UpdateAddHTLC', 'Event::PaymentClaimed' (variant-specific) ...). One result per ADT."""
	al = aliases()
	cs = census(F)
	out = []
	for a in adts:
		rows = [c for c in cs if c[0] == a or c[0].split('::')[0] == a]
		bad = [c for c in rows if c[1] != c[2] and (c[0], c[1], c[2]) not in al]
		if len(rows) < floor:
			out.append(Result(rule_id, False, 'anchor:provenance:' + a, 'no construction of %s filling a field from a field read was found (expected >= %d transfers)' % (a, floor)))
			continue
		if bad:
			for c in bad:
				out.append(Result(rule_id, False, 'provenance:%s.%s<-%s' % (c[0], c[1], c[2]),
					'%s: field `%s` of %s is filled from a field named `%s` - not the same-named quantity and not a reviewed alias (wrong-but-type-compatible source?)' % (c[3].rsplit('::', 2)[-2] + '::' + c[3].rsplit('::', 1)[-1], c[1], c[0], c[2]),
					1, where=F.where(c[3], c[4])))
		else:
			out.append(Result(rule_id, True, 'ok:provenance:' + a, '%s: %d field transfers, all from the same-named field or a reviewed alias' % (a, len(rows)), len(rows)))
	return out

# which constructed types are judged under which property (reviewed: the type carries a quantity the property speaks about)
SCOPE = {
	"C01": [
	 "UpdateAddHTLC",
	 "UpdateFulfillHTLC",
	 "UpdateFailHTLC",
	 "UpdateFailMalformedHTLC",
	 "InboundHTLCOutput",
	 "HTLCOutputInCommitment",
	 "CommonOpenChannelFields",
	 "CommonAcceptChannelFields",
	 "ChannelContext",
	 "ChannelPublicKeys",
	 "ChannelTransactionParameters",
	 "OutboundHTLCDetails",
	 "InboundHTLCDetails",
	 "ChannelDetails",
	 "ShutdownResult",
	 "ReestablishResponses",
	 "HTLCAmountDirection",
	 "ChannelConstraints"
	],
	"C02": [
	 "HTLCPreviousHopData",
	 "PendingAddHTLCInfo",
	 "PendingHTLCInfo",
	 "PendingHTLCRouting",
	 "HTLCClaimSource",
	 "MPPClaimHTLCSource",
	 "NextPacketDetails",
	 "HTLCHandlingFailureType",
	 "HTLCLocator",
	 "HTLCForwardInfo",
	 "InboundUpdateAdd",
	 "HTLCSource",
	 "Event::HTLCIntercepted"
	],
	"C03": [
	 "PendingOutboundPayment",
	 "RecentPaymentDetails",
	 "RouteParametersConfig",
	 "Event::PaymentFailed",
	 "Event::PaymentPathFailed",
	 "Event::PaymentPathSuccessful"
	],
	"C04": [
	 "MppPart",
	 "ClaimedHTLC",
	 "RecipientOnionFields",
	 "FinalOnionHopData",
	 "Event::PaymentClaimable",
	 "Event::PaymentClaimed"
	],
	"C05": [
	 "HolderCommitmentPoint"
	],
	"C06": [
	 "RevokedOutput",
	 "RevokedHTLCOutput",
	 "CounterpartyOfferedHTLCOutput",
	 "CounterpartyReceivedHTLCOutput",
	 "CounterpartyCommitmentParameters"
	],
	"C07": [
	 "Balance",
	 "IrrevocablyResolvedHTLC",
	 "DelayedPaymentOutputDescriptor",
	 "StaticPaymentOutputDescriptor",
	 "HolderFundingOutput",
	 "BumpTransactionEvent",
	 "ChannelDerivationParameters",
	 "OnchainEvent",
	 "HTLCUpdate",
	 "WatchedOutput"
	],
	"C09": [
	 "ChannelMonitorUpdate",
	 "ChannelMonitorUpdateStep",
	 "PostMonitorUpdateChanResume",
	 "SignerResumeUpdates"
	],
	"C10": [
	 "BackgroundEvent"
	],
	"C14": [
	 "RoutingInfo",
	 "TailDetails",
	 "NextTrampolineHopInfo",
	 "OnionPacket",
	 "TrampolineOnionPacket",
	 "OnionErrorPacket",
	 "DecodedOnionFailure"
	],
	"C15": [
	 "NoiseState",
	 "PeerDetails"
	],
	"C16": [
	 "RoutingFees",
	 "RouteHintHop",
	 "PaymentParameters",
	 "Payee"
	],
	"C17": [
	 "ChannelInfo",
	 "ChannelUpdateInfo",
	 "NodeAnnouncementDetails"
	]
}

def for_property(F, pid, rule_id):
	return rule(F, rule_id, SCOPE[pid])
