"""Same-name field transfer census (shared by several rule tables).

When a struct / enum-variant construction fills field `f` directly from a field read `x.g` (through deref / clone / Some / casts), then
either g == f or the triple (ADT::variant, f, g) is in the reviewed alias table (rules/provenance_aliases.json: one line per triple,
each read against the code: e.g. UpdateFulfillHTLC.payment_preimage <- Fulfill.preimage, CommonOpenChannelFields.dust_limit_satoshis <-
holder_dust_limit_satoshis).  A value taken from a wrong-but-type-compatible field (amount <- skimmed amount, base fee <- proportional fee,
previous <- current) produces a triple outside the table.  Locals and call results are not judged (no names of locals are used)."""
import json, os, collections
from engine import *

_ALIASES = None

def aliases():
	global _ALIASES
	if _ALIASES is None:
		p = os.path.join(os.path.dirname(os.path.abspath(__file__)), 'provenance_aliases.json')
		_ALIASES = {tuple(x) for x in json.load(open(p))}
	return _ALIASES

_STRIP_CALLS = ('clone', 'into', 'to_owned', 'copied', 'cloned', 'as_ref')

def strip(e):
	while True:
		k = e[0]
		if k in ('deref', 'ref', 'cast'):
			e = e[1]
			continue
		if k == 'call' and (e[1] or '').rsplit('::', 1)[-1] in _STRIP_CALLS and len(e[2]) == 1:
			e = e[2][0]
			continue
		if k == 'agg' and e[2] == 'Some' and len(e[3]) == 1:
			e = e[3][0]
			continue
		return e

_CENSUS = {}

def census(F, prefix='lightning::'):
	"""[(adt_tail::variant, field, source field, function, line)] for every field-read transfer in non-derived code"""
	key = (F.dir, prefix)
	if key in _CENSUS:
		return _CENSUS[key]
	out = []
	for n, r in F.fns.items():
		if not n.startswith(prefix):
			continue
		if 'ser_macros' in r['file'] or 'Clone>::clone' in n or n.endswith('::fmt') or 'Readable' in n or n.endswith('::read'):
			continue
		try:
			fu = F.func(n)
		except AnchorMissing:
			continue
		ex = None
		for bi, si, st in fu.stmts():
			rv = st[2]
			if rv[0] == 'agg' and rv[1] == 'adt' and rv[5] and len(rv[5]) >= 1:
				if ex is None:
					ex = Expr(fu, max_depth=10)
				tail = norm(rv[2]).rsplit('::', 1)[-1] + '::' + str(rv[3])
				for nm, o in zip(rv[5], rv[4]):
					if str(nm).isdigit():
						continue
					e = strip(ex.of_operand(o))
					if e[0] == 'field' and not str(e[2]).isdigit():
						out.append((tail, nm, e[2], n, fu.line_of(bi)))
	_CENSUS[key] = out
	return out

def rule(F, rule_id, adts, floor=1):
	"""adts: iterable of ADT tails ('UpdateAddHTLC', 'Event::PaymentClaimed' (variant-specific) ...). One result per ADT."""
	al = aliases()
	cs = census(F)
	out = []
	for a in adts:
		rows = [c for c in cs if c[0] == a or c[0].split('::')[0] == a]
		bad = [c for c in rows if c[1] != c[2] and (c[0], c[1], c[2]) not in al]
		if len(rows) < floor:
			out.append(Result(rule_id, False, 'anchor:provenance:' + a, 'no construction of %s filling a field from a field read was found (expected >= %d transfers)' % (a, floor)))
			continue
		if bad:
			for c in bad:
				out.append(Result(rule_id, False, 'provenance:%s.%s<-%s' % (c[0], c[1], c[2]),
					'%s: field `%s` of %s is filled from a field named `%s` - not the same-named quantity and not a reviewed alias (wrong-but-type-compatible source?)' % (c[3].rsplit('::', 2)[-2] + '::' + c[3].rsplit('::', 1)[-1], c[1], c[0], c[2]),
					1, where=F.where(c[3], c[4])))
		else:
			out.append(Result(rule_id, True, 'ok:provenance:' + a, '%s: %d field transfers, all from the same-named field or a reviewed alias' % (a, len(rows)), len(rows)))
	return out

# which constructed types are judged under which property (reviewed: the type carries a quantity the property speaks about)
SCOPE = {
	"C01": [
	 "UpdateAddHTLC",
	 "UpdateFulfillHTLC",
	 "UpdateFailHTLC",
	 "UpdateFailMalformedHTLC",
	 "InboundHTLCOutput",
	 "HTLCOutputInCommitment",
	 "CommonOpenChannelFields",
	 "CommonAcceptChannelFields",
	 "ChannelContext",
	 "ChannelPublicKeys",
	 "ChannelTransactionParameters",
	 "OutboundHTLCDetails",
	 "InboundHTLCDetails",
	 "ChannelDetails",
	 "ShutdownResult",
	 "ReestablishResponses",
	 "HTLCAmountDirection",
	 "ChannelConstraints"
	],
	"C02": [
	 "HTLCPreviousHopData",
	 "PendingAddHTLCInfo",
	 "PendingHTLCInfo",
	 "PendingHTLCRouting",
	 "HTLCClaimSource",
	 "MPPClaimHTLCSource",
	 "NextPacketDetails",
	 "HTLCHandlingFailureType",
	 "HTLCLocator",
	 "HTLCForwardInfo",
	 "InboundUpdateAdd",
	 "HTLCSource",
	 "Event::HTLCIntercepted"
	],
	"C03": [
	 "PendingOutboundPayment",
	 "RecentPaymentDetails",
	 "RouteParametersConfig",
	 "Event::PaymentFailed",
	 "Event::PaymentPathFailed",
	 "Event::PaymentPathSuccessful"
	],
	"C04": [
	 "MppPart",
	 "ClaimedHTLC",
	 "RecipientOnionFields",
	 "FinalOnionHopData",
	 "Event::PaymentClaimable",
	 "Event::PaymentClaimed"
	],
	"C05": [
	 "HolderCommitmentPoint"
	],
	"C06": [
	 "RevokedOutput",
	 "RevokedHTLCOutput",
	 "CounterpartyOfferedHTLCOutput",
	 "CounterpartyReceivedHTLCOutput",
	 "CounterpartyCommitmentParameters"
	],
	"C07": [
	 "Balance",
	 "IrrevocablyResolvedHTLC",
	 "DelayedPaymentOutputDescriptor",
	 "StaticPaymentOutputDescriptor",
	 "HolderFundingOutput",
	 "BumpTransactionEvent",
	 "ChannelDerivationParameters",
	 "OnchainEvent",
	 "HTLCUpdate",
	 "WatchedOutput"
	],
	"C09": [
	 "ChannelMonitorUpdate",
	 "ChannelMonitorUpdateStep",
	 "PostMonitorUpdateChanResume",
	 "SignerResumeUpdates"
	],
	"C10": [
	 "BackgroundEvent"
	],
	"C14": [
	 "RoutingInfo",
	 "TailDetails",
	 "NextTrampolineHopInfo",
	 "OnionPacket",
	 "TrampolineOnionPacket",
	 "OnionErrorPacket",
	 "DecodedOnionFailure",
	 "NextPacketDetails"
	],
	"C15": [
	 "NoiseState",
	 "PeerDetails"
	],
	"C16": [
	 "RoutingFees",
	 "RouteHintHop",
	 "PaymentParameters",
	 "Payee"
	],
	"C17": [
	 "ChannelInfo",
	 "ChannelUpdateInfo",
	 "NodeAnnouncementDetails"
	]
}

def for_property(F, pid, rule_id):
	return rule(F, rule_id, SCOPE[pid])

# ----------------------------------------------------------------------------- swapped arguments
# A call  f(.., x.b, ..)  whose argument for parameter `a` is read from a field / variable that carries the name of ANOTHER parameter
# of f (and not of its own) is the signature of two type-compatible arguments handed over in the wrong order
# (holder <-> counterparty, incoming <-> outgoing, previous <-> current).  Today's tree has a handful of such sites which are
# legitimate (`self` handed on as a handler, `msg` handed on as `full_msg`); they are the reviewed exception list.
_SWAP_OK = {
	('generate_claim', 'construct_malleable_package_with_external_funding', 'onchain_handler', 'self'),
	('generate_claim', 'maybe_finalize_malleable_package', 'onchain_handler', 'self'),
	('generate_claim', 'maybe_finalize_untractable_package', 'onchain_handler', 'self'),
	('generate_claim', 'get_maybe_signed_commitment_tx', 'onchain_tx_handler', 'self'),
	('send_payment_for_verified_bolt12_invoice', 'send_payment_for_bolt12_invoice', 'node_id_lookup', 'self'),
	('pay_for_bolt12_invoice', 'pay_for_bolt12_invoice', 'node_id_lookup', 'self'),
	('send_payment_for_static_invoice_no_persist', 'send_payment_for_static_invoice', 'node_id_lookup', 'self'),
	('handle_claimable_htlc', 'check_incoming_mpp_part', 'payment_onion_fields', 'onion_fields'),
	('handle_trampoline_htlc', 'check_incoming_mpp_part', 'payment_onion_fields', 'onion_fields'),
	('do_accept_inbound_channel', 'apply', 'self', 'config'),
	('update_node_from_announcement', 'update_node_from_announcement_intern', 'full_msg', 'msg'),
	('update_channel_from_announcement', 'update_channel_from_unsigned_announcement_intern', 'full_msg', 'msg'),
	('update_channel', 'update_channel_internal', 'full_msg', 'msg'),
	('verify_channel_update', 'update_channel_internal', 'full_msg', 'msg'),
	('penalty_msat', 'success_probability', 'max_liquidity_msat', 'capacity_msat'),
}
_SWAPS = {}

def swapped_args_census(F, prefix='lightning::'):
	if F.dir in _SWAPS:
		return _SWAPS[F.dir]
	pn = {}
	def params(name):
		if name not in pn:
			try:
				cu = F.func(name)
				pn[name] = [cu.vars.get(i) for i in range(1, cu.argc + 1)]
			except AnchorMissing:
				pn[name] = None
		return pn[name]
	hits = []
	judged = collections.Counter()
	for n, r in F.fns.items():
		if not n.startswith(prefix) or 'ser_macros' in r['file']:
			continue
		try:
			fu = F.func(n)
		except AnchorMissing:
			continue
		ex = None
		for b, ci in fu.calls():
			f = norm(ci.get('f') or '')
			if not f.startswith(prefix) or len(ci['args']) < 2:
				continue
			ps = params(f)
			if not ps or len(ps) != len(ci['args']):
				continue
			judged[r['file']] += 1
			if ex is None:
				ex = Expr(fu, max_depth=8)
			for i, a in enumerate(ci['args']):
				e = strip(ex.of_operand(a))
				g = e[2] if (e[0] == 'field' and not str(e[2]).isdigit()) or (e[0] == 'local' and e[2]) else None
				# the user variable the operand is copied from, before transparent `let x = expr;` expansion (`let cur_height = self.best_block.height;
				# f(.., cur_height /* conf_height */, ..)`)
				g0 = None
				l = a[1][0] if a[0] in ('c', 'm') and len(a[1]) == 1 else None
				for _ in range(4):
					if l is None:
						break
					if fu.local_name(l):
						g0 = fu.local_name(l); break
					ds = fu.defs.get(l, [])
					if len(ds) == 1 and ds[0][3][0] == 'use' and ds[0][3][1][0] in ('c', 'm') and len(ds[0][3][1][1]) == 1:
						l = ds[0][3][1][1][0]
					else:
						break
				if g0 and g0 != ps[i] and g0 in ps and g != ps[i]:
					g = g0
				if not g or g == ps[i] or g not in ps:
					continue
				caller = root_fn(n).rsplit('::', 1)[-1]
				hits.append({'file': r['file'], 'caller': caller, 'callee': f.rsplit('::', 1)[-1], 'param': ps[i], 'source': g, 'fn': n, 'line': fu.line_of(b)})
	_SWAPS[F.dir] = (hits, judged)
	return _SWAPS[F.dir]

def swapped_args(F, rule_id, file_res):
	"""file_res: regexes of source files whose calls are judged under this property"""
	import re
	hits, judged = swapped_args_census(F)
	n = sum(c for f, c in judged.items() if any(re.search(x, f) for x in file_res))
	if n == 0:
		return [Result(rule_id, False, 'anchor:swapped-args', 'no call site was judged in %s' % (file_res,))]
	out = []
	for h in hits:
		if not any(re.search(x, h['file']) for x in file_res):
			continue
		if (h['caller'], h['callee'], h['param'], h['source']) in _SWAP_OK:
			continue
		out.append(Result(rule_id, False, 'swapped:%s->%s(%s<-%s)' % (h['caller'], h['callee'], h['param'], h['source']),
			'%s calls %s with parameter `%s` read from `%s`, which is the name of another parameter of %s: two type-compatible arguments in the wrong order?' % (h['caller'], h['callee'], h['param'], h['source'], h['callee']),
			1, where=F.where(h['fn'], h['line'])))
	if not out:
		out.append(Result(rule_id, True, 'ok:swapped-args', '%d in-crate call sites with >= 2 arguments judged in %s: no argument carries the name of a different parameter of its callee (reviewed exceptions aside)' % (n, '|'.join(file_res)), n))
	return out

SWAP_SCOPE = {
	'C01': [r'ln/channel\.rs$', r'ln/chan_utils\.rs$', r'sign/tx_builder\.rs$', r'ln/interactivetxs\.rs$', r'ln/funding\.rs$'],
	'C02': [r'ln/channelmanager\.rs$'],
	'C03': [r'ln/outbound_payment\.rs$'],
	'C04': [r'ln/inbound_payment\.rs$', r'ln/onion_payment\.rs$'],
	'C05': [r'sign/mod\.rs$', r'ln/chan_utils\.rs$'],
	'C06': [r'chain/package\.rs$', r'chain/onchaintx\.rs$', r'chain/channelmonitor\.rs$'],
	'C07': [r'chain/channelmonitor\.rs$', r'chain/chainmonitor\.rs$', r'events/bump_transaction'],
	'C14': [r'ln/onion_utils\.rs$', r'blinded_path/'],
	'C15': [r'ln/peer_handler\.rs$', r'ln/peer_channel_encryptor\.rs$'],
	'C16': [r'routing/router\.rs$', r'routing/scoring\.rs$'],
	'C17': [r'routing/gossip\.rs$', r'routing/utxo\.rs$'],
	'C18': [r'offers/'],
	'C19': [r'util/persist\.rs$'],
}

def swaps_for_property(F, pid, rule_id):
	return swapped_args(F, rule_id, SWAP_SCOPE[pid])

# ----------------------------------------------------------------------------- narrow arithmetic widened afterwards
_WIDTH = {'u8': 8, 'u16': 16, 'u32': 32, 'u64': 64, 'usize': 64, 'u128': 128, 'i8': 8, 'i16': 16, 'i32': 32, 'i64': 64, 'isize': 64}
_NARROW = {}

def narrow_arith_census(F):
	"""(hits, judged-per-file): integer casts from a type of at most 16 bits to a wider one whose operand is the result of an addition,
	multiplication or left shift done in the narrow type: `(len + 16) as usize` wraps where `len as usize + 16` does not.
	Wire lengths are u16, so this is how a near-maximum message turns into a short read or a panic."""
	if F.dir in _NARROW:
		return _NARROW[F.dir]
	hits = []
	judged = collections.Counter()
	for n, r in F.fns.items():
		if not n.startswith('lightning') and not n.startswith('<lightning'):
			continue
		if 'ser_macros' in r['file']:
			continue
		try:
			fu = F.func(n)
		except AnchorMissing:
			continue
		ex = None
		for bi, si, st in fu.stmts():
			rv = st[2]
			if rv[0] == 'cast' and str(rv[1]).startswith('IntToInt') and rv[2][0] in ('c', 'm') and len(rv[2][1]) == 1:
				sty = fu.locals[rv[2][1][0]].get('ty') or ''
				if _WIDTH.get(sty, 99) <= 16 and _WIDTH.get(sty, 99) < _WIDTH.get(rv[3], 0):
					judged[r['file']] += 1
					ex = ex or Expr(fu, max_depth=6)
					e = ex.of_operand(rv[2])
					if e[0] == 'bin' and e[1] in ('Add', 'Mul', 'Shl', 'AddWithOverflow', 'MulWithOverflow', 'AddUnchecked', 'MulUnchecked'):
						hits.append({'file': r['file'], 'fn': n, 'line': st[0], 'from': sty, 'to': rv[3], 'expr': expr_str(e)[-80:]})
	_NARROW[F.dir] = (hits, judged)
	return _NARROW[F.dir]

def narrow_arith(F, rule_id, file_res, floor=1):
	import re
	hits, judged = narrow_arith_census(F)
	n = sum(c for f, c in judged.items() if any(re.search(x, f) for x in file_res))
	if n < floor:
		return [Result(rule_id, False, 'anchor:narrow-arith', 'only %d widening casts from 8/16-bit integers found in %s (expected >= %d)' % (n, file_res, floor))]
	out = []
	for h in hits:
		if any(re.search(x, h['file']) for x in file_res):
			out.append(Result(rule_id, False, 'width:%s' % h['fn'].rsplit('::', 1)[-1], '%s: `%s` is computed in %s and only then widened to %s: it wraps at the top of the %s range (a length / count near the maximum is mis-sized)' % (h['fn'].rsplit('::', 1)[-1], h['expr'], h['from'], h['to'], h['from']), 1, where=F.where(h['fn'], h['line'])))
	if not out:
		out.append(Result(rule_id, True, 'ok:narrow-arith', '%d widening casts from 8/16-bit integers in %s: none widens the result of an addition / multiplication / shift done in the narrow type' % (n, '|'.join(file_res)), n))
	return out

NARROW_SCOPE = {
	'C13': [r'ln/msgs\.rs$', r'ln/wire\.rs$', r'util/ser\.rs$', r'onion_message/packet\.rs$', r'lightning-types/'],
	'C14': [r'ln/onion_utils\.rs$', r'onion_message/', r'blinded_path/'],
	'C15': [r'ln/peer_handler\.rs$', r'ln/peer_channel_encryptor\.rs$'],
	'C18': [r'offers/', r'lightning-invoice/'],
}

def narrow_for_property(F, pid, rule_id):
	return narrow_arith(F, rule_id, NARROW_SCOPE[pid])

# ----------------------------------------------------------------------------- field-versus-field comparison census
# Comparisons whose two sides are both plain field reads (a received parameter against a configured limit, a stored id against a
# message's id) are few (65 on today's tree) and each states a protocol rule.  The table rules/provenance_cmps.json freezes, per function,
# which field is compared with which and with what operator (orientation-normalised: the lexicographically smaller field name first).
# A wrong-but-type-compatible field (minimum for maximum), a flipped or loosened operator (< for <=) produces a key outside the table.
_CMPS = {}
_CMP_TABLE = None
# comparisons that exist only inside debug assertions (the dev profile of the thorough tier sees them, the release profile does not)
_DEBUG_ONLY_CMPS = {('ln/channel.rs', 'get_available_balances_for_scope', 'next_outbound_htlc_limit_msat', 'next_outbound_htlc_minimum_msat', 'Ge')}
_FLIP = {'Lt': 'Gt', 'Le': 'Ge', 'Gt': 'Lt', 'Ge': 'Le', 'Eq': 'Eq', 'Ne': 'Ne'}

def cmp_table():
	global _CMP_TABLE
	if _CMP_TABLE is None:
		p = os.path.join(os.path.dirname(os.path.abspath(__file__)), 'provenance_cmps.json')
		_CMP_TABLE = {tuple(x) for x in json.load(open(p))}
	return _CMP_TABLE

def _as_field(e):
	"""a closure that captures `x.f` by disjoint capture sees it as an upvar named x__f: treat it as the field read it is"""
	if e[0] == 'local' and e[2] and '__' in e[2]:
		return ('field', None, e[2].rsplit('__', 1)[-1], None)
	return e

def cmp_census(F, prefix='lightning'):
	if F.dir in _CMPS:
		return _CMPS[F.dir]
	rows = []
	for n, r in F.fns.items():
		if not n.startswith(prefix) or 'ser_macros' in r['file']:
			continue
		try:
			fu = F.func(n)
		except AnchorMissing:
			continue
		flabel = r['file'].split('src/')[-1] if 'src/' in r['file'] else r['file']
		for bi, si, dl, op, a, b in comparisons(fu):
			ea, eb = _as_field(strip(a)), _as_field(strip(b))
			if ea[0] == 'field' and eb[0] == 'field' and not str(ea[2]).isdigit() and not str(eb[2]).isdigit():
				fa, fb = ea[2], eb[2]
				if fa > fb:
					fa, fb, op = fb, fa, _FLIP[op]
				rows.append({'file': r['file'], 'fn': n, 'line': fu.blocks[bi]['s'][si][0], 'key': (flabel, root_fn(n).rsplit('::', 1)[-1], fa, fb, op)})
		# identity tests through PartialEq (ids, outpoints, keys, hashes): `a.x == b.y` on non-integer types is a call
		cex = None
		for b, ci in fu.calls():
			nm = norm(ci.get('t') or ci.get('f') or '')
			if not (nm.endswith('PartialEq::eq') or nm.endswith('PartialEq::ne')) or len(ci['args']) != 2:
				continue
			cex = cex or Expr(fu, max_depth=8)
			ea, eb = _as_field(strip(cex.of_operand(ci['args'][0]))), _as_field(strip(cex.of_operand(ci['args'][1])))
			if ea[0] == 'field' and eb[0] == 'field' and not str(ea[2]).isdigit() and not str(eb[2]).isdigit():
				fa, fb = sorted((ea[2], eb[2]))
				rows.append({'file': r['file'], 'fn': n, 'line': fu.line_of(b), 'key': (flabel, root_fn(n).rsplit('::', 1)[-1], fa, fb, 'Eq' if nm.endswith('::eq') else 'Ne')})
	_CMPS[F.dir] = rows
	return rows

def cmp_rule(F, rule_id, file_res, floor=1):
	import re
	rows = [x for x in cmp_census(F) if any(re.search(p, x['file']) for p in file_res)]
	if len(rows) < floor:
		return [Result(rule_id, False, 'anchor:field-comparisons', 'only %d field-versus-field comparisons found in %s (expected >= %d)' % (len(rows), file_res, floor))]
	tab = cmp_table()
	out = []
	for x in rows:
		if x['key'] not in tab:
			fl, fn, fa, fb, op = x['key']
			near = sorted(k for k in tab if k[0] == fl and k[1] == fn and (k[2] in (fa, fb) or k[3] in (fa, fb)))
			out.append(Result(rule_id, False, 'cmp:%s:%s %s %s' % (fn, fa, op, fb), '%s compares field `%s` %s field `%s`: not one of the reviewed field-versus-field comparisons of this function%s (wrong field, or a flipped / loosened operator?)' % (fn, fa, op, fb, (' - reviewed there: %s' % [' '.join(k[2:]) for k in near]) if near else ''), 1, where=F.where(x['fn'], x['line'])))
	# reviewed comparisons of these files that disappeared while their function is still there (a dropped limit check)
	have = {x['key'] for x in rows}
	tails = {}
	for n, r in F.fns.items():
		if any(re.search(p, r['file']) for p in file_res):
			tails.setdefault(r['file'].split('src/')[-1] if 'src/' in r['file'] else r['file'], set()).add(root_fn(n).rsplit('::', 1)[-1])
	for k in sorted(tab):
		if k in _DEBUG_ONLY_CMPS:
			continue   # exists only with debug assertions on (dev profile)
		if any(re.search(p, k[0]) or re.search(p, 'x/src/' + k[0]) for p in file_res) and k not in have and k[1] in tails.get(k[0], ()):
			out.append(Result(rule_id, False, 'cmp-dropped:%s:%s %s %s' % (k[1], k[2], k[4], k[3]), '%s no longer compares field `%s` %s field `%s` (a reviewed limit / identity check disappeared or changed)' % (k[1], k[2], k[4], k[3]), 1))
	if not out:
		out.append(Result(rule_id, True, 'ok:field-comparisons', '%d field-versus-field comparisons in %s, all in the reviewed table and none of the table missing' % (len(rows), '|'.join(file_res)), len(rows)))
	return out

CMP_SCOPE = {
	'C01': [r'ln/channel\.rs$', r'ln/chan_utils\.rs$', r'sign/tx_builder\.rs$', r'ln/funding\.rs$'],
	'C02': [r'ln/channelmanager\.rs$'],
	'C03': [r'ln/outbound_payment\.rs$'],
	'C04': [r'ln/outbound_payment\.rs$', r'ln/inbound_payment\.rs$'],
	'C06': [r'chain/package\.rs$', r'chain/channelmonitor\.rs$', r'chain/onchaintx\.rs$', r'ln/chan_utils\.rs$'],
	'C07': [r'chain/channelmonitor\.rs$', r'chain/package\.rs$', r'chain/onchaintx\.rs$', r'ln/chan_utils\.rs$'],
	'C10': [r'ln/channelmanager\.rs$'],
	'C11': [r'chain/channelmonitor\.rs$', r'chain/mod\.rs$'],
	'C13': [r'util/ser\.rs$'],
	'C15': [r'ln/peer_handler\.rs$'],
	'C16': [r'routing/router\.rs$'],
	'C17': [r'routing/gossip\.rs$'],
	'C20': [r'lightning-block-sync/src/'],
}

def cmps_for_property(F, pid, rule_id):
	return cmp_rule(F, rule_id, CMP_SCOPE[pid])

# ----------------------------------------------------------------------------- constants census
# Every named integer / bool constant of the workspace crates has the value it had when the table was reviewed
# (rules/provenance_consts.json, generated from consts.tsv of both profiles).  Changing a protocol constant - a weight, a timeout in
# ticks or blocks, a wire type, a TLV range bound, a limit - changes behaviour by definition; relations between the CLTV constants are
# checked separately (08.a).  Removed or new constants are not judged.
_CONST_TABLE = None

def const_table():
	global _CONST_TABLE
	if _CONST_TABLE is None:
		p = os.path.join(os.path.dirname(os.path.abspath(__file__)), 'provenance_consts.json')
		_CONST_TABLE = json.load(open(p))
	return _CONST_TABLE

def const_files(F):
	"""def path -> source file of every evaluated constant"""
	if not hasattr(F, '_const_files'):
		m = {}
		for c in F.crates:
			for l in open(os.path.join(F.dir, c, 'consts.tsv')):
				p = l.rstrip('\n').split('\t')
				if len(p) >= 4:
					m[norm(p[0])] = p[3]
		F._const_files = m
	return F._const_files

def const_rule(F, rule_id, file_res, floor=1):
	import re
	tab = const_table()
	files = const_files(F)
	out = []
	n = 0
	for name, val in sorted(F.consts.items()):
		f = files.get(name, '')
		if not any(re.search(p, f) for p in file_res):
			continue
		if name not in tab:
			continue
		n += 1
		if tab[name] != val:
			out.append(Result(rule_id, False, 'const:%s' % name.rsplit('::', 2)[-2] + '::' + name.rsplit('::', 1)[-1], 'constant %s is %s, reviewed value %s (a protocol / policy constant changed)' % (name, val, tab[name]), 1, where=f))
	if n < floor:
		return [Result(rule_id, False, 'anchor:constants', 'only %d reviewed constants found in %s (expected >= %d)' % (n, file_res, floor))]
	if not out:
		out.append(Result(rule_id, True, 'ok:constants', '%d named constants in %s have their reviewed values' % (n, '|'.join(file_res)), n))
	return out

CONST_SCOPE = {
	'C01': ([r'ln/channel\.rs$', r'ln/chan_utils\.rs$', r'sign/tx_builder\.rs$', r'ln/interactivetxs\.rs$', r'ln/funding\.rs$'], 40),
	'C02': ([r'ln/channelmanager\.rs$'], 10),
	'C04': ([r'ln/inbound_payment\.rs$', r'ln/channelmanager\.rs$'], 10),
	'C05': ([r'sign/', r'ln/chan_utils\.rs$'], 10),
	'C06': ([r'chain/package\.rs$', r'chain/onchaintx\.rs$', r'chain/channelmonitor\.rs$'], 10),
	'C07': ([r'chain/package\.rs$', r'chain/onchaintx\.rs$', r'chain/channelmonitor\.rs$', r'ln/chan_utils\.rs$', r'util/anchor_channel_reserves\.rs$', r'events/bump_transaction'], 20),
	'C08': ([r'chain/channelmonitor\.rs$', r'ln/channelmanager\.rs$'], 10),
	'C13': ([r'ln/wire\.rs$', r'ln/msgs\.rs$', r'util/ser\.rs$', r'lightning-types/'], 50),
	'C14': ([r'ln/onion_utils\.rs$', r'onion_message/', r'blinded_path/'], 15),
	'C15': ([r'ln/peer_handler\.rs$', r'ln/peer_channel_encryptor\.rs$'], 3),
	'C16': ([r'routing/router\.rs$', r'routing/scoring\.rs$', r'routing/log_approx\.rs$'], 10),
	'C17': ([r'routing/gossip\.rs$', r'util/scid_utils\.rs$', r'routing/utxo\.rs$', r'lightning-rapid-gossip-sync/'], 10),
	'C18': ([r'offers/', r'lightning-invoice/'], 15),
	'C19': ([r'util/persist\.rs$', r'lightning-persister/'], 3),
	'C20': ([r'lightning-block-sync/'], 1),
}

def consts_for_property(F, pid, rule_id):
	res, floor = CONST_SCOPE[pid]
	return const_rule(F, rule_id, res, floor)

# ----------------------------------------------------------------------------- fixed-array range indexing stays in bounds
_INT_MAX = {'u8': 255, 'u16': 65535, 'bool': 1}
_ARR = {}

def _fresh_read(e):
	while isinstance(e, tuple) and e[0] in ('field', 'downcast', 'deref', 'ref'):
		e = e[1]
	if isinstance(e, tuple) and e[0] == 'call':
		tail = (e[1] or '').rsplit('::', 1)[-1]
		if tail in ('branch', 'unwrap', 'expect') and e[2]:
			return _fresh_read(e[2][0])
		return tail in ('read', 'read_from_fixed_length_buffer')
	return False

def upper_bound(e, depth=0):
	"""a sound upper bound of an unsigned integer expression, or None when nothing is known: constants, casts from u8 / u16 (the source
	type bounds the value), min(a, b), sums and products of bounded terms, `x % c`, `c - x`"""
	if depth > 12 or not isinstance(e, tuple):
		return None
	k = e[0]
	if k == 'const':
		return e[1] if isinstance(e[1], int) else None
	if k == 'cast':
		ub = upper_bound(e[1], depth + 1)
		# the source type bounds a value that was just decoded from the wire (the payload of a `read` call); a stored field may
		# carry a tighter invariant established by its constructor, so nothing is assumed about it
		tm = _INT_MAX.get(e[3]) if len(e) > 3 and _fresh_read(e[1]) else None
		if ub is None:
			return tm
		return min(ub, tm) if tm is not None else ub
	if k in ('deref', 'ref'):
		return upper_bound(e[1], depth + 1)
	if k == 'call':
		tail = (e[1] or '').rsplit('::', 1)[-1]
		if tail == 'min' and len(e[2]) == 2:
			a, b = upper_bound(e[2][0], depth + 1), upper_bound(e[2][1], depth + 1)
			if a is None:
				return b
			return a if b is None else min(a, b)
		return None
	if k == 'bin':
		op = e[1]
		a, b = upper_bound(e[2], depth + 1), upper_bound(e[3], depth + 1)
		if op.startswith('Add') and a is not None and b is not None:
			return a + b
		if op.startswith('Mul') and a is not None and b is not None:
			return a * b
		if op.startswith('Sub') and a is not None:
			if isinstance(e[3], tuple) and e[3][0] == 'const' and isinstance(e[3][1], int):
				return max(a - e[3][1], 0)
			return a            # unsigned: a - x <= a
		if op == 'Rem' and b is not None and b > 0:
			return b - 1
		if op == 'BitAnd':
			xs = [x for x in (a, b) if x is not None]
			return min(xs) if xs else None
		return None
	return None

def array_index_census(F):
	import re
	if F.dir in _ARR:
		return _ARR[F.dir]
	rows = []
	for n, r in F.fns.items():
		if not (n.startswith('lightning') or n.startswith('<lightning')):
			continue
		try:
			fu = F.func(n)
		except AnchorMissing:
			continue
		ex = None
		for b, ci in fu.calls():
			f = norm(ci.get('f') or '')
			if not re.search(r'core::array::<impl core::ops::index::Index(Mut)? for \[T; N\]>::index(_mut)?$', f):
				continue
			m = re.match(r'^\[\[(\w+); (\d+)_usize\], core::ops::range::(RangeTo|Range|RangeToInclusive)<usize>', ci.get('g') or '')
			if not m or len(ci['args']) < 2:
				continue
			ex = ex or Expr(fu, max_depth=10)
			rng = ex.of_operand(ci['args'][1])
			if rng[0] != 'agg' or not rng[3]:
				continue
			end = rng[3][-1]
			ub = upper_bound(end)
			if ub is not None and m.group(3) == 'RangeToInclusive':
				ub += 1
			rows.append({'file': r['file'], 'fn': n, 'line': fu.line_of(b), 'n': int(m.group(2)), 'ub': ub, 'end': expr_str(end)[:70]})
	_ARR[F.dir] = rows
	return rows

def array_index_rule(F, rule_id, file_res, floor=1):
	import re
	rows = [x for x in array_index_census(F) if any(re.search(p, x['file']) for p in file_res)]
	known = [x for x in rows if x['ub'] is not None]
	if len(rows) < floor:
		return [Result(rule_id, False, 'anchor:array-index', 'only %d range-indexing sites of fixed-size arrays found in %s (expected >= %d)' % (len(rows), file_res, floor))]
	out = []
	for x in known:
		if x['ub'] > x['n']:
			out.append(Result(rule_id, False, 'bounds:%s' % x['fn'].split(' as ')[0].rsplit('::', 1)[-1].strip('<>'), '%s: a [_; %d] buffer is sliced up to `%s`, which can be as large as %d: out-of-range panic for inputs the types allow (a length byte read from the wire can be 255)' % (x['fn'].split(' as ')[0].rsplit('::', 1)[-1], x['n'], x['end'], x['ub']), 1, where=F.where(x['fn'], x['line'])))
	if not out:
		out.append(Result(rule_id, True, 'ok:array-index', '%d range-indexing sites of fixed-size arrays in %s; %d have a statically bounded end (constant, cast from u8/u16, min(..), sums / products of those) and all of these fit the array' % (len(rows), '|'.join(file_res), len(known)), len(rows)))
	return out

ARRAY_SCOPE = {
	'C13': ([r'util/ser\.rs$', r'ln/msgs\.rs$', r'onion_message/packet\.rs$', r'lightning-types/', r'crypto/'], 5),
	'C14': ([r'ln/onion_utils\.rs$', r'blinded_path/'], 5),
	'C15': ([r'ln/peer_channel_encryptor\.rs$', r'crypto/'], 3),
	'C18': ([r'offers/', r'onion_message/dns_resolution\.rs$', r'lightning-invoice/'], 5),
}

def arrays_for_property(F, pid, rule_id):
	res, floor = ARRAY_SCOPE[pid]
	return array_index_rule(F, rule_id, res, floor)

# ----------------------------------------------------------------------------- short-circuiting iterator adaptors
# "for every HTLC / every path / every output" obligations are written as iterator chains; turning filter_map into find_map, filter into
# find, or adding take(1) makes the chain stop at the first match.  Functions known when the table (rules/provenance_shortcircuit.json) was
# reviewed must not GAIN calls of a short-circuiting adaptor (find, find_map, position, take, take_while, nth, ...); new functions are not
# judged, a function losing one is fine.
_SC_ADAPTORS = {'find', 'find_map', 'position', 'rposition', 'take_while', 'skip_while', 'map_while', 'take', 'nth', 'last', 'step_by', 'try_for_each', 'try_fold'}
_SCC = {}
_SC_TABLE = None

def sc_table():
	global _SC_TABLE
	if _SC_TABLE is None:
		_SC_TABLE = json.load(open(os.path.join(os.path.dirname(os.path.abspath(__file__)), 'provenance_shortcircuit.json')))
	return _SC_TABLE

def early_exit_loops(fu):
	"""number of natural loops of a body that can be left from inside an iteration (`break`, `return`, `?` under a condition) - the
	hand-written form of a first-match search: `for x in xs { if p(x) { r = Some(x); break } }` is `xs.find(p)`.  A loop with two or more exit
	sources has an early exit (one source is the loop's own test)."""
	try:
		heads = back_edge_heads(fu)
	except Exception:
		return 0
	n = 0
	for h in heads:
		latches = [a for a, b in fu.edges() if b == h and fu.dominates(h, a)]
		body = {h}
		st = list(latches)
		while st:
			x = st.pop()
			if x in body:
				continue
			body.add(x)
			st.extend(fu.pred(x))
		srcs = set()
		for u in body:
			if fu.is_cleanup(u):
				continue
			for v in fu.succ(u):
				if v in body or fu.is_cleanup(v):
					continue
				if fu.term(u)[1] in ('call', 'assert', 'drop') or fu.term(v)[1] == 'unreachable':
					continue
				srcs.add(u)
		# the loop's own test is one exit source (`next()` returned None, the `while` condition failed); a second one is a break / return / `?`
		early = len(srcs) >= 2
		if early:
			n += 1
	return n

_SC_FIRST_MATCH = ('find', 'find_map', 'position', 'rposition')

def sc_census(F):
	import re
	if F.dir in _SCC:
		return _SCC[F.dir]
	cnt = collections.Counter()
	where = {}
	known = collections.defaultdict(set)
	for n, r in F.fns.items():
		if not n.startswith('lightning') or 'ser_macros' in r['file']:
			continue
		fl = r['file'].split('src/')[-1] if 'src/' in r['file'] else r['file']
		crate = r['file'].split('/')[0]
		fl = crate + ':' + fl
		tail = root_fn(n).rsplit('::', 1)[-1]
		known[fl].add(tail)
		try:
			fu = F.func(n)
		except AnchorMissing:
			continue
		for b, ci in fu.calls():
			m = re.search(r'Iterator::(\w+)$', norm(ci.get('t') or ci.get('f') or ''))
			if m and m.group(1) in _SC_ADAPTORS:
				k = (fl, tail, m.group(1))
				cnt[k] += 1
				where.setdefault(k, (n, fu.line_of(b)))
		lb = early_exit_loops(fu)
		if lb:
			cnt[(fl, tail, 'loopbreak')] += lb
	_SCC[F.dir] = (cnt, where, known)
	return _SCC[F.dir]

def sc_rule(F, rule_id, file_res, floor=0):
	import re
	cnt, where, known = sc_census(F)
	tab = sc_table()
	tcount = {tuple(x[:3]): x[3] for x in tab['counts']}
	tknown = {k: set(v) for k, v in tab['known'].items()}
	out = []
	n = 0
	for k, c in sorted(cnt.items()):
		fl, tail, ad = k
		if ad == 'loopbreak':
			continue
		if not any(re.search(p, fl.replace(':', '/src/')) for p in file_res):
			continue
		n += c
		if tail not in tknown.get(fl, ()):
			continue   # a function the table never saw
		if c > tcount.get(k, 0) and ad in _SC_FIRST_MATCH:
			# a hand-written first-match loop (`for .. { if p { r = ..; break } }`) rewritten as `.find(p)` stops exactly where the loop did: gained
			# first-match adaptors are set against the early-exit loops the function lost (both pooled per function)
			gained = sum(max(0, cnt.get((fl, tail, a), 0) - tcount.get((fl, tail, a), 0)) for a in _SC_FIRST_MATCH)
			lost_loops = tcount.get((fl, tail, 'loopbreak'), 0) - cnt.get((fl, tail, 'loopbreak'), 0)
			if gained <= lost_loops:
				continue
		if c > tcount.get(k, 0):
			fn, line = where[k]
			out.append(Result(rule_id, False, 'short-circuit:%s:%s' % (tail, ad), '%s now calls Iterator::%s %d time(s) (reviewed: %d): an iteration that used to visit every element may stop at the first match' % (tail, ad, c, tcount.get(k, 0)), 1, where=F.where(fn, line)))
	if n < floor:
		return [Result(rule_id, False, 'anchor:short-circuit', 'only %d short-circuiting adaptor calls found in %s (expected >= %d)' % (n, file_res, floor))]
	if not out:
		out.append(Result(rule_id, True, 'ok:short-circuit', '%d calls of short-circuiting iterator adaptors in %s: no reviewed function gained one' % (n, '|'.join(file_res)), max(n, 1)))
	return out

SC_SCOPE = {
	'C01': ([r'ln/channel\.rs$', r'ln/chan_utils\.rs$', r'ln/interactivetxs\.rs$'], 5),
	'C02': ([r'ln/channelmanager\.rs$'], 1),
	'C03': ([r'ln/outbound_payment\.rs$', r'ln/channelmanager\.rs$'], 1),
	'C06': ([r'chain/channelmonitor\.rs$', r'chain/onchaintx\.rs$', r'chain/package\.rs$'], 20),
	'C07': ([r'chain/channelmonitor\.rs$', r'chain/onchaintx\.rs$', r'chain/package\.rs$'], 20),
	'C11': ([r'chain/channelmonitor\.rs$', r'chain/onchaintx\.rs$'], 20),
	'C16': ([r'routing/router\.rs$', r'routing/scoring\.rs$'], 2),
	'C17': ([r'routing/gossip\.rs$', r'util/indexed_map\.rs$'], 1),
	'C18': ([r'offers/'], 5),
}

def sc_for_property(F, pid, rule_id):
	res, floor = SC_SCOPE[pid]
	return sc_rule(F, rule_id, res, floor)

# ----------------------------------------------------------------------------- dropped results of fallible in-crate calls
# A call to a function of this workspace that returns a Result, whose value is neither branched on, returned, stored nor handed on, is an
# error that is swallowed.  Today's tree has 51 such sites (best-effort enqueues, error paths that already report through handle_error);
# functions known when the table (rules/provenance_dropped.json) was reviewed must not GAIN one (`?` turned into `let _ =` / `.ok();`).
_DRC = {}
_DR_TABLE = None

def dr_table():
	global _DR_TABLE
	if _DR_TABLE is None:
		_DR_TABLE = json.load(open(os.path.join(os.path.dirname(os.path.abspath(__file__)), 'provenance_dropped.json')))
	return _DR_TABLE

def dr_census(F):
	if F.dir in _DRC:
		return _DRC[F.dir]
	is_res = {}
	def returns_result(f):
		if f not in is_res:
			try:
				ty = F.func(f).locals[0].get('ty') or ''
				is_res[f] = ty.startswith('core::result::Result<') or ty.startswith('Result<')
			except AnchorMissing:
				is_res[f] = False
		return is_res[f]
	cnt = collections.Counter()
	where = {}
	total = collections.Counter()
	for n, r in F.fns.items():
		if not n.startswith('lightning') or 'ser_macros' in r['file']:
			continue
		try:
			fu = F.func(n)
		except AnchorMissing:
			continue
		fl = r['file'].split('/')[0] + ':' + (r['file'].split('src/')[-1] if 'src/' in r['file'] else r['file'])
		tail = root_fn(n).rsplit('::', 1)[-1]
		for b, ci in fu.calls():
			f = norm(ci.get('f') or '')
			d = ci.get('dest')
			if not (f.startswith('lightning') or f.startswith('<lightning')) or not d or len(d) != 1:
				continue
			dty = fu.locals[d[0]].get('ty') or ''
			if not (dty.startswith('core::result::Result<') or dty.startswith('Result<')):
				continue
			total[fl] += 1
			if d[0] == 0:
				continue
			st, how = result_consumed(fu, b)
			if st == 'dropped':
				k = (fl, tail, f.rsplit('::', 1)[-1])
				cnt[k] += 1
				where.setdefault(k, (n, fu.line_of(b)))
		# `.await` on a future held in a local (`let _ = fut.await;`): the Result inside Poll::Ready
		for b, ci in fu.calls():
			if not norm(ci.get('t') or ci.get('f') or '').endswith('Future::poll'):
				continue
			d = ci.get('dest')
			if not d or len(d) != 1 or not (fu.locals[d[0]].get('ty') or '').startswith('core::task::poll::Poll<core::result::Result<'):
				continue
			total[fl] += 1
			for bi, si, s in fu.stmts():
				rv = s[2]
				if rv[0] == 'use' and rv[1][0] in ('m', 'c') and rv[1][1][0] == d[0] and len(rv[1][1]) >= 2 and rv[1][1][1] == '@Ready' and len(s[1]) == 1:
					if value_consumed(fu, (s[1][0], 'result', False))[0] == 'dropped':
						k = (fl, tail, '.await')
						cnt[k] += 1
						where.setdefault(k, (n, fu.line_of(b)))
	_DRC[F.dir] = (cnt, where, total)
	return _DRC[F.dir]

def dr_rule(F, rule_id, file_res, floor=1):
	import re
	cnt, where, total = dr_census(F)
	_, _, known = sc_census(F)
	tab = dr_table()
	tcount = {tuple(x[:3]): x[3] for x in tab['counts']}
	tknown = {k: set(v) for k, v in sc_table()['known'].items()}
	n = sum(c for fl, c in total.items() if any(re.search(p, fl.replace(':', '/src/')) for p in file_res))
	if n < floor:
		return [Result(rule_id, False, 'anchor:dropped-results', 'only %d fallible in-crate calls found in %s (expected >= %d)' % (n, file_res, floor))]
	out = []
	for k, c in sorted(cnt.items()):
		fl, tail, callee = k
		if not any(re.search(p, fl.replace(':', '/src/')) for p in file_res) or tail not in tknown.get(fl, ()):
			continue
		if c > tcount.get(k, 0):
			fn, line = where[k]
			out.append(Result(rule_id, False, 'swallowed:%s:%s' % (tail, callee), '%s drops the Result of %s %d time(s) (reviewed: %d): an error of a fallible in-crate call is neither branched on, returned, stored nor handed on' % (tail, callee, c, tcount.get(k, 0)), 1, where=F.where(fn, line)))
	if not out:
		out.append(Result(rule_id, True, 'ok:dropped-results', '%d fallible in-crate calls in %s: no reviewed function gained a dropped Result' % (n, '|'.join(file_res)), n))
	return out

DR_SCOPE = {
	'C01': ([r'ln/channel\.rs$', r'ln/chan_utils\.rs$'], 50),
	'C02': ([r'ln/channelmanager\.rs$'], 50),
	'C03': ([r'ln/outbound_payment\.rs$'], 10),
	'C07': ([r'chain/channelmonitor\.rs$', r'chain/onchaintx\.rs$', r'chain/package\.rs$'], 10),
	'C09': ([r'chain/chainmonitor\.rs$', r'ln/channelmanager\.rs$', r'util/persist\.rs$'], 50),
	'C15': ([r'ln/peer_handler\.rs$', r'ln/peer_channel_encryptor\.rs$'], 10),
	'C17': ([r'routing/gossip\.rs$', r'routing/utxo\.rs$'], 10),
	'C18': ([r'offers/'], 20),
	'C19': ([r'util/persist\.rs$', r'lightning-persister/'], 5),
	'C20': ([r'lightning-block-sync/'], 1),
}

def dr_for_property(F, pid, rule_id):
	res, floor = DR_SCOPE[pid]
	return dr_rule(F, rule_id, res, floor)

# ----------------------------------------------------------------------------- identity comparisons (what a function compares with ==)
# "Is this the same HTLC / transaction / peer / payment?" is decided with `==` / `!=` on an identity type (HTLCSource, Txid, OutPoint,
# ChannelId, PaymentHash, PublicKey, SentHTLCId, ...).  A function that used to match on one identity and now matches on another
# (`cur_htlc == htlc` instead of `cur_source == source`: an HTLCOutputInCommitment also carries its output index, which changes when
# another HTLC is added) keeps type-checking.  The table (rules/provenance_idents.json) holds, per function, the identity types it compares
# on the reviewed tree; a reviewed (function, type) pair must not disappear while the function exists.  New pairs and new functions are
# not judged.
_IDC = {}
_ID_TABLE = None
_ID_TYPES = {'Txid', 'Wtxid', 'PublicKey', 'OutPoint', 'ChannelId', 'ScriptBuf', 'Script', 'NodeId', 'PaymentHash', 'PaymentPreimage', 'PaymentSecret',
	'BlockHash', 'ChainHash', 'HTLCSource', 'SentHTLCId', 'ClaimId', 'PaymentId', 'InterceptId', 'TxOut', 'Transaction', 'MonitorName',
	'HTLCOutputInCommitment', 'OffersContext', 'Nonce', 'OfferId', 'Header', 'ValidatedBlockHeader', 'BlockHeaderData', 'Signature', 'SecretKey'}
_ID_WRAP = ('core::option::Option<', 'alloc::boxed::Box<', 'alloc::vec::Vec<', 'alloc::sync::Arc<')

def id_table():
	global _ID_TABLE
	if _ID_TABLE is None:
		_ID_TABLE = json.load(open(os.path.join(os.path.dirname(os.path.abspath(__file__)), 'provenance_idents.json')))
	return _ID_TABLE

def _core_type(g):
	"""first generic argument of PartialEq::eq, stripped of references, lifetimes and Option / Box / Vec / Arc wrappers"""
	import re
	s = (g or '').strip()
	if s.startswith('['):
		s = s[1:]
	# first top-level comma-separated item
	depth = 0
	for i, ch in enumerate(s):
		if ch in '<([':
			depth += 1
		elif ch in '>)]':
			depth -= 1
			if depth < 0:
				s = s[:i]
				break
		elif ch == ',' and depth == 0:
			s = s[:i]
			break
	s = s.strip()
	for _ in range(6):
		s = re.sub(r"^&\s*('\{erased\}\s*)?(mut\s+)?", '', s).strip()
		for w in _ID_WRAP:
			if s.startswith(w):
				s = s[len(w):]
				# drop the allocator argument and the closing bracket
				s = re.sub(r',\s*alloc::alloc::Global\s*>$', '', s)
				if s.endswith('>'):
					s = s[:-1]
				break
	s = re.sub(r'<.*$', '', s)
	return s.rsplit('::', 1)[-1] if '::' in s else s

def id_census(F):
	if F.dir in _IDC:
		return _IDC[F.dir]
	cnt = collections.Counter()
	where = {}
	for n, r in F.fns.items():
		if not n.startswith(('lightning', '<lightning')) or 'ser_macros' in r['file'] or F.impl_kind.get(root_fn(n)) == 'derived':
			continue
		try:
			fu = F.func(n)
		except AnchorMissing:
			continue
		fl = r['file'].split('/')[0] + ':' + (r['file'].split('src/')[-1] if 'src/' in r['file'] else r['file'])
		tail = root_fn(n).rsplit('::', 1)[-1]
		for b, ci in fu.calls():
			f = norm(ci.get('t') or ci.get('f') or '')
			if not f.endswith(('PartialEq::eq', 'PartialEq::ne')):
				continue
			ty = _core_type(ci.get('g'))
			if ty not in _ID_TYPES:
				continue
			k = (fl, tail, ty)
			cnt[k] += 1
			where.setdefault(k, (n, fu.line_of(b)))
	_IDC[F.dir] = (cnt, where)
	return _IDC[F.dir]

def id_rule(F, rule_id, file_res, floor=1):
	import re
	cnt, where = id_census(F)
	_, _, known = sc_census(F)
	tab = id_table()
	out = []
	n = 0
	for row in sorted(tuple(x) for x in tab['pairs']):
		fl, tail, ty = row[:3]
		want = row[3] if len(row) > 3 else 1
		if not any(re.search(p, fl.replace(':', '/src/')) for p in file_res):
			continue
		if tail not in known.get(fl, ()):
			continue   # the function is gone (renamed / removed): not judged
		n += 1
		have = cnt.get((fl, tail, ty), 0)
		if 0 < have < want:
			fn, line = where[(fl, tail, ty)]
			out.append(Result(rule_id, False, 'identity-fewer:%s:%s' % (tail, ty), '%s compares two %s values with == / != %d time(s) (reviewed: %d): one of the places where it matched by that identity (the same HTLC, transaction, channel, peer, payment) now matches by something else' % (tail, ty, have, want), 1, where=F.where(fn, line)))
		if have == 0:
			fns = [x for x in F.fns if root_fn(x).rsplit('::', 1)[-1] == tail and F.fns[x]['file'].endswith(fl.split(':', 1)[1])]
			out.append(Result(rule_id, False, 'identity:%s:%s' % (tail, ty), '%s no longer compares two %s values with == / != (reviewed: it did): what it matched by that identity (the same HTLC, transaction, channel, peer, payment) is now matched by something else or not at all' % (tail, ty), 1, where=F.where(fns[0]) if fns else fl))
	if n < floor:
		return [Result(rule_id, False, 'anchor:identity', 'only %d reviewed identity comparisons left in %s (expected >= %d)' % (n, file_res, floor))]
	if not out:
		out.append(Result(rule_id, True, 'ok:identity', '%d reviewed (function, identity type) comparisons in %s are all still made' % (n, '|'.join(file_res)), n))
	return out

ID_SCOPE = {
	'C02': ([r'ln/channelmanager\.rs$', r'chain/channelmonitor\.rs$'], 55),
	'C03': ([r'ln/outbound_payment\.rs$', r'ln/channelmanager\.rs$', r'chain/channelmonitor\.rs$'], 60),
	'C05': ([r'ln/channel\.rs$', r'ln/chan_utils\.rs$', r'sign/mod\.rs$'], 30),
	'C06': ([r'chain/channelmonitor\.rs$', r'chain/onchaintx\.rs$', r'chain/package\.rs$'], 45),
	'C07': ([r'chain/channelmonitor\.rs$', r'chain/onchaintx\.rs$', r'chain/package\.rs$', r'util/sweep\.rs$'], 48),
	'C09': ([r'chain/chainmonitor\.rs$', r'ln/channelmanager\.rs$'], 20),
	'C10': ([r'ln/channelmanager\.rs$', r'chain/channelmonitor\.rs$'], 55),
	'C11': ([r'chain/channelmonitor\.rs$', r'chain/onchaintx\.rs$', r'ln/channel\.rs$'], 65),
	'C16': ([r'routing/router\.rs$'], 5),
	'C17': ([r'routing/gossip\.rs$', r'routing/utxo\.rs$'], 6),
	'C20': ([r'lightning-block-sync/'], 5),
}

def ids_for_property(F, pid, rule_id):
	res, floor = ID_SCOPE[pid]
	return id_rule(F, rule_id, res, floor)

# ----------------------------------------------------------------------------- flag / option resets (typestate writes)
# State that survives a function call lives in fields; the protocol state machines are driven by small writes of a constant to such a
# field: `self.context.signer_pending_funding = false`, `peer.awaiting_pong_timer_tick_intervals = 0`, `self.holding_cell_update_fee =
# None`, `funding.funding_tx_confirmation_height = 0`.  A reset that disappears (not cleared on reconnect, on reorg, on restart, after the
# message was sent) leaves the machine in a state the other paths never expect.  The table (rules/provenance_flags.json) holds the
# (file, function, Type.field, constant) quadruples of the reviewed tree; a reviewed quadruple must not disappear while the function
# exists.  New writes and new functions are not judged; moving a write inside its function is not judged either.
_FLC = {}
_FL_TABLE = None

def fl_table():
	global _FL_TABLE
	if _FL_TABLE is None:
		_FL_TABLE = json.load(open(os.path.join(os.path.dirname(os.path.abspath(__file__)), 'provenance_flags.json')))
	return _FL_TABLE

def fl_census(F):
	if F.dir in _FLC:
		return _FLC[F.dir]
	cnt = collections.Counter()
	where = {}
	for n, r in F.fns.items():
		if not n.startswith(('lightning', '<lightning')) or 'ser_macros' in r['file'] or F.impl_kind.get(root_fn(n)) == 'derived':
			continue
		tail = root_fn(n).rsplit('::', 1)[-1]
		if tail in ('new', 'read', 'default', 'from', 'clone') or tail.startswith(('new_', 'read_', 'from_', 'with_')):
			continue
		try:
			fu = F.func(n)
		except AnchorMissing:
			continue
		fl = r['file'].split('/')[0] + ':' + (r['file'].split('src/')[-1] if 'src/' in r['file'] else r['file'])
		for bi, si, s in fu.stmts():
			pl, rv = s[1], s[2]
			if len(pl) < 2 or not isinstance(pl[-1], str) or not pl[-1].startswith('.') or '#' not in pl[-1]:
				continue
			# the base must be reached through a reference (state that outlives the call), not a local aggregate being built
			if '*' not in pl[1:]:
				continue
			val = None
			if rv[0] == 'use' and rv[1][0] == 'k' and isinstance(rv[1][1], dict):
				c = rv[1][1]
				if c.get('ty') == 'bool':
					val = 'true' if c.get('v') else 'false'
				elif c.get('v') is not None and (c.get('ty') or '')[:1] in ('u', 'i') and c.get('v') in (0,):
					val = '0'
			elif rv[0] == 'agg' and rv[1] == 'adt' and norm(rv[2] or '') == 'core::option::Option' and rv[3] == 'None':
				val = 'None'
			if val is None:
				continue
			fname, _, owner = pl[-1][1:].partition('#')
			owner = norm(owner).rsplit('::', 1)[-1]
			if owner in ('Some', 'Ok', 'Err') or fname.isdigit():
				continue
			k = (fl, tail, owner + '.' + fname, val)
			cnt[k] += 1
			where.setdefault(k, (n, s[0]))
	_FLC[F.dir] = (cnt, where)
	return _FLC[F.dir]

def fl_rule(F, rule_id, file_res, floor=1):
	import re
	cnt, where = fl_census(F)
	_, _, known = sc_census(F)
	tab = fl_table()
	out = []
	n = 0
	for fl, tail, fld, val in sorted(tuple(x) for x in tab['writes']):
		if not any(re.search(p, fl.replace(':', '/src/')) for p in file_res):
			continue
		if tail not in known.get(fl, ()):
			continue
		n += 1
		if cnt.get((fl, tail, fld, val), 0) == 0:
			fns = [x for x in F.fns if root_fn(x).rsplit('::', 1)[-1] == tail and F.fns[x]['file'].endswith(fl.split(':', 1)[1])]
			out.append(Result(rule_id, False, 'reset-lost:%s:%s=%s' % (tail, fld, val), '%s no longer sets %s = %s (reviewed: it did): the flag / counter / pending slot keeps its old value on this path, a state the rest of the machine does not expect there' % (tail, fld, val), 1, where=F.where(fns[0]) if fns else fl))
	if n < floor:
		return [Result(rule_id, False, 'anchor:flag-writes', 'only %d reviewed constant state writes left in %s (expected >= %d)' % (n, file_res, floor))]
	if not out:
		out.append(Result(rule_id, True, 'ok:flag-writes', '%d reviewed constant writes to persistent state (flag = true / false, counter = 0, slot = None) in %s are all still made' % (n, '|'.join(file_res)), n))
	return out

FL_SCOPE = {
	'C01': ([r'ln/channel\.rs$', r'ln/interactivetxs\.rs$'], 36),
	'C05': ([r'ln/channel\.rs$'], 36),
	'C09': ([r'ln/channel\.rs$', r'ln/channelmanager\.rs$', r'chain/chainmonitor\.rs$'], 38),
	'C07': ([r'chain/channelmonitor\.rs$', r'util/sweep\.rs$'], 13),
	'C11': ([r'chain/channelmonitor\.rs$', r'ln/channel\.rs$'], 40),
	'C15': ([r'ln/peer_handler\.rs$'], 12),
	'C16': ([r'routing/router\.rs$'], 6),
}

def flags_for_property(F, pid, rule_id):
	res, floor = FL_SCOPE[pid]
	return fl_rule(F, rule_id, res, floor)

# ----------------------------------------------------------------------------- panic sites in code that handles untrusted input
# C13 / C15 / C18 say that no input can panic the node.  Panic freedom is not decided here (section 5); what is decided is that the code
# which parses and handles untrusted bytes does not GAIN a panic site: per function, the number of unwrap / expect calls, explicit panics,
# bounds-checked index operations (Index::index on slices / Vec / maps, copy_from_slice, split_at) and the compiler's own bounds /
# division-by-zero assertions must not exceed the reviewed count of the same build profile (rules/provenance_panics.json; debug assertions and
# overflow checks exist in the dev profile only); `lock().unwrap()` is not counted.  New functions are not judged, losing a site is fine, and
# one kind replacing another (two range indexings for one split_at) is fine as long as the function's total does not grow.
_PNC = {}
_PN_TABLE = None
_PN_CALLS = {
	'core::option::Option::<T>::unwrap': 'unwrap', 'core::result::Result::<T, E>::unwrap': 'unwrap', 'core::option::Option::<T>::expect': 'unwrap',
	'core::result::Result::<T, E>::expect': 'unwrap', 'core::result::Result::<T, E>::unwrap_err': 'unwrap', 'core::result::Result::<T, E>::expect_err': 'unwrap',
}
_PN_TAILS = {'copy_from_slice': 'slice-len', 'clone_from_slice': 'slice-len', 'split_at': 'slice-len', 'split_at_mut': 'slice-len',
	'swap_remove': 'index', 'split_off': 'index'}

def pn_table():
	global _PN_TABLE
	if _PN_TABLE is None:
		_PN_TABLE = json.load(open(os.path.join(os.path.dirname(os.path.abspath(__file__)), 'provenance_panics.json')))
	return _PN_TABLE

def pn_census(F):
	if F.dir in _PNC:
		return _PNC[F.dir]
	cnt = collections.Counter()
	where = {}
	for n, r in F.fns.items():
		if not n.startswith(('lightning', '<lightning')) or F.impl_kind.get(root_fn(n)) == 'derived':
			continue
		try:
			fu = F.func(n)
		except AnchorMissing:
			continue
		fl = r['file'].split('/')[0] + ':' + (r['file'].split('src/')[-1] if 'src/' in r['file'] else r['file'])
		tail = root_fn(n).rsplit('::', 1)[-1]
		live = fu.reach([0])
		for bi, b in enumerate(fu.blocks):
			if bi not in live or fu.is_cleanup(bi):
				continue
			t = b['t']
			kind = None
			if t[1] == 'assert' and len(t) > 5 and not str(t[5]).startswith('overflow'):
				# overflow assertions exist in debug builds only (release arithmetic wraps): not a production panic, not counted
				kind = 'assert-' + str(t[5]).split(':')[0]
			elif t[1] in ('call', 'tailcall'):
				ci = t[2]
				f = norm(ci.get('f') or '')
				tr = norm(ci.get('t') or '')
				raw = ci.get('f') or ''
				if raw in _PN_CALLS:
					g = ci.get('g') or ''
					if 'PoisonError' in g or 'MutexGuard' in g or 'RwLockReadGuard' in g or 'RwLockWriteGuard' in g:
						kind = None   # lock().unwrap(): poisoning, not input
					else:
						kind = _PN_CALLS[raw]
				elif f.startswith(('core::panicking::', 'std::rt::begin_panic', 'core::option::unwrap_failed', 'core::result::unwrap_failed', 'core::option::expect_failed')):
					# debug_assert / assert_eq machinery only in dev; explicit panic!/unreachable! in both
					kind = 'panic'
				elif tr.endswith(('ops::index::Index::index', 'ops::index::IndexMut::index_mut')) or f.endswith(('ops::index::Index::index', 'ops::index::IndexMut::index_mut')):
					kind = 'index'
				elif f.rsplit('::', 1)[-1] in _PN_TAILS and ('slice' in f or 'vec' in f.lower()):
					kind = _PN_TAILS[f.rsplit('::', 1)[-1]]
			if kind:
				k = (fl, tail, kind)
				cnt[k] += 1
				where.setdefault(k, (n, t[0]))
	_PNC[F.dir] = (cnt, where)
	return _PNC[F.dir]

def pn_rule(F, rule_id, file_res, floor=1):
	import re
	cnt, where = pn_census(F)
	tab = pn_table()
	prof = 'dev' if F.dir.rstrip('/').endswith('-dev') else 'release'
	tcount = {tuple(x[:3]): x[3] for x in tab[prof]}
	tknown = {k: set(v) for k, v in sc_table()['known'].items()}
	out = []
	n = 0
	for k, c in sorted(cnt.items()):
		fl, tail, kind = k
		if not any(re.search(p, fl.replace(':', '/src/')) for p in file_res):
			continue
		n += c
		if tail not in tknown.get(fl, ()):
			continue
		if c > tcount.get(k, 0):
			# `&d[..n]` + `&d[n..]` written as `d.split_at(n)`, an index written as `get(..).unwrap()`: one kind of abort for another at the same place.
			# Judged is the number of potential panic sites of the function over all kinds, which must not grow.
			tot_now = sum(c2 for (fl2, t2, k2), c2 in cnt.items() if fl2 == fl and t2 == tail)
			tot_rev = sum(c2 for (fl2, t2, k2), c2 in tcount.items() if fl2 == fl and t2 == tail)
			if tot_now <= tot_rev:
				continue
			fn, line = where[k]
			out.append(Result(rule_id, False, 'panic-site:%s:%s' % (tail, kind), '%s now has %d `%s` panic site(s) (reviewed: %d): code that handles untrusted input gained an operation that aborts the node when its operand is out of range / absent' % (tail, c, kind, tcount.get(k, 0)), 1, where=F.where(fn, line)))
	if n < floor:
		return [Result(rule_id, False, 'anchor:panic-sites', 'only %d panic sites found in %s (expected >= %d)' % (n, file_res, floor))]
	if not out:
		out.append(Result(rule_id, True, 'ok:panic-sites', '%d potential panic sites (unwrap / expect / panic / index / length-checked copy / bounds and division assertions) in %s: no reviewed function gained one' % (n, '|'.join(file_res)), n))
	return out

PN_SCOPE = {
	'C13': ([r'ln/msgs\.rs$', r'ln/wire\.rs$', r'util/ser\.rs$', r'lightning-types/src/features\.rs$', r'ln/script\.rs$'], 50),
	'C14': ([r'ln/onion_utils\.rs$', r'ln/onion_payment\.rs$', r'blinded_path/'], 50),
	'C15': ([r'ln/peer_handler\.rs$', r'ln/peer_channel_encryptor\.rs$', r'ln/wire\.rs$', r'crypto/'], 50),
	'C17': ([r'routing/gossip\.rs$', r'routing/utxo\.rs$', r'lightning-rapid-gossip-sync/'], 20),
	'C18': ([r'offers/', r'lightning-invoice/src/', r'util/bech32'], 50),
}

def panics_for_property(F, pid, rule_id):
	res, floor = PN_SCOPE[pid]
	return pn_rule(F, rule_id, res, floor)
