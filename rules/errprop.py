"""Error propagation (rule ids NN.X): a failed storage / fallible step is not reported as success.

NN.y asks that the Result of a fallible call is looked at.  This rule asks what happens next: in a function returning Result<_, E>, once a branch
has established that a local of type Result<_, E> (same error type) is Err, no path from that Err edge reaches a `return` whose value is a freshly
built Ok(..) or an unrelated local.  Accepted on the Err side: returning the tested value itself (or a copy / move of it), an Err(..) aggregate,
the residual of `?`, a value produced by a call that was handed the error (map_err / From), and leaving the function by other means.  Value-refined
walk: (block, what the return place currently holds).  Best-effort paths that deliberately go on after an error are the reviewed exception list."""
import re, collections
from engine import *

def _err_ty(ty):
	ty = (ty or '').lstrip('&')
	if not ty.startswith('core::result::Result<'):
		return None
	inner = ty[len('core::result::Result<'):-1]
	depth = 0
	for i, ch in enumerate(inner):
		if ch in '<([':
			depth += 1
		elif ch in '>)]':
			depth -= 1
		elif ch == ',' and depth == 0:
			return inner[i + 1:].strip()
	return None

def analyse(F, name):
	"""[(switch line, return line, what is returned)] violations; number of Err edges examined"""
	fu = F.func(name)
	ret_e = _err_ty(fu.locals[0].get('ty'))
	if ret_e is None:
		# async block: the coroutine's return type is not local 0's type in every shape; use the payload assigned to _0
		return [], 0
	viol = []
	n = 0
	for sb in range(len(fu.blocks)):
		t = fu.blocks[sb]['t']
		if t[1] != 'switch' or fu.is_cleanup(sb) or not (t[2][0] in ('c', 'm') and len(t[2][1]) == 1):
			continue
		dl = t[2][1][0]
		ds = fu.defs.get(dl, [])
		if len(ds) != 1 or ds[0][3][0] != 'disc':
			continue
		pl = ds[0][3][1]
		if len(pl) != 1 and not (len(pl) == 2 and pl[1] == '*'):
			continue
		W = pl[0]
		if _err_ty(fu.locals[W].get('ty')) != ret_e:
			continue
		# follow `&W` temporaries back to W
		for _ in range(3):
			d2 = fu.defs.get(W, [])
			if len(d2) == 1 and d2[0][3][0] == 'ref' and len(d2[0][3][2]) == 1:
				W = d2[0][3][2][0]
		vals = {v: tb for v, tb in t[3]}
		err_t = vals.get(1, t[4] if 1 not in vals else None)
		if err_t is None:
			continue
		n += 1
		# walk from the Err edge; state = (block, kind of value currently in _0): 'w' (the tested value), 'err', 'ok', 'other', None
		aliases = {W}
		seen = set()
		st = [(err_t, None)]
		while st:
			b, cur = st.pop()
			if (b, cur) in seen or fu.is_cleanup(b):
				continue
			seen.add((b, cur))
			if b == sb:
				continue
			for s in fu.blocks[b]['s']:
				dst, rv = s[1], s[2]
				if len(dst) == 1 and rv[0] == 'use' and rv[1][0] in ('c', 'm') and len(rv[1][1]) == 1 and rv[1][1][0] in aliases:
					aliases.add(dst[0])
				if dst == [0]:
					if rv[0] == 'use' and rv[1][0] in ('c', 'm') and rv[1][1] and rv[1][1][0] in aliases:
						cur = 'w'
					elif rv[0] == 'agg' and rv[3] == 'Err':
						cur = 'err'
					elif rv[0] == 'agg' and rv[3] == 'Ok':
						cur = 'ok'
					else:
						cur = 'other:' + (fu.local_name(rv[1][1][0]) or '_%d' % rv[1][1][0] if rv[0] == 'use' and rv[1][0] in ('c', 'm') and rv[1][1] else rv[0])
			tt = fu.blocks[b]['t']
			if tt[1] == 'call' and tt[2].get('dest') == [0]:
				f = norm(tt[2].get('f') or tt[2].get('t') or '')
				cur = 'err' if f.endswith(('from_residual', 'map_err')) or any(a[0] in ('c', 'm') and a[1] and a[1][0] in aliases for a in tt[2]['args']) else 'other:call ' + f.rsplit('::', 1)[-1]
			if tt[1] == 'ret':
				if cur is not None and (cur == 'ok' or cur.startswith('other')):
					viol.append((fu.line_of(sb), fu.line_of(b), 'Ok(..)' if cur == 'ok' else cur[6:]))
				continue
			for x in fu.succ(b):
				st.append((x, cur))
	return viol, n

def rule(F, rule_id, file_re, floor=1, exceptions=()):
	out = []
	tot = 0
	for n in sorted(F.fns):
		r = F.fns[n]
		if not n.startswith(('lightning', '<lightning')) or not re.search(file_re, r['file']) or 'ser_macros' in r['file']:
			continue
		try:
			viol, k = analyse(F, n)
		except AnchorMissing:
			continue
		tot += k
		short = root_fn(n).rsplit('::', 1)[-1]
		seen = set()
		for sl, rl, what in viol:
			key = (short, what)
			if key in seen or short in exceptions:
				continue
			seen.add(key)
			out.append(Result(rule_id, False, 'swallowed:%s:%s' % (short, re.sub(r'[0-9]+', 'N', what)[:40]), '%s: after the branch at line %d has found a Result of the function\'s own error type to be Err, a path returns %s (line %d) instead of that error: the failed step is reported as success' % (short, sl, what, rl), 1, where=F.where(n, sl)))
	if tot < floor:
		return [Result(rule_id, False, 'anchor:err-edges', 'only %d branches on a Result of the function\'s own error type found in %s (expected >= %d)' % (tot, file_re, floor))]
	if not out:
		out.append(Result(rule_id, True, 'ok:errors-propagate', '%d branches on a Result of the function\'s own error type in %s: no Err edge leads to a return of Ok(..) or of an unrelated value' % (tot, file_re), tot))
	return out
