"""TLV stream read loops (expansions of _decode_tlv_stream_range! and hand-rolled equivalents): per-expansion guards.
Used by C12 (all persisted-object decoders), C13 (decoders reachable from wire::read), C14 (onion payload decoders)."""
from engine import *

def tlv_loop_functions(F, only=None):
	"""functions in which the length read by BigSize::read frames a FixedLengthReader (the shape of a TLV record read)"""
	F.calls
	cands = sorted({rec[0] for rec in F.callers_of.get('lightning::util::ser::FixedLengthReader::new', [])})
	out = []
	for n in cands:
		if only is not None and not only(n):
			continue
		try:
			fu = F.func(n)
		except AnchorMissing:
			continue
		ex = Expr(fu)
		ok = False
		for b in sites_call(fu, ['lightning::util::ser::FixedLengthReader::new']):
			args = fu.blocks[b]['t'][2]['args']
			if len(args) >= 2:
				e = ex.of_operand(args[1])
				if any(c.endswith('Readable>::read') or c.endswith('Readable::read') for c in expr_leaves(e)['calls']) or 'read(' in leaf_key(e):
					ok = True
		if ok and _heads(fu) | {b for b in range(len(fu.blocks)) if fu.blocks[b]['t'][1] == 'falseunwind'}:
			out.append(fu)
	return out

def _reaches_construct(fu, starts, adt, variant, avoid=()):
	r = fu.reach(starts, removed_blocks=set(avoid))
	for b in r:
		for s in fu.blocks[b]['s']:
			rv = s[2]
			if rv[0] == 'agg' and rv[1] == 'adt' and norm(rv[2]).endswith(adt) and rv[3] == variant:
				return True
	return False

def _heads(fu):
	return loop_heads(fu) | back_edge_heads(fu)

def _construct_blocks(fu, adt, variant):
	out = set()
	for bi, si, s in fu.stmts():
		rv = s[2]
		if rv[0] == 'agg' and rv[1] == 'adt' and norm(rv[2]).endswith(adt) and rv[3] == variant:
			out.add(bi)
	return out

def check_function(F, rule, fu):
	"""returns (problems, n_sites) for one TLV-loop function"""
	probs = []
	gs = [Guard(fu, c) for c in comparisons(fu)]
	# (a) strictly increasing types:  typ <= last_seen  => InvalidValue
	order = []
	for g in gs:
		terms = g.nf[0]
		if len(terms) == 2 and sorted(terms.values()) == [-1, 1] and g.nf[2] == 0:
			pos = [v for v, c in terms.items() if c == 1][0]
			neg = [v for v, c in terms.items() if c == -1][0]
			if 'read(' in pos + neg and g.nf[1] in ('Le', 'Lt', 'Ge', 'Gt'):
				# orient: typ - last <= 0
				typ_pos = 'read(' in pos and 'read(' not in neg
				op = g.nf[1] if typ_pos else {'Le': 'Ge', 'Lt': 'Gt', 'Ge': 'Le', 'Gt': 'Lt'}[g.nf[1]]
				order.append((g, op))
	ok_order = False
	for g, op in order:
		if op == 'Le':
			for d in g.decisions:
				if _reaches_construct(fu, [e[1] for e in d.true_edges], 'DecodeError', 'InvalidValue', avoid=_heads(fu)):
					ok_order = True
		elif op == 'Lt':
			probs.append(('order-nonstrict', 'a repeated TLV type is accepted (`typ < last_seen` instead of `<=`)', g.line))
	if not ok_order and not any(p[0] == 'order-nonstrict' for p in probs):
		probs.append(('order-missing', 'no `typ <= last_seen_type => InvalidValue` guard', fu.blocks[0]['t'][0]))
	# (b) unknown even type => UnknownRequiredFeature
	ok_even = False
	for g in gs:
		if g.op in ('Eq', 'Ne') and ('Rem2)' in leaf_key(g.a).replace(' ', '') or 'Rem2)' in leaf_key(g.b).replace(' ', '')) and 'read(' in leaf_key(g.a) + leaf_key(g.b):
			k = g.nf[2]
			for d in g.decisions:
				even_edges = d.true_edges if (g.op == 'Eq') == (k == 0) else d.false_edges
				if _reaches_construct(fu, [e[1] for e in even_edges], 'DecodeError', 'UnknownRequiredFeature', avoid=_heads(fu)):
					odd_edges = d.false_edges if even_edges is d.true_edges else d.true_edges
					if not _reaches_construct(fu, [e[1] for e in odd_edges], 'DecodeError', 'UnknownRequiredFeature', avoid=_heads(fu) | {d.b}):
						# and an even unknown type ALWAYS ends in the error: no way on to the next record
						errb = _construct_blocks(fu, 'DecodeError', 'UnknownRequiredFeature')
						esc = fu.path([e[1] for e in even_edges], _heads(fu), removed_blocks=errb)
						if esc is None:
							ok_even = True
						else:
							probs.append(('even-unknown-escapes', 'an unknown even type can be skipped (the rejection is conditional: lines %s)' % fu.path_lines(esc)[:8], g.line))
	if not ok_even and not any(p[0] == 'even-unknown-escapes' for p in probs):
		probs.append(('even-unknown', 'no `unknown type % 2 == 0 => UnknownRequiredFeature` arm (unknown odd ignored, unknown even rejected)', fu.blocks[0]['t'][0]))
	# (c) the record reader is drained / checked: eat_remaining is called
	if not sites_call(fu, ['lightning::util::ser::FixedLengthReader::eat_remaining']):
		probs.append(('no-eat-remaining', 'the fixed-length record reader is never drained (eat_remaining)', fu.blocks[0]['t'][0]))
	# (d) known fields: trailing bytes in a record are rejected
	br = sites_call(fu, ['lightning::util::ser::FixedLengthReader::bytes_remain'])
	if br:
		okb = False
		for d in call_decisions(fu, br, 'bool'):
			if _reaches_construct(fu, [e[1] for e in d.true_edges], 'DecodeError', 'InvalidValue', avoid=_heads(fu)):
				okb = True
		if not okb:
			probs.append(('trailing-bytes', '`bytes_remain()` after a known field no longer yields InvalidValue', fu.line_of(br[0])))
	return probs, len(gs) + len(br)

def check_tlv_loops(F, rule, only=None, floor=1, label='TLV decoders'):
	out = []
	fns = tlv_loop_functions(F, only)
	if len(fns) < floor:
		out.append(Result(rule, False, 'floor:tlv-loops', 'only %d %s found (expected >= %d): the loop shape is no longer recognised' % (len(fns), label, floor), len(fns)))
	sites = 0
	n_bad = 0
	for fu in fns:
		probs, n = check_function(F, rule, fu)
		sites += n
		for kind, msg, line in probs:
			n_bad += 1
			if n_bad <= 40:
				out.append(Result(rule, False, 'tlvloop:%s@%s' % (kind, fu.name), '%s: %s' % (fu.name, msg), n, where=F.where(fu.name, line)))
	if n_bad > 40:
		out.append(Result(rule, False, 'tlvloop:many', '%d further TLV-loop findings suppressed (a shared macro was probably changed)' % (n_bad - 40), n_bad))
	if n_bad == 0 and len(fns) >= floor:
		out.append(Result(rule, True, 'ok:tlv-loops', '%d %s: strictly increasing types, unknown-even rejected / unknown-odd skipped, records drained, trailing bytes rejected' % (len(fns), label), sites))
	return out
