"""Loads rules/Cxx.py and evaluates its rule table on a facts directory."""
import importlib, traceback, os
import engine
from engine import Result, AnchorMissing

_FACTS = {}

def get_facts(fdir):
	if fdir not in _FACTS:
		_FACTS[fdir] = engine.Facts(fdir)
	return _FACTS[fdir]

def run_property(pid, fdir, tier='quick', profile='release'):
	facts = get_facts(fdir)
	mod = importlib.import_module(pid)
	results = []
	per_rule = {}
	for rid, desc, fn in mod.RULES:
		try:
			rs = fn(facts)
			if rs is None:
				rs = []
			if not rs:
				rs = [Result(rid, False, 'empty', 'rule %s produced no verdict (vacuous)' % rid)]
		except AnchorMissing as e:
			rs = [Result(rid, False, 'anchor:' + str(e)[:120], 'anchor missing: %s' % e)]
		for r in rs:
			if not r.rule:
				r.rule = rid
		per_rule[rid] = {'instances': len(rs), 'holding': sum(1 for r in rs if r.ok), 'sites': sum(r.sites for r in rs)}
		results += rs
	stats = {'functions_in_facts': len(facts.fns), 'rules': per_rule}
	return results, stats
