"""C13 - peer messages round-trip through the wire format and decoding is total (structural part: table agreement, TLV rules, varint boundaries)."""
import re
from engine import *
import linforms
import ordimpls
import provenance
import parsepos
import guards
import arith
import tlv, tlvloop

W = 'lightning::ln::wire::'
MSGS = 'lightning::ln::msgs::'
SER = 'lightning::util::ser::'

EXPLANATION = ('Table-agreement, TLV-table and boundary rules over ln::wire, ln::msgs, util::ser and ln::peer_handler: the three dispatch tables of wire::Message (write: variant -> payload '
	'type; type_id: variant -> payload type; do_read: wire type number -> payload decoder + variant) are extracted from MIR and must agree for every variant, with do_read keyed by exactly '
	'Encode::TYPE of the payload it decodes and all TYPE values distinct; unknown types go to the custom reader and otherwise to Message::Unknown, which the peer handler disconnects on iff the '
	'type is even; every hand-written TLV writer table in ln::msgs is read by its reader, macro-generated codecs have increasing types; every TLV read loop reachable for wire messages '
	'rejects non-increasing types and unknown even types, skips unknown odd ones, drains the record through the FixedLengthReader and rejects trailing bytes; BigSize / CollectionLength '
	'writer widths equal the reader\'s minimality thresholds. Also: u16 length prefixes in front of raw bytes are the byte length of exactly those bytes; the node_announcement address reader advances its consumed-byte counter only by the size of a decoded address. Decides these agreements for all variants and decoders; value-level round-trip equality and panic freedom are not decided.')
ASSUMPTIONS = ['primitive Readable/Writeable impls for integers, keys and signatures are inverse to each other', 'custom message readers honour their contract']

def _variant_payload_table(F, fn, callee_suffix):
	"""for a `match self { &Message::V(ref msg) => msg.<callee>(..) }` function: {variant: payload type}"""
	fu = F.func(fn)
	vs = enum_variants(F, W + 'Message')
	out = {}
	sw = [x for x in variant_switch_edges(fu, lambda pl: True, vs) if len(x[1]) >= 10]
	if not sw:
		raise AnchorMissing('%s: variant switch not found' % fn)
	sb, m, other = max(sw, key=lambda x: len(x[1]))
	targets = set(m.values())
	for v, tb in m.items():
		r = fu.reach([tb], removed_blocks=(targets - {tb}) | {sb})
		for b in sorted(r):
			t = fu.blocks[b]['t']
			if t[1] == 'call':
				ci = t[2]
				f = norm(ci.get('t') or ci.get('f') or '')
				if f.endswith(callee_suffix):
					g = ci.get('g') or ''
					mm = re.match(r'^\[([^,\]]+)', g)
					ty = None
					fm = re.match(r'^<(.+?) as ', ci.get('f') or '')
					if fm and not fm.group(1).startswith('T') and '::' in fm.group(1):
						ty = norm(fm.group(1))
					elif mm:
						ty = norm(mm.group(1))
					out[v] = ty
					break
	return out, vs

def _read_table(F):
	fu = F.func(W + 'do_read')
	sw = None
	for bi, b in enumerate(fu.blocks):
		t = b['t']
		if t[1] == 'switch' and len(t[3]) >= 20:
			sw = (bi, t)
	if sw is None:
		raise AnchorMissing('wire::do_read: type switch not found')
	bi, t = sw
	targets = {tb for v, tb in t[3]} | {t[4]}
	table = {}
	for val, tb in t[3]:
		r = fu.reach([tb], removed_blocks=(targets - {tb}) | {bi})
		ty = None
		var = None
		for b in sorted(r):
			tt = fu.blocks[b]['t']
			if tt[1] == 'call':
				f = tt[2].get('f') or ''
				if norm(tt[2].get('t') or f).endswith('LengthReadable::read_from_fixed_length_buffer') or norm(tt[2].get('t') or f).endswith('Readable::read'):
					fm = re.match(r'^<(.+?) as ', f)
					if fm and ty is None:
						ty = norm(fm.group(1))
			for s in fu.blocks[b]['s']:
				rv = s[2]
				if rv[0] == 'agg' and rv[1] == 'adt' and norm(rv[2]) == W + 'Message':
					var = rv[3]
		table[val] = (ty, var)
	# default arm
	dflt = fu.reach([t[4]], removed_blocks=(targets - {t[4]}) | {bi})
	dvars = set()
	custom = False
	for b in dflt:
		for s in fu.blocks[b]['s']:
			rv = s[2]
			if rv[0] == 'agg' and rv[1] == 'adt' and norm(rv[2]) == W + 'Message':
				dvars.add(rv[3])
		tt = fu.blocks[b]['t']
		if tt[1] == 'call' and norm(tt[2].get('t') or tt[2].get('f') or '').endswith('CustomMessageReader::read'):
			custom = True
	return table, dvars, custom, fu

def r13a(F):
	out = []
	try:
		wt, vs = _variant_payload_table(F, '<lightning::ln::wire::Message as lightning::util::ser::Writeable>::write', 'Writeable::write')
		tt, _ = _variant_payload_table(F, '<lightning::ln::wire::Message as lightning::ln::wire::Type>::type_id', 'Type::type_id')
		rt, dvars, custom, rfu = _read_table(F)
	except AnchorMissing as e:
		return [Result('13.a', False, 'anchor:tables', 'anchor missing: %s' % e)]
	types = {}
	for k, v in F.consts.items():
		m = re.match(r'^lightning::ln::wire::<impl lightning::ln::wire::encode::Encode for (.+)>::TYPE$', k)
		if m:
			types[norm(m.group(1))] = v
	known = [v for v in vs if v not in ('Unknown', 'Custom')]
	if len(known) < 40 or len(types) < 40 or len(rt) < 40:
		out.append(Result('13.a', False, 'floor:tables', 'wire tables too small: %d variants, %d TYPE constants, %d do_read arms' % (len(known), len(types), len(rt)), len(known)))
	# injective TYPE
	inv = {}
	for ty, v in types.items():
		inv.setdefault(v, []).append(ty)
	dup = {v: t for v, t in inv.items() if len(t) > 1}
	out.append(Result('13.a', not dup, ('ok:' if not dup else 'clash:') + 'type-ids-distinct', 'the %d Encode::TYPE values are pairwise distinct%s' % (len(types), '' if not dup else ': %s' % dup), len(types)))
	by_variant_read = {}
	for val, (ty, var) in rt.items():
		by_variant_read.setdefault(var, []).append((val, ty))
	n = 0
	for v in known:
		n += 1
		w, t = wt.get(v), tt.get(v)
		rd = by_variant_read.get(v, [])
		probs = []
		if w is None or t is None:
			probs.append('write/type_id arm not resolved (write: %s, type_id: %s)' % (w, t))
		elif w != t:
			probs.append('Message::write encodes a %s but type_id reports the type of %s' % (w.rsplit('::', 1)[-1], t.rsplit('::', 1)[-1]))
		if len(rd) != 1:
			probs.append('do_read constructs Message::%s in %d arms' % (v, len(rd)))
		else:
			val, rty = rd[0]
			if t is not None and rty != t:
				probs.append('do_read decodes a %s into Message::%s but the variant carries a %s' % ((rty or '?').rsplit('::', 1)[-1], v, t.rsplit('::', 1)[-1]))
			if t is not None and types.get(t) != val:
				probs.append('do_read arm %s builds Message::%s whose type_id() is %s' % (val, v, types.get(t)))
		out.append(Result('13.a', not probs, ('ok:' if not probs else 'table:') + 'variant:' + v, 'Message::%s: write / type_id / do_read agree (%s, type %s)' % (v, (t or '?').rsplit('::', 1)[-1], types.get(t)) if not probs else 'Message::%s: %s' % (v, '; '.join(probs)), 3, where=F.where(rfu.name)))
	# every TYPE constant has a do_read arm
	carried = set(tt.values()) | set(wt.values())
	missing = sorted(ty for ty, val in types.items() if val not in rt and ty in carried)   # payloads of cfg-disabled variants have no arm
	out.append(Result('13.a', not missing, ('ok:' if not missing else 'table:') + 'every-type-decodable', 'every payload type with an Encode::TYPE has a do_read arm%s' % ('' if not missing else '; missing: %s' % missing), len(types)))
	okd = dvars == {'Custom', 'Unknown'} and custom
	out.append(Result('13.a', okd, ('ok:' if okd else 'table:') + 'default-arm', 'unknown type numbers go to the custom reader, else Message::Unknown (default arm builds %s, custom reader %s)' % (sorted(dvars), custom), 2, where=F.where(rfu.name)))
	# is_even and the peer handler
	ie = F.func(W + 'Message::is_even')
	gs = [Guard(ie, c) for c in comparisons(ie)]
	# the masked value is 0 or 1, so `== 0` and `!= 1` are the same predicate
	oke = len(gs) == 1 and (gs[0].op, gs[0].nf[2]) in (('Eq', 0), ('Ne', 1)) and 'BitAnd1)' in (leaf_key(gs[0].a) + leaf_key(gs[0].b)).replace(' ', '') and 'type_id' in gs[0].text()
	if oke:
		# and the function returns that comparison (not its negation)
		oke = any(s[1] == [0] and s[2][0] == 'use' and s[2][1][0] in ('c', 'm') and s[2][1][1] == [gs[0].dest] for bi, si, s in ie.stmts()) or gs[0].dest == 0
	out.append(Result('13.a', oke, ('ok:' if oke else 'shape:') + 'is_even', 'Message::is_even() = (type_id() & 1) == 0 (%s)' % [g.text() for g in gs], len(gs), where=F.where(ie.name)))
	ph = [k for k in F.fns if k.endswith('PeerManager::do_handle_message_without_peer_lock')]
	if len(ph) != 1:
		out.append(Result('13.a', False, 'anchor:peer-handler', 'do_handle_message_without_peer_lock not found'))
	else:
		pf = F.func(ph[0])
		ieb = sites_call(pf, [W + 'Message::is_even'])
		errs = set(err_return_blocks(pf))
		if not ieb:
			out.append(Result('13.a', False, 'guard:unknown-even-disconnect', 'the peer handler no longer tests is_even() for unknown messages', where=F.where(pf.name)))
		else:
			oku = False
			for d in call_decisions(pf, ieb, 'bool'):
				te = pf.reach([e[1] for e in d.true_edges], removed_blocks={d.b})
				fe = pf.reach([e[1] for e in d.false_edges], removed_blocks={d.b})
				# even => every path returns Err ; odd => can return Ok
				oks = set(ok_return_blocks(pf))
				oku = not (te & oks) and bool(te & errs) and bool(fe & oks)
			out.append(Result('13.a', oku, ('ok:' if oku else 'guard:') + 'unknown-even-disconnect', 'an unknown even message type ends in Err (disconnect), an unknown odd one is ignored', len(ieb), where=F.where(pf.name, pf.line_of(ieb[0]))))
	return out

def r13b(F):
	out = []
	tables = tlv.load(F)
	pairs, left = tlv.build_pairs(tables)
	mine = [p for p in pairs if 'ln/msgs.rs' in p.name and p.name not in tlv.ONION_PAIRS]
	if len(mine) < 3:
		out.append(Result('13.b', False, 'floor:msgs-tlv-pairs', 'only %d hand-written TLV codec pairs found in ln/msgs.rs' % len(mine), len(mine)))
	for p in mine:
		out += tlv.check_pair('13.b', p)
	sym = [t for t in tables if t['macro'] == 'impl_writeable_msg' and 'ln/msgs.rs' in t['rel']]
	out.append(Result('13.b', len(sym) >= 30, ('ok:' if len(sym) >= 30 else 'floor:') + 'impl_writeable_msg', '%d messages are encoded and decoded from one impl_writeable_msg! table each (symmetric by construction)' % len(sym), len(sym)))
	out += tlv.check_symmetric('13.b', [t for t in tables if 'ln/msgs.rs' in t['rel']])
	# every wire payload type has both directions
	types = [m.group(1) for k in F.consts for m in [re.match(r'^lightning::ln::wire::<impl lightning::ln::wire::encode::Encode for (.+)>::TYPE$', k)] if m]
	miss = []
	for ty in types:
		w = '<%s as lightning::util::ser::Writeable>::write' % ty
		r1 = '<%s as lightning::util::ser::LengthReadable>::read_from_fixed_length_buffer' % ty
		r2 = '<%s as lightning::util::ser::Readable>::read' % ty
		if not F.has_fn(w) or not (F.has_fn(r1) or F.has_fn(r2)):
			miss.append(ty)
	out.append(Result('13.b', not miss, ('ok:' if not miss else 'codec:') + 'both-directions', 'all %d wire payload types implement Writeable and a reader%s' % (len(types), '' if not miss else '; missing: %s' % miss), len(types)))
	return out

def r13c(F):
	# decoders of wire messages: every ln::msgs reader, plus whatever do_read reaches (depth 4)
	reach = reachable_fns(F, [W + 'do_read'], depth=4)
	def only(n):
		return n in reach or 'lightning::ln::msgs::' in n
	return tlvloop.check_tlv_loops(F, '13.c', only, floor=40, label='TLV read loops of wire-message decoders')

def r13d(F):
	import C12
	out = []
	for r in C12.r12f(F):
		r.rule = '13.d'
		out.append(r)
	# BigSize::read: each non-minimal form is rejected with InvalidValue (not silently accepted)
	br = F.func('<%sBigSize as %sReadable>::read' % (SER, SER))
	gs = [Guard(br, c) for c in comparisons(br)]
	n = 0
	for g in gs:
		if len(g.nf[0]) == 1 and g.nf[1] in ('Lt', 'Le', 'Ge', 'Gt') and g.nf[2] in (0xFD, 0x10000, 0x100000000, 0xFC, 0xFFFF, 0xFFFFFFFF):
			okr = False
			for d in g.decisions:
				# `if x < T { Err } else { Ok }` and `if x >= T { Ok } else { Err }` are the same check: the rejecting side is the one on which x is below T
				rej = d.true_edges if g.nf[1] in ('Lt', 'Le') else d.false_edges
				okr = tlvloop._reaches_construct(br, [e[1] for e in rej], 'DecodeError', 'InvalidValue') and not (br.reach([e[1] for e in rej], removed_blocks={d.b}) & set(ok_return_blocks(br)))
			n += 1
			out.append(Result('13.d', okr, ('ok:' if okr else 'guard:') + 'non-minimal@%d' % g.nf[2], 'BigSize::read: a value below %d in the wider form yields InvalidValue and never Ok' % g.nf[2], 1, where=F.where(br.name, g.line)))
	if n != 3:
		out.append(Result('13.d', False, 'floor:non-minimal', 'BigSize::read: expected three minimality checks, found %d' % n, n, where=F.where(br.name)))
	return out

def r13e(F):
	"""length accounting of variable-size address entries is done in the width of the wire length field"""
	out = []
	fn = MSGS + 'SocketAddress::len'
	fu = F.func(fn)
	n = 0
	bad = []
	for bi, si, s in fu.stmts():
		rv = s[2]
		if rv[0] == 'bin' and rv[1].startswith(('Add', 'Mul')):
			n += 1
			for o in (rv[2], rv[3]):
				if o[0] == 'k' and o[1].get('ty') not in (None, 'u16'):
					bad.append((s[0], o[1].get('ty')))
				elif o[0] in ('c', 'm') and len(o[1]) == 1:
					ty = (fu.locals[o[1][0]].get('ty') or '')
					if ty in ('u8', 'i8'):
						bad.append((s[0], ty))
	ok = n >= 1 and not bad
	out.append(Result('13.e', ok, ('ok:' if ok else 'width:') + 'address-length-in-u16', 'SocketAddress::len adds the 3 header bytes to a hostname length (up to 255) in u16, the width of node_announcement addrlen (%d arithmetic op(s))%s' % (n, '' if not bad else '; narrow operands: %s - a 253..255 byte hostname overflows (panic with overflow checks, wrong addrlen / over-read without)' % bad), n, where=F.where(fn)))
	# the same function drives both directions: writer (addrlen) and reader (accounting of consumed bytes)
	F.calls
	users = {root_fn(r[0]).rsplit('::', 1)[-1] + '@' + ('write' if 'Writeable' in root_fn(r[0]) else 'read' if 'Readable' in root_fn(r[0]) else 'other') for r in F.callers_of.get(F.fn(fn), [])}
	okb = any(u.endswith('@write') for u in users) and any(u.endswith('@read') for u in users)
	out.append(Result('13.e', okb, ('ok:' if okb else 'shape:') + 'len-used-both-ways', 'SocketAddress::len is used by the node_announcement writer and reader (%s)' % sorted(users), len(users), where=F.where(fn)))
	return out

_LEN_CALLS = ('alloc::string::String::len', 'core::str::<impl str>::len', 'alloc::vec::Vec::len', 'core::slice::<impl [T]>::len', 'lightning::ln::msgs::SocketAddress::len')

def r13f(F):
	"""a u16 length prefix written in front of raw bytes is the BYTE length of exactly those bytes"""
	out = []
	n = 0
	for fn in sorted(F.fns):
		if not (fn.startswith('<lightning::ln::msgs::') and fn.endswith('Writeable>::write')):
			continue
		fu = F.func(fn)
		ex = Expr(fu)
		u16s, raws = [], []
		for b, ci in fu.calls():
			f = norm(ci.get('f') or ci.get('t') or '')
			if f.endswith('<u16 as lightning::util::ser::Writeable>::write'):
				u16s.append((b, ex.of_operand(ci['args'][0])))
			elif f.endswith('Writer::write_all'):
				raws.append((b, ex.of_operand(ci['args'][1])))
		short = fn.split(' as ')[0].rsplit('::', 1)[-1]
		for b, e in u16s:
			lv = expr_leaves(e)
			if not lv['calls']:
				continue     # a plain field (e.g. cltv_expiry_delta), not a computed length
			# the first raw write that follows
			nxt = [(rb, re_) for rb, re_ in raws if rb in fu.reach([b]) and rb != b]
			if not nxt:
				continue
			nxt.sort(key=lambda x: fu.line_of(x[0]))
			rb, re_ = nxt[0]
			n += 1
			calls = {c for c in lv['calls'] if not c.endswith(('::from', '::into', '::as_bytes', '::as_slice', '::as_str', '::deref', '::as_ref', '::borrow', '::try_from', '::try_into', '::unwrap', '::expect'))}
			bad_calls = sorted(c for c in calls if c not in _LEN_CALLS and not c.endswith('::len'))
			rf = expr_leaves(re_)['fields']
			common = rf & lv['fields']
			ok = not bad_calls and bool(common)
			out.append(Result('13.f', ok, ('ok:' if ok else 'length:') + 'prefix-is-byte-length@' + short, '%s: the u16 written before the raw bytes of %s is %s%s' % (short, sorted(rf), leaf_key(e)[:70], '' if ok else ' - not the byte length of that buffer (%s): for data whose byte length differs the reader stops early or reads into the next field' % (bad_calls or 'different field')), 1, where=F.where(fn, fu.line_of(b))))
	if n < 3:
		out.append(Result('13.f', False, 'floor:length-prefixed-raw-writes', 'only %d length-prefixed raw writes found in ln::msgs (expected >= 3: error, warning, node_announcement)' % n, n))
	return out

def r13g(F):
	"""node_announcement addresses: the count of consumed bytes advances only by the full size of a decoded address"""
	out = []
	fns = [n for n in F.fns if n.startswith('<lightning::ln::msgs::UnsignedNodeAnnouncement as ') and n.endswith('::read_from_fixed_length_buffer')]
	if len(fns) != 1:
		return [Result('13.g', False, 'anchor:node-announcement-reader', 'the UnsignedNodeAnnouncement reader was not found (%d candidates)' % len(fns))]
	fu = F.func(fns[0])
	ex = Expr(fu)
	# the position counter: the u16 local initialised to 0 and updated later (it is compared with the addrlen read from the stream)
	pos = set()
	for l, defs in fu.defs.items():
		if fu.locals[l].get('ty') == 'u16' and len(defs) >= 2 and any(d[3][0] == 'use' and d[3][1][0] == 'k' and d[3][1][1].get('v') == 0 for d in defs):
			pos.add(l)
	if len(pos) != 1:
		return [Result('13.g', False, 'anchor:position-counter', 'node_announcement reader: expected one u16 position counter initialised to 0, found %d' % len(pos), where=F.where(fu.name))]
	L = list(pos)[0]
	adv, bad = 0, []
	for bi, si, pl, rv in fu.defs[L]:
		if bi not in fu.reach([0]):
			continue
		if rv[0] == 'use' and rv[1][0] == 'k' and rv[1][1].get('v') == 0:
			continue
		e = ex.of_rvalue(rv)
		terms, k = linear(e)
		lens = [v for v in terms if 'len(' in v]
		if len(lens) == 1 and terms[lens[0]] == 1 and k == 1 and len(terms) == 2:
			adv += 1
		else:
			bad.append((fu.line_of(bi), expr_str(e)[:60]))
	ok = adv == 1 and not bad
	out.append(Result('13.g', ok, ('ok:' if ok else 'accounting:') + 'address-position-advances-by-entry-size', 'node_announcement reader: the consumed-byte counter is advanced only by 1 + len(address) of a decoded address (%d such site(s))%s' % (adv, '' if not bad else '; other updates: %s - the split between excess_address_data and excess_data moves, so an announcement with an unknown address type does not re-encode to the signed bytes' % bad), adv + len(bad), where=F.where(fu.name, bad[0][0] if bad else None)))
	return out

def r13h(F):
	"""chunked reads: inside a read loop the size of the next chunk is min(what is still missing, buffer size) - the bounded quantity depends on
	the loop's progress (a counter or a remaining length updated in the loop), so the last chunk never reads past the declared length"""
	out = []
	F.calls
	cands = set()
	for k, v in F.callers_of.items():
		if k.endswith('Read::read_exact'):
			cands |= {r[0] for r in v if r[0].startswith('<lightning::') or r[0].startswith('lightning::') or r[0].startswith('<alloc::')}
	n = 0
	for cn in sorted(cands):
		try:
			fu = F.func(cn)
		except AnchorMissing:
			continue
		rd = [b for b, ci in fu.calls() if norm(ci.get('f') or ci.get('t') or '').endswith('read_exact')]
		mn = [b for b, ci in fu.calls() if norm(ci.get('f') or ci.get('t') or '').endswith(('cmp::min', 'Ord::min'))]
		ex = None
		for b in mn:
			cycle = {x for x in fu.reach([b]) if b in fu.reach([x])}
			if b not in fu.reach(fu.succ(b)) or not any(r in cycle for r in rd):
				continue
			ex = ex or Expr(fu)
			mod = set()
			for x in cycle:
				for st in fu.blocks[x]['s']:
					if st[1] and isinstance(st[1][0], int):
						mod.add(st[1][0])
				t = fu.blocks[x]['t']
				if t[1] == 'call' and t[2].get('dest'):
					mod.add(t[2]['dest'][0])
			args = [ex.of_operand(a) for a in fu.blocks[b]['t'][2]['args']]
			dep = [sorted(l for l in expr_local_ids(a) if l in mod and l > fu.argc) for a in args]
			n += 1
			ok = any(dep)
			short = cn.split(' as ')[0].rsplit('::', 1)[-1].strip('<>')
			out.append(Result('13.h', ok, ('ok:' if ok else 'overread:') + 'chunk-bounded-by-remaining@' + short, '%s: the chunk size min(%s) %s' % (short, ', '.join(leaf_key(a)[:40] for a in args), 'shrinks with the loop\'s progress' if ok else 'does not depend on how much was already read: the last chunk reads past the declared length (ShortRead / bytes of the next field swallowed)'), 1, where=F.where(cn, fu.line_of(b))))
	# the buffer slice handed to read_exact inside such a loop is exactly one chunk long: end - start == the chunk size (min(..)).
	# `buf[idx..chunk]` (instead of `buf[idx..idx + chunk]`) is right for the first chunk only
	m2 = 0
	for cn in sorted(cands):
		try:
			fu = F.func(cn)
		except AnchorMissing:
			continue
		ex = Expr(fu)
		for b, ci in fu.calls():
			if not norm(ci.get('f') or ci.get('t') or '').endswith('read_exact') or len(ci['args']) < 2:
				continue
			if b not in fu.reach(fu.succ(b)):
				continue
			e = ex.of_operand(ci['args'][1])
			while e[0] in ('ref', 'deref'):
				e = e[1]
			if not (e[0] == 'call' and (e[1] or '').endswith('index_mut') and len(e[2]) == 2):
				continue
			rng = e[2][1]
			if rng[0] != 'agg' or rng[2] not in ('Range', 'RangeTo'):
				continue
			start = rng[3][0] if rng[2] == 'Range' else ('const', 0, None, 'usize')
			end = rng[3][1] if rng[2] == 'Range' else rng[3][0]
			ts, ks = linear(start)
			te, ke = linear(end)
			diff = dict(te)
			for v, c in ts.items():
				diff[v] = diff.get(v, 0) - c
				if diff[v] == 0:
					del diff[v]
			m2 += 1
			short = cn.split(' as ')[0].rsplit('::', 1)[-1].strip('<>')
			ok = ke - ks == 0 and len(diff) == 1 and list(diff.values()) == [1] and list(diff)[0].startswith('min(')
			# ... and that chunk size is recomputed from the loop's progress: it mentions a local written inside the loop (a size computed once
			# before the loop is right only for lengths that are a multiple of it)
			cycle = {x for x in fu.reach([b]) if b in fu.reach([x])}
			mod = set()
			for x in cycle:
				for st in fu.blocks[x]['s']:
					if st[1] and isinstance(st[1][0], int):
						mod.add(st[1][0])
				t = fu.blocks[x]['t']
				if t[1] == 'call' and t[2].get('dest'):
					mod.add(t[2]['dest'][0])
			raw_end = ci['args'][1]
			dep = {l for l in expr_local_ids(end) if l in mod and l > fu.argc}
			# the operand itself may be a temporary defined in the loop: look at what it is computed from
			exd = Expr(fu, max_depth=40)
			okp = bool(dep)
			out.append(Result('13.h', okp, ('ok:' if okp else 'overread:') + 'chunk-size-follows-progress@' + short, '%s: the length of the slice handed to read_exact inside the loop (%s) %s' % (short, expr_str(end)[:70], 'is computed from a value the loop updates' if okp else 'is not recomputed inside the loop: the last chunk reads past the declared length unless it is a multiple of the chunk size (ShortRead on a valid message)'), 1, where=F.where(cn, fu.line_of(b))))
			out.append(Result('13.h', ok, ('ok:' if ok else 'slice:') + 'chunk-slice-is-one-chunk@' + short, '%s: read_exact fills buffer[%s .. %s]: its length is %s (expected exactly the chunk size min(..))' % (short, expr_str(start)[:40], expr_str(end)[:60], ' '.join(('%+d*' % c) + v[:50] for v, c in diff.items()) or str(ke - ks)), 1, where=F.where(cn, fu.line_of(b))))
	if m2 < 2:
		out.append(Result('13.h', False, 'floor:chunk-slices', 'only %d ranged read_exact buffers in read loops found (expected >= 2: onion-message packet, OnchainTxHandler)' % m2, m2))
	if n < 3:
		out.append(Result('13.h', False, 'floor:chunked-read-loops', 'only %d chunked read loops found (expected >= 3: Vec<u8>, onion-message packet, OnchainTxHandler)' % n, n))
	return out

def r13i(F):
	"""address descriptors: "unknown descriptor type" (Ok(Err(type byte)), which makes the caller keep the remaining bytes as excess address data)
	is reported only when nothing but the type byte was consumed: no other read of the stream lies on a path to that result"""
	out = []
	ns = [n for n, r in F.fns.items() if n.endswith('::read') and 'msgs::<impl lightning::util::ser::Readable for core::result::Result' in n]
	if len(ns) != 1:
		return [Result('13.i', False, 'anchor:descriptor-reader', 'the Result<SocketAddress, u8> reader was not found (%d candidates)' % len(ns))]
	fu = F.func(ns[0])
	reads = [b for b, ci in fu.calls() if norm(ci.get('f') or ci.get('t') or '').endswith(('::read', 'read_exact', 'read_to_end')) and b in fu.reach([0])]
	first = [b for b in reads if all(fu.dominates(b, o) for o in reads)]
	unknown = set()
	for bi, si, st in fu.stmts():
		rv = st[2]
		if rv[0] == 'agg' and rv[1] == 'adt' and rv[3] == 'Err' and norm(rv[2]).endswith('Result') and rv[4]:
			ty = fu.locals[st[1][0]].get('ty') or ''
			if 'SocketAddress' in ty and 'DecodeError' not in ty.split('SocketAddress')[0]:
				unknown.add(bi)
	if len(first) != 1 or not unknown:
		return [Result('13.i', False, 'anchor:descriptor-reader-shape', 'descriptor reader: type-byte read / unknown-descriptor result not found (%d / %d)' % (len(first), len(unknown)), where=F.where(ns[0]))]
	late = [b for b in reads if b != first[0] and fu.reach([b]) & unknown]
	ok = not late
	out.append(Result('13.i', ok, ('ok:' if ok else 'half-consumed:') + 'unknown-descriptor-consumes-type-byte-only', 'Result<SocketAddress, u8>::read reports an unknown descriptor only straight after the type byte (%d other stream reads, %d of them can reach that result)%s' % (len(reads) - 1, len(late), '' if ok else ' - at line(s) %s bytes are consumed and then reported as "unknown type": the announcement is accepted with the address bytes lost and excess data shifted, so it no longer re-encodes to the signed bytes' % sorted({fu.line_of(b) for b in late})), len(reads), where=F.where(ns[0])))
	return out

RULES = [
	('13.a', 'wire::Message tables (write / type_id / do_read) agree; type ids distinct; unknown even disconnects, unknown odd ignored', r13a),
	('13.b', 'hand-written message TLV tables: every written type is read; macro codecs symmetric with increasing types', r13b),
	('13.c', 'every TLV read loop of a wire decoder: increasing types, unknown-even rejected, records framed and drained', r13c),
	('13.e', 'address length accounting uses the wire length width (u16) in both directions', r13e),
	('13.f', 'u16 length prefixes before raw bytes are the byte length of those bytes (error / warning / node_announcement)', r13f),
	('13.g', 'node_announcement address accounting: the consumed-byte counter advances only by a decoded address', r13g),
	('13.h', 'chunked read loops: the chunk size is bounded by what remains (depends on loop progress)', r13h),
	('13.i', 'address descriptors: unknown-type is reported only when nothing but the type byte was consumed', r13i),
	('13.d', 'BigSize / CollectionLength: writer widths equal reader minimality thresholds; non-minimal forms rejected', r13d),
	('13.w', 'no length / count is added to or multiplied in an 8/16-bit type and widened afterwards (wrap-around at the top of the range; rules/provenance.py)', lambda F: provenance.narrow_for_property(F, 'C13', '13.w')),
	('13.v', 'field-versus-field comparisons (a received value against a limit, an id against an id) are the reviewed ones: same fields, same operator (rules/provenance.py)', lambda F: provenance.cmps_for_property(F, 'C13', '13.v')),
	('13.z', 'named protocol / policy constants in this property\'s files have their reviewed values (rules/provenance.py)', lambda F: provenance.consts_for_property(F, 'C13', '13.z')),
	('13.x', 'range indexing of fixed-size buffers stays in bounds wherever the end is statically bounded (a wire length byte can be 255; rules/provenance.py)', lambda F: provenance.arrays_for_property(F, 'C13', '13.x')),
	('13.o', 'hand-written eq / cmp / partial_cmp / hash impls in this property\'s files: same field on both sides, reviewed direction, no reviewed key lost, hash within eq (rules/ordimpls.py)', lambda F: ordimpls.for_property(F, 'C13', '13.o')),
]
RULES.append(('13.P', 'panic sites: no reviewed function that parses / handles untrusted input gained an unwrap / expect / explicit panic / bounds-checked index / length-checked copy / division (rules/provenance.py; panic freedom itself is not decided)', lambda F: provenance.panics_for_property(F, 'C13', '13.P')))
RULES.append(('13.G', 'guard census: no reviewed call of a workspace function and no reviewed mutation of a stored collection gained a controlling branch condition (an added `&& cond`, early return / continue, more specific match arm in front of an act); counts per call site, name free (rules/guards.py)', lambda F: guards.for_property(F, 'C13', '13.G')))
RULES.append(('13.I', 'parse-position independence: in every function reading from a reader, no stream read is skipped under a condition computed from local state (self, another argument) while parsing goes on - the bytes a message decoder consumes depend on the message alone (rules/parsepos.py)', lambda F: parsepos.rule(F, '13.I', lambda n, r: re.search(r'ln/msgs\\.rs$|ln/wire\\.rs$|onion_message/|util/ser\\.rs$|ln/onion_utils\\.rs$|blinded_path/', r['file']) is not None and 'ser_macros' not in r['file'], 7, 30)))
RULES.append(('13.N', 'arithmetic census: per reviewed function the set of operation kinds (group: add/sub, mul, div, rem, shift, bit, min, max, div_ceil ...; flavour: plain / checked / saturating / wrapping) keeps its kinds: no reviewed function lost or gained a kind of arithmetic altogether - a rounding direction (`/` for div_ceil), saturating for checked, min for max (rules/arith.py; counts and value arithmetic itself are not judged)', lambda F: arith.for_property(F, 'C13', '13.N')))
RULES.append(('13.K', 'constant census of linear forms: every comparison (normalised to sum >= K over name-free atoms, a comparison and its negation being one form) and every maximal arithmetic expression of a reviewed function keeps its coefficients and its constant - a dropped or added `+ 1` / `- 1`, `<` for `<=` inside a computed bound, a scale factor applied twice or not at all, swapped operands of a comparison (rules/linforms.py; shapes that appear or disappear are not judged, the guard / arithmetic censuses judge those)', lambda F: linforms.for_property(F, 'C13', '13.K')))
